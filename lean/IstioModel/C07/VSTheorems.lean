import IstioModel.C07.ScopeLemmas

/-!
C07 - VirtualService selection: `SelectVirtualServices` / `VirtualServicesForGateway` only return
VirtualServices that are exported to the proxy's namespace and (for a Sidecar egress listener)
imported by the listener's host list - both stated as specifications that do not mention the
functions under proof.
-/
namespace IstioModel.C07

/-! ### VirtualServices -/

/-- declared exportTo of a VirtualService, or the mesh default when unset -/
def declaredVSExport (m : Mesh) (v : VS) : List String :=
  if v.exportTo = [] then (match m.defVS with | none => ["*"] | some l => l) else v.exportTo

/-- **spec**: the VirtualService is exported to namespace `ns` -/
def VSVisible (m : Mesh) (v : VS) (ns : String) : Prop := ExportsTo (declaredVSExport m v) v.ns ns

theorem mem_vsExport {m : Mesh} {v : VS} {x : String} (h : x ∈ vsExport m v) :
    ∃ y ∈ declaredVSExport m v, (if y = "." then v.ns else y) = x := by
  simp only [vsExport, declaredVSExport] at *
  cases hE : v.exportTo with
  | nil =>
    simp only [hE, List.isEmpty_nil, if_true] at h ⊢
    cases hd : m.defVS with
    | none =>
      simp only [hd, defaultExport] at h ⊢
      simp at h; subst h; exact ⟨"*", by simp, by simp⟩
    | some l =>
      simp only [hd, defaultExport] at h ⊢
      split at h
      · rename_i hemp
        -- converted default is empty, so the default is empty
        simp at hemp; subst hemp; simp at h
      · simp only [List.mem_map, beq_iff_eq] at h
        obtain ⟨y, hy, hxy⟩ := h; exact ⟨y, hy, hxy⟩
  | cons a t =>
    simp only [hE] at h ⊢
    simp only [List.isEmpty_cons, Bool.false_eq_true, if_false, List.map_cons, List.isEmpty_cons] at h
    simp only [reduceCtorEq, if_false]
    simp only [List.mem_cons, List.mem_map, beq_iff_eq] at h ⊢
    rcases h with h | ⟨y, hy, hxy⟩
    · exact ⟨a, Or.inl rfl, h.symm⟩
    · exact ⟨y, Or.inr hy, hxy⟩

theorem vsVisible_of_index {m : Mesh} {v : VS} {ns : String} (hvn : v.ns ≠ "*")
    (h : "*" ∈ vsExport m v ∨ ns ∈ vsExport m v) : VSVisible m v ns := by
  unfold VSVisible ExportsTo
  rcases h with h | h
  · obtain ⟨y, hy, hc⟩ := mem_vsExport h
    by_cases hd : y = "."
    · simp [hd] at hc; exact absurd hc hvn
    · simp [hd] at hc; subst hc; exact Or.inl hy
  · obtain ⟨y, hy, hc⟩ := mem_vsExport h
    by_cases hd : y = "."
    · simp [hd] at hc; subst hd; exact Or.inr (Or.inl ⟨hy, hc⟩)
    · simp [hd] at hc; subst hc; exact Or.inr (Or.inr hy)

/-- the documented host match between a VirtualService host and an egress host: coverage for
    gateway-semantics routes, overlap (either direction) otherwise -/
def VSHostMatch (gw : Bool) (h imp : String) : Bool := if gw then subsetOf h imp else hostMatches h imp

/-- **spec**: the egress host list `ps` imports the VirtualService: one of its hosts matches a
    non-excluded entry of the VirtualService's namespace or of `*`, and that host is not covered by a
    `~` entry of those namespaces. -/
def VSImports (ps : List PHost) (v : VS) : Prop :=
  ∃ h ∈ v.hosts,
    (∃ p ∈ ps, p.excluded = false ∧ (p.ns = v.ns ∨ p.ns = "*") ∧ VSHostMatch v.gwSem h p.name = true) ∧
    ¬ (∃ p ∈ ps, p.excluded = true ∧ (p.ns = v.ns ∨ p.ns = "*") ∧ subsetOf h p.name = true)

theorem hostMatches_eq_of_concrete {h imp : String} (h1 : isWild h = false) (h2 : isWild imp = false) :
    hostMatches h imp = true ↔ h = imp := by
  unfold hostMatches matchesL
  unfold isWild at h1 h2
  simp [h1, h2, String.toList_inj]

/-- `hostClassification.VSMatches` = some imported host matches per `VSHostMatch` -/
theorem vsMatches_iff (hc : HostClass) (h : String) (gw : Bool) :
    hc.vsMatches h gw = true ↔ ∃ imp ∈ hc.all, VSHostMatch gw h imp = true := by
  unfold HostClass.vsMatches HostClass.exact VSHostMatch
  simp only [Bool.or_eq_true, List.contains_iff_mem, List.mem_filter, List.any_eq_true,
    Bool.and_eq_true, Bool.not_eq_true']
  constructor
  · rintro (⟨hm, _⟩ | ⟨imp, hi, _, hs⟩)
    · refine ⟨h, hm, ?_⟩
      cases gw
      · simp only [Bool.false_eq_true, if_false]
        exact (matches_iff_subset_or_superset_str h h).mpr (Or.inl (subsetOf_refl_str h))
      · simp only [if_true]; exact subsetOf_refl_str h
    · exact ⟨imp, hi, hs⟩
  · rintro ⟨imp, hi, hs⟩
    by_cases hb : (!isWild h && !isWild imp) = true
    · simp only [Bool.and_eq_true, Bool.not_eq_true'] at hb
      have : h = imp := by
        cases gw
        · simp only [Bool.false_eq_true, if_false] at hs
          exact (hostMatches_eq_of_concrete hb.1 hb.2).mp hs
        · simp only [if_true] at hs
          exact (subsetOf_eq_of_concrete hb.1 hb.2).mp hs
      subst this
      exact Or.inl ⟨hi, by simpa using hb.1⟩
    · exact Or.inr ⟨imp, hi, by simpa using hb, hs⟩

theorem mem_addVS {ps : List PHost} {acc : List VS} {c x : VS} {k : String} {hc : HostClass}
    (hk : k = c.ns ∨ k = "*") (hh : hcFor ps k = some hc) (h : x ∈ addVS ps acc c hc) :
    x ∈ acc ∨ (x = c ∧ VSImports ps c) := by
  simp only [addVS] at h
  split at h
  · exact Or.inl h
  · split at h
    · rename_i hany
      rcases List.mem_append.mp h with h | h
      · exact Or.inl h
      · simp at h
        refine Or.inr ⟨h, ?_⟩
        obtain ⟨host, hhost, hcond⟩ := List.any_eq_true.mp hany
        simp only [Bool.and_eq_true, Bool.not_eq_true', Bool.or_eq_false_iff] at hcond
        obtain ⟨hm, hex1, hex2⟩ := hcond
        obtain ⟨imp, hi, hs⟩ := (vsMatches_iff hc host c.gwSem).mp hm
        obtain ⟨p, hp, hpk, hpx, hpn⟩ := (hcFor_all hh imp).mp hi
        refine ⟨host, hhost, ⟨p, hp, hpx, ?_, by rw [hpn]; exact hs⟩, ?_⟩
        · rcases hk with hk | hk
          · exact Or.inl (hpk.trans hk)
          · exact Or.inr (hpk.trans hk)
        · rintro ⟨q, hq, hqx, hqk | hqk, hqs⟩
          · have := (exclBy_iff ps c.ns host).mpr ⟨q, hq, hqx, hqk, hqs⟩
            rw [hex1] at this; cases this
          · have := (exclBy_iff ps "*" host).mpr ⟨q, hq, hqx, hqk, hqs⟩
            rw [hex2] at this; cases this
    · exact Or.inl h

theorem mem_visitVS {ps : List PHost} {acc : List VS} {c x : VS} (h : x ∈ visitVS ps acc c) :
    x ∈ acc ∨ (x = c ∧ VSImports ps c) := by
  simp only [visitVS] at h
  have step1 : ∀ y, y ∈ (match hcFor ps c.ns with | some hc => addVS ps acc c hc | none => acc) →
      y ∈ acc ∨ (y = c ∧ VSImports ps c) := by
    intro y hy
    cases hh : hcFor ps c.ns with
    | none => simp only [hh] at hy; exact Or.inl hy
    | some hc => simp only [hh] at hy; exact mem_addVS (Or.inl rfl) hh hy
  cases hw : hcFor ps "*" with
  | none => simp only [hw] at h; exact step1 x h
  | some hc =>
    simp only [hw] at h
    rcases mem_addVS (Or.inr rfl) hw h with h | h
    · exact step1 x h
    · exact Or.inr h

theorem mem_foldl_visitVS {ps : List PHost} {l acc : List VS} {x : VS} (h : x ∈ l.foldl (visitVS ps) acc) :
    x ∈ acc ∨ (x ∈ l ∧ VSImports ps x) := by
  induction l generalizing acc with
  | nil => exact Or.inl h
  | cons a t ih =>
    rw [List.foldl_cons] at h
    rcases ih h with h | h
    · rcases mem_visitVS h with h | ⟨h, hi⟩
      · exact Or.inl h
      · exact Or.inr ⟨h ▸ List.mem_cons_self, h ▸ hi⟩
    · exact Or.inr ⟨List.mem_cons_of_mem _ h.1, h.2⟩

theorem mem_loopAndAdd {unified : Bool} {cfgNs : String} {ps : List PHost} {acc vses : List VS} {x : VS}
    (h : x ∈ loopAndAdd unified cfgNs ps acc vses) : x ∈ acc ∨ (x ∈ vses ∧ VSImports ps x) := by
  simp only [loopAndAdd] at h
  split at h
  · rcases mem_foldl_visitVS h with h | ⟨h, hi⟩
    · exact Or.inl h
    · rcases List.mem_append.mp h with h | h <;> exact Or.inr ⟨(List.mem_filter.mp h).1, hi⟩
  · exact mem_foldl_visitVS h

/-- **vs_select_sound**: every VirtualService an egress listener selects is a mesh-gateway
    VirtualService of the store that is exported to the proxy's namespace (`VSVisible`) and that the
    listener's host list imports (`VSImports`). -/
theorem vs_select_sound (unified : Bool) (m : Mesh) (vss : List VS) (cfgNs : String) (ps : List PHost)
    (hvn : ∀ v ∈ vss, v.ns ≠ "*") :
    ∀ v ∈ selectVirtualServices unified m vss cfgNs ps,
      v ∈ vss ∧ vsOnMesh v = true ∧ VSVisible m v cfgNs ∧ VSImports ps v := by
  intro v hv
  simp only [selectVirtualServices] at hv
  have fromIndex : (v ∈ vsPrivate m vss cfgNs ∨ v ∈ vsExported m vss cfgNs ∨ v ∈ vsPublic m vss) ∧ VSImports ps v := by
    rcases mem_loopAndAdd hv with h | ⟨h, hi⟩
    · rcases mem_loopAndAdd h with h | ⟨h, hi⟩
      · rcases mem_loopAndAdd h with h | ⟨h, hi⟩
        · simp at h
        · exact ⟨Or.inl h, hi⟩
      · exact ⟨Or.inr (Or.inl h), hi⟩
    · exact ⟨Or.inr (Or.inr h), hi⟩
  obtain ⟨hidx, himp⟩ := fromIndex
  rcases hidx with h | h | h
  · simp only [vsPrivate, List.mem_filter, Bool.and_eq_true, List.contains_iff_mem] at h
    exact ⟨h.1, h.2.1.1.1.1, vsVisible_of_index (hvn v h.1) (Or.inr h.2.2), himp⟩
  · simp only [vsExported, List.mem_filter, Bool.and_eq_true, List.contains_iff_mem] at h
    exact ⟨h.1, h.2.1.1.1.1, vsVisible_of_index (hvn v h.1) (Or.inr h.2.2), himp⟩
  · simp only [vsPublic, List.mem_filter, Bool.and_eq_true, List.contains_iff_mem] at h
    exact ⟨h.1, h.2.1, vsVisible_of_index (hvn v h.1) (Or.inl h.2.2), himp⟩

/-- **vs_export_sound** (the export half, under the name DESIGN.md uses) -/
theorem vs_export_sound (unified : Bool) (m : Mesh) (vss : List VS) (cfgNs : String) (ps : List PHost)
    (hvn : ∀ v ∈ vss, v.ns ≠ "*") :
    ∀ v ∈ selectVirtualServices unified m vss cfgNs ps, v ∈ vss ∧ vsOnMesh v = true ∧ VSVisible m v cfgNs := by
  intro v hv
  obtain ⟨h1, h2, h3, _⟩ := vs_select_sound unified m vss cfgNs ps hvn v hv
  exact ⟨h1, h2, h3⟩

/-- what "the VirtualService routes to hostname `h` for a proxy of namespace `cfgNs`" means:
    a destination of an http route whose `sourceNamespace` matches admit `cfgNs`, or of a tcp/tls route -/
theorem mem_vsDestinations_iff (v : VS) (cfgNs h : String) :
    (∃ d ∈ vsDestinations v cfgNs, d.1 = h) ↔
      ((∃ r ∈ v.http, (cfgNs == "" || nsMatchedGo cfgNs true r.srcNs) = true ∧ ∃ x ∈ r.dests, x.host = h) ∨
       ∃ x ∈ v.tcp, x.host = h) := by
  simp only [vsDestinations, List.mem_map, mem_isort, List.mem_eraseDups, List.mem_append, List.mem_flatMap,
    List.mem_filter]
  constructor
  · rintro ⟨d, ⟨h', ⟨x, hx, hxh⟩, hd⟩, hdh⟩
    subst hd; simp only at hdh; subst hdh
    rcases hx with ⟨r, ⟨hr, hc⟩, hxr⟩ | hx
    · exact Or.inl ⟨r, hr, hc, x, hxr, hxh⟩
    · exact Or.inr ⟨x, hx, hxh⟩
  · rintro (⟨r, hr, hc, x, hxr, hxh⟩ | ⟨x, hx, hxh⟩)
    · exact ⟨_, ⟨h, ⟨x, Or.inl ⟨r, ⟨hr, hc⟩, hxr⟩, hxh⟩, rfl⟩, rfl⟩
    · exact ⟨_, ⟨h, ⟨x, Or.inr hx, hxh⟩, rfl⟩, rfl⟩

/-- **gateway_vs_export_sound**: `VirtualServicesForGateway(ns, gw)` - the VirtualService selection of
    a gateway proxy of namespace `ns` for any gateway name `gw` (`mesh` for the default scope's listener,
    `<ns>/<name>` for the servers of a Router) - only returns VirtualServices of the store that are bound
    to `gw` and exported to `ns`. -/
theorem gateway_vs_export_sound (m : Mesh) (vss : List VS) (cfgNs gw : String) (hvn : ∀ v ∈ vss, v.ns ≠ "*") :
    ∀ v ∈ gatewayVirtualServices m vss cfgNs gw, v ∈ vss ∧ vsOnGw v gw = true ∧ VSVisible m v cfgNs := by
  intro v hv
  simp only [gatewayVirtualServices, List.mem_append, List.mem_filter] at hv
  have pub : v ∈ vsPublicGw m vss gw → v ∈ vss ∧ vsOnGw v gw = true ∧ VSVisible m v cfgNs := by
    intro h
    simp only [vsPublicGw, List.mem_filter, Bool.and_eq_true, List.contains_iff_mem] at h
    exact ⟨h.1, h.2.1, vsVisible_of_index (hvn v h.1) (Or.inl h.2.2)⟩
  rcases hv with ((h | h) | h) | h
  · simp only [vsPrivateGw, List.mem_filter, Bool.and_eq_true, List.contains_iff_mem] at h
    exact ⟨h.1, h.2.1.1.1.1, vsVisible_of_index (hvn v h.1) (Or.inr h.2.2)⟩
  · simp only [vsExportedGw, List.mem_filter, Bool.and_eq_true, List.contains_iff_mem] at h
    exact ⟨h.1, h.2.1.1.1.1, vsVisible_of_index (hvn v h.1) (Or.inr h.2.2)⟩
  · exact pub h.1
  · exact pub h.1

/-! ### delegates -/

/-- **spec**: the delegate VirtualService `d` is exported to the namespace of the root that refers to it -/
def DelegateVisible (m : Mesh) (d : VS) (rootNs : String) : Prop := "*" ∈ vsExport m d ∨ rootNs ∈ vsExport m d

/-- **delegate_export_sound**: every http route of a merged root VirtualService is one of its own
    (non-delegating) routes, or (the destinations of) a route of a delegate VirtualService (no hosts) of the store that is
    exported to the root's namespace (with its short names resolved in the delegate's namespace); a
    delegate that is not exported to the root contributes nothing. -/
theorem delegate_export_sound (m : Mesh) (all : List VS) (root : VS) :
    ∀ r ∈ mergedHttp m all root,
      (r ∈ root.http ∧ r.delegate = none) ∨
      ∃ d ∈ all, d.hosts = [] ∧ DelegateVisible m d root.ns ∧
        ∃ r0 ∈ (resolveVSNames d).http, r.dests = r0.dests ∧ r.delegate = r0.delegate := by
  intro r hr
  simp only [mergedHttp, List.mem_flatMap] at hr
  obtain ⟨r0, hr0, hin⟩ := hr
  cases hd : r0.delegate with
  | none => simp only [hd, List.mem_singleton] at hin; subst hin; exact Or.inl ⟨hr0, hd⟩
  | some ref =>
    simp only [hd] at hin
    cases hf : findDelegate all root ref with
    | none => simp [hf] at hin
    | some d =>
      simp only [hf] at hin
      split at hin
      · rename_i hv
        unfold findDelegate at hf
        have hm := List.mem_of_find?_eq_some hf
        have hp := List.find?_some hf
        simp only [Bool.and_eq_true, List.isEmpty_iff] at hp
        simp only [mergeDelegateRoutes, List.mem_filterMap] at hin
        obtain ⟨r1, hr1, hmr⟩ := hin
        refine Or.inr ⟨d, hm, hp.1.1, ?_, r1, hr1, ?_⟩
        · unfold delegateVisible at hv
          simpa [DelegateVisible, Bool.or_eq_true, List.contains_iff_mem] using hv
        · cases hq : mergeSrcNs r0.srcNs r1.srcNs with
          | none => simp [hq] at hmr
          | some srcs => simp only [hq, Option.some.injEq] at hmr; subst hmr; exact ⟨rfl, rfl⟩
      · simp at hin


/-! ### Delegation: the merged match (`mergeHTTPMatchRequests` / `hasConflict` on `sourceNamespace`) -/

/-- a list of source-namespace matches lets a proxy of namespace `ns` use the route (no match = any) -/
def Admits (srcs : List String) (ns : String) : Prop := srcs = [] ∨ "" ∈ srcs ∨ ns ∈ srcs

/-- A delegate route merged under a delegating root route applies to a source namespace only if both
    the root route's match and the delegate route's match admit that namespace: delegation cannot widen
    the set of proxies a route (and so its destinations) reaches. -/
theorem mergeSrcNs_sound (root dlg out : List String) (ns : String)
    (h : mergeSrcNs root dlg = some out) (ha : Admits out ns) : Admits root ns ∧ Admits dlg ns := by
  unfold mergeSrcNs at h
  by_cases hr : root.isEmpty = true
  · simp only [hr, if_true, Option.some.injEq] at h
    subst h
    exact ⟨Or.inl (List.isEmpty_iff.mp hr), ha⟩
  · simp only [hr, Bool.false_eq_true, if_false] at h
    by_cases hd : dlg.isEmpty = true
    · simp only [hd, if_true, Option.some.injEq] at h
      subst h
      exact ⟨ha, Or.inl (List.isEmpty_iff.mp hd)⟩
    · simp only [hd, Bool.false_eq_true, if_false] at h
      split at h
      · cases h
      · split at h
        · cases h
        · rename_i _ hne
          simp only [Option.some.injEq] at h
          subst h
          have key : ∀ x, x ∈ (dlg.map fun d => (root.filter fun r => r == "" || d == r).map fun _ => d).flatMap id →
              x ∈ dlg ∧ ∃ r ∈ root, r = "" ∨ x = r := by
            intro x hx
            simp only [List.mem_flatMap, List.mem_map, id] at hx
            obtain ⟨l, ⟨d, hdm, rfl⟩, hx⟩ := hx
            simp only [List.mem_map, List.mem_filter, Bool.or_eq_true, beq_iff_eq] at hx
            obtain ⟨r, ⟨hrm, hc⟩, rfl⟩ := hx
            exact ⟨hdm, r, hrm, hc⟩
          rcases ha with he | he | he
          · exact absurd (by simp [he]) hne
          · obtain ⟨hd', r, hrm, hc⟩ := key _ he
            refine ⟨Or.inr (Or.inl ?_), Or.inr (Or.inl hd')⟩
            rcases hc with rfl | rfl <;> exact hrm
          · obtain ⟨hd', r, hrm, hc⟩ := key _ he
            refine ⟨?_, Or.inr (Or.inr hd')⟩
            rcases hc with rfl | rfl
            · exact Or.inr (Or.inl hrm)
            · exact Or.inr (Or.inr hrm)

example : mergeSrcNs ["ns1"] ["ns2"] = none := by decide
example : mergeSrcNs ["ns1", ""] ["ns2"] = some ["ns2"] := by decide
example : mergeSrcNs ["ns1"] ["ns1", "ns2"] = none := by decide
example : mergeSrcNs [] ["ns2"] = some ["ns2"] := by decide
example : mergeSrcNs ["ns1"] [] = some ["ns1"] := by decide


/-- the delegate spec in documented terms: `DelegateVisible` (phrased on the effective export set) is the
    documented exportTo reading of the delegate's own declaration / the mesh default, `.` meaning the
    delegate's namespace -/
theorem delegateVisible_declared (m : Mesh) (d : VS) (rootNs : String) (hstar : d.ns ≠ "*") :
    DelegateVisible m d rootNs →
      ∃ y ∈ declaredVSExport m d, y = "*" ∨ y = rootNs ∨ (y = "." ∧ d.ns = rootNs) := by
  intro h
  rcases h with h | h
  · obtain ⟨y, hy, he⟩ := mem_vsExport h
    refine ⟨y, hy, ?_⟩
    by_cases hd : y = "."
    · simp only [hd, if_true] at he
      exact absurd he hstar
    · simp only [hd, if_false] at he
      exact Or.inl he
  · obtain ⟨y, hy, he⟩ := mem_vsExport h
    refine ⟨y, hy, ?_⟩
    by_cases hd : y = "."
    · simp only [hd, if_true] at he
      exact Or.inr (Or.inr ⟨hd, he⟩)
    · simp only [hd, if_false] at he
      exact Or.inr (Or.inl he)

end IstioModel.C07
