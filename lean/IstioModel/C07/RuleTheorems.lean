import IstioModel.C07.ScopeTheorems
import IstioModel.C07.DR

/-!
C07 - "a rule not exported to the proxy's namespace never shapes its configuration":
export soundness of the VirtualService selection (`SelectVirtualServices`,
`VirtualServicesForGateway`) and of the DestinationRule selection (`destinationRule` over the
indexes of `setDestinationRules`, with `mergeDestinationRule` consolidation).
-/
namespace IstioModel.C07

/-! ### DestinationRules -/

/-- declared exportTo of a DestinationRule, or the mesh default `defaultDestinationRuleExportTo` when
    unset (an empty default list is what an unset field looks like on the wire: `*`) -/
def declaredDRExport (m : Mesh) (d : DR) : List String :=
  if d.exportTo = [] then (match m.defDR with | none => ["*"] | some [] => ["*"] | some l => l) else d.exportTo

/-- **spec (documentation)**: the DestinationRule is exported to namespace `ns`: a rule with a
    workloadSelector is namespace-local; otherwise `*` / `.` (own namespace) / an explicit namespace in
    the declared exportTo, or in the mesh default when the rule declares none. -/
def DRVisible (m : Mesh) (d : DR) (ns : String) : Prop :=
  if d.selector = true then d.ns = ns else ExportsTo (declaredDRExport m d) d.ns ns

def drKey (d : DR) : String × String := (d.ns, d.name)

/-- the rule may be filed in the index of its own namespace -/
def LocalCond (m : Mesh) (d : DR) : Prop :=
  drExportSet true m d = [] ∨ "*" ∈ drExportSet true m d ∨ "." ∈ drExportSet true m d ∨ d.ns ∈ drExportSet true m d

def isPrivateOnlyB (m : Mesh) (d : DR) : Bool :=
  if (drExportSet true m d).isEmpty && (defaultExport m.defDR).contains "." then true
  else if drStep.isSingletonSet (drExportSet true m d) && ((drExportSet true m d).contains "." || (drExportSet true m d).contains d.ns) then true
  else false

/-- relation between the export set of a merged rule and that of the consolidated rule it joined
    (`EnableEnhancedDestinationRuleMerge`) -/
def Rel (ex ce : List String) : Prop := setEq ex ce = true ∨ (ce ≠ [] ∧ setSuperset ex ce = true)

def JLocal (m : Mesh) (drs : List DR) (N : String) (c : CDR) : Prop :=
  ∀ f ∈ c.frm, ∃ d ∈ drs, f = drKey d ∧ d.ns = N ∧ LocalCond m d
def JRoot (m : Mesh) (drs : List DR) (c : CDR) : Prop :=
  ∀ f ∈ c.frm, ∃ d ∈ drs, f = drKey d ∧ d.ns = m.rootNs ∧ isPrivateOnlyB m d = true
def JExp (m : Mesh) (drs : List DR) (N : String) (c : CDR) : Prop :=
  ∀ f ∈ c.frm, ∃ d ∈ drs, f = drKey d ∧ d.ns = N ∧ isPrivateOnlyB m d = false ∧ Rel (drExportSet true m d) c.exportTo

theorem mem_ainsert {α : Type} {k : String} {v : α} {l : List (String × α)} {e : String × α}
    (h : e ∈ ainsert k v l) : e = (k, v) ∨ e ∈ l := by
  induction l with
  | nil => simp [ainsert] at h; exact Or.inl h
  | cons a t ih =>
    obtain ⟨k', v'⟩ := a
    unfold ainsert at h
    split at h
    · rcases List.mem_cons.mp h with h | h
      · exact Or.inl h
      · exact Or.inr (List.mem_cons_of_mem _ h)
    · rcases List.mem_cons.mp h with h | h
      · exact Or.inr (h ▸ List.mem_cons_self)
      · rcases ih h with h | h
        · exact Or.inl h
        · exact Or.inr (List.mem_cons_of_mem _ h)

/-- invariant of the consolidation loop for any predicate preserved by "append `d` to `from`" under
    the merge condition -/
theorem mergeLoop_inv (J : CDR → Prop) (enh : Bool) (d : DR) (ex : List String)
    (hext : ∀ c, J c → (enh = true → Rel ex c.exportTo) → J (mergeInto c d))
    (l : List CDR) (app : Bool) (done : List CDR) (hl : ∀ c ∈ l, J c) (hd : ∀ c ∈ done, J c) :
    ∀ c ∈ (mergeLoop enh d ex l app done).2, J c := by
  induction l generalizing app done with
  | nil => simpa [mergeLoop] using hd
  | cons mdr rest ih =>
    have hrest : ∀ c ∈ rest, J c := fun c hc => hl c (List.mem_cons_of_mem _ hc)
    have hmdr : J mdr := hl mdr List.mem_cons_self
    have hdone' : ∀ x, J x → ∀ c ∈ done ++ [x], J c := by
      intro x hx c hc
      rcases List.mem_append.mp hc with h | h
      · exact hd c h
      · simp at h; subst h; exact hx
    unfold mergeLoop
    cases enh with
    | false =>
      simp only [Bool.false_eq_true, if_false]
      split
      · exact ih _ _ hrest (hdone' _ hmdr)
      · exact ih _ _ hrest (hdone' _ (hext mdr hmdr (by simp)))
    | true =>
      simp only [if_true]
      by_cases h1 : setEq ex mdr.exportTo = true
      · simp only [h1, if_true, Bool.false_eq_true, if_false]
        split
        · exact ih _ _ hrest (hdone' _ hmdr)
        · exact ih _ _ hrest (hdone' _ (hext mdr hmdr (fun _ => Or.inl h1)))
      · simp only [h1, if_false, Bool.false_eq_true]
        by_cases h2 : (!mdr.exportTo.isEmpty && setSuperset ex mdr.exportTo) = true
        · simp only [h2, if_true, Bool.false_eq_true, if_false]
          have hrel : mdr.exportTo ≠ [] ∧ setSuperset ex mdr.exportTo = true := by
            simp only [Bool.and_eq_true, Bool.not_eq_true', List.isEmpty_eq_false_iff] at h2
            exact h2
          split
          · exact ih _ _ hrest (hdone' _ hmdr)
          · exact ih _ _ hrest (hdone' _ (hext mdr hmdr (fun _ => Or.inr hrel)))
        · simp only [h2, if_false, Bool.false_eq_true, if_true]
          exact ih _ _ hrest (hdone' _ hmdr)

theorem mergeDR_inv (J : CDR → Prop) (enh : Bool) (p : Pool) (d : DR) (ex : List String)
    (hext : ∀ c, J c → (enh = true → Rel ex c.exportTo) → J (mergeInto c d))
    (hnew : J (newCDR d ex)) (hp : ∀ e ∈ p, ∀ c ∈ e.2, J c) :
    ∀ e ∈ mergeDR enh p d ex, ∀ c ∈ e.2, J c := by
  intro e he c hc
  unfold mergeDR at he
  cases hl : alookup d.host p with
  | none =>
    simp only [hl] at he
    rcases mem_ainsert he with h | h
    · subst h; simp at hc; subst hc; exact hnew
    · exact hp e h c hc
  | some l =>
    simp only [hl] at he
    have hlJ : ∀ c ∈ l, J c := hp (d.host, l) (alookup_mem hl)
    have hloop := mergeLoop_inv J enh d ex hext l true [] hlJ (by simp)
    rcases mem_ainsert he with h | h
    · subst h
      simp only at hc
      split at hc
      · rcases List.mem_append.mp hc with h | h
        · exact hloop c h
        · simp at h; subst h; exact hnew
      · exact hloop c hc
    · exact hp e h c hc

/-- the three index invariants -/
structure IdxInv (m : Mesh) (drs : List DR) (idx : DRIndex) : Prop where
  loc : ∀ np ∈ idx.namespaceLocal, ∀ e ∈ np.2, ∀ c ∈ e.2, JLocal m drs np.1 c
  exp : ∀ np ∈ idx.exportedByNamespace, ∀ e ∈ np.2, ∀ c ∈ e.2, JExp m drs np.1 c
  root : ∀ e ∈ idx.rootNamespaceLocal, ∀ c ∈ e.2, JRoot m drs c

theorem poolOf_inv {J : String → CDR → Prop} {l : List (String × Pool)} {k : String}
    (h : ∀ np ∈ l, ∀ e ∈ np.2, ∀ c ∈ e.2, J np.1 c) : ∀ e ∈ poolOf k l, ∀ c ∈ e.2, J k c := by
  unfold poolOf
  cases hl : alookup k l with
  | none => simp
  | some p => exact h (k, p) (alookup_mem hl)

theorem setEq_refl (a : List String) : setEq a a = true := by
  unfold setEq; simp [List.all_eq_true]

theorem extend_frm {P : DR → Prop} {drs : List DR} {d : DR} (hd : d ∈ drs) (hP : P d) {c : CDR}
    (h : ∀ f ∈ c.frm, ∃ d' ∈ drs, f = drKey d' ∧ P d') :
    ∀ f ∈ c.frm ++ [(d.ns, d.name)], ∃ d' ∈ drs, f = drKey d' ∧ P d' := by
  intro f hf
  rcases List.mem_append.mp hf with hf | hf
  · exact h f hf
  · simp at hf; exact ⟨d, hd, hf, hP⟩

theorem drStep_inv (m : Mesh) (drs : List DR) (idx : DRIndex) (d : DR) (hd : d ∈ drs)
    (h : IdxInv m drs idx) : IdxInv m drs (drStep true true m idx d) := by
  -- the step, opened
  have hpriv : isPrivateOnlyB m d = (if (drExportSet true m d).isEmpty && (defaultExport m.defDR).contains "." then true
      else if drStep.isSingletonSet (drExportSet true m d) && ((drExportSet true m d).contains "." || (drExportSet true m d).contains d.ns) then true
      else false) := rfl
  -- local pool after the first part
  have locStep : ∀ (hc : LocalCond m d), ∀ np ∈ ainsert d.ns (mergeDR true (poolOf d.ns idx.namespaceLocal) d (drExportSet true m d)) idx.namespaceLocal,
      ∀ e ∈ np.2, ∀ c ∈ e.2, JLocal m drs np.1 c := by
    intro hc np hnp
    rcases mem_ainsert hnp with h1 | h1
    · subst h1
      apply mergeDR_inv (JLocal m drs d.ns) true
      · intro c hJ _
        exact extend_frm (P := fun d' => d'.ns = d.ns ∧ LocalCond m d') hd ⟨rfl, hc⟩ hJ
      · intro f hf; simp [newCDR] at hf; exact ⟨d, hd, hf, rfl, hc⟩
      · exact poolOf_inv (J := JLocal m drs) h.loc
    · exact h.loc np h1
  have expStep : ∀ (base : List (String × Pool)), (∀ np ∈ base, ∀ e ∈ np.2, ∀ c ∈ e.2, JExp m drs np.1 c) →
      isPrivateOnlyB m d = false →
      ∀ np ∈ ainsert d.ns (mergeDR true (poolOf d.ns base) d (drExportSet true m d)) base,
      ∀ e ∈ np.2, ∀ c ∈ e.2, JExp m drs np.1 c := by
    intro base hbase hnp np hmem
    rcases mem_ainsert hmem with h1 | h1
    · subst h1
      apply mergeDR_inv (JExp m drs d.ns) true
      · intro c hJ hrel f hf
        rcases List.mem_append.mp hf with hf | hf
        · exact hJ f hf
        · simp at hf; exact ⟨d, hd, hf, rfl, hnp, hrel rfl⟩
      · intro f hf; simp [newCDR] at hf
        exact ⟨d, hd, hf, rfl, hnp, Or.inl (setEq_refl _)⟩
      · exact poolOf_inv (J := JExp m drs) hbase
    · exact hbase np h1
  have rootStep : isPrivateOnlyB m d = true → d.ns = m.rootNs →
      ∀ e ∈ mergeDR true idx.rootNamespaceLocal d (drExportSet true m d), ∀ c ∈ e.2, JRoot m drs c := by
    intro hp hr
    apply mergeDR_inv (JRoot m drs) true
    · intro c hJ _
      exact extend_frm (P := fun d' => d'.ns = m.rootNs ∧ isPrivateOnlyB m d' = true) hd ⟨hr, hp⟩ hJ
    · intro f hf; simp [newCDR] at hf; exact ⟨d, hd, hf, hr, hp⟩
    · exact h.root
  simp only [drStep]
  by_cases hloc : ((drExportSet true m d).isEmpty || (drExportSet true m d).contains "*" || (drExportSet true m d).contains "." || (drExportSet true m d).contains d.ns) = true
  · have hc : LocalCond m d := by
      simp only [Bool.or_eq_true, List.isEmpty_iff, List.contains_iff_mem] at hloc
      unfold LocalCond
      rcases hloc with ((h1 | h1) | h1) | h1
      · exact Or.inl h1
      · exact Or.inr (Or.inl h1)
      · exact Or.inr (Or.inr (Or.inl h1))
      · exact Or.inr (Or.inr (Or.inr h1))
    simp only [hloc, if_true]
    cases hp : isPrivateOnlyB m d with
    | false =>
      rw [hpriv] at hp
      simp only [hp, Bool.not_false, if_true]
      exact ⟨locStep hc, expStep _ h.exp (by rw [hpriv]; exact hp), h.root⟩
    | true =>
      rw [hpriv] at hp
      simp only [hp, Bool.not_true, Bool.false_eq_true, if_false]
      split
      · rename_i hr
        exact ⟨locStep hc, h.exp, rootStep (by rw [hpriv]; exact hp) (by simpa using hr)⟩
      · exact ⟨locStep hc, h.exp, h.root⟩
  · simp only [hloc, if_false, Bool.false_eq_true]
    cases hp : isPrivateOnlyB m d with
    | false =>
      rw [hpriv] at hp
      simp only [hp, Bool.not_false, if_true]
      exact ⟨h.loc, expStep _ h.exp (by rw [hpriv]; exact hp), h.root⟩
    | true =>
      rw [hpriv] at hp
      simp only [hp, Bool.not_true, Bool.false_eq_true, if_false]
      split
      · rename_i hr
        exact ⟨h.loc, h.exp, rootStep (by rw [hpriv]; exact hp) (by simpa using hr)⟩
      · exact ⟨h.loc, h.exp, h.root⟩

theorem setDestinationRules_inv (m : Mesh) (drs : List DR) : IdxInv m drs (setDestinationRules true true m drs) := by
  unfold setDestinationRules
  apply foldl_inv (P := IdxInv m drs)
  · exact ⟨by simp, by simp, by simp⟩
  · intro idx d hd hidx
    exact drStep_inv m drs idx d ((mem_isort _ _ _).mp hd) hidx

theorem wildcardMatch_mem {α : Type} {needle : List Char} {p : List (String × α)} {e : String × α}
    (h : wildcardMatch needle p = some e) : e ∈ p := by
  unfold wildcardMatch at h
  have gen : ∀ (l : List (String × α)) (best : Option (String × α)),
      (∀ b, best = some b → b ∈ p) → (∀ x ∈ l, x ∈ p) →
      ∀ r, l.foldl (fun best e =>
        if isWild e.1 && hasSuffixL needle e.1.toList.tail then
          match best with
          | none => some e
          | some b => if moreSpecificW e.1 b.1 then some e else some b
        else best) best = some r → r ∈ p := by
    intro l
    induction l with
    | nil => intro best hb _ r hr; exact hb r hr
    | cons a t ih =>
      intro best hb hl r hr
      rw [List.foldl_cons] at hr
      refine ih _ ?_ (fun x hx => hl x (List.mem_cons_of_mem _ hx)) r hr
      intro b hbb
      split at hbb
      · cases best with
        | none => simp at hbb; subst hbb; exact hl a List.mem_cons_self
        | some b0 =>
          simp only at hbb
          split at hbb
          · cases hbb; exact hl a List.mem_cons_self
          · have hb0 := hb b0 rfl
            cases hbb; exact hb0
      · exact hb b hbb
  exact gen p none (by simp) (fun x hx => hx) e h

theorem mostSpecific_mem {α : Type} {needle : String} {p : List (String × α)} {v : α}
    (h : mostSpecific needle p = some v) : ∃ k, (k, v) ∈ p := by
  unfold mostSpecific at h
  have fromW : ∀ nd : List Char, (wildcardMatch nd p).map (·.2) = some v → ∃ k, (k, v) ∈ p := by
    intro nd hw
    cases hq : wildcardMatch nd p with
    | none => simp [hq] at hw
    | some e => simp [hq] at hw; subst hw; exact ⟨e.1, wildcardMatch_mem hq⟩
  split at h
  · cases hl : alookup needle p with
    | some w => simp only [hl] at h; cases h; exact ⟨needle, alookup_mem hl⟩
    | none => simp only [hl] at h; exact fromW _ h
  · cases hl : alookup needle p with
    | some w => simp only [hl] at h; cases h; exact ⟨needle, alookup_mem hl⟩
    | none => simp only [hl] at h; exact fromW _ h

theorem setEq_nil {a : List String} (h : setEq a [] = true) : a = [] := by
  unfold setEq at h
  cases a with
  | nil => rfl
  | cons x t => simp at h

theorem setSuperset_mem {a b : List String} {x : String} (h : setSuperset a b = true) (hx : x ∈ b) : x ∈ a := by
  unfold setSuperset at h
  have := List.all_eq_true.mp h x hx
  simpa using this

theorem rel_mem {ex ce : List String} {x : String} (h : Rel ex ce) (hx : x ∈ ce) : x ∈ ex := by
  rcases h with h | ⟨_, h⟩
  · unfold setEq at h
    simp only [Bool.and_eq_true] at h
    exact setSuperset_mem (a := ex) (b := ce) h.2 hx
  · exact setSuperset_mem h hx

theorem drExportSet_selector {m : Mesh} {d : DR} (hs : d.selector = true) : drExportSet true m d = ["."] := by
  unfold drExportSet; simp [hs]

/-- an empty export set of the repaired `setDestinationRules` means: nothing declared and an empty
    (= unset) mesh default, i.e. the documented default `*` -/
theorem declared_of_empty_set {m : Mesh} {d : DR} (hs : d.selector = false) (h : drExportSet true m d = []) :
    declaredDRExport m d = ["*"] := by
  unfold drExportSet at h
  unfold declaredDRExport
  simp only [hs, Bool.false_eq_true, if_false, Bool.true_and] at h
  by_cases he : d.exportTo = []
  · simp only [he, List.isEmpty_nil, if_true, List.map_eq_nil_iff] at h ⊢
    cases hd : m.defDR with
    | none => rfl
    | some l => simp only [hd, defaultExport] at h; subst h; rfl
  · have hne : d.exportTo.isEmpty = false := by cases hq : d.exportTo <;> simp_all
    simp only [hne, Bool.false_eq_true, if_false] at h
    exact absurd h he

/-- what the export set of the repaired `setDestinationRules` exports, the declaration exports -/
theorem exports_of_set {m : Mesh} {d : DR} (hs : d.selector = false) (hdn : d.ns ≠ "*") {ns : String}
    (h : ExportsTo (drExportSet true m d) d.ns ns) : ExportsTo (declaredDRExport m d) d.ns ns := by
  unfold drExportSet at h
  unfold declaredDRExport
  simp only [hs, Bool.false_eq_true, if_false, Bool.true_and] at h
  by_cases he : d.exportTo = []
  · simp only [he, List.isEmpty_nil, if_true] at h ⊢
    -- the set is the mapped default
    have key : ∀ l : List String, ExportsTo (l.map fun e => if e == "." then d.ns else e) d.ns ns → ExportsTo l d.ns ns := by
      intro l hl
      unfold ExportsTo at hl ⊢
      simp only [List.mem_map, beq_iff_eq] at hl
      rcases hl with ⟨y, hy, hyx⟩ | ⟨⟨y, hy, hyx⟩, hown⟩ | ⟨y, hy, hyx⟩
      · by_cases hd : y = "."
        · simp [hd] at hyx; exact absurd hyx hdn
        · simp [hd] at hyx; subst hyx; exact Or.inl hy
      · by_cases hd : y = "."
        · subst hd; exact Or.inr (Or.inl ⟨hy, hown⟩)
        · simp [hd] at hyx
      · by_cases hd : y = "."
        · subst hd; simp at hyx; exact Or.inr (Or.inl ⟨hy, hyx⟩)
        · simp [hd] at hyx; subst hyx; exact Or.inr (Or.inr hy)
    cases hd : m.defDR with
    | none => simp only [hd, defaultExport] at h; exact key _ h
    | some l =>
      simp only [hd, defaultExport] at h
      cases l with
      | nil => exact Or.inl (by simp)
      | cons a t => exact key _ h
  · have hne : d.exportTo.isEmpty = false := by cases hq : d.exportTo <;> simp_all
    simp only [hne, Bool.false_eq_true, if_false] at h
    simpa [he] using h

theorem drVisible_of_local {m : Mesh} {d : DR} (hdn : d.ns ≠ "*") (h : LocalCond m d) : DRVisible m d d.ns := by
  unfold DRVisible
  by_cases hs : d.selector = true
  · simp [hs]
  · have hs' : d.selector = false := by simpa using hs
    simp only [hs, if_false]
    unfold LocalCond at h
    rcases h with h | h | h | h
    · rw [declared_of_empty_set hs' h]; exact Or.inl (by simp)
    · exact exports_of_set hs' hdn (Or.inl h)
    · exact exports_of_set hs' hdn (Or.inr (Or.inl ⟨h, rfl⟩))
    · exact exports_of_set hs' hdn (Or.inr (Or.inr h))

theorem isSingletonSet_mem {l : List String} {x y : String} (h : drStep.isSingletonSet l = true) (hx : x ∈ l) (hy : y ∈ l) :
    x = y := by
  cases l with
  | nil => simp at hx
  | cons a t =>
    simp only [drStep.isSingletonSet, List.all_eq_true, beq_iff_eq] at h
    have e1 : x = a := by rcases List.mem_cons.mp hx with h1 | h1; exact h1; exact h _ h1
    have e2 : y = a := by rcases List.mem_cons.mp hy with h1 | h1; exact h1; exact h _ h1
    rw [e1, e2]

/-- a private-only rule satisfies the condition of the namespace-local index -/
theorem local_of_private {m : Mesh} {d : DR} (h : isPrivateOnlyB m d = true) : LocalCond m d := by
  unfold isPrivateOnlyB at h
  unfold LocalCond
  split at h
  · rename_i hc
    simp only [Bool.and_eq_true, List.isEmpty_iff] at hc
    exact Or.inl hc.1
  · split at h
    · rename_i hc
      simp only [Bool.and_eq_true, Bool.or_eq_true, List.contains_iff_mem] at hc
      rcases hc.2 with h1 | h1
      · exact Or.inr (Or.inr (Or.inl h1))
      · exact Or.inr (Or.inr (Or.inr h1))
    · cases h

theorem drVisible_of_private {m : Mesh} {d : DR} (hdn : d.ns ≠ "*") (h : isPrivateOnlyB m d = true) : DRVisible m d d.ns :=
  drVisible_of_local hdn (local_of_private h)

theorem drVisible_of_exported {m : Mesh} {d : DR} {ce : List String} {client : String} (hdn : d.ns ≠ "*")
    (hrel : Rel (drExportSet true m d) ce) (hns : ValidNs client)
    (hf : ce = [] ∨ "*" ∈ ce ∨ client ∈ ce) : DRVisible m d client := by
  unfold DRVisible
  by_cases hs : d.selector = true
  · -- a selector rule carries the set {.}: it cannot pass the export filter for a real namespace
    exfalso
    rw [drExportSet_selector hs] at hrel
    rcases hf with hf | hf | hf
    · subst hf
      rcases hrel with h | ⟨h, _⟩
      · have := setEq_nil h; cases this
      · exact h rfl
    · have := rel_mem hrel hf; simp at this
    · have := rel_mem hrel hf; simp at this; exact hns.1 this
  · have hs' : d.selector = false := by simpa using hs
    simp only [hs, if_false]
    rcases hf with hf | hf | hf
    · subst hf
      have hex : drExportSet true m d = [] := by
        rcases hrel with h | ⟨h, _⟩
        · exact setEq_nil h
        · exact absurd rfl h
      rw [declared_of_empty_set hs' hex]; exact Or.inl (by simp)
    · exact exports_of_set hs' hdn (Or.inl (rel_mem hrel hf))
    · exact exports_of_set hs' hdn (Or.inr (Or.inr (rel_mem hrel hf)))

theorem exportedDRFrom_sound {m : Mesh} {drs : List DR} {idx : DRIndex} (hinv : IdxInv m drs idx)
    (hdn : ∀ d ∈ drs, d.ns ≠ "*")
    {owner hostname client : String} (hns : ValidNs client) {c : CDR}
    (hc : c ∈ exportedDRFrom idx owner hostname client) :
    ∀ f ∈ c.frm, ∃ d ∈ drs, f = drKey d ∧ DRVisible m d client := by
  unfold exportedDRFrom at hc
  cases hp : alookup owner idx.exportedByNamespace with
  | none => simp [hp] at hc
  | some p =>
    simp only [hp] at hc
    cases hm : mostSpecific hostname p with
    | none => simp [hm] at hc
    | some l =>
      simp only [hm, List.mem_filter, Bool.or_eq_true, List.isEmpty_iff, List.contains_iff_mem] at hc
      obtain ⟨k, hk⟩ := mostSpecific_mem hm
      have hJ := hinv.exp (owner, p) (alookup_mem hp) (k, l) hk c hc.1
      intro f hf
      obtain ⟨d, hd, hfk, _, hnp, hrel⟩ := hJ f hf
      refine ⟨d, hd, hfk, drVisible_of_exported (hdn d hd) hrel hns ?_⟩
      rcases hc.2 with (h | h) | h
      · exact Or.inl h
      · exact Or.inr (Or.inl h)
      · exact Or.inr (Or.inr h)

/-- **dr_export_sound**: with `EnableEnhancedDestinationRuleMerge` (the default) every
    DestinationRule merged into a consolidated rule that `destinationRule` returns for a proxy
    namespace is a rule of the store that is exported to that namespace - for every rule set
    (workload selectors, every exportTo form and mesh default, wildcard hosts, several rules per host
    consolidated), every service and every proxy namespace. -/
theorem dr_export_sound (m : Mesh) (drs : List DR) (hstar : ∀ d ∈ drs, d.ns ≠ "*") (proxyNs : String) (hns : ValidNs proxyNs) (s : Svc) :
    ∀ c ∈ destinationRule m (setDestinationRules true true m drs) proxyNs s,
      ∀ f ∈ c.frm, ∃ d ∈ drs, f = drKey d ∧ DRVisible m d proxyNs := by
  have hinv := setDestinationRules_inv m drs
  generalize setDestinationRules true true m drs = idx at hinv
  intro c hc
  simp only [destinationRule] at hc
  -- the tail: exported rules of the service's namespace, then of the root namespace
  have tail : c ∈ (let fromSvc := if s.ns != "" then exportedDRFrom idx s.ns s.hostname proxyNs else []
                   if !fromSvc.isEmpty then fromSvc else exportedDRFrom idx m.rootNs s.hostname proxyNs) →
      ∀ f ∈ c.frm, ∃ d ∈ drs, f = drKey d ∧ DRVisible m d proxyNs := by
    intro hc
    by_cases hq : (!(if s.ns != "" then exportedDRFrom idx s.ns s.hostname proxyNs else []).isEmpty) = true
    · simp only [hq, if_true] at hc
      split at hc
      · exact exportedDRFrom_sound hinv hstar hns hc
      · simp at hc
    · simp only [hq, if_false, Bool.false_eq_true] at hc
      exact exportedDRFrom_sound hinv hstar hns hc
  by_cases hroot : (proxyNs != m.rootNs) = true
  · simp only [hroot, if_true] at hc
    cases hl : alookup proxyNs idx.namespaceLocal with
    | none => simp only [hl] at hc; exact tail hc
    | some p =>
      simp only [hl] at hc
      cases hm : mostSpecific s.hostname p with
      | none => simp only [hm] at hc; exact tail hc
      | some l =>
        simp only [hm] at hc
        obtain ⟨k, hk⟩ := mostSpecific_mem hm
        have hJ := hinv.loc (proxyNs, p) (alookup_mem hl) (k, l) hk c hc
        intro f hf
        obtain ⟨d, hd, hfk, hdn, hloc⟩ := hJ f hf
        have hdn' : d.ns = proxyNs := hdn
        exact ⟨d, hd, hfk, by rw [← hdn']; exact drVisible_of_local (hstar d hd) hloc⟩
  · simp only [hroot, if_false, Bool.false_eq_true] at hc
    have hpr : proxyNs = m.rootNs := by simpa using hroot
    cases hm : mostSpecific s.hostname idx.rootNamespaceLocal with
    | none => simp only [hm] at hc; exact tail hc
    | some l =>
      simp only [hm] at hc
      obtain ⟨k, hk⟩ := mostSpecific_mem hm
      have hJ := hinv.root (k, l) hk c hc
      intro f hf
      obtain ⟨d, hd, hfk, hdn, hp⟩ := hJ f hf
      exact ⟨d, hd, hfk, by rw [hpr, ← hdn]; exact drVisible_of_private (hstar d hd) hp⟩

/-- the rules a scope selects (`selectDestinationRules`) are exported to the proxy's namespace -/
theorem scope_dr_export_sound (m : Mesh) (drs : List DR) (hdn : ∀ d ∈ drs, d.ns ≠ "*") (cfgNs : String) (hns : ValidNs cfgNs) (services : List Svc) :
    ∀ e ∈ selectDestinationRules m (setDestinationRules true true m drs) cfgNs services, ∀ c ∈ e.2,
      ∀ f ∈ c.frm, ∃ d ∈ drs, f = drKey d ∧ DRVisible m d cfgNs := by
  unfold selectDestinationRules
  apply foldl_inv (P := fun acc : List (String × List CDR) => ∀ e ∈ acc, ∀ c ∈ e.2,
      ∀ f ∈ c.frm, ∃ d ∈ drs, f = drKey d ∧ DRVisible m d cfgNs)
  · simp
  · intro acc s _ hacc
    simp only
    split
    · exact hacc
    · intro e he c hc
      rcases mem_ainsert he with h | h
      · subst h; exact dr_export_sound m drs hdn cfgNs hns s c hc
      · exact hacc e h c hc

/-- Without the enhanced merge (`ENABLE_ENHANCED_DESTINATIONRULE_MERGE=false`, legacy) the claim is
    false: a rule exported to ns2 only is merged into a public rule for the same host and reaches a
    proxy of ns3. -/
theorem dr_export_legacy_merge_witness :
    let drs : List DR := [{ name := "pub", ns := "ns1", ctime := 1, host := "a.com", exportTo := ["*"], selector := false },
                          { name := "only-ns2", ns := "ns1", ctime := 2, host := "a.com", exportTo := ["ns2"], selector := false }]
    let s := mkSvc "s" "a.com" "ns1" 1 false [80] []
    (destinationRule {} (setDestinationRules false true {} drs) "ns3" s).map (·.frm) = [[("ns1", "pub"), ("ns1", "only-ns2")]] ∧
    (destinationRule {} (setDestinationRules true true {} drs) "ns3" s).map (·.frm) = [[("ns1", "pub")]] := by
  decide +kernel

/-- **F12 witness** (behaviour before /repo b2c085f, `guard = false`): with
    `defaultDestinationRuleExportTo: [ns2]` a DestinationRule of ns1 without exportTo is exported to ns2
    only, but a proxy of ns3 received it (every default other than `.` was read as public); the repaired
    code hands it to ns2 and not to ns3. -/
theorem dr_default_namespace_list_witness_unfixed :
    let m : Mesh := { defDR := some ["ns2"] }
    let d : DR := { name := "d", ns := "ns1", ctime := 1, host := "a.com", exportTo := [], selector := false }
    let s := mkSvc "s" "a.com" "ns1" 1 false [80] []
    (destinationRule m (setDestinationRules true false m [d]) "ns3" s).map (·.frm) = [[("ns1", "d")]] ∧
    (destinationRule m (setDestinationRules true true m [d]) "ns3" s).map (·.frm) = [] ∧
    (destinationRule m (setDestinationRules true true m [d]) "ns2" s).map (·.frm) = [[("ns1", "d")]] ∧
    ¬ DRVisible m d "ns3" := by
  refine ⟨by decide +kernel, by decide +kernel, by decide +kernel, ?_⟩
  simp [DRVisible, declaredDRExport, ExportsTo]

end IstioModel.C07
