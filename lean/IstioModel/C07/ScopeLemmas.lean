import IstioModel.C07.Scope
import IstioModel.C07.HostTheorems
import IstioModel.C07.VisTheorems

/-! C07 - helper lemmas for the scope theorems (not counted as obligations). -/
namespace IstioModel.C07

/-! ### association lists -/

theorem alookup_mem {α : Type} {k : String} {v : α} {l : List (String × α)} (h : alookup k l = some v) :
    (k, v) ∈ l := by
  induction l with
  | nil => simp [alookup] at h
  | cons a t ih =>
    obtain ⟨k', v'⟩ := a
    unfold alookup at h
    by_cases hk : k' = k
    · simp [hk] at h; subst hk; subst h; exact List.mem_cons_self
    · simp [hk] at h; exact List.mem_cons_of_mem _ (ih h)

theorem alookup_isSome_of_mem {α : Type} {k : String} {v : α} {l : List (String × α)} (h : (k, v) ∈ l) :
    ∃ v', alookup k l = some v' := by
  induction l with
  | nil => simp at h
  | cons a t ih =>
    obtain ⟨k', v'⟩ := a
    unfold alookup
    by_cases hk : k' = k
    · exact ⟨v', by simp [hk]⟩
    · simp only [hk, if_false]
      rcases List.mem_cons.mp h with h1 | h1
      · cases h1; exact absurd rfl hk
      · exact ih h1

theorem alookup_ainsert_self {α : Type} (k : String) (v : α) (l : List (String × α)) :
    alookup k (ainsert k v l) = some v := by
  induction l with
  | nil => simp [ainsert, alookup]
  | cons a t ih =>
    obtain ⟨k', v'⟩ := a
    unfold ainsert
    by_cases hk : k' = k
    · simp [hk, alookup]
    · simp [hk, alookup, ih]

theorem alookup_ainsert_ne {α : Type} (k k2 : String) (v : α) (l : List (String × α)) (hne : k2 ≠ k) :
    alookup k2 (ainsert k v l) = alookup k2 l := by
  induction l with
  | nil => simp [ainsert, alookup, Ne.symm hne]
  | cons a t ih =>
    obtain ⟨k', v'⟩ := a
    unfold ainsert
    by_cases hk : k' = k
    · subst hk; simp [alookup, Ne.symm hne]
    · simp only [hk, if_false]
      unfold alookup
      by_cases hk2 : k' = k2
      · simp [hk2]
      · simp [hk2, ih]

/-! ### the part of a service the visibility / import decisions read -/

/-- a service with ports and aliases erased: trimming and port merging do not change it -/
def Svc.core (s : Svc) : Svc := { s with ports := [], aliases := [] }

theorem visible_core (m : Mesh) (s : Svc) (ns : String) :
    isServiceVisible m s ns = isServiceVisible m s.core ns := rfl

theorem visible_of_core_eq (m : Mesh) {s o : Svc} (ns : String) (h : s.core = o.core) :
    isServiceVisible m s ns = isServiceVisible m o ns := by
  rw [visible_core m s, visible_core m o, h]

theorem core_hostname {s o : Svc} (h : s.core = o.core) : s.hostname = o.hostname := by
  have := congrArg Svc.hostname h; exact this

theorem core_ns {s o : Svc} (h : s.core = o.core) : s.ns = o.ns := by
  have := congrArg Svc.ns h; exact this

theorem core_k8s {s o : Svc} (h : s.core = o.core) : s.k8s = o.k8s := by
  have := congrArg Svc.k8s h; exact this

@[simp] theorem core_with_ports (s : Svc) (p : List Port) : ({ s with ports := p } : Svc).core = s.core := rfl
@[simp] theorem core_with_aliases (s : Svc) (a : List (String × String)) : ({ s with aliases := a } : Svc).core = s.core := rfl

theorem foldl_inv {β α : Type} (g : β → α → β) (P : β → Prop) (l : List α) (b : β) (hb : P b)
    (hstep : ∀ b a, a ∈ l → P b → P (g b a)) : P (l.foldl g b) := by
  induction l generalizing b with
  | nil => exact hb
  | cons a t ih =>
    rw [List.foldl_cons]
    exact ih (g b a) (hstep b a List.mem_cons_self hb) (fun b' a' ha' => hstep b' a' (List.mem_cons_of_mem _ ha'))

/-! ### alias trimming -/

/-- **spec**: the alias (namespace, hostname) stands for a service that is exported to `ns` -/
def AliasVisible (m : Mesh) (svcs : List Svc) (ns : String) (a : String × String) : Prop :=
  ∃ t, lookupHN svcs a.2 a.1 = some t ∧ isServiceVisible m t ns = true

theorem trim_core (g : Bool) (m : Mesh) (svcs : List Svc) (ns : String) (s : Svc) :
    (trimHiddenAlias g m svcs ns s).core = s.core ∧ (trimHiddenAlias g m svcs ns s).ports = s.ports := by
  simp only [trimHiddenAlias]
  split
  · exact ⟨rfl, rfl⟩
  · split <;> exact ⟨rfl, rfl⟩

theorem trim_aliases_sub (g : Bool) (m : Mesh) (svcs : List Svc) (ns : String) (s : Svc) :
    ∀ a ∈ (trimHiddenAlias g m svcs ns s).aliases, a ∈ s.aliases := by
  intro a ha
  simp only [trimHiddenAlias] at ha
  split at ha
  · exact ha
  · split at ha
    · exact ha
    · exact (List.mem_filter.mp ha).1

theorem trim_aliases_visible (m : Mesh) (svcs : List Svc) (ns : String) (s : Svc) :
    ∀ a ∈ (trimHiddenAlias true m svcs ns s).aliases, AliasVisible m svcs ns a := by
  have key : ∀ a, aliasKept m svcs ns a = true → AliasVisible m svcs ns a := by
    intro a ha
    unfold aliasKept at ha
    cases hl : lookupHN svcs a.2 a.1 with
    | none => simp [hl] at ha
    | some t => simp only [hl] at ha; exact ⟨t, hl, ha⟩
  intro a ha
  simp only [trimHiddenAlias, Bool.not_true, Bool.false_eq_true, if_false] at ha
  split at ha
  · rename_i hlen
    -- nothing was dropped: every alias passes the test
    cases hk : aliasKept m svcs ns a with
    | true => exact key a hk
    | false =>
      exfalso
      have hlt := (List.length_filter_lt_length_iff_exists (p := aliasKept m svcs ns)).mpr ⟨a, ha, by simp [hk]⟩
      have hlen' : (s.aliases.filter (aliasKept m svcs ns)).length = s.aliases.length := by simpa using hlen
      omega
  · exact key a (List.mem_filter.mp ha).2

/-! ### host classification -/

theorem hcFor_all {ps : List PHost} {k : String} {hc : HostClass} (h : hcFor ps k = some hc) (x : String) :
    x ∈ hc.all ↔ ∃ p ∈ ps, p.ns = k ∧ p.excluded = false ∧ p.name = x := by
  simp only [hcFor] at h
  split at h
  · simp at h
  · cases h
    simp only [List.mem_map, List.mem_filter, beq_iff_eq, Bool.not_eq_true']
    constructor
    · rintro ⟨p, ⟨⟨hp, hk⟩, he⟩, hn⟩; exact ⟨p, hp, hk, he, hn⟩
    · rintro ⟨p, hp, hk, he, hn⟩; exact ⟨p, ⟨⟨hp, hk⟩, he⟩, hn⟩

theorem hcFor_excluded {ps : List PHost} {k : String} {hc : HostClass} (h : hcFor ps k = some hc) (x : String) :
    x ∈ hc.excluded ↔ ∃ p ∈ ps, p.ns = k ∧ p.excluded = true ∧ p.name = x := by
  simp only [hcFor] at h
  split at h
  · simp at h
  · cases h
    simp only [List.mem_map, List.mem_filter, beq_iff_eq]
    constructor
    · rintro ⟨p, ⟨⟨hp, hk⟩, he⟩, hn⟩; exact ⟨p, hp, hk, he, hn⟩
    · rintro ⟨p, hp, hk, he, hn⟩; exact ⟨p, ⟨⟨hp, hk⟩, he⟩, hn⟩

theorem hcFor_isSome {ps : List PHost} {k : String} {p : PHost} (hp : p ∈ ps) (hk : p.ns = k) :
    ∃ hc, hcFor ps k = some hc := by
  simp only [hcFor]
  have : p ∈ ps.filter (·.ns == k) := by simp [List.mem_filter, hp, hk]
  cases hf : ps.filter (·.ns == k) with
  | nil => rw [hf] at this; simp at this
  | cons a t => simp

theorem hcFor_none {ps : List PHost} {k : String} (h : hcFor ps k = none) :
    ∀ p ∈ ps, p.ns ≠ k := by
  intro p hp hk
  obtain ⟨hc, hh⟩ := hcFor_isSome hp hk
  rw [h] at hh; cases hh

theorem subsetOf_eq_of_concrete {h imp : String} (h1 : isWild h = false) (h2 : isWild imp = false) :
    subsetOf h imp = true ↔ h = imp := by
  unfold subsetOf subsetOfL
  unfold isWild at h1 h2
  simp [h1, h2, String.toList_inj]

/-- `hostClassification.Matches` = covered by one of the imported hosts. -/
theorem matchesHost_iff (hc : HostClass) (h : String) :
    hc.matchesHost h = true ↔ ∃ imp ∈ hc.all, subsetOf h imp = true := by
  unfold HostClass.matchesHost HostClass.exact
  simp only [Bool.or_eq_true, List.contains_iff_mem, List.mem_filter, List.any_eq_true,
    Bool.and_eq_true, Bool.not_eq_true']
  constructor
  · rintro (⟨hm, hw⟩ | ⟨imp, hi, _, hs⟩)
    · refine ⟨h, hm, ?_⟩
      unfold subsetOf; exact subsetOf_refl _
    · exact ⟨imp, hi, hs⟩
  · rintro ⟨imp, hi, hs⟩
    by_cases hb : (!isWild h && !isWild imp) = true
    · simp only [Bool.and_eq_true, Bool.not_eq_true'] at hb
      have := (subsetOf_eq_of_concrete hb.1 hb.2).mp hs
      subst this
      exact Or.inl ⟨hi, by simpa using hb.1⟩
    · exact Or.inr ⟨imp, hi, by simpa using hb, hs⟩

theorem isExcluded_iff (hc : HostClass) (h : String) :
    hc.isExcluded h = true ↔ ∃ e ∈ hc.excluded, subsetOf h e = true := by
  unfold HostClass.isExcluded
  simp [List.any_eq_true]

/-! ### `selectServices`, first loop -/

/-- **spec**: the egress host list `ps` imports the service `(ns, h)`: some non-excluded entry of the
    service's namespace or of `*` covers the hostname, and no `~` entry of those namespaces does. -/
def HostImports (ps : List PHost) (ns h : String) : Prop :=
  (∃ p ∈ ps, p.excluded = false ∧ (p.ns = ns ∨ p.ns = "*") ∧ subsetOf h p.name = true) ∧
  ¬ (∃ p ∈ ps, p.excluded = true ∧ (p.ns = ns ∨ p.ns = "*") ∧ subsetOf h p.name = true)

theorem exclBy_iff (ps : List PHost) (k h : String) :
    exclBy (hcFor ps k) h = true ↔ ∃ p ∈ ps, p.excluded = true ∧ p.ns = k ∧ subsetOf h p.name = true := by
  unfold exclBy
  cases hh : hcFor ps k with
  | none =>
    simp only [Bool.false_eq_true, false_iff]
    rintro ⟨p, hp, _, hk, _⟩
    exact hcFor_none hh p hp hk
  | some hc =>
    simp only [isExcluded_iff]
    constructor
    · rintro ⟨e, he, hs⟩
      obtain ⟨p, hp, hk, hx, hn⟩ := (hcFor_excluded hh e).mp he
      exact ⟨p, hp, hx, hk, by rw [hn]; exact hs⟩
    · rintro ⟨p, hp, hx, hk, hs⟩
      exact ⟨p.name, (hcFor_excluded hh p.name).mpr ⟨p, hp, hk, hx, rfl⟩, hs⟩

theorem matchesFor_iff (ps : List PHost) (k h : String) :
    (∃ hc, hcFor ps k = some hc ∧ hc.matchesHost h = true) ↔
      ∃ p ∈ ps, p.excluded = false ∧ p.ns = k ∧ subsetOf h p.name = true := by
  constructor
  · rintro ⟨hc, hh, hm⟩
    obtain ⟨imp, hi, hs⟩ := (matchesHost_iff hc h).mp hm
    obtain ⟨p, hp, hk, hx, hn⟩ := (hcFor_all hh imp).mp hi
    exact ⟨p, hp, hx, hk, by rw [hn]; exact hs⟩
  · rintro ⟨p, hp, hx, hk, hs⟩
    obtain ⟨hc, hh⟩ := hcFor_isSome hp hk
    exact ⟨hc, hh, (matchesHost_iff hc h).mpr ⟨p.name, (hcFor_all hh p.name).mpr ⟨p, hp, hk, hx, rfl⟩, hs⟩⟩

def PortsSub (s c : Svc) : Prop := ∀ p ∈ s.ports, p ∈ c.ports

theorem listenerPort_some {c s : Svc} {p : Nat} (h : svcMatchingListenerPort c p = some s) :
    s.core = c.core ∧ PortsSub s c ∧ s.aliases = c.aliases ∧ (∃ q ∈ s.ports, q.num = p) := by
  unfold svcMatchingListenerPort at h
  cases hf : c.ports.find? (·.num == p) with
  | none => simp [hf] at h
  | some port =>
    have hmem := List.mem_of_find?_eq_some hf
    have hnum : port.num = p := by simpa using List.find?_some hf
    simp only [hf] at h
    split at h
    · cases h
      exact ⟨rfl, fun _ hq => hq, rfl, ⟨port, hmem, hnum⟩⟩
    · cases h
      refine ⟨rfl, ?_, rfl, ⟨port, by simp, hnum⟩⟩
      intro q hq; simp at hq; subst hq; exact hmem

theorem vsPorts_some {c s : Svc} {ports : List Nat} (h : svcMatchingVSPorts c ports = some s) :
    s.core = c.core ∧ PortsSub s c ∧ s.aliases = c.aliases := by
  simp only [svcMatchingVSPorts] at h
  split at h
  · cases h; exact ⟨rfl, fun _ hq => hq, rfl⟩
  · split at h
    · cases h; exact ⟨rfl, fun _ hq => hq, rfl⟩
    · split at h
      · cases h
        refine ⟨rfl, ?_, rfl⟩
        intro q hq; exact (List.mem_filter.mp hq).1
      · cases h

theorem matchingService_some {hc : HostClass} {c s : Svc} {mp : Option Nat} (h : matchingService hc c mp = some s) :
    hc.matchesHost c.hostname = true ∧ s.core = c.core ∧ PortsSub s c ∧ s.aliases = c.aliases := by
  unfold matchingService at h
  split at h
  · rename_i hm
    cases mp with
    | none => simp at h; subst h; exact ⟨hm, rfl, fun _ hq => hq, rfl⟩
    | some p =>
      simp at h
      obtain ⟨h1, h2, h3, _⟩ := listenerPort_some h
      exact ⟨hm, h1, h2, h3⟩
  · cases h

theorem matchingAlias_some {hc : HostClass} {o : Option Svc} {s : Svc} (h : matchingAliasService hc o = some s) :
    ∃ x, o = some x ∧ s.core = x.core ∧ s.ports = x.ports ∧ (∀ a ∈ s.aliases, a ∈ x.aliases) := by
  unfold matchingAliasService at h
  cases o with
  | none => simp at h
  | some x =>
    refine ⟨x, rfl, ?_⟩
    simp only at h
    split at h
    · cases h; exact ⟨rfl, rfl, fun _ ha => ha⟩
    · cases h
      refine ⟨rfl, rfl, ?_⟩
      intro a ha; exact (List.mem_filter.mp ha).1

/-- what one candidate turns into in the first loop of `selectServices` -/
theorem importOne_some {ps : List PHost} {mp : Option Nat} {c s : Svc} (h : importOne ps mp c = some s) :
    s.core = c.core ∧ PortsSub s c ∧ HostImports ps c.ns c.hostname ∧ (∀ a ∈ s.aliases, a ∈ c.aliases) := by
  simp only [importOne] at h
  split at h
  · cases h
  · rename_i hex
    simp only [Bool.or_eq_true, not_or, Bool.not_eq_true] at hex
    have hnoex : ¬ (∃ p ∈ ps, p.excluded = true ∧ (p.ns = c.ns ∨ p.ns = "*") ∧ subsetOf c.hostname p.name = true) := by
      rintro ⟨p, hp, hx, hk | hk, hs⟩
      · have := (exclBy_iff ps c.ns c.hostname).mpr ⟨p, hp, hx, hk, hs⟩
        rw [hex.1] at this; cases this
      · have := (exclBy_iff ps "*" c.hostname).mpr ⟨p, hp, hx, hk, hs⟩
        rw [hex.2] at this; cases this
    -- which of the two lookups produced the service
    have key : ∀ k, (k = c.ns ∨ k = "*") → ∀ hc, hcFor ps k = some hc →
        matchingAliasService hc (matchingService hc c mp) = some s →
        s.core = c.core ∧ PortsSub s c ∧ HostImports ps c.ns c.hostname ∧ (∀ a ∈ s.aliases, a ∈ c.aliases) := by
      intro k hk hc hh hm
      obtain ⟨x, hx, h1, h2, hal⟩ := matchingAlias_some hm
      obtain ⟨hmt, h3, h4, hal2⟩ := matchingService_some hx
      obtain ⟨p, hp, hpx, hpk, hps⟩ := (matchesFor_iff ps k c.hostname).mp ⟨hc, hh, hmt⟩
      refine ⟨h1.trans h3, ?_, ⟨⟨p, hp, hpx, ?_, hps⟩, hnoex⟩, ?_⟩
      · intro q hq; rw [h2] at hq; exact h4 q hq
      · rcases hk with hk | hk
        · exact Or.inl (hpk.trans hk)
        · exact Or.inr (hpk.trans hk)
      · intro a ha; rw [← hal2]; exact hal a ha
    cases hns : hcFor ps c.ns with
    | none =>
      simp only [hns] at h
      cases hw : hcFor ps "*" with
      | none => simp [hw] at h
      | some hcw => simp only [hw] at h; exact key "*" (Or.inr rfl) hcw hw h
    | some hcn =>
      simp only [hns] at h
      cases hm : matchingAliasService hcn (matchingService hcn c mp) with
      | some r =>
        simp only [hm] at h
        cases h
        exact key c.ns (Or.inl rfl) hcn hns hm
      | none =>
        simp only [hm] at h
        cases hw : hcFor ps "*" with
        | none => simp [hw] at h
        | some hcw => simp only [hw] at h; exact key "*" (Or.inr rfl) hcw hw h

/-- members of the result of `selectServices` come from a candidate through `importOne` -/
theorem mem_selectServices {unified : Bool} {cfgNs : String} {ps : List PHost} {mp : Option Nat}
    {cands : List Svc} {s : Svc} (h : s ∈ selectServices unified cfgNs ps mp cands) :
    ∃ c ∈ cands, importOne ps mp c = some s := by
  simp only [selectServices] at h
  split at h <;>
  · have := (List.mem_filter.mp h).1
    exact List.mem_filterMap.mp this

/-! ### candidates -/

theorem mem_exactLookups {svcs : List Svc} {ps : List PHost} {s : Svc} (h : s ∈ exactLookups svcs ps) :
    s ∈ svcs ∧ ∃ p ∈ ps, p.excluded = false ∧ p.ns = s.ns ∧ p.name = s.hostname ∧ isWild p.name = false := by
  simp only [exactLookups, List.mem_flatMap] at h
  obtain ⟨ns, _, hin⟩ := h
  cases hh : hcFor ps ns with
  | none => simp [hh] at hin
  | some hc =>
    simp only [hh, List.mem_filterMap, List.mem_eraseDups] at hin
    obtain ⟨hname, hex, hl⟩ := hin
    obtain ⟨h1, h2, h3⟩ := lookupHN_mem svcs hname ns s hl
    simp only [HostClass.exact, List.mem_filter, Bool.not_eq_true'] at hex
    obtain ⟨p, hp, hk, hx, hn⟩ := (hcFor_all hh hname).mp hex.1
    exact ⟨h1, p, hp, hx, hk.trans h3.symm, hn.trans h2.symm, by rw [hn]; exact hex.2⟩

/-- both candidate lists (scan and exact-host fast path, before and after the repair) contain only
    services of the mesh that are visible to the proxy's namespace. -/
theorem exact_sound {g : Bool} {m : Mesh} {svcs : List Svc} {cfgNs : String} {ps : List PHost} {s : Svc}
    (h : s ∈ servicesForExactHosts g m svcs cfgNs ps) :
    s ∈ svcs ∧ isServiceVisible m s cfgNs = true := by
  simp only [servicesForExactHosts] at h
  split at h
  · exact exported_sound m svcs cfgNs s h
  · unfold sortServices at h
    rw [mem_isort, List.mem_filter] at h
    exact ⟨(mem_exactLookups h.1).1, h.2⟩

/-! ### `appendSidecarServices` -/

theorem mem_replaceHost {acc : List Svc} {s x : Svc} (h : x ∈ replaceHost acc s) : x ∈ acc ∨ x = s := by
  simp only [replaceHost, List.mem_map] at h
  obtain ⟨y, hy, hx⟩ := h
  split at hx
  · exact Or.inr hx.symm
  · exact Or.inl (hx ▸ hy)

/-- a member of the list after `appendSidecarServices` is (a port-merged copy of) an old member,
    or the appended service. -/
theorem mem_appendSvc {acc : List Svc} {s x : Svc} (h : x ∈ appendSvc acc s) :
    (∃ y ∈ acc, x.core = y.core ∧ x.aliases = y.aliases) ∨ x = s := by
  unfold appendSvc at h
  cases hf : acc.find? (·.hostname == s.hostname) with
  | none => simp only [hf] at h; rcases List.mem_append.mp h with h | h
            · exact Or.inl ⟨x, h, rfl, rfl⟩
            · simp at h; exact Or.inr h
  | some ex =>
    have hex := List.mem_of_find?_eq_some hf
    simp only [hf] at h
    split at h
    · exact Or.inl ⟨x, h, rfl, rfl⟩
    · split at h
      · rcases mem_replaceHost h with h | h
        · exact Or.inl ⟨x, h, rfl, rfl⟩
        · exact Or.inr h
      · split at h
        · exact Or.inl ⟨x, h, rfl, rfl⟩
        · split at h
          · exact Or.inl ⟨x, h, rfl, rfl⟩
          · rcases mem_replaceHost h with h | h
            · exact Or.inl ⟨x, h, rfl, rfl⟩
            · exact Or.inl ⟨ex, hex, by rw [h]; rfl, by rw [h]⟩

theorem mem_foldl_appendSvc {l acc : List Svc} {x : Svc} (h : x ∈ l.foldl appendSvc acc) :
    (∃ y ∈ acc, x.core = y.core ∧ x.aliases = y.aliases) ∨ (∃ y ∈ l, x.core = y.core ∧ x.aliases = y.aliases) := by
  induction l generalizing acc with
  | nil => exact Or.inl ⟨x, h, rfl, rfl⟩
  | cons a t ih =>
    rw [List.foldl_cons] at h
    rcases ih h with ⟨y, hy, hxy, hal⟩ | ⟨y, hy, hxy, hal⟩
    · rcases mem_appendSvc hy with ⟨z, hz, hyz, hal2⟩ | hya
      · exact Or.inl ⟨z, hz, hxy.trans hyz, hal.trans hal2⟩
      · exact Or.inr ⟨a, List.mem_cons_self, hya ▸ hxy, hya ▸ hal⟩
    · exact Or.inr ⟨y, List.mem_cons_of_mem _ hy, hxy, hal⟩

/-- hostnames are never lost by `appendSidecarServices`, and the appended hostname is present -/
theorem hostname_appendSvc (acc : List Svc) (s : Svc) :
    (∃ x ∈ appendSvc acc s, x.hostname = s.hostname) ∧
    (∀ y ∈ acc, ∃ x ∈ appendSvc acc s, x.hostname = y.hostname) := by
  have hrep : ∀ (n : Svc), n.hostname = s.hostname → ∀ y ∈ acc, ∃ x ∈ replaceHost acc n, x.hostname = y.hostname := by
    intro n hn y hy
    simp only [replaceHost, List.mem_map]
    by_cases hh : (y.hostname == n.hostname) = true
    · exact ⟨n, ⟨y, hy, by simp [hh]⟩, by rw [beq_iff_eq] at hh; exact hh.symm⟩
    · exact ⟨y, ⟨y, hy, by simp [hh]⟩, rfl⟩
  unfold appendSvc
  cases hf : acc.find? (·.hostname == s.hostname) with
  | none =>
    simp only
    exact ⟨⟨s, by simp, rfl⟩, fun y hy => ⟨y, by simp [hy], rfl⟩⟩
  | some ex =>
    have hex := List.mem_of_find?_eq_some hf
    have hexh : ex.hostname = s.hostname := by simpa using List.find?_some hf
    simp only
    have keep : (∃ x ∈ acc, x.hostname = s.hostname) ∧ (∀ y ∈ acc, ∃ x ∈ acc, x.hostname = y.hostname) :=
      ⟨⟨ex, hex, hexh⟩, fun y hy => ⟨y, hy, rfl⟩⟩
    split
    · exact keep
    · split
      · refine ⟨?_, hrep s rfl⟩
        obtain ⟨x, hx, hxh⟩ := hrep s rfl ex hex
        exact ⟨x, hx, hxh.trans hexh⟩
      · split
        · exact keep
        · split
          · exact keep
          · refine ⟨?_, hrep _ hexh⟩
            obtain ⟨x, hx, hxh⟩ := hrep { ex with ports := mergePorts ex.ports s.ports } hexh ex hex
            exact ⟨x, hx, hxh.trans hexh⟩

theorem hostname_foldl_appendSvc (l acc : List Svc) :
    (∀ y ∈ acc, ∃ x ∈ l.foldl appendSvc acc, x.hostname = y.hostname) ∧
    (∀ y ∈ l, ∃ x ∈ l.foldl appendSvc acc, x.hostname = y.hostname) := by
  induction l generalizing acc with
  | nil => exact ⟨fun y hy => ⟨y, hy, rfl⟩, fun y hy => by simp at hy⟩
  | cons a t ih =>
    rw [List.foldl_cons]
    obtain ⟨h1, h2⟩ := ih (appendSvc acc a)
    obtain ⟨ha, hacc⟩ := hostname_appendSvc acc a
    refine ⟨?_, ?_⟩
    · intro y hy
      obtain ⟨z, hz, hzy⟩ := hacc y hy
      obtain ⟨x, hx, hxz⟩ := h1 z hz
      exact ⟨x, hx, hxz.trans hzy⟩
    · intro y hy
      rcases List.mem_cons.mp hy with hy | hy
      · subst hy
        obtain ⟨z, hz, hzy⟩ := ha
        obtain ⟨x, hx, hxz⟩ := h1 z hz
        exact ⟨x, hx, hxz.trans hzy⟩
      · exact h2 y hy

/-! ### VirtualService destinations -/

theorem mem_byNamespace {svcs : List Svc} {h k : String} {v : Svc} (hm : (k, v) ∈ byNamespace svcs h) :
    lookupHN svcs h k = some v := by
  simp only [byNamespace, List.mem_filterMap] at hm
  obtain ⟨ns, _, hl⟩ := hm
  cases hq : lookupHN svcs h ns with
  | none => simp [hq] at hl
  | some w => simp [hq] at hl; obtain ⟨h1, h2⟩ := hl; subst h1; subst h2; exact hq

theorem minStr_mem {l : List String} {x : String} (h : minStr l = some x) : x ∈ l := by
  induction l generalizing x with
  | nil => simp [minStr] at h
  | cons a t ih =>
    unfold minStr at h
    cases hm : minStr t with
    | none => simp [hm] at h; subst h; exact List.mem_cons_self
    | some b =>
      simp only [hm] at h
      split at h
      · cases h; exact List.mem_cons_of_mem _ (ih hm)
      · cases h; exact List.mem_cons_self

theorem pickFirst_spec {m : Mesh} {byNs : List (String × Svc)} {cfgNs : String}
    (hne : pickFirst m byNs cfgNs ≠ "") :
    ∃ p ∈ byNs, isServiceVisible m p.2 cfgNs = true ∧ p.1 = pickFirst m byNs cfgNs := by
  unfold pickFirst at hne ⊢
  cases hm : minStr ((byNs.filter fun p => isServiceVisible m p.2 cfgNs).map (·.1)) with
  | none => simp [hm] at hne
  | some ns =>
    have := minStr_mem hm
    simp only [List.mem_map, List.mem_filter] at this
    obtain ⟨p, ⟨hp, hv⟩, hk⟩ := this
    exact ⟨p, hp, hv, hk⟩

theorem foldl_bestStep_mem (l : List (String × Svc)) (cur : Option Svc) (r : Svc)
    (h : l.foldl bestStep cur = some r) : cur = some r ∨ ∃ p ∈ l, p.2 = r := by
  induction l generalizing cur with
  | nil => exact Or.inl h
  | cons a t ih =>
    rw [List.foldl_cons] at h
    rcases ih _ h with h1 | ⟨p, hp, hpr⟩
    · cases cur with
      | none => simp [bestStep] at h1; exact Or.inr ⟨a, List.mem_cons_self, h1⟩
      | some c =>
        simp only [bestStep] at h1
        split at h1
        · cases h1; exact Or.inr ⟨a, List.mem_cons_self, rfl⟩
        · exact Or.inl h1
    · exact Or.inr ⟨p, List.mem_cons_of_mem _ hp, hpr⟩

theorem pickBest_spec {m : Mesh} {byNs : List (String × Svc)} {cfgNs : String}
    (hne : pickBest m byNs cfgNs ≠ "") :
    ∃ p ∈ byNs, isServiceVisible m p.2 cfgNs = true ∧ p.2.ns = pickBest m byNs cfgNs := by
  simp only [pickBest] at hne ⊢
  cases hf : (byNs.filter fun p => isServiceVisible m p.2 cfgNs).foldl bestStep none with
  | none => simp [hf] at hne
  | some r =>
    rcases foldl_bestStep_mem _ _ _ hf with h | ⟨p, hp, hpr⟩
    · cases h
    · have := List.mem_filter.mp hp
      exact ⟨p, this.1, this.2, by rw [hpr]⟩

/-- the service a VirtualService destination resolves to is a mesh service with that hostname and,
    on the repaired code (`visGuard`), one that is visible to the proxy's namespace. -/
theorem resolveDest_some {f : Flags} {m : Mesh} {svcs : List Svc} {cfgNs h : String} {s : Svc}
    (hr : resolveDest f m svcs cfgNs h = some s) :
    s ∈ svcs ∧ s.hostname = h ∧ (f.visGuard = true → isServiceVisible m s cfgNs = true) := by
  simp only [resolveDest] at hr
  have fromEntry : ∀ k v, (k, v) ∈ byNamespace svcs h → v ∈ svcs ∧ v.hostname = h ∧ v.ns = k := by
    intro k v hkv; exact lookupHN_mem svcs h k v (mem_byNamespace hkv)
  have elseBranch : (if (byNamespace svcs h).isEmpty then none
        else
          let ns := if f.pickBest then pickBest m (byNamespace svcs h) cfgNs else pickFirst m (byNamespace svcs h) cfgNs
          if ns == "" then none else alookup ns (byNamespace svcs h)) = some s →
      s ∈ svcs ∧ s.hostname = h ∧ (f.visGuard = true → isServiceVisible m s cfgNs = true) := by
    intro hr
    by_cases hemp : (byNamespace svcs h).isEmpty = true
    · simp [hemp] at hr
    · simp only [hemp, if_false, Bool.false_eq_true] at hr
      cases hp : f.pickBest with
      | true =>
        simp only [hp, if_true] at hr
        by_cases hne : (pickBest m (byNamespace svcs h) cfgNs == "") = true
        · simp [hne] at hr
        · simp only [hne, if_false, Bool.false_eq_true] at hr
          have hmem := alookup_mem hr
          obtain ⟨h1, h2, h3⟩ := fromEntry _ s hmem
          refine ⟨h1, h2, fun _ => ?_⟩
          obtain ⟨p, hpm, hpv, hpn⟩ := pickBest_spec (m := m) (byNs := byNamespace svcs h) (cfgNs := cfgNs)
            (by intro he; apply hne; simp [he])
          obtain ⟨_, _, hk⟩ := fromEntry p.1 p.2 hpm
          have : lookupHN svcs h (pickBest m (byNamespace svcs h) cfgNs) = some p.2 := by
            rw [← hpn, hk]; exact mem_byNamespace hpm
          rw [mem_byNamespace hmem] at this
          cases this; exact hpv
      | false =>
        simp only [hp, if_false, Bool.false_eq_true] at hr
        by_cases hne : (pickFirst m (byNamespace svcs h) cfgNs == "") = true
        · simp [hne] at hr
        · simp only [hne, if_false, Bool.false_eq_true] at hr
          have hmem := alookup_mem hr
          obtain ⟨h1, h2, h3⟩ := fromEntry _ s hmem
          refine ⟨h1, h2, fun _ => ?_⟩
          obtain ⟨p, hpm, hpv, hpn⟩ := pickFirst_spec (m := m) (byNs := byNamespace svcs h) (cfgNs := cfgNs)
            (by intro he; apply hne; simp [he])
          have : lookupHN svcs h (pickFirst m (byNamespace svcs h) cfgNs) = some p.2 := by
            rw [← hpn]; exact mem_byNamespace hpm
          rw [mem_byNamespace hmem] at this
          cases this; exact hpv
  cases ha : alookup cfgNs (byNamespace svcs h) with
  | none =>
    simp only [ha, Option.filter] at hr
    exact elseBranch hr
  | some o =>
    simp only [ha, Option.filter] at hr
    by_cases hg : (!f.visGuard || isServiceVisible m o cfgNs) = true
    · simp only [hg, if_true] at hr
      cases hr
      obtain ⟨h1, h2, _⟩ := fromEntry cfgNs s (alookup_mem ha)
      refine ⟨h1, h2, ?_⟩
      intro hgt; simpa [hgt] using hg
    · simp only [hg, if_false, Bool.false_eq_true] at hr
      exact elseBranch hr

/-! ### completeness side -/

theorem alookup_ainsert {α : Type} (k k2 : String) (v : α) (l : List (String × α)) :
    alookup k2 (ainsert k v l) = if k2 = k then some v else alookup k2 l := by
  by_cases h : k2 = k
  · subst h; simp [alookup_ainsert_self]
  · simp [h, alookup_ainsert_ne k k2 v l h]

/-- a host-imported candidate passes the first loop of `selectServices` on a port-unrestricted
    listener, with its core unchanged -/
theorem importOne_of_imports {ps : List PHost} {c : Svc} (h : HostImports ps c.ns c.hostname) :
    ∃ c', importOne ps none c = some c' ∧ c'.core = c.core := by
  obtain ⟨⟨p, hp, hpx, hpk, hps⟩, hno⟩ := h
  simp only [importOne]
  have e1 : exclBy (hcFor ps c.ns) c.hostname = false := by
    cases he : exclBy (hcFor ps c.ns) c.hostname with
    | false => rfl
    | true =>
      obtain ⟨q, hq, hqx, hqk, hqs⟩ := (exclBy_iff ps c.ns c.hostname).mp he
      exact absurd ⟨q, hq, hqx, Or.inl hqk, hqs⟩ hno
  have e2 : exclBy (hcFor ps "*") c.hostname = false := by
    cases he : exclBy (hcFor ps "*") c.hostname with
    | false => rfl
    | true =>
      obtain ⟨q, hq, hqx, hqk, hqs⟩ := (exclBy_iff ps "*" c.hostname).mp he
      exact absurd ⟨q, hq, hqx, Or.inr hqk, hqs⟩ hno
  simp only [e1, e2, Bool.or_self, Bool.false_eq_true, if_false]
  -- a matching host class yields a service with the same core
  have produce : ∀ hc : HostClass, hc.matchesHost c.hostname = true →
      ∃ c', matchingAliasService hc (matchingService hc c none) = some c' ∧ c'.core = c.core := by
    intro hc hm
    simp only [matchingService, hm, if_true, matchingAliasService]
    split
    · exact ⟨c, rfl, rfl⟩
    · exact ⟨_, rfl, rfl⟩
  rcases hpk with hpk | hpk
  · obtain ⟨hc, hh, hm⟩ := (matchesFor_iff ps c.ns c.hostname).mpr ⟨p, hp, hpx, hpk, hps⟩
    obtain ⟨c', hc', hcore⟩ := produce hc hm
    exact ⟨c', by simp [hh, hc'], hcore⟩
  · obtain ⟨hc, hh, hm⟩ := (matchesFor_iff ps "*" c.hostname).mpr ⟨p, hp, hpx, hpk, hps⟩
    obtain ⟨c', hc', hcore⟩ := produce hc hm
    cases hn : hcFor ps c.ns with
    | none => exact ⟨c', by simp [hh, hc'], hcore⟩
    | some hcn =>
      cases hmn : matchingAliasService hcn (matchingService hcn c none) with
      | some r =>
        obtain ⟨x, hx, h1, _, _⟩ := matchingAlias_some hmn
        obtain ⟨_, h3, _, _⟩ := matchingService_some hx
        exact ⟨r, by simp [hmn], h1.trans h3⟩
      | none => exact ⟨c', by simp [hmn, hh, hc'], hcore⟩

/-- the unified tie-break map after processing `l`: every processed hostname has an entry, and every
    entry names the namespace of a processed service with that hostname -/
theorem validU_inv (cfgNs : String) (l pre : List Svc) (acc : List (String × NP))
    (h1 : ∀ h np, alookup h acc = some np → ∃ s ∈ pre, s.hostname = h ∧ s.ns = np.ns)
    (h2 : ∀ s ∈ pre, ∃ np, alookup s.hostname acc = some np) :
    (∀ h np, alookup h (l.foldl (validStepU cfgNs) acc) = some np → ∃ s ∈ pre ++ l, s.hostname = h ∧ s.ns = np.ns) ∧
    (∀ s ∈ pre ++ l, ∃ np, alookup s.hostname (l.foldl (validStepU cfgNs) acc) = some np) := by
  induction l generalizing pre acc with
  | nil => simpa using ⟨h1, h2⟩
  | cons a t ih =>
    rw [List.foldl_cons]
    have := ih (pre ++ [a]) (validStepU cfgNs acc a) ?_ ?_
    · simpa using this
    · -- entries
      intro h np hl
      have ins : ∀ v : NP, v.ns = a.ns → alookup h (ainsert a.hostname v acc) = some np →
          ∃ s ∈ pre ++ [a], s.hostname = h ∧ s.ns = np.ns := by
        intro v hv hl
        rw [alookup_ainsert] at hl
        split at hl
        · rename_i hh; cases hl; exact ⟨a, by simp, hh.symm, hv.symm⟩
        · obtain ⟨s, hs, e1, e2⟩ := h1 h np hl; exact ⟨s, by simp [hs], e1, e2⟩
      have keep : alookup h acc = some np → ∃ s ∈ pre ++ [a], s.hostname = h ∧ s.ns = np.ns := by
        intro hl; obtain ⟨s, hs, e1, e2⟩ := h1 h np hl; exact ⟨s, by simp [hs], e1, e2⟩
      unfold validStepU at hl
      cases hex : alookup a.hostname acc with
      | none => simp only [hex] at hl; exact ins _ rfl hl
      | some ex =>
        simp only [hex] at hl
        split at hl
        · exact ins _ rfl hl
        · split at hl
          · exact ins _ rfl hl
          · exact keep hl
    · -- coverage
      intro s hs
      have cover : ∀ acc' : List (String × NP), (∀ k : String, (∃ np : NP, alookup k acc = some np) → ∃ np : NP, alookup k acc' = some np) →
          (∃ np : NP, alookup a.hostname acc' = some np) → ∃ np : NP, alookup s.hostname acc' = some np := by
        intro acc' hmono ha
        rcases List.mem_append.mp hs with hs | hs
        · exact hmono _ (h2 s hs)
        · simp at hs; subst hs; exact ha
      have insMono : ∀ v : NP, ∀ k : String, (∃ np : NP, alookup k acc = some np) → ∃ np : NP, alookup k (ainsert a.hostname v acc) = some np := by
        intro v k ⟨np, hk⟩
        rw [alookup_ainsert]; split
        · exact ⟨v, rfl⟩
        · exact ⟨np, hk⟩
      unfold validStepU
      cases hex : alookup a.hostname acc with
      | none => exact cover _ (insMono _) ⟨_, alookup_ainsert_self _ _ _⟩
      | some ex =>
        simp only
        split
        · exact cover _ (insMono _) ⟨_, alookup_ainsert_self _ _ _⟩
        · split
          · exact cover _ (insMono _) ⟨_, alookup_ainsert_self _ _ _⟩
          · exact cover _ (fun k hk => hk) ⟨ex, hex⟩

theorem validL_inv (cfgNs : String) (l pre : List Svc) (acc : List (String × String))
    (h1 : ∀ h ns, alookup h acc = some ns → ∃ s ∈ pre, s.hostname = h ∧ s.ns = ns)
    (h2 : ∀ s ∈ pre, ∃ ns, alookup s.hostname acc = some ns) :
    (∀ h ns, alookup h (l.foldl (validStepL cfgNs) acc) = some ns → ∃ s ∈ pre ++ l, s.hostname = h ∧ s.ns = ns) ∧
    (∀ s ∈ pre ++ l, ∃ ns, alookup s.hostname (l.foldl (validStepL cfgNs) acc) = some ns) := by
  induction l generalizing pre acc with
  | nil => simpa using ⟨h1, h2⟩
  | cons a t ih =>
    rw [List.foldl_cons]
    have := ih (pre ++ [a]) (validStepL cfgNs acc a) ?_ ?_
    · simpa using this
    · intro h ns hl
      have ins : alookup h (ainsert a.hostname a.ns acc) = some ns →
          ∃ s ∈ pre ++ [a], s.hostname = h ∧ s.ns = ns := by
        intro hl
        rw [alookup_ainsert] at hl
        split at hl
        · rename_i hh; cases hl; exact ⟨a, by simp, hh.symm, rfl⟩
        · obtain ⟨s, hs, e1, e2⟩ := h1 h ns hl; exact ⟨s, by simp [hs], e1, e2⟩
      have keep : alookup h acc = some ns → ∃ s ∈ pre ++ [a], s.hostname = h ∧ s.ns = ns := by
        intro hl; obtain ⟨s, hs, e1, e2⟩ := h1 h ns hl; exact ⟨s, by simp [hs], e1, e2⟩
      unfold validStepL at hl
      cases hex : alookup a.hostname acc with
      | none => simp only [hex] at hl; exact ins hl
      | some ex =>
        simp only [hex] at hl
        split at hl
        · exact ins hl
        · exact keep hl
    · intro s hs
      have cover : ∀ acc' : List (String × String), (∀ k : String, (∃ ns : String, alookup k acc = some ns) → ∃ ns : String, alookup k acc' = some ns) →
          (∃ ns : String, alookup a.hostname acc' = some ns) → ∃ ns : String, alookup s.hostname acc' = some ns := by
        intro acc' hmono ha
        rcases List.mem_append.mp hs with hs | hs
        · exact hmono _ (h2 s hs)
        · simp at hs; subst hs; exact ha
      have insMono : ∀ k : String, (∃ ns : String, alookup k acc = some ns) → ∃ ns : String, alookup k (ainsert a.hostname a.ns acc) = some ns := by
        intro k ⟨ns, hk⟩
        rw [alookup_ainsert]; split
        · exact ⟨a.ns, rfl⟩
        · exact ⟨ns, hk⟩
      unfold validStepL
      cases hex : alookup a.hostname acc with
      | none => exact cover _ insMono ⟨_, alookup_ainsert_self _ _ _⟩
      | some ex =>
        simp only
        split
        · exact cover _ insMono ⟨_, alookup_ainsert_self _ _ _⟩
        · exact cover _ (fun k hk => hk) ⟨ex, hex⟩

/-- the tie-break of `selectServices` never loses a hostname: for every imported candidate some
    service with the same hostname survives (both `UnifiedSidecarScoping` branches) -/
theorem selectServices_keeps_hostname {unified : Bool} {cfgNs : String} {ps : List PHost} {mp : Option Nat}
    {cands : List Svc} {c c' : Svc} (hc : c ∈ cands) (hi : importOne ps mp c = some c') :
    ∃ w ∈ selectServices unified cfgNs ps mp cands, w.hostname = c'.hostname := by
  have hmem : c' ∈ cands.filterMap (importOne ps mp) := List.mem_filterMap.mpr ⟨c, hc, hi⟩
  simp only [selectServices]
  cases unified with
  | true =>
    simp only [if_true]
    obtain ⟨h1, h2⟩ := validU_inv cfgNs (cands.filterMap (importOne ps mp)) [] [] (by simp [alookup]) (by simp)
    simp only [List.nil_append] at h1 h2
    obtain ⟨np, hnp⟩ := h2 c' hmem
    obtain ⟨s, hs, e1, e2⟩ := h1 _ np hnp
    refine ⟨s, List.mem_filter.mpr ⟨hs, ?_⟩, e1⟩
    rw [e1, hnp]; simp [e2]
  | false =>
    simp only [Bool.false_eq_true, if_false]
    obtain ⟨h1, h2⟩ := validL_inv cfgNs (cands.filterMap (importOne ps mp)) [] [] (by simp [alookup]) (by simp)
    simp only [List.nil_append] at h1 h2
    obtain ⟨ns, hnp⟩ := h2 c' hmem
    obtain ⟨s, hs, e1, e2⟩ := h1 _ ns hnp
    refine ⟨s, List.mem_filter.mpr ⟨hs, ?_⟩, e1⟩
    rw [e1, hnp]; simp [e2]

/-- every hostname of `a` is a hostname of `b` -/
def HostsLE (a b : List Svc) : Prop := ∀ y ∈ a, ∃ x ∈ b, x.hostname = y.hostname

theorem HostsLE.refl (a : List Svc) : HostsLE a a := fun y hy => ⟨y, hy, rfl⟩

theorem HostsLE.trans {a b c : List Svc} (h1 : HostsLE a b) (h2 : HostsLE b c) : HostsLE a c := by
  intro y hy
  obtain ⟨x, hx, hxy⟩ := h1 y hy
  obtain ⟨z, hz, hzx⟩ := h2 x hx
  exact ⟨z, hz, hzx.trans hxy⟩

theorem hostsLE_appendSvc (acc : List Svc) (s : Svc) : HostsLE acc (appendSvc acc s) :=
  (hostname_appendSvc acc s).2

theorem hostsLE_foldl {α : Type} (g : List Svc → α → List Svc) (hg : ∀ a x, HostsLE a (g a x))
    (l : List α) (acc : List Svc) : HostsLE acc (l.foldl g acc) := by
  induction l generalizing acc with
  | nil => exact HostsLE.refl _
  | cons a t ih => rw [List.foldl_cons]; exact (hg acc a).trans (ih _)

theorem hostsLE_addVSDest (f : Flags) (m : Mesh) (svcs : List Svc) (cfgNs : String) (mp : Option Nat)
    (acc : List Svc) (d : String × List Nat) : HostsLE acc (addVSDest f m svcs cfgNs mp acc d) := by
  unfold addVSDest
  cases (resolveDest f m svcs cfgNs d.1).map (trimHiddenAlias f.aliasGuard m svcs cfgNs) with
  | none => exact HostsLE.refl _
  | some s =>
    simp only
    split
    · exact hostsLE_appendSvc _ _
    · exact HostsLE.refl _

/-- a listener step of `collectImportedServices` keeps every hostname already collected and adds
    the hostnames of the listener's own services -/
theorem collectListener_hostnames (f : Flags) (m : Mesh) (svcs : List Svc) (cfgNs : String) (acc : List Svc) (ilw : ILW) :
    HostsLE acc (collectListener f m svcs cfgNs acc ilw) ∧
    HostsLE ilw.services (collectListener f m svcs cfgNs acc ilw) := by
  unfold collectListener
  have hvs : ∀ a : List Svc, HostsLE a (ilw.vss.foldl (fun a v => (vsDestinations v cfgNs).foldl (addVSDestX f m svcs cfgNs ilw.hosts ilw.matchPort) a) a) := by
    intro a
    apply hostsLE_foldl
    intro a' v
    apply hostsLE_foldl
    intro a'' d
    unfold addVSDestX
    split
    · exact HostsLE.refl _
    · exact hostsLE_addVSDest f m svcs cfgNs ilw.matchPort a'' d
  obtain ⟨h1, h2⟩ := hostname_foldl_appendSvc ilw.services acc
  exact ⟨HostsLE.trans h1 (hvs _), HostsLE.trans h2 (hvs _)⟩

theorem collect_hostnames (f : Flags) (m : Mesh) (svcs : List Svc) (cfgNs : String) (ls : List ILW) (acc : List Svc)
    (ilw : ILW) (hi : ilw ∈ ls) :
    HostsLE ilw.services (ls.foldl (collectListener f m svcs cfgNs) acc) := by
  induction ls generalizing acc with
  | nil => simp at hi
  | cons a t ih =>
    rw [List.foldl_cons]
    rcases List.mem_cons.mp hi with hi | hi
    · subst hi
      exact HostsLE.trans (collectListener_hostnames f m svcs cfgNs acc ilw).2
        (hostsLE_foldl _ (fun a x => (collectListener_hostnames f m svcs cfgNs a x).1) t _)
    · exact ih _ hi

/-- an exact, non-excluded egress entry for a host-imported service on the all-exact path -/
theorem exact_entry_of_imports {ps : List PHost} {ns h : String} (hall : allExact ps = true)
    (himp : HostImports ps ns h) :
    ∃ p ∈ ps, p.excluded = false ∧ p.ns = ns ∧ p.name = h ∧ isWild h = false := by
  obtain ⟨⟨p, hp, hpx, hpk, hps⟩, _⟩ := himp
  have := (List.all_eq_true.mp hall) p hp
  simp only [hpx, Bool.false_or, Bool.and_eq_true, Bool.not_eq_true', bne_iff_ne, ne_eq] at this
  obtain ⟨hw, hstar⟩ := this
  have hk : p.ns = ns := by
    rcases hpk with h | h
    · exact h
    · exact absurd h hstar
  have hhw : isWild h = false := by
    cases hq : isWild h with
    | false => rfl
    | true =>
      have := wildcard_not_subset_concrete h.toList p.name.toList hq hw
      unfold subsetOf at hps; rw [this] at hps; cases hps
  exact ⟨p, hp, hpx, hk, ((subsetOf_eq_of_concrete hhw hw).mp hps).symm, hhw⟩

/-- the candidate list of a listener contains, for every visible host-imported mesh service, a
    service with the same hostname and namespace (the service itself on the scan path; the
    `HostnameAndNamespace` entry on the exact-host path of the repaired code). -/
theorem cands_complete {m : Mesh} {svcs : List Svc} {cfgNs : String} {ps : List PHost} {o : Svc}
    (ho : o ∈ svcs) (hv : isServiceVisible m o cfgNs = true) (hwf : ExportWF (serviceExportTo m o))
    (hns : ValidNs cfgNs) (himp : HostImports ps o.ns o.hostname) :
    ∃ c ∈ (if allExact ps then servicesForExactHosts true m svcs cfgNs ps
           else servicesExportedToNamespace m svcs cfgNs), c.hostname = o.hostname ∧ c.ns = o.ns := by
  have hscan : o ∈ servicesExportedToNamespace m svcs cfgNs := exported_complete m svcs cfgNs o ho hv hwf hns
  cases hall : allExact ps with
  | false => exact ⟨o, by simpa using hscan, rfl, rfl⟩
  | true =>
    simp only [if_true, servicesForExactHosts, Bool.true_and]
    split
    · exact ⟨o, hscan, rfl, rfl⟩
    · rename_i hnone
      obtain ⟨p, hp, hpx, hpk, hpn, hw⟩ := exact_entry_of_imports hall himp
      obtain ⟨c, hc⟩ := Option.isSome_iff_exists.mp ((lookupHN_isSome_iff svcs o.hostname o.ns).mpr ⟨o, ho, rfl, rfl⟩)
      obtain ⟨_, hch, hcn⟩ := lookupHN_mem svcs _ _ c hc
      have hlooked : c ∈ exactLookups svcs ps := by
        simp only [exactLookups, List.mem_flatMap]
        refine ⟨o.ns, ?_, ?_⟩
        · simp only [hostKeys, List.mem_eraseDups, List.mem_map]; exact ⟨p, hp, hpk⟩
        · obtain ⟨hc', hh⟩ := hcFor_isSome hp hpk
          simp only [hh, List.mem_filterMap, List.mem_eraseDups]
          refine ⟨o.hostname, ?_, hc⟩
          simp only [HostClass.exact, List.mem_filter, Bool.not_eq_true']
          exact ⟨(hcFor_all hh o.hostname).mpr ⟨p, hp, hpk, hpx, hpn⟩, hw⟩
      have hcv : isServiceVisible m c cfgNs = true := by
        cases hq : isServiceVisible m c cfgNs with
        | true => rfl
        | false =>
          exfalso; apply hnone
          exact List.any_eq_true.mpr ⟨c, hlooked, by simp [hq]⟩
      refine ⟨c, ?_, hch, hcn⟩
      unfold sortServices
      rw [mem_isort, List.mem_filter]
      exact ⟨hlooked, hcv⟩

/-! ### ports -/

theorem mergePorts_sub (ex new : List Port) : ∀ p ∈ ex, p ∈ mergePorts ex new := by
  unfold mergePorts
  induction new generalizing ex with
  | nil => intro p hp; exact hp
  | cons a t ih =>
    intro p hp
    rw [List.foldl_cons]
    apply ih
    split
    · exact hp
    · exact List.mem_append_left _ hp

theorem mergePorts_cover (ex new : List Port) : ∀ p ∈ new, ∃ q ∈ mergePorts ex new, q.num = p.num := by
  unfold mergePorts
  induction new generalizing ex with
  | nil => intro p hp; simp at hp
  | cons a t ih =>
    intro p hp
    rw [List.foldl_cons]
    rcases List.mem_cons.mp hp with hp | hp
    · subst hp
      -- after the step some port with p's number is in the accumulator, and stays
      have hstep : ∃ q ∈ (if ex.any (·.num == p.num) then ex else ex ++ [p]), q.num = p.num := by
        split
        · rename_i h
          obtain ⟨q, hq, hqn⟩ := List.any_eq_true.mp h
          exact ⟨q, hq, by simpa using hqn⟩
        · exact ⟨p, by simp, rfl⟩
      obtain ⟨q, hq, hqn⟩ := hstep
      exact ⟨q, mergePorts_sub _ t q hq, hqn⟩
    · exact ih _ p hp

theorem canMerge_of_core {a b : Svc} (h : a.core = b.core) : canMerge a b = true := by
  have h1 := core_ns h
  have h2 : a.resolution = b.resolution := by have := congrArg Svc.resolution h; exact this
  have h3 := core_k8s h
  have h4 : a.attr = b.attr := by have := congrArg Svc.attr h; exact this
  have h5 : a.exportTo = b.exportTo := by have := congrArg Svc.exportTo h; exact this
  unfold canMerge
  simp [h1, h2, h3, h4, h5, List.all_eq_true]

theorem importOne_none_ports {ps : List PHost} {c s : Svc} (h : importOne ps none c = some s) : s.ports = c.ports := by
  simp only [importOne] at h
  split at h
  · cases h
  · have key : ∀ hc : HostClass, matchingAliasService hc (matchingService hc c none) = some s → s.ports = c.ports := by
      intro hc hm
      obtain ⟨x, hx, _, h2, _⟩ := matchingAlias_some hm
      unfold matchingService at hx
      split at hx
      · simp at hx; subst hx; exact h2
      · cases hx
    cases hns : hcFor ps c.ns with
    | none =>
      simp only [hns] at h
      cases hw : hcFor ps "*" with
      | none => simp [hw] at h
      | some hcw => simp only [hw] at h; exact key hcw h
    | some hcn =>
      simp only [hns] at h
      cases hm : matchingAliasService hcn (matchingService hcn c none) with
      | some r => simp only [hm] at h; cases h; exact key hcn hm
      | none =>
        simp only [hm] at h
        cases hw : hcFor ps "*" with
        | none => simp [hw] at h
        | some hcw => simp only [hw] at h; exact key hcw h

theorem nodup_hostname_eq {acc : List Svc} (h : (acc.map (·.hostname)).Nodup) {a b : Svc}
    (ha : a ∈ acc) (hb : b ∈ acc) (hab : a.hostname = b.hostname) : a = b := by
  induction acc with
  | nil => simp at ha
  | cons x t ih =>
    simp only [List.map_cons, List.nodup_cons, List.mem_map, not_exists, not_and] at h
    rcases List.mem_cons.mp ha with ha1 | ha1
    · rcases List.mem_cons.mp hb with hb1 | hb1
      · rw [ha1, hb1]
      · exact absurd (by rw [← hab, ha1]) (h.1 b hb1)
    · rcases List.mem_cons.mp hb with hb1 | hb1
      · exact absurd (by rw [hab, hb1]) (h.1 a ha1)
      · exact ih h.2 ha1 hb1

theorem mem_replaceHost_other {acc : List Svc} {n e : Svc} (he : e ∈ acc) (hne : e.hostname ≠ n.hostname) :
    e ∈ replaceHost acc n := by
  simp only [replaceHost, List.mem_map]
  exact ⟨e, he, by simp [hne]⟩

theorem mem_replaceHost_new {acc : List Svc} {n ex : Svc} (hex : ex ∈ acc) (hh : ex.hostname = n.hostname) :
    n ∈ replaceHost acc n := by
  simp only [replaceHost, List.mem_map]
  exact ⟨ex, hex, by simp [hh]⟩

end IstioModel.C07
