import IstioModel.C07.Vis

/-!
C07 - visibility theorems.

Spec (written from the exportTo API documentation, not from the code):
`Visible m s ns` - the declared exportTo of the service (the mesh default `defaultServiceExportTo`
when unset, `*` when that is unset too) contains `*`, or contains `.` and the service lives in `ns`,
or contains `ns`; `~` exports to nobody; and, when `serviceEntryVisibility.applyToSidecars` is on, the
resolved visibility of the service caps this (NAMESPACE: only the own namespace, NONE: nobody).
-/
namespace IstioModel.C07

/-- declared exportTo, or the mesh default when unset -/
def declaredExport (m : Mesh) (s : Svc) : List String :=
  if s.exportTo = [] then (match m.defSvc with | none => ["*"] | some l => l) else s.exportTo

/-- an export list `e` of an object living in `own` exports it to namespace `ns` -/
def ExportsTo (e : List String) (own ns : String) : Prop :=
  "*" ∈ e ∨ ("." ∈ e ∧ own = ns) ∨ ns ∈ e

/-- the cap of `serviceEntryVisibility` -/
def CapAllows (m : Mesh) (s : Svc) (ns : String) : Prop :=
  m.applyToSidecars = true → (s.vis = .ns → ns = s.ns) ∧ s.vis ≠ .none

/-- **the specification of service visibility** -/
def Visible (m : Mesh) (s : Svc) (ns : String) : Prop :=
  ExportsTo (declaredExport m s) s.ns ns ∧ CapAllows m s ns

/-- names that can be a proxy's namespace (`.` and `~` are exportTo keywords) -/
def ValidNs (ns : String) : Prop := ns ≠ "." ∧ ns ≠ "~"

theorem isSingletonOf_iff (e : List String) (x : String) :
    isSingletonOf e x = true ↔ (e ≠ [] ∧ ∀ y ∈ e, y = x) := by
  unfold isSingletonOf
  cases e <;> simp

private theorem declared_eq (m : Mesh) (s : Svc) :
    (if s.exportTo.isEmpty then defaultExport m.defSvc else s.exportTo) = declaredExport m s := by
  unfold declaredExport defaultExport
  cases h : s.exportTo <;> simp <;> cases m.defSvc <;> rfl

/-- **visible_iff**: `IsServiceVisible` decides exactly the documented visibility, for every mesh
    default, every exportTo form (including the mixtures validation rejects) and every cap. -/
theorem visible_iff (m : Mesh) (s : Svc) (ns : String) (hns : ValidNs ns) :
    isServiceVisible m s ns = true ↔ Visible m s ns := by
  obtain ⟨hdot, htil⟩ := hns
  unfold isServiceVisible serviceExportTo Visible ExportsTo CapAllows
  simp only [declared_eq]
  generalize declaredExport m s = e
  by_cases hs : isSingletonOf e "~" = true
  · -- the user asked for `~` only: nobody
    have hs' := (isSingletonOf_iff e "~").mp hs
    have h1 : "*" ∉ e := fun h => by have := hs'.2 _ h; simp at this
    have h2 : "." ∉ e := fun h => by have := hs'.2 _ h; simp at this
    have h3 : ns ∉ e := fun h => htil (hs'.2 _ h)
    simp [hs, h1, h2, h3]
  · simp only [hs, if_false, Bool.false_eq_true]
    cases ha : m.applyToSidecars
    · simp [or_assoc]
    · cases hv : s.vis
      · simp [or_assoc]
      · -- NAMESPACE cap
        by_cases hown : (e.contains "*" || e.contains "." || e.contains s.ns) = true
        · simp only [hown, if_true]
          simp only [Bool.or_eq_true, List.contains_iff_mem] at hown
          have : ns ≠ "." := hdot
          simp [this]
          constructor
          · intro h; subst h
            refine ⟨?_, rfl⟩
            rcases hown with (h | h) | h
            · exact Or.inl h
            · exact Or.inr (Or.inl ⟨h, rfl⟩)
            · exact Or.inr (Or.inr h)
          · rintro ⟨_, h⟩; exact h.symm
        · simp only [hown, if_false, Bool.false_eq_true]
          simp only [Bool.or_eq_true, List.contains_iff_mem, not_or] at hown
          have : ns ≠ "~" := htil
          simp [this]
          rintro h1 rfl
          rcases h1 with h | h | h
          · exact hown.1.1 h
          · exact hown.1.2 h.1
          · exact hown.2 h
      · -- NONE cap
        have : ns ≠ "~" := htil
        simp [this]

/-- every candidate of the scan path is a service of the mesh that `IsServiceVisible` accepts. -/
theorem exported_sound (m : Mesh) (svcs : List Svc) (ns : String) (s : Svc)
    (h : s ∈ servicesExportedToNamespace m svcs ns) :
    s ∈ svcs ∧ isServiceVisible m s ns = true := by
  unfold servicesExportedToNamespace exportedToNamespace publicServices exportKeys at h
  unfold isServiceVisible
  simp only [List.mem_append, List.mem_filter, Bool.and_eq_true, Bool.not_eq_true',
    List.contains_iff_mem, List.mem_map] at h
  rcases h with ⟨hs, ⟨_, _⟩, ⟨x, hx, hxe⟩⟩ | ⟨hs, hp⟩
  · refine ⟨hs, ?_⟩
    simp only [Bool.or_eq_true, Bool.and_eq_true, List.contains_iff_mem, beq_iff_eq]
    by_cases hd : x = "."
    · subst hd; simp at hxe; exact Or.inl (Or.inr ⟨hx, hxe⟩)
    · simp [hd] at hxe; subst hxe; exact Or.inr hx
  · exact ⟨hs, by simp [hp]⟩

/-- an effective export set is well formed when `~` does not stand next to a namespace or `.`
    (validation enforces this for ServiceEntry; `*` wins over `~` in every path). -/
def ExportWF (e : List String) : Prop := "~" ∈ e → "*" ∈ e

/-- every visible service of the mesh is a candidate of the scan path, provided its export set is
    well formed. -/
theorem exported_complete (m : Mesh) (svcs : List Svc) (ns : String) (s : Svc)
    (hs : s ∈ svcs) (hv : isServiceVisible m s ns = true) (hwf : ExportWF (serviceExportTo m s))
    (hns : ValidNs ns) :
    s ∈ servicesExportedToNamespace m svcs ns := by
  unfold servicesExportedToNamespace exportedToNamespace publicServices exportKeys
  unfold isServiceVisible at hv
  unfold ExportWF at hwf
  simp only [List.mem_append, List.mem_filter, Bool.and_eq_true, Bool.not_eq_true',
    List.contains_iff_mem, List.mem_map]
  simp only [Bool.or_eq_true, Bool.and_eq_true, List.contains_iff_mem, beq_iff_eq] at hv
  by_cases hp : "*" ∈ serviceExportTo m s
  · exact Or.inr ⟨hs, hp⟩
  · left
    have hnt : "~" ∉ serviceExportTo m s := fun h => hp (hwf h)
    refine ⟨hs, ⟨by simpa using hp, by simpa using hnt⟩, ?_⟩
    rcases hv with (h | ⟨h, he⟩) | h
    · exact absurd h hp
    · exact ⟨".", h, by simp [he]⟩
    · exact ⟨ns, h, by simp [hns.1]⟩

/-- The hypothesis of `exported_complete` is needed: with exportTo `[~, ns1]` (a form validation
    rejects for ServiceEntry but that a Kubernetes `networking.istio.io/exportTo` annotation can
    carry) `IsServiceVisible` says yes for `ns1` while the scan index hides the service. The two
    real paths disagree on such a set; both answers are "sound" for the property (the service is
    exported to ns1 by one reading, to nobody by the other). -/
theorem exported_mixed_none_witness :
    let m : Mesh := {}
    let s : Svc := { (default : Svc) with id := "s0", hostname := "a.com", ns := "ns2", exportTo := ["~", "ns1"] }
    isServiceVisible m s "ns1" = true ∧ s ∉ servicesExportedToNamespace m [s] "ns1" := by decide

/-- a service is listed at most once among the scan-path candidates. -/
theorem exported_nodup (m : Mesh) (svcs : List Svc) (ns : String) (h : svcs.Nodup) :
    (servicesExportedToNamespace m svcs ns).Nodup := by
  unfold servicesExportedToNamespace exportedToNamespace publicServices
  rw [List.nodup_append]
  refine ⟨h.filter _, h.filter _, ?_⟩
  intro a ha b hb hab
  subst hab
  simp only [List.mem_filter, Bool.and_eq_true, Bool.not_eq_true'] at ha hb
  have h1 := ha.2.1.1
  rw [hb.2] at h1
  exact absurd h1 (by simp)

/-- the scan-path candidates keep creation order inside each of the two blocks
    (explicitly exported first, public second). -/
theorem exported_blocks_sublist (m : Mesh) (svcs : List Svc) (ns : String) :
    (exportedToNamespace m svcs ns).Sublist svcs ∧ (publicServices m svcs).Sublist svcs :=
  ⟨List.filter_sublist, List.filter_sublist⟩

/-! ### `HostnameAndNamespace` -/

private theorem foldl_hnStep_some (l : List Svc) (a : Svc) :
    ∃ r, l.foldl hnStep (some a) = some r ∧ (r = a ∨ r ∈ l) ∧ (a.k8s = true → r = a) := by
  induction l generalizing a with
  | nil => exact ⟨a, rfl, Or.inl rfl, fun _ => rfl⟩
  | cons b t ih =>
    simp only [List.foldl_cons, hnStep]
    by_cases hc : (!a.k8s && b.k8s) = true
    · simp only [hc, if_true]
      obtain ⟨r, hr, hm, _⟩ := ih b
      refine ⟨r, hr, ?_, ?_⟩
      · rcases hm with h | h
        · exact Or.inr (h ▸ List.mem_cons_self)
        · exact Or.inr (List.mem_cons_of_mem _ h)
      · intro hk; simp [hk] at hc
    · simp only [hc, if_false, Bool.false_eq_true]
      obtain ⟨r, hr, hm, hk⟩ := ih a
      refine ⟨r, hr, ?_, hk⟩
      rcases hm with h | h
      · exact Or.inl h
      · exact Or.inr (List.mem_cons_of_mem _ h)

/-- the indexed service for `(h, ns)` is a service of the mesh with that hostname and namespace. -/
theorem lookupHN_mem (svcs : List Svc) (h ns : String) (s : Svc) (hl : lookupHN svcs h ns = some s) :
    s ∈ svcs ∧ s.hostname = h ∧ s.ns = ns := by
  unfold lookupHN at hl
  generalize hf : (svcs.filter fun s => s.hostname == h && s.ns == ns) = l at hl
  have hmem : ∀ x ∈ l, x ∈ svcs ∧ x.hostname = h ∧ x.ns = ns := by
    intro x hx; rw [← hf] at hx
    simpa [List.mem_filter] using hx
  cases l with
  | nil => simp at hl
  | cons a t =>
    simp only [List.foldl_cons, hnStep] at hl
    obtain ⟨r, hr, hm, _⟩ := foldl_hnStep_some t a
    rw [hr] at hl
    have hrs : r = s := Option.some.inj hl
    subst hrs
    rcases hm with h1 | h1
    · exact h1 ▸ hmem a List.mem_cons_self
    · exact hmem r (List.mem_cons_of_mem _ h1)

/-- the index has an entry for `(h, ns)` exactly when some service has that hostname and namespace. -/
theorem lookupHN_isSome_iff (svcs : List Svc) (h ns : String) :
    (lookupHN svcs h ns).isSome = true ↔ ∃ s ∈ svcs, s.hostname = h ∧ s.ns = ns := by
  constructor
  · intro hi
    obtain ⟨s, hs⟩ := Option.isSome_iff_exists.mp hi
    exact ⟨s, lookupHN_mem svcs h ns s hs⟩
  · rintro ⟨s, hs, hh, hn⟩
    unfold lookupHN
    have : s ∈ svcs.filter fun s => s.hostname == h && s.ns == ns := by
      simp [List.mem_filter, hs, hh, hn]
    cases hl : (svcs.filter fun s => s.hostname == h && s.ns == ns) with
    | nil => rw [hl] at this; simp at this
    | cons a t =>
      simp only [List.foldl_cons, hnStep]
      obtain ⟨r, hr, _, _⟩ := foldl_hnStep_some t a
      simp [hr]

/-- when all services are distinct on (hostname, namespace) the index entry is that service. -/
theorem lookupHN_of_unique (svcs : List Svc) (s : Svc) (hs : s ∈ svcs)
    (huniq : ∀ x ∈ svcs, x.hostname = s.hostname → x.ns = s.ns → x = s) :
    lookupHN svcs s.hostname s.ns = some s := by
  have hi := (lookupHN_isSome_iff svcs s.hostname s.ns).mpr ⟨s, hs, rfl, rfl⟩
  obtain ⟨r, hr⟩ := Option.isSome_iff_exists.mp hi
  obtain ⟨h1, h2, h3⟩ := lookupHN_mem svcs _ _ r hr
  rw [hr, huniq r h1 h2 h3]

/-! ### `serviceentry_visibility.go` -/

/-- **visibilityFor_spec**: the visibility resolved for a namespace is that of the FIRST policy all of
    whose rules match the namespace labels, and the default when no policy matches (an unset
    configuration is Public). -/
theorem visibilityFor_spec (s : Sev) (nsl : List (String × String)) (v : SEVis) :
    visibilityFor (some s) nsl = v ↔
      (∃ pre p post, s.policies = pre ++ p :: post ∧ (∀ q ∈ pre, sevPolicyMatches nsl q = false) ∧
        sevPolicyMatches nsl p = true ∧ p.vis = v) ∨
      ((∀ q ∈ s.policies, sevPolicyMatches nsl q = false) ∧ s.dflt = v) := by
  simp only [visibilityFor]
  cases hf : s.policies.find? (sevPolicyMatches nsl) with
  | some p =>
    simp only
    obtain ⟨hp, pre, post, heq, hpre⟩ := List.find?_eq_some_iff_append.mp hf
    constructor
    · intro hv
      exact Or.inl ⟨pre, p, post, heq, fun q hq => by simpa using hpre q hq, hp, hv⟩
    · rintro (⟨pre', p', post', heq', hpre', hp', hv⟩ | ⟨hall, _⟩)
      · -- the first matching policy is unique
        have : List.find? (sevPolicyMatches nsl) s.policies = some p' := by
          rw [heq']
          exact List.find?_eq_some_iff_append.mpr ⟨hp', pre', post', rfl, fun q hq => by simp [hpre' q hq]⟩
        rw [hf] at this; cases this; exact hv
      · have hm : p ∈ s.policies := List.mem_of_find?_eq_some hf
        rw [hall p hm] at hp; cases hp
  | none =>
    simp only
    have hall : ∀ q ∈ s.policies, sevPolicyMatches nsl q = false := by
      intro q hq; simpa using List.find?_eq_none.mp hf q hq
    constructor
    · intro hv; exact Or.inr ⟨hall, hv⟩
    · rintro (⟨pre, p, post, heq, _, hp, _⟩ | ⟨_, hv⟩)
      · have : p ∈ s.policies := by rw [heq]; simp
        rw [hall p this] at hp; cases hp
      · exact hv

theorem visibilityFor_unset (nsl : List (String × String)) : visibilityFor none nsl = .pub := rfl

/-- all rules of a policy must match (AND), an empty rule list is a catch-all, a rule without a
    usable namespace selector never matches -/
example : sevPolicyMatches [("team", "a")] { vis := .ns, rules := [some { labels := [("team", "a")] }, some { labels := [("env", "b")] }] } = false ∧
    sevPolicyMatches [("team", "a")] { vis := .ns, rules := [some { labels := [("team", "a")] }, some {}] } = true ∧
    sevPolicyMatches [("team", "a")] { vis := .ns, rules := [] } = true ∧
    sevPolicyMatches [("team", "a")] { vis := .ns, rules := [none] } = false ∧
    sevPolicyMatches [("team", "a")] { vis := .ns, rules := [some { exprs := [{ key := "env", op := .notIn, values := ["a"] }] }] } = true ∧
    sevPolicyMatches [("team", "a")] { vis := .ns, rules := [some { exprs := [{ key := "team", op := .isIn, values := ["b"] }] }] } = false := by decide

/-! ### non-vacuity / corners -/

/-- `.` is not `*`: a private service is visible in its namespace only. -/
example : let s : Svc := { (default : Svc) with ns := "ns1", exportTo := ["."] }
    isServiceVisible {} s "ns1" = true ∧ isServiceVisible {} s "ns2" = false := by decide

/-- unset exportTo follows the mesh default (here `.`), and `*` when that is unset too. -/
example : let s : Svc := { (default : Svc) with ns := "ns1" }
    isServiceVisible { defSvc := some ["."] } s "ns2" = false ∧ isServiceVisible {} s "ns2" = true ∧
    isServiceVisible { defSvc := some [] } s "ns1" = false := by decide

/-- the NAMESPACE cap turns a public ServiceEntry into a namespace-local one. -/
example : let s : Svc := { (default : Svc) with ns := "ns1", exportTo := ["*"], vis := .ns }
    isServiceVisible { applyToSidecars := true } s "ns2" = false ∧
    isServiceVisible { applyToSidecars := true } s "ns1" = true ∧
    isServiceVisible {} s "ns2" = true := by decide

end IstioModel.C07
