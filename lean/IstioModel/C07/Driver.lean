import IstioModel.Common.Wire
import IstioModel.C07.Host
import IstioModel.C07.Vis
import IstioModel.C07.Scope
import IstioModel.C07.DR
import IstioModel.C07.Validate
import IstioModel.C07.Xds

/-! Line-protocol driver for C07 (streams `host`, `vis`, `scope`). See harness/c07. -/
namespace IstioModel.C07
open IstioModel.Wire

/-- sorted, de-duplicated (for Go sets / map keys) -/
def sortDedup (l : List String) : List String :=
  let s := l.mergeSort (fun a b => !(b < a))
  s.foldr (fun x acc => match acc with
    | y :: _ => if x = y then acc else x :: acc
    | [] => [x]) []

def encSet (l : List String) : String := encList (sortDedup l)

def decItems (t : String) (sep : String) : List String :=
  if t == "-" then [] else (t.splitOn sep).map dec

def decOptList (t : String) : Option (List String) :=
  if t == "nil" then none else some (decItems t ",")

def cut (t sep : String) : String × String :=
  match t.splitOn sep with
  | a :: rest => (a, sep.intercalate rest)
  | [] => (t, "")

def decPorts (t : String) : List Port :=
  if t == "-" then [] else (t.splitOn ",").map fun it =>
    let (a, b) := cut it "|"
    { num := a.toNat!, name := dec b }

def decAliases (t : String) : List (String × String) :=
  if t == "-" then [] else (t.splitOn ",").map fun it =>
    let (a, b) := cut it "|"
    (dec a, dec b)

def flagOf (toks : List String) (key : String) (dflt : Bool) : Bool :=
  match toks.find? (fun t => t.startsWith (key ++ "=")) with
  | some t => t == key ++ "=1"
  | none => dflt

structure DState where
  unified : Bool := true
  pickBest : Bool := true
  enhanced : Bool := true
  visGuard : Bool := true     -- F=0 replays the behaviour before the `fix:` commit (F7)
  exactGuard : Bool := true   -- X=0 replays the behaviour before the `fix:` commit (F10)
  aliasGuard : Bool := true   -- A=0 replays the behaviour before the `fix:` commit (F11)
  drGuard : Bool := true      -- D=0 replays the behaviour before the `fix:` commit (F12, mesh default DR export)
  sev : Option Sev := none    -- MeshConfig.serviceEntryVisibility (policies)
  nsLabels : List (String × List (String × String)) := []
  autoVis : List String := []  -- ids of the services whose visibility the policies resolve
  ses : List (String × List String × Option (List String)) := []   -- stream `sev`: ServiceEntries (namespace, hosts)
  mesh : Mesh := {}
  raw : List Svc := []        -- as declared
  built : Bool := false
  svcs : List Svc := []       -- creation-ordered (after `build`)
  vssRaw : List VS := []
  vss : List VS := []         -- creation-ordered (after `build`)
  drs : List DR := []
  drIdx : DRIndex := {}
  scs : List Sidecar := []
  defaultNs : List String := []   -- namespaces whose default sidecar scope is cached (sidecarIndex.defaultSidecarsByNamespace)

def hostLine (n m : String) : String :=
  " ".intercalate [boolTok (isWild n), boolTok (isWild m),
    boolTok (hostMatches n m), boolTok (hostMatches m n),
    boolTok (subsetOf n m), boolTok (subsetOf m n)]

def decDests (t : String) : List Dest :=
  if t == "-" then [] else (t.splitOn "|").map fun it =>
    let (a, b) := cut it "!"
    { host := dec a, port := b.toNat! }

def decHTTP (t : String) : List HttpRoute :=
  if t == "-" then [] else (t.splitOn ";").map fun it =>
    if it.startsWith "@" then
      -- a delegating route without a match: @<namespace or ~>|<name>
      let (a, b) := cut (it.drop 1).toString "|"
      { srcNs := [], dests := [], delegate := some (dec a, dec b) }
    else
      let (a, b) := cut it "^"
      if b.startsWith "@" then
        -- a delegating route with a match: <srcs>^@<namespace or ~>|<name>
        let (x, y) := cut (b.drop 1).toString "|"
        { srcNs := decItems a "|", dests := [], delegate := some (dec x, dec y) }
      else { srcNs := decItems a "|", dests := decDests b }

def decEgress (t : String) : List Listener :=
  if t == "-" then [] else (t.splitOn ";").map fun it =>
    let (a, b) := cut it "^"
    -- port|protocol[|bind]  (a bind / unix domain socket path does not influence the scope)
    let f := a.splitOn "|"
    { port := (f.getD 0 "0").toNat!, httpProxy := dec (f.getD 1 "~") == "HTTP_PROXY",
      proto := dec (f.getD 1 "~"), bind := dec (f.getD 2 "~"), hosts := decItems b "|" }

def decLabels (t : String) : Option (List (String × String)) :=
  if t == "nil" then none
  else if t == "-" then some []
  else some ((t.splitOn "|").map fun it => let (a, b) := cut it "="; (dec a, dec b))

def plus (l : List String) : String := if l.isEmpty then "-" else "+".intercalate l

def showSvc (s : Svc) : String :=
  "|".intercalate [enc s.id, enc s.hostname, enc s.ns, plus (s.ports.map fun p => toString p.num),
    plus (s.aliases.map fun a => enc (a.1 ++ "/" ++ a.2))]

def showSvcs (l : List Svc) (sorted : Bool) : String :=
  let l := if sorted then l.mergeSort (fun a b => !(b.hostname < a.hostname)) else l
  if l.isEmpty then "-" else ",".intercalate (l.map showSvc)

def showVSs (l : List VS) : String :=
  if l.isEmpty then "-" else ",".intercalate (l.map fun v => enc (v.ns ++ "/" ++ v.name))

def numOpt (key : String × String) (t : String) : Option PField :=
  if t == "-" then none else some { val := t.toNat!, owner := key }

def decSubsets (key : String × String) (t : String) : List Subset :=
  if t == "-" then [] else (t.splitOn ",").map fun it =>
    let (a, b) := cut it "~"
    { name := dec a, owner := key, pool := if b == "" then none else some { val := b.toNat!, owner := key } }

/-- n:<bp> | <pool>:<lb>:<plPort>/<plPool>/<plLB>:<bp> -/
def decTP (key : String × String) (t : String) : Option TP × Bool :=
  match t.splitOn ":" with
  | ["n", bp] => (none, bp == "1")
  | [pool, lb, pl, bp] =>
    let portLevel := match pl.splitOn "/" with
      | [pp, ppool, plb] => if pp == "-" then [] else [{ port := pp.toNat!, pool := numOpt key ppool, lb := numOpt key plb : PortTP }]
      | _ => []
    (some { pool := numOpt key pool, lb := numOpt key lb, portLevel := portLevel }, bp == "1")
  | _ => (none, false)

def showPF (f : Option PField) : String := match f with | some x => toString x.val | none => "-"

def showTP (t : Option TP) : String :=
  match t with
  | none => "n"
  | some t => showPF t.pool ++ ":" ++ showPF t.lb ++
      String.join (t.portLevel.map fun pl => ";" ++ toString pl.port ++ "/" ++ showPF pl.pool ++ "/" ++ showPF pl.lb)

def showDRs (l : List (String × List CDR)) : String :=
  if l.isEmpty then "-" else
  let l := l.mergeSort (fun a b => !(b.1 < a.1))
  ",".intercalate (l.map fun (h, cs) =>
    enc h ++ ">" ++ "&".intercalate (cs.map fun c =>
      "+".intercalate (c.frm.map fun f => enc (f.1 ++ "/" ++ f.2)) ++ "/" ++
        plus (c.subsets.map fun sb => enc sb.name ++ (match sb.pool with | some p => "~" ++ toString p.val | none => "")) ++
        "/" ++ showTP c.tp))

def DState.flags (d : DState) : Flags :=
  { unified := d.unified, pickBest := d.pickBest, enhanced := d.enhanced, visGuard := d.visGuard, exactGuard := d.exactGuard, aliasGuard := d.aliasGuard }

def showScope (d : DState) (name : String) (ls : List ILW) (services : List Svc) (cfgNs : String) : String :=
  let lst := ls.map fun l => showSvcs l.services false ++ "/" ++ showVSs l.vss
  " ".intercalate [
    "scope=" ++ enc name,
    "S=" ++ showSvcs services true,
    "L=" ++ ";".intercalate lst,
    "D=" ++ showDRs (selectDestinationRules d.mesh d.drIdx cfgNs services),
    -- `servicesByHostname`: one lookup per hostname of the scope (`servicesByHostname_is_index`)
    "I=" ++ showSvcs ((sortDedup (services.map (·.hostname))).filterMap fun h => services.find? (·.hostname == h)) false]

/-- `Attributes.ExportTo` after conversion: the set of the written entries (serviceentry/conversion.go,
    kube/conversion.go), printed sorted; `nil` = unset -/
def showExportSet (e : Option (List String)) : String :=
  match e with
  | none => "nil"
  | some l => let s := sortDedup (l.map enc); if s.isEmpty then "-" else "+".intercalate s

def decSevVis : String → SEVis
  | "n" => .ns | "x" => .none | _ => .pub   -- "u" (UNSPECIFIED) and "p": Public

def decSelOp : String → SelOp
  | "in" => .isIn | "notin" => .notIn | "ex" => .ex | _ => .nex

def decSevRule (t : String) : SevRule :=
  if t == "?" || t == "!" then none
  else if t == "-" then some {}
  else
    let items := t.splitOn "+"
    let exprs := items.filterMap fun it =>
      match it.splitOn ":" with
      | [k, op, vs] => some { key := dec k, op := decSelOp op, values := if vs == "" then [] else vs.splitOn "." : SelExpr }
      | _ => none
    let labels := items.filterMap fun it =>
      if (it.splitOn ":").length == 3 then none else (let (a, b) := cut it "="; some (dec a, dec b))
    some { labels := labels, exprs := exprs }

def decSev (t : String) : Sev :=
  match t.splitOn ";" with
  | [] => { dflt := .pub, policies := [] }
  | dv :: ps =>
    { dflt := decSevVis dv,
      policies := ps.map fun pt =>
        let (v, rs) := cut pt "^"
        { vis := decSevVis v, rules := if rs == "" then [] else (rs.splitOn "&").map decSevRule } }

def decVis : String → SEVis
  | "n" => .ns | "x" => .none | _ => .pub

/-- outbound cluster names CDS builds from a service list: ExternalName (Alias) services have no
    cluster of their own; the DestinationRule picked for the proxy contributes its subsets -/
def clusterNames (d : DState) (cfgNs : String) (labels : List (String × String)) (services : List Svc) : List String :=
  let drs := selectDestinationRules d.mesh d.drIdx cfgNs services
  (services.filter (·.extName.isNone)).flatMap fun s =>
    let picked := match alookup s.hostname drs with
      | some cs => pickDR cfgNs labels cs none
      | none => none
    s.ports.flatMap fun p =>
      let base := "outbound|" ++ toString p.num ++ "||" ++ s.hostname
      match picked with
      | none => [base ++ "@-"]
      | some c =>
        (base ++ "@" ++ showPF (clusterPool c p.num)) ::
          c.subsets.map fun sub =>
            "outbound|" ++ toString p.num ++ "|" ++ sub.name ++ "|" ++ s.hostname ++ "@" ++ showPF (subsetClusterPool c sub p.num)

/-- the endpoint address the harness registers for a (hostname, namespace) key -/
def keyAddr (raw : List Svc) (h ns : String) : String :=
  let keys := (raw.map fun s => (s.hostname, s.ns)).eraseDups
  match keys.findIdx? (fun k => k.1 == h && k.2 == ns) with
  | some i => "10.9." ++ toString (i / 200) ++ "." ++ toString (i % 200 + 1)
  | none => ""

/-- the `eds` query -/
def edsLine (d : DState) (ns lbl subs : String) : String :=
  -- EDS for outbound|port|[subset]|h of every hostname of the mesh: answered from the scope's service only
  -- (`servicesByHostname`); every key has an unlabelled workload and one labelled version=shared; a subset
  -- (labels version=<its name>) filters only when the DestinationRule the proxy gets for h declares it
  let cfgNs := dec ns
  let labels := (decLabels lbl).getD []
  let sc := pickSidecar d.mesh d.scs cfgNs labels
  let services := scopeServices d.flags d.mesh d.svcs d.vss sc cfgNs
  let drs := selectDestinationRules d.mesh d.drIdx cfgNs services
  let hosts := sortDedup (d.svcs.map (·.hostname))
  let answers := hosts.flatMap fun h =>
    match services.find? (·.hostname == h) with
    | none => []
    | some w =>
      let picked := match alookup w.hostname drs with
        | some cs => pickDR cfgNs labels cs none
        | none => none
      let plain := keyAddr d.raw h w.ns
      let labelled := "10.8." ++ (plain.drop 5).toString
      [80, 81, 8080, 9090, 8443].flatMap fun port =>
        if w.ports.any (·.num == port) then
          ("" :: decItems subs ",").filterMap fun sub =>
            let declared := match picked with
              | some c => sub != "" && c.subsets.any (·.name == sub)
              | none => false
            let addrs :=
              if !declared then some (labelled ++ "+" ++ plain)
              else if sub == "shared" then some labelled
              else none
            addrs.map fun a => h ++ ":" ++ toString port ++ (if sub == "" then "" else ":" ++ sub) ++ "=" ++ a
        else []
  "E=" ++ encList (answers.mergeSort (fun a b => !(b < a)))

def query (d : DState) (toks : List String) : String :=
  match toks with
  | ["exported", ns] => encList ((servicesExportedToNamespace d.mesh d.svcs (dec ns)).map (·.id))
  | ["visible", id, ns] =>
    match d.svcs.find? (·.id == dec id) with
    | none => "no-such-service"
    | some s => boolTok (isServiceVisible d.mesh s (dec ns)) ++ " " ++ encSet (serviceExportTo d.mesh s)
  | ["index", h] =>
    let items := (byNamespace d.svcs (dec h)).map fun (ns, s) => enc ns ++ "=" ++ enc s.id
    let items := items.mergeSort (fun a b => !(b < a))
    if items.isEmpty then "-" else ",".intercalate items
  | ["scope", ns, lbl] =>
    let cfgNs := dec ns
    let labels := (decLabels lbl).getD []
    let sc := pickSidecar d.mesh d.scs cfgNs labels
    let name := match sc with
      | some c => cfgNs ++ "/" ++ c.name
      | none => cfgNs ++ "/default-sidecar"
    let ls := scopeListeners d.flags d.mesh d.svcs d.vss sc cfgNs
    showScope d name ls (collectImportedServices d.flags d.mesh d.svcs cfgNs ls) cfgNs
  | ["xds", ns, lbl] =>
    -- CDS: one outbound cluster per (service of the scope, port), plus the subset clusters
    let cfgNs := dec ns
    let labels := (decLabels lbl).getD []
    let sc := pickSidecar d.mesh d.scs cfgNs labels
    "C=" ++ encSet (clusterNames d cfgNs labels (scopeServices d.flags d.mesh d.svcs d.vss sc cfgNs))
  | ["vsgw", ns, gw] =>
    -- PushContext.VirtualServicesForGateway(ns, gw): the VirtualService selection of a Router
    showVSs (gatewayVirtualServices d.mesh d.vss (dec ns) (dec gw))
  | ["drq", ns, h] =>
    let l := destinationRuleForHost d.mesh d.svcs d.drIdx (dec ns) (dec h)
    if l.isEmpty then "-" else showDRs [(dec h, l)]
  | ["merged"] =>
    -- the merged VirtualServices (delegates folded in): name > destination hosts
    let items := d.vss.map fun v =>
      let hosts := sortDedup ((v.http.flatMap (·.dests)).map (·.host) ++ v.tcp.map (·.host))
      let routes := v.http.map fun r => if r.srcNs.isEmpty then "-" else "|".intercalate (r.srcNs.map enc)
      enc (v.ns ++ "/" ++ v.name) ++ ">" ++ plus (hosts.map enc) ++ ">" ++
        (if routes.isEmpty then "-" else ";".intercalate routes)
    let items := items.mergeSort (fun a b => !(b < a))
    if items.isEmpty then "-" else ",".intercalate items
  | ["xdsgw", ns] =>
    -- CDS of a Router proxy (FilterGatewayClusterConfig off): the clusters of its default scope
    let cfgNs := dec ns
    let services := gatewayScopeServices d.aliasGuard d.mesh d.svcs cfgNs
    "C=" ++ encSet (clusterNames d cfgNs [("istio", "ingressgateway")] services)
  | ["xdsgwf", ns, sc] =>
    -- CDS of a Router proxy with PILOT_FILTER_GATEWAY_CLUSTER_CONFIG on (sc = PILOT_SCOPE_GATEWAY_TO_NAMESPACE):
    -- the harness creates a Gateway `gw1` in every namespace with a VirtualService naming `gw1`
    let cfgNs := dec ns
    let nsScoped := tokBool sc
    let gwNs := (d.vssRaw.filter fun v => v.gateways.contains "gw1").map (·.ns)
    let gateways := ((if nsScoped then gwNs.filter (· == cfgNs) else gwNs).map (· ++ "/gw1")).eraseDups
    let services := gatewayFilteredServices nsScoped d.vss gateways (gatewayScopeServices d.aliasGuard d.mesh d.svcs cfgNs)
    "C=" ++ encSet (clusterNames d cfgNs [("istio", "ingressgateway")] services)
  | ["lds", ns, lbl] =>
    -- the outbound listener names of a sidecar (LDS), without the two virtual listeners
    let cfgNs := dec ns
    let sc := pickSidecar d.mesh d.scs cfgNs ((decLabels lbl).getD [])
    let ls := (egressOf sc).map fun l => (some l, convertListener d.flags d.mesh d.svcs d.vss cfgNs l)
    "L=" ++ encList (sortDedup (ls.flatMap fun (l, ilw) => listenerKeys d.raw l ilw))
  | ["rds", ns, lbl] =>
    -- the virtual host names of the port-named route configurations of a sidecar (RDS)
    let cfgNs := dec ns
    let sc := pickSidecar d.mesh d.scs cfgNs ((decLabels lbl).getD [])
    let ls := (egressOf sc).map fun l => (some l, convertListener d.flags d.mesh d.svcs d.vss cfgNs l)
    let keys := sortDedup (ls.flatMap fun (l, ilw) => listenerKeys d.raw l ilw)
    let ports := (keys.filterMap fun k => if k.startsWith "0.0.0.0_" then (k.drop 8).toString.toNat? else none).eraseDups
    let out := ports.flatMap fun port =>
      match egressForRDS ls port with
      | some (some l, ilw) => if l.httpProxy then [] else (rdsVhostNames cfgNs ilw port).map fun n => toString port ++ ">" ++ n
      | some (none, ilw) => (rdsVhostNames cfgNs ilw port).map fun n => toString port ++ ">" ++ n
      | none => []
    "R=" ++ encList (sortDedup out)
  | ["eds", ns, lbl] => edsLine d ns lbl "-"
  | ["eds", ns, lbl, subs] => edsLine d ns lbl subs
  | ["gw", ns, _w] => query d ["gw", ns]   -- a waypoint proxy gets the gateway default scope as well
  | ["gw", ns] =>
    let cfgNs := dec ns
    -- gateways always use the default scope computed for gateways (/repo 7a798fd: no longer the cached
    -- default scope of the namespace's sidecars)
    let vs := gatewayVirtualServices d.mesh d.vss cfgNs "mesh"
    let services := gatewayScopeServices d.aliasGuard d.mesh d.svcs cfgNs
    showScope d (cfgNs ++ "/default-sidecar") [{ matchPort := none, hosts := [], services := [], vss := vs }] services cfgNs
  | _ => "bad-op"

def mkSvcD (id h ns reg ct name ports ex vis res attr al : String) (x : Option String) : Svc :=
  { id := dec id, hostname := dec h, ns := dec ns, name := dec name, k8s := reg == "k",
    ctime := ct.toNat!, ports := decPorts ports, exportTo := decItems ex ",",
    vis := decVis vis, resolution := res.toNat!, attr := dec attr, aliases := decAliases al, extName := x }

/-- (re)build every index from the declared objects: the answer of a fresh PushContext -/
def rebuild (d : DState) : DState :=
  { d with built := true, defaultNs := [],
           svcs := resolveAliases (sortServices (d.raw.map fun s =>
             if d.autoVis.contains s.id then { s with vis := visibilityFor d.sev ((alookup s.ns d.nsLabels).getD []) } else s)),
           vss := sortVS (mergeVSs d.mesh d.vssRaw),
           drIdx := setDestinationRules d.enhanced d.drGuard d.mesh (d.drs.map resolveDRHost) }

/-- drop the object an `update` / `delete` line names -/
def dropObject (d : DState) (kind name ns : String) : DState :=
  match kind with
  | "dr" => { d with drs := d.drs.filter fun x => !(x.name == name && x.ns == ns) }
  | "sc" => { d with scs := d.scs.filter fun x => !(x.name == name && x.ns == ns) }
  | "vs" => { d with vssRaw := d.vssRaw.filter fun x => !(x.name == name && x.ns == ns) }
  | "svc" => { d with raw := d.raw.filter fun x => x.id != name, autoVis := d.autoVis.filter (· != name) }
  | _ => d

mutual
partial def stepD (d : DState) (toks : List String) : DState × String :=
  match toks with
  | "case" :: rest =>
    ({ unified := flagOf rest "U" true, pickBest := flagOf rest "P" true, enhanced := flagOf rest "E" true,
       visGuard := flagOf rest "F" true, exactGuard := flagOf rest "X" true,
       aliasGuard := flagOf rest "A" true, drGuard := flagOf rest "D" true }, "ok")
  | ["h", n, m] => (d, hostLine (dec n) (dec m))
  | ["ve", kind, ns, l] =>
    -- admission validation of an exportTo list (ServiceEntry / VirtualService / DestinationRule [with selector])
    (d, if validateExportTo (dec ns) (decItems l ",") (kind == "se") (kind == "drsel") then "1" else "0")
  | ["vv", v] => (d, if visibilityValid (dec v) then "1" else "0")
  | ["mesh", root, ds, dv, dd, ap] =>
    ({ d with mesh := { rootNs := dec root, defSvc := decOptList ds, defVS := decOptList dv,
                        defDR := decOptList dd, applyToSidecars := tokBool ap } }, "ok")
  | ["mesh", root, ds, dv, dd, ap, v] =>
    ({ d with mesh := { rootNs := dec root, defSvc := decOptList ds, defVS := decOptList dv,
                        defDR := decOptList dd, applyToSidecars := tokBool ap },
              sev := if v.startsWith "v=" then some (decSev (v.drop 2).toString) else none }, "ok")
  | ["sevcfg", v, _ap] =>
    ({ d with sev := if v.startsWith "v=" then some (decSev (v.drop 2).toString) else none, ses := [], nsLabels := [] }, "ok")
  | ["se", _name, ns, hosts] => ({ d with ses := d.ses ++ [(dec ns, decItems hosts ",", none)] }, "ok")
  | ["se", _name, ns, hosts, exp] =>
    ({ d with ses := d.ses ++ [(dec ns, decItems hosts ",", if exp == "-" then none else some (decItems exp ","))] }, "ok")
  | ["kconv", _ns, ann] =>
    -- kube/conversion.go: the annotation split at commas, every item trimmed, collected into a set ("" = unset)
    let a := dec ann
    (d, if a == "" then "nil" else showExportSet (some ((a.splitOn ",").map fun it => it.trimAscii.toString)))
  | ["sevq"] =>
    -- every service of a ServiceEntry carries the visibility resolved for the namespace of the ServiceEntry
    let items := d.ses.flatMap fun (ns, hosts, exp) =>
      let v := match visibilityFor d.sev ((alookup ns d.nsLabels).getD []) with
        | .pub => "p" | .ns => "n" | .none => "x"
      hosts.map fun h => enc h ++ "|" ++ enc ns ++ "|" ++ v ++ "|" ++ showExportSet exp
    let items := items.mergeSort (fun a b => !(b < a))
    (d, if items.isEmpty then "-" else ",".intercalate items)
  | ["nsl", ns, lbl] => ({ d with nsLabels := d.nsLabels ++ [(dec ns, (decLabels lbl).getD [])] }, "ok")
  | ["svc", id, h, ns, reg, ct, name, ports, ex, vis, res, attr, al] =>
    ({ d with raw := d.raw ++ [mkSvcD id h ns reg ct name ports ex vis res attr al none],
              autoVis := if vis == "a" then dec id :: d.autoVis else d.autoVis }, "ok")
  | ["svc", id, h, ns, reg, ct, name, ports, ex, vis, res, attr, al, x] =>
    if x.startsWith "x=" then
      ({ d with raw := d.raw ++ [mkSvcD id h ns reg ct name ports ex vis res attr al (some (dec (x.drop 2).toString))],
                autoVis := if vis == "a" then dec id :: d.autoVis else d.autoVis }, "ok")
    else (d, "bad-op")
  | ["vs", name, ns, ct, hosts, ex, gws, gwsem, http, tcp] =>
    let v : VS := { name := dec name, ns := dec ns, ctime := ct.toNat!, hosts := decItems hosts ",",
                    exportTo := decItems ex ",", gateways := decItems gws ",", gwSem := tokBool gwsem,
                    http := decHTTP http, tcp := decDests tcp }
    ({ d with vssRaw := d.vssRaw ++ [v] }, "ok")
  | ["dr", name, ns, ct, h, ex, sel, subs, tp] =>
    let key := (dec ns, dec name)
    let (tpv, bp) := decTP key tp
    let r : DR := { name := dec name, ns := dec ns, ctime := ct.toNat!, host := dec h,
                    exportTo := decItems ex ",", selector := sel != "nil", selLabels := (decLabels sel).getD [],
                    subsets := decSubsets key subs, tp := tpv, backend := bp }
    ({ d with drs := d.drs ++ [r] }, "ok")
  | ["sc", name, ns, ct, sel, egress] =>
    let c : Sidecar := { name := dec name, ns := dec ns, ctime := ct.toNat!, selector := decLabels sel,
                         egress := decEgress egress }
    ({ d with scs := d.scs ++ [c] }, "ok")
  | ["build"] => (rebuild d, "ok")
  | "update" :: decl =>
    -- one object changes; an incrementally updated PushContext must answer like a fresh one
    if !d.built then (d, "not-built") else
    match decl with
    | kind :: a :: b :: _ =>
      let d0 := if kind == "svc" then dropObject d kind (dec a) "" else dropObject d kind (dec a) (dec b)
      let (d1, r) := stepD { d0 with built := false } decl
      if r == "ok" then (rebuild d1, "ok") else (d, "bad-op")
    | _ => (d, "bad-op")
  | ["delete", kind, name, ns] =>
    if !d.built then (d, "not-built") else (rebuild (dropObject d kind (dec name) (dec ns)), "ok")
  | [q, ns, lbl] =>
    if q != "scope" && q != "xds" && q != "eds" then (if d.built then (d, query d toks) else (d, "not-built")) else
    if !d.built then (d, "not-built") else
    let cfgNs := dec ns
    let cached := (pickSidecar d.mesh d.scs cfgNs ((decLabels lbl).getD [])).isNone
    ({ d with defaultNs := if cached then cfgNs :: d.defaultNs else d.defaultNs }, query d toks)
  | _ => if d.built then (d, query d toks) else (d, "not-built")
end

end IstioModel.C07
