import IstioModel.Common.Wire
import IstioModel.C07.Host
import IstioModel.C07.Vis
import IstioModel.C07.Scope
import IstioModel.C07.DR

/-! Line-protocol driver for C07 (streams `host`, `vis`, `scope`). See harness/c07. -/
namespace IstioModel.C07
open IstioModel.Wire

/-- sorted, de-duplicated (for Go sets / map keys) -/
def sortDedup (l : List String) : List String :=
  let s := l.mergeSort (fun a b => !(b < a))
  s.foldr (fun x acc => match acc with
    | y :: _ => if x = y then acc else x :: acc
    | [] => [x]) []

def encSet (l : List String) : String := encList (sortDedup l)

def decItems (t : String) (sep : String) : List String :=
  if t == "-" then [] else (t.splitOn sep).map dec

def decOptList (t : String) : Option (List String) :=
  if t == "nil" then none else some (decItems t ",")

def cut (t sep : String) : String × String :=
  match t.splitOn sep with
  | a :: rest => (a, sep.intercalate rest)
  | [] => (t, "")

def decPorts (t : String) : List Port :=
  if t == "-" then [] else (t.splitOn ",").map fun it =>
    let (a, b) := cut it "|"
    { num := a.toNat!, name := dec b }

def decAliases (t : String) : List (String × String) :=
  if t == "-" then [] else (t.splitOn ",").map fun it =>
    let (a, b) := cut it "|"
    (dec a, dec b)

def flagOf (toks : List String) (key : String) (dflt : Bool) : Bool :=
  match toks.find? (fun t => t.startsWith (key ++ "=")) with
  | some t => t == key ++ "=1"
  | none => dflt

structure DState where
  unified : Bool := true
  pickBest : Bool := true
  enhanced : Bool := true
  visGuard : Bool := true     -- F=0 replays the behaviour before the `fix:` commit (F7)
  exactGuard : Bool := true   -- X=0 replays the behaviour before the `fix:` commit (F10)
  aliasGuard : Bool := true   -- A=0 replays the behaviour before the `fix:` commit (F11)
  drGuard : Bool := true      -- D=0 replays the behaviour before the `fix:` commit (F12, mesh default DR export)
  sev : Option Sev := none    -- MeshConfig.serviceEntryVisibility (policies)
  nsLabels : List (String × List (String × String)) := []
  autoVis : List String := []  -- ids of the services whose visibility the policies resolve
  mesh : Mesh := {}
  raw : List Svc := []        -- as declared
  built : Bool := false
  svcs : List Svc := []       -- creation-ordered (after `build`)
  vssRaw : List VS := []
  vss : List VS := []         -- creation-ordered (after `build`)
  drs : List DR := []
  drIdx : DRIndex := {}
  scs : List Sidecar := []
  defaultNs : List String := []   -- namespaces whose default sidecar scope is cached (sidecarIndex.defaultSidecarsByNamespace)

def hostLine (n m : String) : String :=
  " ".intercalate [boolTok (isWild n), boolTok (isWild m),
    boolTok (hostMatches n m), boolTok (hostMatches m n),
    boolTok (subsetOf n m), boolTok (subsetOf m n)]

def decDests (t : String) : List Dest :=
  if t == "-" then [] else (t.splitOn "|").map fun it =>
    let (a, b) := cut it "!"
    { host := dec a, port := b.toNat! }

def decHTTP (t : String) : List HttpRoute :=
  if t == "-" then [] else (t.splitOn ";").map fun it =>
    if it.startsWith "@" then
      -- a delegating route: @<namespace or ~>|<name>
      let (a, b) := cut (it.drop 1).toString "|"
      { srcNs := [], dests := [], delegate := some (dec a, dec b) }
    else
      let (a, b) := cut it "^"
      { srcNs := decItems a "|", dests := decDests b }

def decEgress (t : String) : List Listener :=
  if t == "-" then [] else (t.splitOn ";").map fun it =>
    let (a, b) := cut it "^"
    let (p, pr) := cut a "|"
    { port := p.toNat!, httpProxy := dec pr == "HTTP_PROXY", hosts := decItems b "|" }

def decLabels (t : String) : Option (List (String × String)) :=
  if t == "nil" then none
  else if t == "-" then some []
  else some ((t.splitOn "|").map fun it => let (a, b) := cut it "="; (dec a, dec b))

def plus (l : List String) : String := if l.isEmpty then "-" else "+".intercalate l

def showSvc (s : Svc) : String :=
  "|".intercalate [enc s.id, enc s.hostname, enc s.ns, plus (s.ports.map fun p => toString p.num),
    plus (s.aliases.map fun a => enc (a.1 ++ "/" ++ a.2))]

def showSvcs (l : List Svc) (sorted : Bool) : String :=
  let l := if sorted then l.mergeSort (fun a b => !(b.hostname < a.hostname)) else l
  if l.isEmpty then "-" else ",".intercalate (l.map showSvc)

def showVSs (l : List VS) : String :=
  if l.isEmpty then "-" else ",".intercalate (l.map fun v => enc (v.ns ++ "/" ++ v.name))

def numOpt (key : String × String) (t : String) : Option PField :=
  if t == "-" then none else some { val := t.toNat!, owner := key }

def decSubsets (key : String × String) (t : String) : List Subset :=
  if t == "-" then [] else (t.splitOn ",").map fun it =>
    let (a, b) := cut it "~"
    { name := dec a, owner := key, pool := if b == "" then none else some { val := b.toNat!, owner := key } }

/-- n:<bp> | <pool>:<lb>:<plPort>/<plPool>/<plLB>:<bp> -/
def decTP (key : String × String) (t : String) : Option TP × Bool :=
  match t.splitOn ":" with
  | ["n", bp] => (none, bp == "1")
  | [pool, lb, pl, bp] =>
    let portLevel := match pl.splitOn "/" with
      | [pp, ppool, plb] => if pp == "-" then [] else [{ port := pp.toNat!, pool := numOpt key ppool, lb := numOpt key plb : PortTP }]
      | _ => []
    (some { pool := numOpt key pool, lb := numOpt key lb, portLevel := portLevel }, bp == "1")
  | _ => (none, false)

def showPF (f : Option PField) : String := match f with | some x => toString x.val | none => "-"

def showTP (t : Option TP) : String :=
  match t with
  | none => "n"
  | some t => showPF t.pool ++ ":" ++ showPF t.lb ++
      String.join (t.portLevel.map fun pl => ";" ++ toString pl.port ++ "/" ++ showPF pl.pool ++ "/" ++ showPF pl.lb)

def showDRs (l : List (String × List CDR)) : String :=
  if l.isEmpty then "-" else
  let l := l.mergeSort (fun a b => !(b.1 < a.1))
  ",".intercalate (l.map fun (h, cs) =>
    enc h ++ ">" ++ "&".intercalate (cs.map fun c =>
      "+".intercalate (c.frm.map fun f => enc (f.1 ++ "/" ++ f.2)) ++ "/" ++
        plus (c.subsets.map fun sb => enc sb.name ++ (match sb.pool with | some p => "~" ++ toString p.val | none => "")) ++
        "/" ++ showTP c.tp))

def DState.flags (d : DState) : Flags :=
  { unified := d.unified, pickBest := d.pickBest, enhanced := d.enhanced, visGuard := d.visGuard, exactGuard := d.exactGuard, aliasGuard := d.aliasGuard }

def showScope (d : DState) (name : String) (ls : List ILW) (services : List Svc) (cfgNs : String) : String :=
  let lst := ls.map fun l => showSvcs l.services false ++ "/" ++ showVSs l.vss
  " ".intercalate [
    "scope=" ++ enc name,
    "S=" ++ showSvcs services true,
    "L=" ++ ";".intercalate lst,
    "D=" ++ showDRs (selectDestinationRules d.mesh d.drIdx cfgNs services)]

def decSevVis : String → SEVis
  | "n" => .ns | "x" => .none | _ => .pub   -- "u" (UNSPECIFIED) and "p": Public

def decSevRule (t : String) : SevRule :=
  if t == "?" || t == "!" then none
  else if t == "-" then some []
  else some ((t.splitOn "+").map fun it => let (a, b) := cut it "="; (dec a, dec b))

def decSev (t : String) : Sev :=
  match t.splitOn ";" with
  | [] => { dflt := .pub, policies := [] }
  | dv :: ps =>
    { dflt := decSevVis dv,
      policies := ps.map fun pt =>
        let (v, rs) := cut pt "^"
        { vis := decSevVis v, rules := if rs == "" then [] else (rs.splitOn "&").map decSevRule } }

def decVis : String → SEVis
  | "n" => .ns | "x" => .none | _ => .pub

/-- outbound cluster names CDS builds from a service list: ExternalName (Alias) services have no
    cluster of their own; the DestinationRule picked for the proxy contributes its subsets -/
def clusterNames (d : DState) (cfgNs : String) (labels : List (String × String)) (services : List Svc) : List String :=
  let drs := selectDestinationRules d.mesh d.drIdx cfgNs services
  (services.filter (·.extName.isNone)).flatMap fun s =>
    let picked := match alookup s.hostname drs with
      | some cs => pickDR cfgNs labels cs none
      | none => none
    s.ports.flatMap fun p =>
      let base := "outbound|" ++ toString p.num ++ "||" ++ s.hostname
      match picked with
      | none => [base ++ "@-"]
      | some c =>
        (base ++ "@" ++ showPF (clusterPool c p.num)) ::
          c.subsets.map fun sub =>
            "outbound|" ++ toString p.num ++ "|" ++ sub.name ++ "|" ++ s.hostname ++ "@" ++ showPF (subsetClusterPool c sub p.num)

/-- the endpoint address the harness registers for a (hostname, namespace) key -/
def keyAddr (raw : List Svc) (h ns : String) : String :=
  let keys := (raw.map fun s => (s.hostname, s.ns)).eraseDups
  match keys.findIdx? (fun k => k.1 == h && k.2 == ns) with
  | some i => "10.9." ++ toString (i / 200) ++ "." ++ toString (i % 200 + 1)
  | none => ""

def query (d : DState) (toks : List String) : String :=
  match toks with
  | ["exported", ns] => encList ((servicesExportedToNamespace d.mesh d.svcs (dec ns)).map (·.id))
  | ["visible", id, ns] =>
    match d.svcs.find? (·.id == dec id) with
    | none => "no-such-service"
    | some s => boolTok (isServiceVisible d.mesh s (dec ns)) ++ " " ++ encSet (serviceExportTo d.mesh s)
  | ["index", h] =>
    let items := (byNamespace d.svcs (dec h)).map fun (ns, s) => enc ns ++ "=" ++ enc s.id
    let items := items.mergeSort (fun a b => !(b < a))
    if items.isEmpty then "-" else ",".intercalate items
  | ["scope", ns, lbl] =>
    let cfgNs := dec ns
    let labels := (decLabels lbl).getD []
    let sc := pickSidecar d.mesh d.scs cfgNs labels
    let name := match sc with
      | some c => cfgNs ++ "/" ++ c.name
      | none => cfgNs ++ "/default-sidecar"
    let ls := scopeListeners d.flags d.mesh d.svcs d.vss sc cfgNs
    showScope d name ls (collectImportedServices d.flags d.mesh d.svcs cfgNs ls) cfgNs
  | ["xds", ns, lbl] =>
    -- CDS: one outbound cluster per (service of the scope, port), plus the subset clusters
    let cfgNs := dec ns
    let labels := (decLabels lbl).getD []
    let sc := pickSidecar d.mesh d.scs cfgNs labels
    "C=" ++ encSet (clusterNames d cfgNs labels (scopeServices d.flags d.mesh d.svcs d.vss sc cfgNs))
  | ["vsgw", ns, gw] =>
    -- PushContext.VirtualServicesForGateway(ns, gw): the VirtualService selection of a Router
    showVSs (gatewayVirtualServices d.mesh d.vss (dec ns) (dec gw))
  | ["merged"] =>
    -- the merged VirtualServices (delegates folded in): name > destination hosts
    let items := d.vss.map fun v =>
      let hosts := sortDedup ((v.http.flatMap (·.dests)).map (·.host) ++ v.tcp.map (·.host))
      enc (v.ns ++ "/" ++ v.name) ++ ">" ++ plus (hosts.map enc)
    let items := items.mergeSort (fun a b => !(b < a))
    if items.isEmpty then "-" else ",".intercalate items
  | ["xdsgw", ns] =>
    -- CDS of a Router proxy (FilterGatewayClusterConfig off): the clusters of its default scope
    let cfgNs := dec ns
    let services := gatewayScopeServices d.aliasGuard d.mesh d.svcs cfgNs
    "C=" ++ encSet (clusterNames d cfgNs [("istio", "ingressgateway")] services)
  | ["eds", ns, lbl] =>
    -- EDS for outbound|port||h of every hostname of the mesh: answered from the scope's service only
    let cfgNs := dec ns
    let sc := pickSidecar d.mesh d.scs cfgNs ((decLabels lbl).getD [])
    let services := scopeServices d.flags d.mesh d.svcs d.vss sc cfgNs
    let hosts := sortDedup (d.svcs.map (·.hostname))
    let answers := hosts.flatMap fun h =>
      match services.find? (·.hostname == h) with
      | none => []
      | some w => [80, 81, 8080, 9090, 8443].filterMap fun port =>
          if w.ports.any (·.num == port) then some (h ++ ":" ++ toString port ++ "=" ++ keyAddr d.raw h w.ns) else none
    "E=" ++ encList (answers.mergeSort (fun a b => !(b < a)))
  | ["gw", ns] =>
    let cfgNs := dec ns
    -- gateways always use the default scope computed for gateways (/repo 7a798fd: no longer the cached
    -- default scope of the namespace's sidecars)
    let vs := gatewayVirtualServices d.mesh d.vss cfgNs "mesh"
    let services := gatewayScopeServices d.aliasGuard d.mesh d.svcs cfgNs
    showScope d (cfgNs ++ "/default-sidecar") [{ matchPort := none, hosts := [], services := [], vss := vs }] services cfgNs
  | _ => "bad-op"

def mkSvcD (id h ns reg ct name ports ex vis res attr al : String) (x : Option String) : Svc :=
  { id := dec id, hostname := dec h, ns := dec ns, name := dec name, k8s := reg == "k",
    ctime := ct.toNat!, ports := decPorts ports, exportTo := decItems ex ",",
    vis := decVis vis, resolution := res.toNat!, attr := dec attr, aliases := decAliases al, extName := x }

/-- (re)build every index from the declared objects: the answer of a fresh PushContext -/
def rebuild (d : DState) : DState :=
  { d with built := true, defaultNs := [],
           svcs := resolveAliases (sortServices (d.raw.map fun s =>
             if d.autoVis.contains s.id then { s with vis := visibilityFor d.sev ((alookup s.ns d.nsLabels).getD []) } else s)),
           vss := sortVS (mergeVSs d.mesh d.vssRaw),
           drIdx := setDestinationRules d.enhanced d.drGuard d.mesh d.drs }

/-- drop the object an `update` / `delete` line names -/
def dropObject (d : DState) (kind name ns : String) : DState :=
  match kind with
  | "dr" => { d with drs := d.drs.filter fun x => !(x.name == name && x.ns == ns) }
  | "sc" => { d with scs := d.scs.filter fun x => !(x.name == name && x.ns == ns) }
  | "vs" => { d with vssRaw := d.vssRaw.filter fun x => !(x.name == name && x.ns == ns) }
  | "svc" => { d with raw := d.raw.filter fun x => x.id != name, autoVis := d.autoVis.filter (· != name) }
  | _ => d

mutual
partial def stepD (d : DState) (toks : List String) : DState × String :=
  match toks with
  | "case" :: rest =>
    ({ unified := flagOf rest "U" true, pickBest := flagOf rest "P" true, enhanced := flagOf rest "E" true,
       visGuard := flagOf rest "F" true, exactGuard := flagOf rest "X" true,
       aliasGuard := flagOf rest "A" true, drGuard := flagOf rest "D" true }, "ok")
  | ["h", n, m] => (d, hostLine (dec n) (dec m))
  | ["mesh", root, ds, dv, dd, ap] =>
    ({ d with mesh := { rootNs := dec root, defSvc := decOptList ds, defVS := decOptList dv,
                        defDR := decOptList dd, applyToSidecars := tokBool ap } }, "ok")
  | ["mesh", root, ds, dv, dd, ap, v] =>
    ({ d with mesh := { rootNs := dec root, defSvc := decOptList ds, defVS := decOptList dv,
                        defDR := decOptList dd, applyToSidecars := tokBool ap },
              sev := if v.startsWith "v=" then some (decSev (v.drop 2).toString) else none }, "ok")
  | ["nsl", ns, lbl] => ({ d with nsLabels := d.nsLabels ++ [(dec ns, (decLabels lbl).getD [])] }, "ok")
  | ["svc", id, h, ns, reg, ct, name, ports, ex, vis, res, attr, al] =>
    ({ d with raw := d.raw ++ [mkSvcD id h ns reg ct name ports ex vis res attr al none],
              autoVis := if vis == "a" then dec id :: d.autoVis else d.autoVis }, "ok")
  | ["svc", id, h, ns, reg, ct, name, ports, ex, vis, res, attr, al, x] =>
    if x.startsWith "x=" then
      ({ d with raw := d.raw ++ [mkSvcD id h ns reg ct name ports ex vis res attr al (some (dec (x.drop 2).toString))],
                autoVis := if vis == "a" then dec id :: d.autoVis else d.autoVis }, "ok")
    else (d, "bad-op")
  | ["vs", name, ns, ct, hosts, ex, gws, gwsem, http, tcp] =>
    let v : VS := { name := dec name, ns := dec ns, ctime := ct.toNat!, hosts := decItems hosts ",",
                    exportTo := decItems ex ",", gateways := decItems gws ",", gwSem := tokBool gwsem,
                    http := decHTTP http, tcp := decDests tcp }
    ({ d with vssRaw := d.vssRaw ++ [v] }, "ok")
  | ["dr", name, ns, ct, h, ex, sel, subs, tp] =>
    let key := (dec ns, dec name)
    let (tpv, bp) := decTP key tp
    let r : DR := { name := dec name, ns := dec ns, ctime := ct.toNat!, host := dec h,
                    exportTo := decItems ex ",", selector := sel != "nil", selLabels := (decLabels sel).getD [],
                    subsets := decSubsets key subs, tp := tpv, backend := bp }
    ({ d with drs := d.drs ++ [r] }, "ok")
  | ["sc", name, ns, ct, sel, egress] =>
    let c : Sidecar := { name := dec name, ns := dec ns, ctime := ct.toNat!, selector := decLabels sel,
                         egress := decEgress egress }
    ({ d with scs := d.scs ++ [c] }, "ok")
  | ["build"] => (rebuild d, "ok")
  | "update" :: decl =>
    -- one object changes; an incrementally updated PushContext must answer like a fresh one
    if !d.built then (d, "not-built") else
    match decl with
    | kind :: a :: b :: _ =>
      let d0 := if kind == "svc" then dropObject d kind (dec a) "" else dropObject d kind (dec a) (dec b)
      let (d1, r) := stepD { d0 with built := false } decl
      if r == "ok" then (rebuild d1, "ok") else (d, "bad-op")
    | _ => (d, "bad-op")
  | ["delete", kind, name, ns] =>
    if !d.built then (d, "not-built") else (rebuild (dropObject d kind (dec name) (dec ns)), "ok")
  | [q, ns, lbl] =>
    if q != "scope" && q != "xds" && q != "eds" then (if d.built then (d, query d toks) else (d, "not-built")) else
    if !d.built then (d, "not-built") else
    let cfgNs := dec ns
    let cached := (pickSidecar d.mesh d.scs cfgNs ((decLabels lbl).getD [])).isNone
    ({ d with defaultNs := if cached then cfgNs :: d.defaultNs else d.defaultNs }, query d toks)
  | _ => if d.built then (d, query d toks) else (d, "not-built")
end

end IstioModel.C07
