import IstioModel.Common.Wire
import IstioModel.C07.Host
import IstioModel.C07.Vis

/-! Line-protocol driver for C07 (streams `host`, `vis`, `scope`). See harness/c07. -/
namespace IstioModel.C07
open IstioModel.Wire

/-- sorted, de-duplicated (for Go sets / map keys) -/
def sortDedup (l : List String) : List String :=
  let s := l.mergeSort (fun a b => !(b < a))
  s.foldr (fun x acc => match acc with
    | y :: _ => if x = y then acc else x :: acc
    | [] => [x]) []

def encSet (l : List String) : String := encList (sortDedup l)

def decItems (t : String) (sep : String) : List String :=
  if t == "-" then [] else (t.splitOn sep).map dec

def decOptList (t : String) : Option (List String) :=
  if t == "nil" then none else some (decItems t ",")

def cut (t sep : String) : String × String :=
  match t.splitOn sep with
  | a :: rest => (a, sep.intercalate rest)
  | [] => (t, "")

def decPorts (t : String) : List Port :=
  if t == "-" then [] else (t.splitOn ",").map fun it =>
    let (a, b) := cut it "|"
    { num := a.toNat!, name := dec b }

def decAliases (t : String) : List (String × String) :=
  if t == "-" then [] else (t.splitOn ",").map fun it =>
    let (a, b) := cut it "|"
    (dec a, dec b)

def flagOf (toks : List String) (key : String) (dflt : Bool) : Bool :=
  match toks.find? (fun t => t.startsWith (key ++ "=")) with
  | some t => t == key ++ "=1"
  | none => dflt

structure DState where
  unified : Bool := true
  pickBest : Bool := true
  enhanced : Bool := true
  mesh : Mesh := {}
  raw : List Svc := []        -- as declared
  built : Bool := false
  svcs : List Svc := []       -- creation-ordered (after `build`)

def hostLine (n m : String) : String :=
  " ".intercalate [boolTok (isWild n), boolTok (isWild m),
    boolTok (hostMatches n m), boolTok (hostMatches m n),
    boolTok (subsetOf n m), boolTok (subsetOf m n)]

def decVis : String → SEVis
  | "n" => .ns | "x" => .none | _ => .pub

def query (d : DState) (toks : List String) : String :=
  match toks with
  | ["exported", ns] => encList ((servicesExportedToNamespace d.mesh d.svcs (dec ns)).map (·.id))
  | ["visible", id, ns] =>
    match d.svcs.find? (·.id == dec id) with
    | none => "no-such-service"
    | some s => boolTok (isServiceVisible d.mesh s (dec ns)) ++ " " ++ encSet (serviceExportTo d.mesh s)
  | ["index", h] =>
    let items := (byNamespace d.svcs (dec h)).map fun (ns, s) => enc ns ++ "=" ++ enc s.id
    let items := items.mergeSort (fun a b => !(b < a))
    if items.isEmpty then "-" else ",".intercalate items
  | _ => "bad-op"

def stepD (d : DState) (toks : List String) : DState × String :=
  match toks with
  | "case" :: rest =>
    ({ unified := flagOf rest "U" true, pickBest := flagOf rest "P" true, enhanced := flagOf rest "E" true }, "ok")
  | ["h", n, m] => (d, hostLine (dec n) (dec m))
  | ["mesh", root, ds, dv, dd, ap] =>
    ({ d with mesh := { rootNs := dec root, defSvc := decOptList ds, defVS := decOptList dv,
                        defDR := decOptList dd, applyToSidecars := tokBool ap } }, "ok")
  | ["svc", id, h, ns, reg, ct, name, ports, ex, vis, res, attr, al] =>
    let s : Svc := { id := dec id, hostname := dec h, ns := dec ns, name := dec name, k8s := reg == "k",
                     ctime := ct.toNat!, ports := decPorts ports, exportTo := decItems ex ",",
                     vis := decVis vis, resolution := res.toNat!, attr := dec attr, aliases := decAliases al }
    ({ d with raw := d.raw ++ [s] }, "ok")
  | ["build"] => ({ d with built := true, svcs := sortServices d.raw }, "ok")
  | _ => if d.built then (d, query d toks) else (d, "not-built")

end IstioModel.C07
