import IstioModel.Common.Wire
import IstioModel.C07.Host

/-! Line-protocol driver for C07 (streams `host`, `vis`, `scope`). See harness/c07. -/
namespace IstioModel.C07
open IstioModel.Wire

structure DState where
  dummy : Nat := 0

def hostLine (n m : String) : String :=
  " ".intercalate [boolTok (isWild n), boolTok (isWild m),
    boolTok (hostMatches n m), boolTok (hostMatches m n),
    boolTok (subsetOf n m), boolTok (subsetOf m n)]

def stepD (d : DState) (toks : List String) : DState × String :=
  match toks with
  | "case" :: _ => ({}, "ok")
  | ["h", n, m] => (d, hostLine (dec n) (dec m))
  | _ => (d, "bad-op")

end IstioModel.C07
