/-!
C07 - hostname wildcard algebra: exact model of `pkg/config/host/name.go`
(`Name.IsWildCarded`, `Name.Matches`, `Name.SubsetOf`).

A Go `host.Name` is a byte string; the model works on `List Char` (`String.toList`), which is the
same thing for ASCII names (DNS names are ASCII; the harness only produces ASCII).  Go's `n[1:]`
is `List.tail`, `strings.HasSuffix(s, suf)` is `suf.isSuffixOf s`, `len` is `List.length`.
-/
namespace IstioModel.C07

/-- `func (n Name) IsWildCarded() bool { return len(n) > 0 && n[0] == '*' }` -/
def isWildL : List Char → Bool
  | c :: _ => c == '*'
  | [] => false

/-- `strings.HasSuffix(s, suf)` -/
def hasSuffixL (s suf : List Char) : Bool := suf.isSuffixOf s

/-- `func (n Name) Matches(o Name) bool`, branch for branch. -/
def matchesL (n o : List Char) : Bool :=
  if isWildL n then
    if isWildL o then
      -- both n and o are wildcards
      if n.length < o.length then hasSuffixL o.tail n.tail
      else hasSuffixL n.tail o.tail
    else
      -- only n is wildcard
      hasSuffixL o n.tail
  else if isWildL o then
    -- only o is wildcard
    hasSuffixL n o.tail
  else
    -- both are non-wildcards, so do normal string comparison
    decide (n = o)

/-- `func (n Name) SubsetOf(o Name) bool`, branch for branch. -/
def subsetOfL (n o : List Char) : Bool :=
  if isWildL n then
    if isWildL o then
      if n.length < o.length then false
      else hasSuffixL n.tail o.tail
    else
      false
  else if isWildL o then
    hasSuffixL n o.tail
  else
    decide (n = o)

/-- The functions on `String` (what the rest of the model and the driver use). -/
def isWild (n : String) : Bool := isWildL n.toList
def hostMatches (n o : String) : Bool := matchesL n.toList o.toList
def subsetOf (n o : String) : Bool := subsetOfL n.toList o.toList

end IstioModel.C07
