/-
  C07: model of the admission validation of `exportTo` lists
  (`pkg/config/visibility/visibility.go` `Instance.Validate`, `pkg/config/labels` `IsDNS1123Label`,
   `pkg/config/validation/validation.go` `validateExportTo`).
  The visibility theorems assume a well-formed export list (`ExportWF`); this is where that assumption is
  discharged for every list the real validator accepts.
-/
namespace IstioModel.C07

/-- `[a-zA-Z0-9]` (the label format of `pkg/config/labels` admits both cases, as RFC 1123 does) -/
def isAlnum (c : Char) : Bool :=
  (c.toNat ≥ 97 && c.toNat ≤ 122) || (c.toNat ≥ 65 && c.toNat ≤ 90) || (c.toNat ≥ 48 && c.toNat ≤ 57)

/-- `labels.IsDNS1123Label`: at most 63 bytes and `^[a-zA-Z0-9]([-a-zA-Z0-9]*[a-zA-Z0-9])?$` -/
def isDNS1123Label (s : String) : Bool :=
  let cs := s.toList
  decide (s.utf8ByteSize ≤ 63) &&
  match cs with
  | [] => false
  | c :: _ =>
    isAlnum c && isAlnum (cs.getLast?.getD c) && cs.all fun x => isAlnum x || x == '-'

/-- `visibility.Instance.Validate() == nil` -/
def visibilityValid (v : String) : Bool :=
  if v == "." || v == "*" then true
  else if v == "~" then false
  else isDNS1123Label v

/-- the loop of `validateExportTo`: (entries kept in the set, no error so far) -/
def exportKey (ns e : String) : String := if e == "." then ns else e

def exportStep (ns : String) (isSE : Bool) (acc : List String × Bool) (e : String) : List String × Bool :=
  if acc.1.contains (exportKey ns e) then (acc.1, false)
  else if isSE && e == "~" then (exportKey ns e :: acc.1, acc.2)
  else if visibilityValid (exportKey ns e) then (exportKey ns e :: acc.1, acc.2)
  else (acc.1, false)

/-- `validateExportTo(namespace, exportTo, isServiceEntry, isDestinationRuleWithSelector) == nil` -/
def validateExportTo (ns : String) (e : List String) (isSE drSel : Bool) : Bool :=
  if e.isEmpty then true
  else
    let (set, ok) := e.foldl (exportStep ns isSE) ([], true)
    let selOk :=
      if drSel && !set.isEmpty then set.contains ns && set.length ≤ 1 else true
    let starOk := !(set.contains "*" && e.length > 1)
    let noneOk := !(set.contains "~" && e.length > 1)
    ok && selOk && starOk && noneOk

end IstioModel.C07
