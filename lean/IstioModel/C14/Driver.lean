import IstioModel.Common.Wire
import IstioModel.C14.Snapshot
import IstioModel.C14.Kernels
import IstioModel.C14.ListenerConflict
import IstioModel.C14.GatewayDup

/-!
Line-protocol driver of C14.

Stream `snapshot` (T-mon): the harness reduces every real full push to one line
`snap <listeners> <routes> <clusters> <endpoints> <reqRds> <reqEds> <invalid>` and the driver answers with
the verdict of the verified monitor: `ok` or `bad <clause> <detail...>`.  Every other line of that
stream (mesh description) is answered `-`.

Encoding (atoms are `Wire.enc`-escaped, so they never contain a separator):
  listeners  `;`-separated  `name|addr,addr|key!rds,rds|key!-|...`
  routes     `;`-separated  `name|inline(0/1)|vhname!dom,dom!w,w^w,w|...`   (`-` = no weighted action, `~` = empty action)
  clusters   `;`-separated  `name|eds(0/1)|edsServiceName`
  the rest   `,`-separated lists; `-` is the empty list everywhere.
-/
namespace IstioModel.C14
open IstioModel.Wire

def splitL (sep : String) (t : String) : List String :=
  if t == "-" then [] else t.splitOn sep

def atoms (t : String) : List String := (splitL "," t).map dec

def parseInt (t : String) : Int :=
  match t.toInt? with
  | some i => i
  | none => 0

def parseChain (t : String) : FilterChain :=
  match t.splitOn "!" with
  | [k, r] => { key := dec k, rds := atoms r }
  | _ => { key := dec t, rds := [] }

def parseListener (t : String) : Listener :=
  match t.splitOn "|" with
  | n :: a :: cs => { name := dec n, addrs := atoms a, chains := cs.map parseChain }
  | _ => { name := dec t, addrs := [], chains := [] }

def parseWeights (t : String) : List (List Int) :=
  (splitL "^" t).map (fun w => if w == "~" then [] else (w.splitOn ",").map parseInt)

def parseVHost (t : String) : VHost :=
  match t.splitOn "!" with
  | [n, d, w] => { name := dec n, domains := atoms d, weighted := parseWeights w }
  | _ => { name := dec t, domains := [], weighted := [] }

def parseRoute (t : String) : RouteConfig :=
  match t.splitOn "|" with
  | n :: i :: vs => { name := dec n, inline := tokBool i, vhosts := vs.map parseVHost }
  | _ => { name := dec t, inline := false, vhosts := [] }

def parseCluster (t : String) : Cluster :=
  match t.splitOn "|" with
  | [n, e, s] => { name := dec n, eds := tokBool e, edsName := dec s }
  | _ => { name := dec t, eds := false, edsName := "" }

def parseSnapshot : List String → Option Snapshot
  | [l, r, c, e, qr, qe, inv] =>
    some { listeners := (splitL ";" l).map parseListener,
           routes := (splitL ";" r).map parseRoute,
           clusters := (splitL ";" c).map parseCluster,
           endpoints := atoms e, reqRds := atoms qr, reqEds := atoms qe, invalid := atoms inv }
  | _ => none

/-- `ok`, or every violated clause with its offending item, ` || `-separated, first violation first. -/
def verdict (s : Snapshot) : String :=
  match allViolations s with
  | [] => "ok"
  | vs => " || ".intercalate (vs.map (fun (c, d) => s!"bad {c.tok} {" ".intercalate (d.map enc)}"))

/-! ## kernel streams -/

def sortDedup (l : List String) : List String :=
  let s := l.mergeSort (fun a b => !(b < a))
  s.foldr (fun x acc => match acc with
    | y :: _ => if x = y then acc else x :: acc
    | [] => [x]) []

def encSet (l : List String) : String := encList (sortDedup l)

structure DState where
  /-- stream `domains`: the shared vhdomains set and the known FQDNs of the case -/
  vh    : List String := []
  known : List String := []
  /-- stream `gwdup`: the (bind, host) table of the case -/
  table : HostTable := []

def showNamed (l : List NamedCluster) : String :=
  encList (l.map (fun c => c.1 ++ "#" ++ toString c.2))

def indexed (l : List String) : List NamedCluster :=
  (l.zipIdx).map (fun p => (p.1, p.2))

def stepKernel (d : DState) (toks : List String) : Option (DState × String) :=
  match toks with
  | ["known", k] => some ({ d with known := decList k }, "ok")
  | ["dd", doms, exp] =>
    let ds := decList doms
    let e := decList exp
    let kept := dedupeKept e d.known ds d.vh
    let vh' := dedupeSet e d.known ds d.vh
    some ({ d with vh := vh' }, s!"{encList kept} | {encSet vh'}")
  | ["nc", names] => some (d, showNamed (normalizeClusters (indexed (decList names))))
  | ["nr", names] => some (d, showNamed (normalizeClusters (indexed (decList names))))
  | ["eds", req, unk] =>
    let r := decList req
    let u := (decList unk).filter (fun n => r.contains n)
    some (d, s!"names={encSet (answered r)} empty={encSet u}")
  | ["rds", _, req] => some (d, s!"names={encSet (answered (decList req))}")
  | ["cd", hosts, bind] =>
    let r := checkDuplicates (decList hosts) (dec bind) d.table
    some ({ d with table := r.2 }, s!"dups={encList r.1} table={encSet (r.2.map (fun p => p.1 ++ "/" ++ p.2))}")
  | ["lc", inc, wild, cur] =>
    match Proto.ofTok inc with
    | Option.none => some (d, "bad-op")
    | some p =>
      let c : Option (Option Entry) :=
        if cur == "-" then some Option.none
        else match cur.splitOn ":" with
          | [pt, l] => (Proto.ofTok pt).map (fun q => some ⟨q, tokBool l⟩)
          | _ => Option.none
      match c with
      | Option.none => some (d, "bad-op")
      | some ce =>
        let k : Key := ("b", 7777)
        let m : LMap := match ce with
          | Option.none => []
          | some e => [(k, e)]
        let m' := applyService m k p (tokBool wild)
        let keys := s!" keys={m'.length}"
        some (d, match decision p (tokBool wild) ce with
          | .skip => "skip" ++ keys
          | .new q => "new " ++ q.tok ++ keys
          | .merge q => "merge " ++ q.tok ++ keys)
  | _ => none

def stepMon (toks : List String) : Option String :=
  match toks with
  | "snap" :: rest =>
    match parseSnapshot rest with
    | some s => some (verdict s)
    | none => some "bad-op"
  | _ => none

end IstioModel.C14

namespace IstioModel.C14

def stepD (d : DState) (toks : List String) : DState × String :=
  match toks with
  | "case" :: _ :: "snapshot" :: _ => (d, "-")
  | "case" :: _ => ({}, "ok")
  | _ =>
    match stepMon toks with
    | some o => (d, o)
    | none =>
      match stepKernel d toks with
      | some r => r
      | none => (d, "-")

end IstioModel.C14
