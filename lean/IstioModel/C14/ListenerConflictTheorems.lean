import IstioModel.C14.ListenerConflict

/-!
# C14 - theorems about the outbound listener conflict rule

`listener_conflict_total`   every (incoming protocol, bind kind, current entry) has exactly one outcome, and it is one of
                            skip / new / merge with the stated preconditions (a merge needs an unlocked entry, ...)
`one_entry_per_key`         after any sequence of service ports the map has at most one entry per bind:port - never two
                            listeners on one address - and hence unique listener names for any injective naming
`locked_frozen`             an entry declared by the user's Sidecar (locked) is never changed
`mixed_is_sniffed`          when a TCP and an HTTP service meet on one key the entry becomes protocol-sniffed
-/
namespace IstioModel.C14

/-- **listener_conflict_total.** The rule is a total function of its inputs with exactly one outcome, and the
    outcome obeys: a locked entry => skip; a merge only into an existing unlocked entry; without an entry the port is
    either skipped (UDP) or becomes a new entry. -/
theorem listener_conflict_total (inc : Proto) (wild : Bool) (cur : Option Entry) :
    (∃ d : Decision, decision inc wild cur = d ∧ ∀ d', decision inc wild cur = d' → d' = d) ∧
    ((∃ e, cur = some e ∧ e.locked = true) → decision inc wild cur = .skip) ∧
    (∀ p, decision inc wild cur = .merge p → ∃ e, cur = some e ∧ e.locked = false) ∧
    (cur = none → decision inc wild cur = .skip ∨ ∃ p, decision inc wild cur = .new p) := by
  refine ⟨⟨_, rfl, fun _ h => h.symm⟩, ?_, ?_, ?_⟩
  · rintro ⟨e, rfl, hl⟩
    cases e with
    | mk p l => subst hl; rfl
  · intro p h
    cases cur with
    | none =>
      exfalso
      cases inc <;> cases wild <;> simp [decision, conflictOf, Proto.listener] at h
    | some e =>
      cases e with
      | mk q l =>
        cases l
        · exact ⟨_, rfl, rfl⟩
        · simp [decision] at h
  · intro h
    subst h
    cases inc <;> cases wild <;> simp [decision, conflictOf, Proto.listener]

/-- The whole table, checked row by row: which rows merge. (`decide` over 15 x 2 x 15 rows.) -/
def Decision.isMerge : Decision → Bool
  | .merge _ => true
  | _ => false

theorem merge_rows (inc cur : Proto) (wild : Bool) :
    (decision inc wild (some ⟨cur, false⟩)).isMerge =
      (inc != .httpProxy && !wellKnownClash inc cur &&
        ((inc.listener == .http && cur.isTCP) || inc.listener == .tcp || (inc.listener == .auto && !cur.isHTTP))) := by
  cases inc <;> cases cur <;> cases wild <;> rfl

/-- When an HTTP service arrives at a TCP entry, or a TCP service at an HTTP entry (no Mongo/MySQL clash), the entry
    becomes protocol-sniffed. -/
theorem mixed_is_sniffed (inc cur : Proto) (wild : Bool) (hc : wellKnownClash inc cur = false) (hp : inc ≠ .httpProxy)
    (h : (inc.listener = .http ∧ cur.isTCP = true) ∨ (inc.listener = .tcp ∧ cur.isHTTP = true)) :
    decision inc wild (some ⟨cur, false⟩) = .merge .unsupported := by
  cases inc <;> cases cur <;> cases wild <;> simp_all [decision, conflictOf, Proto.listener, Proto.isTCP, Proto.isHTTP, wellKnownClash]

/-- A second HTTP service on an HTTP (or sniffed) entry adds nothing to the listener: its routes are told apart by
    virtual hosts (this is where `dedupeDomains` takes over). -/
theorem http_on_http_skips (inc cur : Proto) (wild : Bool) (hi : inc.listener = .http) (hp : inc ≠ .httpProxy)
    (hc : cur.isTCP = false) : decision inc wild (some ⟨cur, false⟩) = .skip := by
  cases inc <;> cases cur <;> cases wild <;> simp_all [decision, conflictOf, Proto.listener, Proto.isTCP]

/-! ### the map -/

def LMap.keys (m : LMap) : List Key := m.map (·.1)

theorem keys_put (m : LMap) (k : Key) (e : Entry) :
    (k ∈ m.keys → (m.put k e).keys = m.keys) ∧ (k ∉ m.keys → (m.put k e).keys = m.keys ++ [k]) := by
  induction m with
  | nil => simp [LMap.put, LMap.keys]
  | cons p m ih =>
    by_cases h : p.1 = k
    · simp [LMap.put, LMap.keys, h]
    · have hk : k ≠ p.1 := fun e => h e.symm
      simp only [LMap.keys] at ih
      simp only [LMap.put, h, if_false, LMap.keys, List.map_cons, List.mem_cons, hk, false_or, List.cons_append]
      constructor
      · intro hm; rw [ih.1 hm]
      · intro hm; rw [ih.2 hm]

theorem nodup_put (m : LMap) (k : Key) (e : Entry) (h : m.keys.Nodup) : (m.put k e).keys.Nodup := by
  by_cases hk : k ∈ m.keys
  · rw [(keys_put m k e).1 hk]; exact h
  · rw [(keys_put m k e).2 hk]
    rw [List.nodup_append]
    refine ⟨h, by simp, ?_⟩
    intro a ha b hb
    simp at hb; subst hb
    exact fun e => hk (e ▸ ha)

theorem nodup_applyService (m : LMap) (k : Key) (inc : Proto) (w : Bool) (h : m.keys.Nodup) :
    (applyService m k inc w).keys.Nodup := by
  unfold applyService
  split
  · exact h
  · exact nodup_put _ _ _ h
  · exact nodup_put _ _ _ h

/-- **Never two listeners on one address**: whatever services arrive in whatever order, the listener map holds at
    most one entry per bind:port. -/
theorem one_entry_per_key (ss : List (Key × Proto × Bool)) : ∀ (m : LMap), m.keys.Nodup → (applyAll m ss).keys.Nodup := by
  induction ss with
  | nil => intro m h; exact h
  | cons s ss ih => intro m h; exact ih _ (nodup_applyService _ _ _ _ h)

theorem one_entry_per_key_from_empty (ss : List (Key × Proto × Bool)) : (applyAll [] ss).keys.Nodup :=
  one_entry_per_key ss [] (by simp [LMap.keys])

/-- Hence unique listener names / addresses, for any injective rendering of bind:port (the monitor's `lds-unique`
    and `addr-unique` clauses for the sidecar outbound listeners). -/
theorem listener_names_unique (ss : List (Key × Proto × Bool)) (name : Key → String)
    (hinj : ∀ a b, name a = name b → a = b) : ((applyAll [] ss).keys.map name).Nodup := by
  have h := one_entry_per_key_from_empty ss
  generalize (applyAll [] ss).keys = l at h
  induction l with
  | nil => simp
  | cons a l ih =>
    rw [List.nodup_cons] at h
    rw [List.map_cons, List.nodup_cons]
    refine ⟨?_, ih h.2⟩
    intro hm
    obtain ⟨b, hb, hab⟩ := List.mem_map.mp hm
    exact h.1 (hinj _ _ hab ▸ hb)

theorem get_put_self (m : LMap) (k : Key) (e : Entry) : (m.put k e).get k = some e := by
  induction m with
  | nil => simp [LMap.put, LMap.get]
  | cons p m ih =>
    by_cases h : p.1 = k
    · simp [LMap.put, LMap.get, h]
    · simp [LMap.put, LMap.get, h, ih]

theorem get_put_other (m : LMap) (k k' : Key) (e : Entry) (hne : k' ≠ k) : (m.put k e).get k' = m.get k' := by
  induction m with
  | nil => simp [LMap.put, LMap.get, Ne.symm hne]
  | cons p m ih =>
    by_cases h : p.1 = k
    · simp [LMap.put, LMap.get, h, Ne.symm hne]
    · by_cases h2 : p.1 = k'
      · subst h2
        simp [LMap.put, LMap.get, hne]
      · simp [LMap.put, LMap.get, h, h2, ih]

/-- **locked_frozen.** An entry built from a port the user declared in the Sidecar (locked) is never changed by the
    services that arrive later, whatever their protocols. -/
theorem locked_frozen (ss : List (Key × Proto × Bool)) : ∀ (m : LMap) (k : Key) (e : Entry),
    m.get k = some e → e.locked = true → (applyAll m ss).get k = some e := by
  induction ss with
  | nil => intro m k e h _; exact h
  | cons s ss ih =>
    intro m k e h hl
    apply ih _ k e _ hl
    unfold applyService
    by_cases hk : s.1 = k
    · rw [hk, h]
      have : decision s.2.1 s.2.2 (some e) = .skip := by
        cases e with
        | mk p l => simp at hl; subst hl; rfl
      rw [this]; exact h
    · split
      · exact h
      · rw [get_put_other _ _ _ _ (Ne.symm hk)]; exact h
      · rw [get_put_other _ _ _ _ (Ne.symm hk)]; exact h

/-! ### non-vacuity -/

example : decision .http true none = .new .unsupported := by decide
example : decision .tcp false (some ⟨.http, false⟩) = .merge .unsupported := by decide
example : decision .mysql false (some ⟨.tcp, false⟩) = .skip := by decide
example : decision .unsupported true (some ⟨.http, false⟩) = .new .unsupported := by decide
example : (applyAll [] [(("0.0.0.0", 80), .http, true), (("0.0.0.0", 80), .tcp, true), (("10.0.0.1", 80), .tcp, false),
    (("0.0.0.0", 80), .http2, true)]).keys = [("0.0.0.0", 80), ("10.0.0.1", 80)] := by decide +kernel

end IstioModel.C14
