/-!
# C14 - the outbound listener conflict rule (exact model)

`buildSidecarOutboundListener` (pilot/pkg/networking/core/listener.go) is called once per (service, port) of every
egress listener, in service order, with one map `listenerKey{bind, port} -> outboundListenerEntry` per proxy. This
file models the part of it that decides what happens to the map: `decision` (skip / new entry / merge into the
existing entry, and the entry's protocol afterwards), as a function of the incoming port protocol, whether the bind
is the wildcard address, and the entry currently under the key (protocol, locked bit).  Filter chain construction is
not modelled (a merge is observed as "the chain list grew"); `applyService` is the map update.

Finite domain: the tie (stream `lconflict`) enumerates ALL rows on the real function through the hook
`core.VerifC14OutboundConflict` on every run.  Core Lean only.
-/
namespace IstioModel.C14

/-- `protocol.Instance` -/
inductive Proto where
  | grpc | grpcWeb | http | httpProxy | http2 | https | tcp | tls | udp | mongo | redis | mysql | hbone | doubleHbone
  | unsupported
  deriving Repr, DecidableEq

def Proto.all : List Proto :=
  [.grpc, .grpcWeb, .http, .httpProxy, .http2, .https, .tcp, .tls, .udp, .mongo, .redis, .mysql, .hbone, .doubleHbone,
   .unsupported]

def Proto.tok : Proto → String
  | .grpc => "GRPC" | .grpcWeb => "GRPC-Web" | .http => "HTTP" | .httpProxy => "HTTP_PROXY" | .http2 => "HTTP2"
  | .https => "HTTPS" | .tcp => "TCP" | .tls => "TLS" | .udp => "UDP" | .mongo => "Mongo" | .redis => "Redis"
  | .mysql => "MySQL" | .hbone => "HBONE" | .doubleHbone => "DoubleHBONE" | .unsupported => "UnsupportedProtocol"

def Proto.ofTok (t : String) : Option Proto := Proto.all.find? (fun p => p.tok == t)

/-- `Instance.IsHTTP` -/
def Proto.isHTTP : Proto → Bool
  | .http | .http2 | .httpProxy | .grpc | .grpcWeb => true
  | _ => false

/-- `Instance.IsTCP` -/
def Proto.isTCP : Proto → Bool
  | .tcp | .https | .tls | .mongo | .redis | .mysql => true
  | _ => false

/-- `istionetworking.ListenerProtocol` -/
inductive LProto where
  | http | tcp | auto | unknown
  deriving Repr, DecidableEq

/-- `ModelProtocolToListenerProtocol` -/
def Proto.listener : Proto → LProto
  | .http | .http2 | .httpProxy | .grpc | .grpcWeb => .http
  | .tcp | .https | .tls | .mongo | .redis | .mysql => .tcp
  | .udp => .unknown
  | .unsupported => .auto
  | .hbone | .doubleHbone => .auto

/-- What the rule reads from / writes to an `outboundListenerEntry`. -/
structure Entry where
  protocol : Proto
  locked   : Bool
  deriving Repr, DecidableEq

inductive Conflict where
  | none | httpOverTcp | tcpOverHttp | tcpOverTcp | tcpOverAuto | autoOverHttp | autoOverTcp
  deriving Repr, DecidableEq

inductive Decision where
  /-- the service port is not added; the map is unchanged -/
  | skip
  /-- a new entry with this protocol is stored under the key (replacing what was there) -/
  | new (p : Proto)
  /-- the incoming filter chains are merged into the existing entry, whose protocol becomes `p` -/
  | merge (p : Proto)
  deriving Repr, DecidableEq

/-- `isConflictWithWellKnownPort` negated: Mongo and MySQL do not share a port with another protocol. -/
def wellKnownClash (incoming existing : Proto) : Bool :=
  (incoming == .mongo || incoming == .mysql || existing == .mongo || existing == .mysql) && incoming != existing

/-- The conflict type computed from the incoming listener protocol and the current entry (`none` = no entry). -/
def conflictOf (incoming : Proto) (cur : Option Entry) : Option Conflict :=
  match cur with
  | Option.none => some .none
  | some e =>
    match incoming.listener with
    | .http => if e.protocol.isTCP then some .httpOverTcp else Option.none   -- `none` = exit early
    | .tcp => if e.protocol.isHTTP then some .tcpOverHttp else if e.protocol.isTCP then some .tcpOverTcp else some .tcpOverAuto
    | .auto => if e.protocol.isHTTP then some .autoOverHttp else if e.protocol.isTCP then some .autoOverTcp else some .tcpOverAuto
    | .unknown => Option.none

/-- The decision of `buildSidecarOutboundListener` for one service port. -/
def decision (incoming : Proto) (wildcardBind : Bool) (cur : Option Entry) : Decision :=
  match cur with
  | some ⟨_, true⟩ => .skip                       -- user-declared (locked) port: nothing is added
  | _ =>
    if incoming == .httpProxy then .new .httpProxy   -- built right away, stored as a new entry
    else if incoming.listener == .unknown then .skip
    else
      match conflictOf incoming cur with
      | Option.none => .skip
      | some c =>
        let lpp := if incoming.listener == .http && wildcardBind then Proto.unsupported else incoming
        match cur with
        | Option.none => .new lpp
        | some e =>
          if c != .none && wellKnownClash incoming e.protocol then .skip
          else match c with
            | .none | .autoOverHttp => .new lpp
            | .httpOverTcp | .tcpOverHttp | .autoOverTcp => .merge .unsupported
            | .tcpOverTcp | .tcpOverAuto => .merge e.protocol

/-! ## the listener map -/

abbrev Key := String × Nat            -- bind, port
abbrev LMap := List (Key × Entry)

def LMap.get : LMap → Key → Option Entry
  | [], _ => Option.none
  | p :: m, k => if p.1 = k then some p.2 else LMap.get m k

/-- store `e` under `k`, replacing an existing entry in place -/
def LMap.put : LMap → Key → Entry → LMap
  | [], k, e => [(k, e)]
  | p :: m, k, e => if p.1 = k then (k, e) :: m else p :: LMap.put m k e

/-- One call of `buildSidecarOutboundListener`. -/
def applyService (m : LMap) (k : Key) (incoming : Proto) (wildcardBind : Bool) : LMap :=
  match decision incoming wildcardBind (m.get k) with
  | .skip => m
  | .new p => m.put k ⟨p, false⟩
  | .merge p => m.put k ⟨p, false⟩

/-- A sequence of service ports, in order. -/
def applyAll (m : LMap) : List (Key × Proto × Bool) → LMap
  | [] => m
  | s :: ss => applyAll (applyService m s.1 s.2.1 s.2.2) ss

end IstioModel.C14
