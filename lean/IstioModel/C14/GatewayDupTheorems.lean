import IstioModel.C14.GatewayDup

/-!
# C14 - theorems about the gateway TLS-host duplicate filter

`accepted_hosts_unique`            over any sequence of servers, no (bind, host) pair is accepted twice: two accepted servers on
                                   one bind have disjoint SNI host lists, hence different filter chain matches
`accepted_unique_witness_unfixed`  the same statement is FALSE for the function before the repair (binds A, B, A)
-/
namespace IstioModel.C14

/-- all (bind, host) pairs of a list of servers -/
def pairsOf (l : List TlsServer) : List (String × String) := l.flatMap (fun s => s.hosts.map (fun h => (s.bind, h)))

/-- a server whose own host list repeats a host is accepted as it is (CheckDuplicates looks at the table only);
    `GetSNIHostsForServer` passes a de-duplicated, sorted list, which is the hypothesis `hosts.Nodup` below -/
def WellListed (l : List TlsServer) : Prop := ∀ s ∈ l, s.hosts.Nodup

theorem mem_duplicatesOf {hosts : List String} {bind : String} {t : HostTable} {h : String} :
    h ∈ duplicatesOf hosts bind t ↔ h ∈ hosts ∧ (bind, h) ∈ t := by
  simp [duplicatesOf, List.mem_filter]

theorem duplicatesOf_empty_iff {hosts : List String} {bind : String} {t : HostTable} :
    (duplicatesOf hosts bind t).isEmpty = true ↔ ∀ h ∈ hosts, (bind, h) ∉ t := by
  rw [List.isEmpty_iff]
  constructor
  · intro he h hh ht
    have : h ∈ duplicatesOf hosts bind t := mem_duplicatesOf.mpr ⟨hh, ht⟩
    rw [he] at this; simp at this
  · intro hall
    apply List.eq_nil_iff_forall_not_mem.mpr
    intro h hm
    have := mem_duplicatesOf.mp hm
    exact hall h this.1 this.2

/-- `CheckDuplicates` answers "no duplicates" exactly when none of the hosts is taken on that bind. -/
theorem checkDuplicates_nil_iff (hosts : List String) (bind : String) (t : HostTable) :
    (checkDuplicates hosts bind t).1 = [] ↔ ∀ h ∈ hosts, (bind, h) ∉ t := by
  unfold checkDuplicates
  by_cases he : (duplicatesOf hosts bind t).isEmpty = true
  · simp only [he, if_true]
    rw [← duplicatesOf_empty_iff, List.isEmpty_iff]
  · simp only [he]
    rw [← duplicatesOf_empty_iff]
    constructor
    · intro h; exact absurd (List.isEmpty_iff.mpr h) he
    · intro h; exact absurd h he

private theorem nodup_map_pair (b : String) : ∀ (l : List String), l.Nodup → (l.map (fun h => (b, h))).Nodup := by
  intro l
  induction l with
  | nil => intro _; simp
  | cons a l ih =>
    intro h
    rw [List.nodup_cons] at h
    rw [List.map_cons, List.nodup_cons]
    refine ⟨?_, ih h.2⟩
    intro hm
    obtain ⟨x, hx, hxe⟩ := List.mem_map.mp hm
    have : x = a := by simpa using hxe
    exact h.1 (this ▸ hx)

theorem accept_pairs (ss : List TlsServer) : ∀ (t : HostTable), WellListed ss →
    (pairsOf (acceptServers ss t)).Nodup ∧ ∀ p ∈ pairsOf (acceptServers ss t), p ∉ t := by
  induction ss with
  | nil => intro t _; simp [acceptServers, pairsOf]
  | cons s ss ih =>
    intro t hw
    have hw' : WellListed ss := fun x hx => hw x (List.mem_cons_of_mem _ hx)
    unfold acceptServers
    by_cases he : (duplicatesOf s.hosts s.bind t).isEmpty = true
    · simp only [he, if_true]
      have ht : (checkDuplicates s.hosts s.bind t).2 = t ++ s.hosts.map (fun h => (s.bind, h)) := by
        simp [checkDuplicates, he]
      rw [ht]
      have ⟨r1, r2⟩ := ih (t ++ s.hosts.map (fun h => (s.bind, h))) hw'
      have hfree := duplicatesOf_empty_iff.mp he
      have hs : (s.hosts.map (fun h => (s.bind, h))).Nodup := nodup_map_pair _ _ (hw s List.mem_cons_self)
      refine ⟨?_, ?_⟩
      · unfold pairsOf
        rw [List.flatMap_cons, List.nodup_append]
        refine ⟨hs, r1, ?_⟩
        intro a ha b hb hab
        subst hab
        exact r2 a hb (List.mem_append_right _ ha)
      · intro p hp
        unfold pairsOf at hp
        rw [List.flatMap_cons, List.mem_append] at hp
        rcases hp with hp | hp
        · obtain ⟨h, hh, rfl⟩ := List.mem_map.mp hp
          exact hfree h hh
        · intro hpt
          exact r2 p hp (List.mem_append_left _ hpt)
    · simp only [he]
      exact ih t hw'

/-- **accepted_hosts_unique.** Whatever TLS servers (and SNI routes) are offered in whatever order, no host is
    accepted twice on one bind: the accepted (bind, host) pairs are pairwise distinct. -/
theorem accepted_hosts_unique (ss : List TlsServer) (hw : WellListed ss) : (pairsOf (acceptServers ss [])).Nodup :=
  (accept_pairs ss [] hw).1

/-- Two accepted servers on the same bind have disjoint SNI host lists - so their filter chain matches
    (`server_names`) differ unless both are empty. -/
theorem accepted_servers_disjoint (ss : List TlsServer) (hw : WellListed ss) :
    (acceptServers ss []).Pairwise (fun a b => a.bind = b.bind → ∀ h ∈ a.hosts, h ∉ b.hosts) := by
  have h := accepted_hosts_unique ss hw
  generalize acceptServers ss [] = l at h
  induction l with
  | nil => exact List.Pairwise.nil
  | cons a l ih =>
    unfold pairsOf at h ih
    rw [List.flatMap_cons, List.nodup_append] at h
    refine List.Pairwise.cons ?_ (ih h.2.1)
    intro b hb hbind x hx hxb
    refine h.2.2 (a.bind, x) (List.mem_map.mpr ⟨x, hx, rfl⟩) (a.bind, x) ?_ rfl
    apply List.mem_flatMap.mpr
    exact ⟨b, hb, List.mem_map.mpr ⟨x, hxb, by rw [hbind]⟩⟩

/-- The statement for the function as it was before the repair. -/
def OldFilterSound : Prop :=
  ∀ ss : List TlsServer, WellListed ss → (pairsOf (acceptServersOld ss [])).Nodup

/-- **Witness (unfixed code).** Host `foo.com` on binds A, B, A: the table forgets A when it sees B, the third server
    is accepted, and listener A:port gets two filter chains matching `server_names = [foo.com]`.
    Replayed on the real code by harness/corpus/C14/snapshot.fixed-gateway-bind-overwrite.ops. -/
theorem accepted_unique_witness_unfixed : ¬ OldFilterSound := by
  intro h
  have := h [⟨["foo.com"], "A"⟩, ⟨["foo.com"], "B"⟩, ⟨["foo.com"], "A"⟩] (by
    intro s hs; simp at hs; rcases hs with rfl | rfl | rfl <;> simp)
  revert this
  decide +kernel

/-! ### what the filter does NOT give: the known finding istio#24638

`mergeGateways` passes the namespaced host strings (`ns/host`) of a server, while the filter chain match is built from the
SNI hosts (`host`). The projection is not injective, so the theorem above says nothing about the SNI hosts there: -/

/-- the SNI host of a sanitized server host (`ns/host` or `host`) -/
def sniHost (h : String) : String :=
  match h.toList.reverse.span (· != '/') with
  | (r, _) => String.ofList r.reverse

def TlsServer.sni (s : TlsServer) : TlsServer := { s with hosts := s.hosts.map sniHost }

/-- **Witness of the known finding.** Two TLS servers of one port and bind, hosts `istio-system/foo.com` and
    `default/foo.com` (two Gateways in different namespaces, `./foo.com` each): the filter accepts both, and both become
    filter chains matching `server_names = [foo.com]`. Replayed on the real code by
    harness/corpus/C14/snapshot.known-gateway-dup-sni.ops (KNOWN-FINDING, not fixed: an unedited test pins it). -/
theorem namespace_qualifier_witness_known :
    acceptServers [⟨["istio-system/foo.com"], ""⟩, ⟨["default/foo.com"], ""⟩] [] =
        [⟨["istio-system/foo.com"], ""⟩, ⟨["default/foo.com"], ""⟩] ∧
      ¬ (pairsOf ([⟨["istio-system/foo.com"], ""⟩, ⟨["default/foo.com"], ""⟩].map TlsServer.sni)).Nodup := by
  decide +kernel

example : acceptServers [⟨["foo.com"], "A"⟩, ⟨["foo.com"], "B"⟩, ⟨["foo.com"], "A"⟩, ⟨["bar.com", "foo.com"], "B"⟩, ⟨["bar.com"], "B"⟩] [] =
    [⟨["foo.com"], "A"⟩, ⟨["foo.com"], "B"⟩, ⟨["bar.com"], "B"⟩] := by decide +kernel

end IstioModel.C14
