import IstioModel.C14.Snapshot

/-!
# C14 - exact models of the conflict-resolution kernels

* `dedupeKept` / `dedupeSet`   `dedupeDomains` of pilot/pkg/networking/core/httproute.go: the domains of one virtual
                               host filtered against the shared, lower-cased `vhdomains` set of the route configuration
                               (and against "expanded host that is also a known FQDN"); `runDedupe` = the sequence of
                               calls `BuildSidecarOutboundVirtualHosts` makes, one per virtual host, with the shared set.
* `normalizeClusters`          `ClusterBuilder.normalizeClusters` / `normalizeClusterResources` of cluster_builder.go:
                               of the clusters sharing a name the first is kept.
* `answered`                   the "always answer" rule of `EdsGenerator.buildEndpoints` (an empty ClusterLoadAssignment
                               for a cluster nobody defines) and `BuildHTTPRoutes` (an empty RouteConfiguration for a
                               route nobody defines): one resource per requested name.

Go's `strings.ToLower` is Unicode-aware, `lower` is ASCII-only; they coincide on ASCII host names (what the
harness feeds; non-ASCII host names are rejected by validation and by DNS).
Core Lean only.
-/
namespace IstioModel.C14

/-! ## dedupeDomains -/

/-- One domain passes `dedupeDomains` iff its lower-cased form is not yet in the shared set and it is not an
    expanded (abbreviated) host that is also a known FQDN. -/
def keepDomain (vh expanded known : List String) (d : String) : Bool :=
  !(vh.contains (lower d)) && !(expanded.contains d && known.contains d)

/-- The domains `dedupeDomains` returns. `vh` = the shared `vhdomains` set. -/
def dedupeKept (expanded known : List String) : List String → List String → List String
  | [], _ => []
  | d :: ds, vh =>
    if keepDomain vh expanded known d then d :: dedupeKept expanded known ds (lower d :: vh)
    else dedupeKept expanded known ds vh

/-- The shared set after the call. -/
def dedupeSet (expanded known : List String) : List String → List String → List String
  | [], vh => vh
  | d :: ds, vh =>
    if keepDomain vh expanded known d then dedupeSet expanded known ds (lower d :: vh)
    else dedupeSet expanded known ds vh

/-- One call per virtual host: (domains, expandedHosts), all with the same `knownFQDN` set and the shared
    `vhdomains`. Result: the domain list of every virtual host. -/
def runDedupe (known : List String) : List (List String × List String) → List String → List (List String)
  | [], _ => []
  | c :: cs, vh => dedupeKept c.2 known c.1 vh :: runDedupe known cs (dedupeSet c.2 known c.1 vh)

/-! ## normalizeClusters -/

/-- A cluster as far as de-duplication is concerned: its name and an opaque payload (which definition it is). -/
abbrev NamedCluster := String × Nat

def normalizeFrom : List NamedCluster → List String → List NamedCluster
  | [], _ => []
  | c :: cs, have_ =>
    if have_.contains c.1 then normalizeFrom cs have_ else c :: normalizeFrom cs (c.1 :: have_)

/-- `normalizeClusters`: for clusters that share a name the first is kept, the others are discarded. -/
def normalizeClusters (l : List NamedCluster) : List NamedCluster := normalizeFrom l []

/-! ## always answer requested names -/

/-- The names of the resources generated for a request: the requested names as a set (`WatchedResource.ResourceNames`
    is a set), each exactly once - defined or not. -/
def answered (requested : List String) : List String :=
  (normalizeClusters (requested.map (fun n => (n, 0)))).map (·.1)

/-- Number of endpoints of the load assignment generated for a name, given what the registry defines. -/
def answerEds (defined : List (String × Nat)) (requested : List String) : List (String × Nat) :=
  (answered requested).map (fun n => (n, (defined.lookup n).getD 0))

end IstioModel.C14
