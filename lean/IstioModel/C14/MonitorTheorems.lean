import IstioModel.C14.Snapshot

/-!
# C14 - the snapshot monitor is sound and complete

`wellFormedB_iff`            the Boolean monitor accepts exactly the well-formed snapshots
`firstViolation_none_iff`    the reporting function is silent exactly when the monitor accepts
`firstViolation_sound`       a reported clause is really violated (and its detail is `check`'s)
`firstViolation_first`       every clause evaluated before the reported one holds
plus the readable consequences of `WellFormed` (pairs of virtual hosts / filter chains / resources)
and closure lemmas.
-/
namespace IstioModel.C14

/-! ### `dupOf` decides `Nodup` -/

theorem dupOf_none_iff (l : List String) : dupOf l = none ↔ l.Nodup := by
  induction l with
  | nil => simp [dupOf]
  | cons x xs ih =>
    by_cases h : x ∈ xs
    · simp [dupOf, h]
    · simp [dupOf, h, ih]

theorem dupOf_some_mem {l : List String} {d : String} (h : dupOf l = some d) :
    d ∈ l ∧ 2 ≤ l.count d := by
  induction l with
  | nil => simp [dupOf] at h
  | cons x xs ih =>
    by_cases hx : x ∈ xs
    · simp [dupOf, hx] at h
      subst h
      refine ⟨List.mem_cons_self, ?_⟩
      have : 1 ≤ xs.count x := List.count_pos_iff.mpr hx
      simp [List.count_cons_self]; omega
    · simp [dupOf, hx] at h
      have ⟨h1, h2⟩ := ih h
      refine ⟨List.mem_cons_of_mem _ h1, ?_⟩
      have := List.count_le_count_cons (a := d) (b := x) (l := xs)
      omega

theorem weightsOkB_iff (ws : List Int) : weightsOkB ws = true ↔ WeightsOk ws := by
  simp [weightsOkB, WeightsOk, List.all_eq_true, and_assoc]

/-! ### every clause check is exact -/

theorem check_none_iff (c : Clause) (s : Snapshot) : check c s = none ↔ c.Holds s := by
  cases c
  case ldsUnique => simp [check, Clause.Holds, dupOf_none_iff]
  case rdsUnique => simp [check, Clause.Holds, dupOf_none_iff]
  case cdsUnique => simp [check, Clause.Holds, dupOf_none_iff]
  case edsUnique => simp [check, Clause.Holds, dupOf_none_iff]
  case addrUnique => simp [check, Clause.Holds, dupOf_none_iff]
  case rdsClosed =>
    simp only [check, Clause.Holds, Option.map_eq_none_iff, List.find?_eq_none]
    constructor
    · intro h r hr hq
      have := h r hr
      simpa [hq] using this
    · intro h r hr
      by_cases hq : r ∈ s.reqRds
      · simp [hq, h r hr hq]
      · simp [hq]
  case edsClosed =>
    simp only [check, Clause.Holds, Option.map_eq_none_iff, List.find?_eq_none]
    constructor
    · intro h c hc he hq
      have := h c hc
      simpa [he, hq] using this
    · intro h c hc
      by_cases he : c.eds = true
      · by_cases hq : c.loadName ∈ s.reqEds
        · simp [he, hq, h c hc he hq]
        · simp [hq]
      · simp [he]
  case vhostNames =>
    simp [check, Clause.Holds, List.findSome?_eq_none_iff, dupOf_none_iff]
  case domains =>
    simp [check, Clause.Holds, List.findSome?_eq_none_iff, dupOf_none_iff]
  case fcm =>
    simp [check, Clause.Holds, List.findSome?_eq_none_iff, dupOf_none_iff]
  case weights =>
    simp only [check, Clause.Holds, List.findSome?_eq_none_iff, Option.map_eq_none_iff,
      List.find?_eq_none]
    constructor
    · intro h rc hrc v hv ws hws
      have := h rc hrc v hv ws hws
      exact (weightsOkB_iff ws).mp (by simpa using this)
    · intro h rc hrc v hv ws hws
      simp [(weightsOkB_iff ws).mpr (h rc hrc v hv ws hws)]
  case apiValid =>
    simp only [check, Clause.Holds]
    cases s.invalid <;> simp

theorem Clause.mem_all (c : Clause) : c ∈ Clause.all := by
  cases c <;> simp [Clause.all]

/-- `WellFormed` is the conjunction of its clauses. -/
theorem wellFormed_iff_all (s : Snapshot) : WellFormed s ↔ ∀ c : Clause, c.Holds s := by
  constructor
  · intro h c
    cases c
    · exact h.ldsUnique
    · exact h.rdsUnique
    · exact h.cdsUnique
    · exact h.edsUnique
    · exact h.addrUnique
    · exact h.rdsClosed
    · exact h.edsClosed
    · exact h.vhostNames
    · exact h.domains
    · exact h.fcm
    · exact h.weights
    · exact h.apiValid
  · intro h
    exact ⟨h .ldsUnique, h .rdsUnique, h .cdsUnique, h .edsUnique, h .addrUnique, h .rdsClosed,
      h .edsClosed, h .vhostNames, h .domains, h .fcm, h .weights, h .apiValid⟩

/-- **Soundness and completeness of the monitor.** -/
theorem wellFormedB_iff (s : Snapshot) : wellFormedB s = true ↔ WellFormed s := by
  rw [wellFormed_iff_all]
  simp only [wellFormedB, List.all_eq_true, Option.isNone_iff_eq_none]
  constructor
  · intro h c
    exact (check_none_iff c s).mp (h c c.mem_all)
  · intro h c _
    exact (check_none_iff c s).mpr (h c)

theorem wellFormedB_false_iff (s : Snapshot) : wellFormedB s = false ↔ ¬ WellFormed s := by
  rw [← wellFormedB_iff]; simp

/-- The reporting function is silent exactly on accepted snapshots. -/
theorem firstViolation_none_iff (s : Snapshot) : firstViolation s = none ↔ wellFormedB s = true := by
  simp [firstViolation, wellFormedB, List.findSome?_eq_none_iff, List.all_eq_true]

theorem firstViolation_isSome_iff (s : Snapshot) : (firstViolation s).isSome = true ↔ ¬ WellFormed s := by
  rw [← wellFormedB_iff, ← firstViolation_none_iff]
  cases firstViolation s <;> simp

/-- A reported clause is really violated, with the detail of its check. -/
theorem firstViolation_sound {s : Snapshot} {c : Clause} {d : List String}
    (h : firstViolation s = some (c, d)) : check c s = some d ∧ ¬ c.Holds s := by
  unfold firstViolation at h
  obtain ⟨c', _, hc'⟩ := List.exists_of_findSome?_eq_some h
  cases hd : check c' s with
  | none => simp [hd] at hc'
  | some d' =>
    simp [hd] at hc'
    obtain ⟨rfl, rfl⟩ := hc'
    refine ⟨hd, ?_⟩
    intro hh
    rw [← check_none_iff] at hh
    simp [hh] at hd

private theorem findSome_first {α β : Type} (f : α → Option β) :
    ∀ (l : List α) (b : β), l.findSome? f = some b →
      ∃ l₁ a l₂, l = l₁ ++ a :: l₂ ∧ f a = some b ∧ ∀ x ∈ l₁, f x = none := by
  intro l
  induction l with
  | nil => intro b h; simp at h
  | cons a l ih =>
    intro b h
    cases ha : f a with
    | some b' =>
      simp [ha] at h
      subst h
      exact ⟨[], a, l, rfl, ha, by simp⟩
    | none =>
      simp [ha] at h
      obtain ⟨l₁, a', l₂, rfl, h1, h2⟩ := ih b h
      refine ⟨a :: l₁, a', l₂, rfl, h1, ?_⟩
      intro x hx
      rcases List.mem_cons.mp hx with rfl | hx
      · exact ha
      · exact h2 x hx

/-- The monitor reports the FIRST violated clause: every clause that precedes it in the evaluation
    order `Clause.all` holds. -/
theorem firstViolation_first {s : Snapshot} {c : Clause} {d : List String}
    (h : firstViolation s = some (c, d)) :
    ∃ before after, Clause.all = before ++ c :: after ∧ ∀ c' ∈ before, c'.Holds s := by
  unfold firstViolation at h
  obtain ⟨l₁, a, l₂, hl, ha, hbefore⟩ := findSome_first _ _ _ h
  have hac : a = c := by
    cases hd : check a s with
    | none => simp [hd] at ha
    | some d' => simp [hd] at ha; exact ha.1
  subst hac
  refine ⟨l₁, l₂, hl, ?_⟩
  intro c' hmem
  rw [← check_none_iff]
  have := hbefore c' hmem
  cases hd : check c' s with
  | none => rfl
  | some d' => simp [hd] at this

/-- The full report lists exactly the violated clauses, each with its check's detail. -/
theorem mem_allViolations_iff (s : Snapshot) (c : Clause) (d : List String) :
    (c, d) ∈ allViolations s ↔ check c s = some d := by
  unfold allViolations
  rw [List.mem_filterMap]
  constructor
  · rintro ⟨c', _, h⟩
    cases hc : check c' s with
    | none => simp [hc] at h
    | some d' =>
      simp [hc] at h
      obtain ⟨rfl, rfl⟩ := h
      exact hc
  · intro h
    exact ⟨c, c.mem_all, by simp [h]⟩

theorem allViolations_clause_iff (s : Snapshot) (c : Clause) :
    (∃ d, (c, d) ∈ allViolations s) ↔ ¬ c.Holds s := by
  rw [← check_none_iff]
  constructor
  · rintro ⟨d, h⟩ hn
    rw [mem_allViolations_iff] at h
    simp [hn] at h
  · intro h
    cases hc : check c s with
    | none => exact absurd hc h
    | some d => exact ⟨d, (mem_allViolations_iff s c d).mpr hc⟩

/-- The full report is empty exactly on well-formed snapshots, and its head is the first violation. -/
theorem allViolations_nil_iff (s : Snapshot) : allViolations s = [] ↔ WellFormed s := by
  rw [wellFormed_iff_all]
  constructor
  · intro h c
    apply Classical.byContradiction
    intro hn
    obtain ⟨d, hd⟩ := (allViolations_clause_iff s c).mpr hn
    rw [h] at hd; simp at hd
  · intro h
    apply List.eq_nil_iff_forall_not_mem.mpr
    rintro ⟨c, d⟩ hm
    exact (allViolations_clause_iff s c).mp ⟨d, hm⟩ (h c)

theorem allViolations_head (s : Snapshot) : (allViolations s).head? = firstViolation s := by
  unfold allViolations firstViolation
  generalize Clause.all = l
  induction l with
  | nil => rfl
  | cons a l ih =>
    cases h : check a s with
    | none => simp [h, ih]
    | some d => simp [h]

/-! ### Readable consequences of `WellFormed` -/

private theorem pairwise_of_nodup_flatMap {α : Type} (f : α → List String) :
    ∀ l : List α, (l.flatMap f).Nodup → l.Pairwise (fun a b => ∀ x ∈ f a, ∀ y ∈ f b, x ≠ y) := by
  intro l
  induction l with
  | nil => intro _; exact List.Pairwise.nil
  | cons a l ih =>
    intro h
    rw [List.flatMap_cons, List.nodup_append] at h
    obtain ⟨_, h2, h3⟩ := h
    refine List.Pairwise.cons ?_ (ih h2)
    intro b hb x hx y hy
    exact h3 x hx y (List.mem_flatMap.mpr ⟨b, hb, hy⟩)

/-- No two virtual hosts of one route configuration share a domain, case-insensitively. -/
theorem wellFormed_vhosts_disjoint {s : Snapshot} (h : WellFormed s) {rc : RouteConfig} (hrc : rc ∈ s.routes) :
    rc.vhosts.Pairwise (fun v w => ∀ d ∈ v.domains, ∀ e ∈ w.domains, lower d ≠ lower e) := by
  have := pairwise_of_nodup_flatMap (fun v : VHost => v.domains.map lower) rc.vhosts (h.domains rc hrc)
  refine this.imp ?_
  intro v w hvw d hd e he
  exact hvw (lower d) (List.mem_map.mpr ⟨d, hd, rfl⟩) (lower e) (List.mem_map.mpr ⟨e, he, rfl⟩)

/-- Inside one virtual host no domain is listed twice (Envoy rejects that as well). -/
theorem wellFormed_vhost_domains_nodup {s : Snapshot} (h : WellFormed s) {rc : RouteConfig}
    (hrc : rc ∈ s.routes) {v : VHost} (hv : v ∈ rc.vhosts) : (v.domains.map lower).Nodup := by
  have hd := h.domains rc hrc
  unfold RouteConfig.domains at hd
  obtain ⟨l₁, l₂, hl⟩ := List.append_of_mem hv
  rw [hl, List.flatMap_append, List.flatMap_cons, List.nodup_append] at hd
  obtain ⟨_, h2, _⟩ := hd
  rw [List.nodup_append] at h2
  exact h2.1

/-- No two filter chains of one listener have the same match. -/
theorem wellFormed_chains_distinct {s : Snapshot} (h : WellFormed s) {l : Listener} (hl : l ∈ s.listeners) :
    l.chains.Pairwise (fun a b => a.key ≠ b.key) := by
  have := h.fcm l hl
  unfold Listener.keys at this
  exact (List.pairwise_map.mp this)

/-- Two distinct positions of the cluster list carry distinct names. -/
theorem wellFormed_clusters_distinct {s : Snapshot} (h : WellFormed s) :
    s.clusters.Pairwise (fun a b => a.name ≠ b.name) :=
  List.pairwise_map.mp h.cdsUnique

theorem wellFormed_listeners_distinct {s : Snapshot} (h : WellFormed s) :
    s.listeners.Pairwise (fun a b => a.name ≠ b.name) :=
  List.pairwise_map.mp h.ldsUnique

/-- A proxy that requests exactly what its listeners and clusters name gets all of it. -/
theorem wellFormed_closed {s : Snapshot} (h : WellFormed s)
    (hr : ∀ r ∈ s.referenced, r ∈ s.reqRds)
    (he : ∀ c ∈ s.clusters, c.eds = true → c.loadName ∈ s.reqEds) :
    (∀ r ∈ s.referenced, r ∈ s.rdsNames) ∧ (∀ c ∈ s.clusters, c.eds = true → c.loadName ∈ s.endpoints) :=
  ⟨fun r hrr => h.rdsClosed r hrr (hr r hrr), fun c hc hce => h.edsClosed c hc hce (he c hc hce)⟩

private theorem sublist_flatMap {α β : Type} (f : α → List β) :
    ∀ {l₁ l₂ : List α}, l₁.Sublist l₂ → (l₁.flatMap f).Sublist (l₂.flatMap f) := by
  intro l₁ l₂ h
  induction h with
  | slnil => simp
  | cons a _ ih => rw [List.flatMap_cons]; exact List.Sublist.trans ih (List.sublist_append_right _ _)
  | cons_cons a _ ih => rw [List.flatMap_cons, List.flatMap_cons]; exact List.Sublist.append (List.Sublist.refl _) ih

/-! ### Closure: dropping resources keeps uniqueness; the empty snapshot is well-formed -/

theorem wellFormed_empty : WellFormed {} := by
  rw [← wellFormedB_iff]; decide

/-- Removing listeners, route configurations and clusters (a sub-snapshot with the same EDS answer and
    requests restricted to what is still referenced) cannot introduce a collision: all uniqueness and
    range clauses are inherited. -/
theorem wellFormed_sublist_unique {s t : Snapshot} (h : WellFormed s)
    (hl : t.listeners.Sublist s.listeners) (hr : t.routes.Sublist s.routes)
    (hc : t.clusters.Sublist s.clusters) (he : t.endpoints.Sublist s.endpoints) :
    t.listenerNames.Nodup ∧ t.rdsNames.Nodup ∧ t.clusterNames.Nodup ∧ t.endpoints.Nodup ∧ t.addresses.Nodup ∧
    (∀ rc, rc ∈ t.routes → rc.vhostNames.Nodup ∧ rc.domains.Nodup) ∧ (∀ l, l ∈ t.listeners → l.keys.Nodup) := by
  refine ⟨?_, ?_, ?_, ?_, ?_, ?_, ?_⟩
  · exact List.Nodup.sublist (hl.map _) h.ldsUnique
  · exact List.Nodup.sublist ((hr.filter _).map _) h.rdsUnique
  · exact List.Nodup.sublist (hc.map _) h.cdsUnique
  · exact List.Nodup.sublist he h.edsUnique
  · exact List.Nodup.sublist (sublist_flatMap _ hl) h.addrUnique
  · intro rc hrc
    exact ⟨h.vhostNames rc (hr.subset hrc), h.domains rc (hr.subset hrc)⟩
  · intro l hl'
    exact h.fcm l (hl.subset hl')

/-! ### Non-vacuity: a concrete accepted snapshot and concrete rejected ones -/

def exGood : Snapshot :=
  { listeners := [{ name := "l80", addrs := ["t:80"],
                    chains := [{ key := "tp=raw", rds := ["80"] }, { key := "", rds := [] }] },
                  { name := "vo", addrs := ["t:15001"], chains := [{ key := "", rds := [] }] }],
    routes := [{ name := "80", inline := false,
                 vhosts := [{ name := "a:80", domains := ["a.ns", "a"],
                              weighted := [[80, 20]] },
                            { name := "any", domains := ["*"], weighted := [] }] }],
    clusters := [{ name := "o|80||a", eds := true, edsName := "" },
                 { name := "bh", eds := false, edsName := "" }],
    endpoints := ["o|80||a"],
    reqRds := ["80"], reqEds := ["o|80||a"] }

theorem exGood_accepted : wellFormedB exGood = true := by decide +kernel
example : WellFormed exGood := (wellFormedB_iff _).mp exGood_accepted

/-- the same with a second virtual host repeating a domain in another letter case -/
def exDupRoute : RouteConfig :=
  { name := "80", inline := false,
    vhosts := [{ name := "a", domains := ["foo.com"], weighted := [] },
               { name := "b", domains := ["FOO.com"], weighted := [] }] }
def exDupDomain : Snapshot := { exGood with routes := [exDupRoute] }

example : firstViolation exDupDomain = some (.domains, ["80", "foo.com"]) := by decide +kernel
theorem exDupDomain_rejected : wellFormedB exDupDomain = false := by decide +kernel
example : ¬ WellFormed exDupDomain := (wellFormedB_false_iff _).mp exDupDomain_rejected

/-- a requested EDS cluster without a load assignment, and a weight sum of zero -/
def exNoCla : Snapshot := { exGood with endpoints := [] }
example : firstViolation exNoCla = some (.edsClosed, ["o|80||a"]) := by
  decide +kernel
def exZeroRoute : RouteConfig :=
  { name := "r", inline := false, vhosts := [{ name := "v", domains := ["x"], weighted := [[0, 0]] }] }
def exZeroWeights : Snapshot := { routes := [exZeroRoute] }
example : check .weights exZeroWeights = some ["r", "v"] := by decide +kernel

end IstioModel.C14
