import IstioModel.C14.Kernels
import IstioModel.C14.MonitorTheorems

/-!
# C14 - theorems about the conflict-resolution kernels

`domains_unique_after_dedupe`      any sequence of virtual hosts through `dedupeDomains` with the shared set: no lower-cased
                                   domain occurs twice in the result (and none that was in the set before)
`routeConfig_domains_of_dedupe`    hence the monitor's `dup-domain` clause holds for a route configuration built that way
`dedupe_never_expanded_known`      an abbreviated host that is a known FQDN is never emitted (altHosts rule)
`clusters_unique_after_normalize`  names are unique after `normalizeClusters`; `normalize_first_wins`: the first definition of
                                   each name survives; nothing else is lost (`normalize_names`)
`requested_names_answered`         every requested name is answered exactly once, defined or not

What the LINK theorems (`routeConfig_domains_of_dedupe`, `cdsUnique_of_normalize`, `closure_of_answered`) are and are not:
they are CONDITIONAL - "IF the names / domains of a snapshot are the output of the kernel, THEN the monitor clause holds".
The hypothesis is an equation between the real output of generation and the model applied to the kernel's real input; the
kernels' inputs inside a real push are not observable, so no run establishes that equation. What is established per run is
(a) kernel = model on the inputs the kernel streams feed (T-diff), and (b) the clause itself on every real snapshot (T-mon).
`answered` is the specification of "always answer" written as a function, so `requested_names_answered` is true by
construction; its content lies in the `answer` stream (the real generators equal it). `one_entry_per_key`
(ListenerConflictTheorems) likewise restates that the listener map is a map; the exhaustive table ties the decision.
-/
namespace IstioModel.C14

/-! ### dedupeDomains -/

theorem dedupeKept_sublist (e k : List String) : ∀ (ds vh : List String), (dedupeKept e k ds vh).Sublist ds := by
  intro ds
  induction ds with
  | nil => intro vh; simp [dedupeKept]
  | cons d ds ih =>
    intro vh
    unfold dedupeKept
    split
    · exact (ih _).cons_cons d
    · exact (ih _).cons d

/-- The shared set afterwards = the set before plus the lower-cased kept domains. -/
theorem mem_dedupeSet (e k : List String) : ∀ (ds vh : List String) (x : String),
    x ∈ dedupeSet e k ds vh ↔ x ∈ vh ∨ x ∈ (dedupeKept e k ds vh).map lower := by
  intro ds
  induction ds with
  | nil => intro vh x; simp [dedupeSet, dedupeKept]
  | cons d ds ih =>
    intro vh x
    unfold dedupeSet dedupeKept
    split
    · rw [ih]
      simp only [List.mem_cons, List.map_cons]
      constructor
      · rintro ((h | h) | h)
        · exact Or.inr (Or.inl h)
        · exact Or.inl h
        · exact Or.inr (Or.inr h)
      · rintro (h | h | h)
        · exact Or.inl (Or.inr h)
        · exact Or.inl (Or.inl h)
        · exact Or.inr h
    · exact ih vh x

/-- One call: the kept domains are pairwise distinct after lower-casing and none was in the set before. -/
theorem dedupeKept_nodup (e k : List String) : ∀ (ds vh : List String),
    ((dedupeKept e k ds vh).map lower).Nodup ∧ ∀ x ∈ (dedupeKept e k ds vh).map lower, x ∉ vh := by
  intro ds
  induction ds with
  | nil => intro vh; simp [dedupeKept]
  | cons d ds ih =>
    intro vh
    unfold dedupeKept
    split
    · rename_i hk
      have ⟨h1, h2⟩ := ih (lower d :: vh)
      have hd : lower d ∉ vh := by
        simp [keepDomain] at hk
        exact hk.1
      refine ⟨?_, ?_⟩
      · rw [List.map_cons, List.nodup_cons]
        refine ⟨?_, h1⟩
        intro hmem
        exact h2 _ hmem List.mem_cons_self
      · intro x hx
        rw [List.map_cons, List.mem_cons] at hx
        rcases hx with rfl | hx
        · exact hd
        · intro hv
          exact h2 x hx (List.mem_cons_of_mem _ hv)
    · exact ih vh

/-- The altHosts rule: a domain that is both an expanded (abbreviated) host and a known FQDN is never emitted,
    and nothing already in the shared set is. -/
theorem dedupe_never_expanded_known (e k : List String) : ∀ (ds vh : List String) (d : String),
    d ∈ dedupeKept e k ds vh → ¬ (d ∈ e ∧ d ∈ k) ∧ lower d ∉ vh := by
  intro ds
  induction ds with
  | nil => intro vh d h; simp [dedupeKept] at h
  | cons a ds ih =>
    intro vh d h
    unfold dedupeKept at h
    split at h
    · rename_i hk
      rcases List.mem_cons.mp h with rfl | h
      · simp [keepDomain] at hk
        refine ⟨fun ⟨h1, h2⟩ => ?_, hk.1⟩
        rcases hk.2 with h | h
        · exact h h1
        · exact h h2
      · have ⟨h1, h2⟩ := ih _ d h
        exact ⟨h1, fun hv => h2 (List.mem_cons_of_mem _ hv)⟩
    · exact ih vh d h

/-- A dropped domain was dropped for one of the two reasons (completeness of the rule), stated for the head. -/
theorem dedupe_head_kept_iff (e k ds vh : List String) (d : String) :
    (dedupeKept e k (d :: ds) vh).head? = some d ∨ ¬ keepDomain vh e k d = true := by
  unfold dedupeKept
  by_cases h : keepDomain vh e k d = true
  · simp [h]
  · exact Or.inr h

/-- **domains_unique_after_dedupe.** For any sequence of services (virtual hosts) passed through `dedupeDomains`
    with the shared set - whatever their domains, expanded hosts and the known FQDNs - no lower-cased domain
    occurs twice in the whole result, and none that the set already contained. -/
theorem domains_unique_after_dedupe (known : List String) :
    ∀ (calls : List (List String × List String)) (vh : List String),
      ((runDedupe known calls vh).flatten.map lower).Nodup ∧
      ∀ x ∈ (runDedupe known calls vh).flatten.map lower, x ∉ vh := by
  intro calls
  induction calls with
  | nil => intro vh; simp [runDedupe]
  | cons c cs ih =>
    intro vh
    unfold runDedupe
    have ⟨k1, k2⟩ := dedupeKept_nodup c.2 known c.1 vh
    have ⟨r1, r2⟩ := ih (dedupeSet c.2 known c.1 vh)
    rw [List.flatten_cons, List.map_append]
    refine ⟨?_, ?_⟩
    · rw [List.nodup_append]
      refine ⟨k1, r1, ?_⟩
      intro a ha b hb hab
      subst hab
      exact r2 a hb ((mem_dedupeSet _ _ _ _ _).mpr (Or.inr ha))
    · intro x hx
      rcases List.mem_append.mp hx with hx | hx
      · exact k2 x hx
      · intro hv
        exact r2 x hx ((mem_dedupeSet _ _ _ _ _).mpr (Or.inl hv))

/-- Link to the monitor: a route configuration whose virtual hosts carry the domain lists `dedupeDomains` produced
    (starting from the empty shared set) satisfies the `dup-domain` clause. -/
theorem routeConfig_domains_of_dedupe (known : List String) (calls : List (List String × List String))
    (rc : RouteConfig) (h : rc.vhosts.map (·.domains) = runDedupe known calls []) : rc.domains.Nodup := by
  have := (domains_unique_after_dedupe known calls []).1
  rw [← h] at this
  unfold RouteConfig.domains
  have e : ∀ l : List VHost, l.flatMap (fun v => v.domains.map lower) = ((l.map (·.domains)).flatten).map lower := by
    intro l
    induction l with
    | nil => simp
    | cons v l ih => simp [List.flatMap_cons, ih]
  rw [e]
  exact this

/-- Case-insensitivity is essential: the case-sensitive variant is refuted by a two-element witness. -/
def dedupeKeptCaseSensitive (ds : List String) : List String :=
  (normalizeClusters (ds.map (fun d => (d, 0)))).map (·.1)

theorem caseSensitive_dedupe_witness :
    ¬ ((dedupeKeptCaseSensitive ["foo.com", "FOO.com"]).map lower).Nodup := by decide +kernel

example : dedupeKept [] [] ["foo.com", "FOO.com", "bar"] [] = ["foo.com", "bar"] := by decide +kernel
example : runDedupe ["a.ns"] [(["a.ns.svc", "a"], ["a"]), (["a.ns", "A", "a"], ["a.ns"])] [] = [["a.ns.svc", "a"], []] := by
  decide +kernel

/-! ### normalizeClusters -/

theorem normalizeFrom_sublist : ∀ (l : List NamedCluster) (h : List String), (normalizeFrom l h).Sublist l := by
  intro l
  induction l with
  | nil => intro h; simp [normalizeFrom]
  | cons c cs ih =>
    intro h
    unfold normalizeFrom
    split
    · exact (ih _).cons c
    · exact (ih _).cons_cons c

theorem normalizeFrom_nodup : ∀ (l : List NamedCluster) (h : List String),
    ((normalizeFrom l h).map (·.1)).Nodup ∧ ∀ n ∈ (normalizeFrom l h).map (·.1), n ∉ h := by
  intro l
  induction l with
  | nil => intro h; simp [normalizeFrom]
  | cons c cs ih =>
    intro h
    unfold normalizeFrom
    split
    · exact ih h
    · rename_i hc
      have hc' : c.1 ∉ h := by simpa using hc
      have ⟨h1, h2⟩ := ih (c.1 :: h)
      refine ⟨?_, ?_⟩
      · rw [List.map_cons, List.nodup_cons]
        exact ⟨fun hm => h2 _ hm List.mem_cons_self, h1⟩
      · intro n hn
        rw [List.map_cons, List.mem_cons] at hn
        rcases hn with rfl | hn
        · exact hc'
        · exact fun hv => h2 n hn (List.mem_cons_of_mem _ hv)

/-- **clusters_unique_after_normalize.** -/
theorem clusters_unique_after_normalize (l : List NamedCluster) : ((normalizeClusters l).map (·.1)).Nodup :=
  (normalizeFrom_nodup l []).1

theorem normalize_sublist (l : List NamedCluster) : (normalizeClusters l).Sublist l := normalizeFrom_sublist l []

theorem normalizeFrom_names : ∀ (l : List NamedCluster) (h : List String) (n : String),
    n ∈ (normalizeFrom l h).map (·.1) ↔ n ∈ l.map (·.1) ∧ n ∉ h := by
  intro l
  induction l with
  | nil => intro h n; simp [normalizeFrom]
  | cons c cs ih =>
    intro h n
    unfold normalizeFrom
    split
    · rename_i hc
      have hc' : c.1 ∈ h := by simpa using hc
      rw [ih]
      simp only [List.map_cons, List.mem_cons]
      constructor
      · rintro ⟨h1, h2⟩; exact ⟨Or.inr h1, h2⟩
      · rintro ⟨h1 | h1, h2⟩
        · subst h1; exact absurd hc' h2
        · exact ⟨h1, h2⟩
    · rename_i hc
      have hc' : c.1 ∉ h := by simpa using hc
      simp only [List.map_cons, List.mem_cons]
      rw [ih]
      simp only [List.mem_cons, not_or]
      constructor
      · rintro (h1 | ⟨h1, h2, h3⟩)
        · subst h1; exact ⟨Or.inl rfl, hc'⟩
        · exact ⟨Or.inr h1, h3⟩
      · rintro ⟨h1 | h1, h2⟩
        · exact Or.inl h1
        · by_cases e : n = c.1
          · exact Or.inl e
          · exact Or.inr ⟨h1, e, h2⟩

/-- No name is lost and none invented. -/
theorem normalize_names (l : List NamedCluster) (n : String) :
    n ∈ (normalizeClusters l).map (·.1) ↔ n ∈ l.map (·.1) := by
  unfold normalizeClusters
  rw [normalizeFrom_names]; simp

theorem normalizeFrom_first : ∀ (l : List NamedCluster) (h : List String) (c : NamedCluster),
    c ∈ normalizeFrom l h → l.find? (fun x => x.1 == c.1) = some c := by
  intro l
  induction l with
  | nil => intro h c hc; simp [normalizeFrom] at hc
  | cons a cs ih =>
    intro h c hc
    unfold normalizeFrom at hc
    split at hc
    · rename_i ha
      have ha' : a.1 ∈ h := by simpa using ha
      have hne : a.1 ≠ c.1 := by
        intro e
        have := (normalizeFrom_nodup cs h).2 c.1 (List.mem_map.mpr ⟨c, hc, rfl⟩)
        exact this (e ▸ ha')
      have hb : (a.1 == c.1) = false := by simpa using hne
      rw [List.find?_cons]
      simp only [hb]
      exact ih h c hc
    · rcases List.mem_cons.mp hc with rfl | hc
      · simp
      · have hne : a.1 ≠ c.1 := by
          intro e
          have := (normalizeFrom_nodup cs (a.1 :: h)).2 c.1 (List.mem_map.mpr ⟨c, hc, rfl⟩)
          exact this (e ▸ List.mem_cons_self)
        have hb : (a.1 == c.1) = false := by simpa using hne
        rw [List.find?_cons]
        simp only [hb]
        exact ih _ c hc

/-- **First wins**: a kept cluster is the first one of the input carrying its name. -/
theorem normalize_first_wins (l : List NamedCluster) (c : NamedCluster) (h : c ∈ normalizeClusters l) :
    l.find? (fun x => x.1 == c.1) = some c := normalizeFrom_first l [] c h

theorem normalizeFrom_id_of_nodup : ∀ (l : List NamedCluster) (h : List String),
    (l.map (·.1)).Nodup → (∀ n ∈ l.map (·.1), n ∉ h) → normalizeFrom l h = l := by
  intro l
  induction l with
  | nil => intro h _ _; simp [normalizeFrom]
  | cons c cs ih =>
    intro h hn hd
    unfold normalizeFrom
    have hc : c.1 ∉ h := hd c.1 (by simp)
    rw [List.map_cons, List.nodup_cons] at hn
    simp only [List.contains_iff_mem, hc, if_false]
    · congr 1
      apply ih _ hn.2
      intro n hn' hv
      rcases List.mem_cons.mp hv with rfl | hv
      · exact hn.1 hn'
      · exact hd n (by simp [List.mem_map] at hn' ⊢; exact Or.inr hn') hv
    all_goals simp

/-- Already unique lists are left alone; in particular `normalizeClusters` is idempotent. -/
theorem normalize_idem (l : List NamedCluster) : normalizeClusters (normalizeClusters l) = normalizeClusters l := by
  unfold normalizeClusters
  exact normalizeFrom_id_of_nodup _ [] (normalizeFrom_nodup l []).1 (by simp)

/-- Link to the monitor: the cluster names of a CDS response that went through `normalizeClusters` satisfy `cds-unique`. -/
theorem cdsUnique_of_normalize (l : List NamedCluster) (s : Snapshot)
    (h : s.clusterNames = (normalizeClusters l).map (·.1)) : Clause.cdsUnique.Holds s := by
  simp only [Clause.Holds, h]
  exact clusters_unique_after_normalize l

/-- Without the de-duplication two definitions of a name both survive (the mutation "keep both"). -/
theorem keepBoth_witness : ¬ (([("outbound|80||a", 0), ("outbound|80||a", 1)] : List NamedCluster).map (·.1)).Nodup := by
  decide +kernel

example : normalizeClusters [("a", 0), ("b", 1), ("a", 2), ("c", 3), ("b", 4)] = [("a", 0), ("b", 1), ("c", 3)] := by
  decide +kernel

/-! ### always answer requested names -/

/-- **requested_names_answered.** Every requested name is answered, exactly once, whether or not anything defines it. -/
theorem requested_names_answered (requested : List String) :
    (∀ n ∈ requested, n ∈ answered requested) ∧ (answered requested).Nodup ∧
    (∀ n ∈ answered requested, n ∈ requested) := by
  unfold answered
  refine ⟨?_, clusters_unique_after_normalize _, ?_⟩
  · intro n hn
    rw [normalize_names]
    simp [List.mem_map]; exact hn
  · intro n hn
    rw [normalize_names] at hn
    simpa [List.mem_map] using hn

theorem answerEds_names (defined : List (String × Nat)) (requested : List String) :
    (answerEds defined requested).map (·.1) = answered requested := by
  simp [answerEds, List.map_map, Function.comp_def]

/-- A name nothing defines is answered with an empty load assignment (not skipped). -/
theorem answerEds_unknown_empty (defined : List (String × Nat)) (requested : List String) (n : String)
    (hr : n ∈ requested) (hu : defined.lookup n = none) : (n, 0) ∈ answerEds defined requested := by
  unfold answerEds
  apply List.mem_map.mpr
  exact ⟨n, (requested_names_answered requested).1 n hr, by simp [hu]⟩

/-- Link to the monitor: if the EDS / RDS responses answer `answered` of the requested names, the closure clauses hold. -/
theorem closure_of_answered (s : Snapshot) (he : s.endpoints = answered s.reqEds) (hr : s.rdsNames = answered s.reqRds) :
    Clause.edsClosed.Holds s ∧ Clause.rdsClosed.Holds s ∧ Clause.edsUnique.Holds s := by
  refine ⟨?_, ?_, ?_⟩
  · intro c _ _ hq
    rw [he]; exact (requested_names_answered _).1 _ hq
  · intro r _ hq
    rw [hr]; exact (requested_names_answered _).1 _ hq
  · simp only [Clause.Holds, he]; exact (requested_names_answered _).2.1

/-- Skipping unknown names (the mutation) breaks closure: a witness for the monitor. -/
def exSkipUnknown : Snapshot :=
  { clusters := [{ name := "c", eds := true, edsName := "" }], endpoints := [], reqEds := ["c"] }

theorem skipUnknown_witness : ¬ Clause.edsClosed.Holds exSkipUnknown := by
  rw [← check_none_iff]; decide +kernel

example : answerEds [("a", 2)] ["b", "a", "b"] = [("b", 0), ("a", 2)] := by decide +kernel

end IstioModel.C14
