/-!
# C14 - the gateway TLS-host duplicate filter (exact model)

`model.CheckDuplicates(hosts, bind, knownHosts)` (pilot/pkg/model/gateway.go) is asked once per TLS server of a
gateway port (by `mergeGateways`, with the server's SNI hosts) and once per SNI route of a passthrough server (by
`buildGatewayNetworkFiltersFromTLSRoutes`); what it accepts becomes a filter chain whose match is `server_names =
hosts` on the listener `bind:port`.  The Go table is a map host -> first bind seen, plus composite keys for further
binds of a host (so that callers that pre-fill it as host -> bind keep working); what it remembers is a set of
(bind, host) pairs, which is how the model keeps it (the harness prints the Go map as those pairs).

`checkDuplicates`        the repaired function (table keyed by bind AND host)
`checkDuplicatesOld`     the function before the repair (table host -> last bind), kept for `..._witness_unfixed`
Core Lean only.
-/
namespace IstioModel.C14

/-- the table: which (bind, host) pairs are taken -/
abbrev HostTable := List (String × String)

/-- hosts of the request that are already taken on this bind -/
def duplicatesOf (hosts : List String) (bind : String) (t : HostTable) : List String :=
  hosts.filter (fun h => t.contains (bind, h))

/-- `CheckDuplicates`: the duplicates, and the table afterwards (all hosts are recorded iff there was no duplicate). -/
def checkDuplicates (hosts : List String) (bind : String) (t : HostTable) : List String × HostTable :=
  let d := duplicatesOf hosts bind t
  if d.isEmpty then (d, t ++ hosts.map (fun h => (bind, h))) else (d, t)

/-- A server / SNI route as far as the filter is concerned. -/
structure TlsServer where
  hosts : List String
  bind  : String
  deriving Repr, DecidableEq

/-- The servers that survive, in order (the others are skipped with "duplicate host names"). -/
def acceptServers : List TlsServer → HostTable → List TlsServer
  | [], _ => []
  | s :: ss, t =>
    if (duplicatesOf s.hosts s.bind t).isEmpty then s :: acceptServers ss (checkDuplicates s.hosts s.bind t).2
    else acceptServers ss t

/-! ### the function before the repair: host -> last bind -/

abbrev OldTable := List (String × String)   -- host, bind; the first pair for a host is the map entry

def OldTable.get : OldTable → String → Option String
  | [], _ => none
  | p :: m, h => if p.1 = h then some p.2 else OldTable.get m h

def OldTable.put (m : OldTable) (h b : String) : OldTable := (h, b) :: m.filter (fun p => p.1 != h)

def checkDuplicatesOld (hosts : List String) (bind : String) (t : OldTable) : List String × OldTable :=
  let d := hosts.filter (fun h => t.get h == some bind)
  if d.isEmpty then (d, hosts.foldl (fun m h => m.put h bind) t) else (d, t)

def acceptServersOld : List TlsServer → OldTable → List TlsServer
  | [], _ => []
  | s :: ss, t =>
    if (checkDuplicatesOld s.hosts s.bind t).1.isEmpty then s :: acceptServersOld ss (checkDuplicatesOld s.hosts s.bind t).2
    else acceptServersOld ss t

end IstioModel.C14
