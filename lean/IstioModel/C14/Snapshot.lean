/-!
# C14 - the abstract xDS snapshot and its well-formedness (verified monitor, mechanism T-mon)

`Snapshot` is what the harness reduces one REAL full push for one proxy to (harness/c14/reduce.go):
listeners (name, socket addresses, filter chains with a canonical `FilterChainMatch` key and the RDS
route names their HTTP connection managers reference), route configurations (name, virtual hosts with
name / domains / the weights of every `weighted_clusters` action), clusters (name, EDS?, EDS service
name), the cluster names of the `ClusterLoadAssignment`s, the requested RDS / EDS names, and the
names of resources the xDS API's own generated validation (protoc-gen-validate) rejected.

`WellFormed` is the property statement of C14 over that abstraction, clause by clause, as a `Prop`.
`check` decides one clause and reports the offending item; `wellFormedB` / `firstViolation` are the
executable monitor the driver runs.  Soundness and completeness are in `MonitorTheorems.lean`.

What Envoy rejects (go-control-plane API comments + Envoy's loaders):
* two resources of one type with one name in a state-of-the-world response;
* two listeners on one socket address (`ListenerImpl::hasDuplicatedAddress`, also for listeners that do not bind);
* a domain occurring twice in ONE RouteConfiguration, compared after ASCII lower-casing, also inside one
  virtual host ("A domain must be unique across all virtual hosts or the config will fail to load");
* two virtual hosts with one name in a RouteConfiguration;
* two filter chains of one listener with equal `FilterChainMatch` (absent = empty match);
* `weighted_clusters`: every weight a uint32, the sum > 0 and <= 4294967295.
-/
namespace IstioModel.C14

structure FilterChain where
  /-- canonical rendering of the chain's `FilterChainMatch` (absent and empty match render alike) -/
  key : String
  /-- RDS route names referenced by the chain's HTTP connection managers -/
  rds : List String
  deriving Repr, DecidableEq

structure Listener where
  name   : String
  /-- socket addresses (main + additional), canonical `proto:ip:port` / `pipe:path` / `internal:name` -/
  addrs  : List String
  chains : List FilterChain
  deriving Repr, DecidableEq

structure VHost where
  name     : String
  domains  : List String
  /-- one entry per route action of kind `weighted_clusters`: the weights of its clusters -/
  weighted : List (List Int)
  deriving Repr, DecidableEq

structure RouteConfig where
  name   : String
  /-- an inline route configuration of an HTTP connection manager (not an RDS resource: its name is
      not subject to name uniqueness, everything else is) -/
  inline : Bool
  vhosts : List VHost
  deriving Repr, DecidableEq

structure Cluster where
  name    : String
  eds     : Bool
  /-- `eds_cluster_config.service_name`; empty = the cluster name is the EDS resource name -/
  edsName : String
  deriving Repr, DecidableEq

structure Snapshot where
  listeners : List Listener := []
  routes    : List RouteConfig := []
  clusters  : List Cluster := []
  /-- `cluster_name` of every ClusterLoadAssignment of the EDS response -/
  endpoints : List String := []
  reqRds    : List String := []
  reqEds    : List String := []
  /-- resources rejected by the API's generated `Validate()` (observed by the harness) -/
  invalid   : List String := []
  deriving Repr, DecidableEq

/-- Envoy compares domains after ASCII lower-casing (`Http::LowerCaseString`); `Char.toLower` changes
    `A`-`Z` only.  (Written through `List Char` so that the kernel evaluates it quickly in examples.) -/
def lower (s : String) : String := String.ofList (s.toList.map Char.toLower)

def Cluster.loadName (c : Cluster) : String := if c.edsName = "" then c.name else c.edsName

def Snapshot.listenerNames (s : Snapshot) : List String := s.listeners.map (·.name)
def Snapshot.addresses (s : Snapshot) : List String := s.listeners.flatMap (·.addrs)
def Snapshot.rdsNames (s : Snapshot) : List String := (s.routes.filter (fun r => !r.inline)).map (·.name)
def Snapshot.clusterNames (s : Snapshot) : List String := s.clusters.map (·.name)
/-- every RDS name some listener refers to -/
def Snapshot.referenced (s : Snapshot) : List String :=
  s.listeners.flatMap (fun l => l.chains.flatMap (·.rds))

def RouteConfig.vhostNames (rc : RouteConfig) : List String := rc.vhosts.map (·.name)
/-- all domains of a route configuration, lower-cased, in order (with repetitions) -/
def RouteConfig.domains (rc : RouteConfig) : List String :=
  rc.vhosts.flatMap (fun v => v.domains.map lower)
def Listener.keys (l : Listener) : List String := l.chains.map (·.key)

/-- uint32 maximum: the bound of a weight and of a weight sum. -/
def weightMax : Int := 4294967295

def WeightsOk (ws : List Int) : Prop :=
  (∀ w ∈ ws, 0 ≤ w ∧ w ≤ weightMax) ∧ 0 < ws.sum ∧ ws.sum ≤ weightMax

/-- The property statement over the abstract snapshot. -/
structure WellFormed (s : Snapshot) : Prop where
  /-- names are unique within a type -/
  ldsUnique  : s.listenerNames.Nodup
  rdsUnique  : s.rdsNames.Nodup
  cdsUnique  : s.clusterNames.Nodup
  edsUnique  : s.endpoints.Nodup
  /-- no two listeners (or two addresses of one listener) on one socket address -/
  addrUnique : s.addresses.Nodup
  /-- every route configuration named by a listener is produced when requested -/
  rdsClosed  : ∀ r, r ∈ s.referenced → r ∈ s.reqRds → r ∈ s.rdsNames
  /-- every endpoint set named by an EDS cluster is produced when requested -/
  edsClosed  : ∀ c, c ∈ s.clusters → c.eds = true → c.loadName ∈ s.reqEds → c.loadName ∈ s.endpoints
  /-- virtual-host names are unique within a route configuration -/
  vhostNames : ∀ rc, rc ∈ s.routes → rc.vhostNames.Nodup
  /-- no domain occurs twice (case-insensitively) within a route configuration -/
  domains    : ∀ rc, rc ∈ s.routes → rc.domains.Nodup
  /-- no two filter chains of a listener have equal FilterChainMatch -/
  fcm        : ∀ l, l ∈ s.listeners → l.keys.Nodup
  /-- weights are in range and sum within Envoy's limits -/
  weights    : ∀ rc, rc ∈ s.routes → ∀ v, v ∈ rc.vhosts → ∀ ws, ws ∈ v.weighted → WeightsOk ws
  /-- every resource satisfies the xDS API's own validation rules -/
  apiValid   : s.invalid = []

/-! ## The executable monitor -/

inductive Clause where
  | ldsUnique | rdsUnique | cdsUnique | edsUnique | addrUnique | rdsClosed | edsClosed
  | vhostNames | domains | fcm | weights | apiValid
  deriving Repr, DecidableEq

/-- Order in which the monitor evaluates (and reports) the clauses. -/
def Clause.all : List Clause :=
  [.ldsUnique, .rdsUnique, .cdsUnique, .edsUnique, .addrUnique, .rdsClosed, .edsClosed,
   .vhostNames, .domains, .fcm, .weights, .apiValid]

def Clause.tok : Clause → String
  | .ldsUnique => "lds-unique" | .rdsUnique => "rds-unique" | .cdsUnique => "cds-unique"
  | .edsUnique => "eds-unique" | .addrUnique => "addr-unique" | .rdsClosed => "rds-closed"
  | .edsClosed => "eds-closed" | .vhostNames => "vhost-name" | .domains => "dup-domain"
  | .fcm => "dup-fcm" | .weights => "weights" | .apiValid => "api-valid"

/-- What a clause says about a snapshot. -/
def Clause.Holds : Clause → Snapshot → Prop
  | .ldsUnique,  s => s.listenerNames.Nodup
  | .rdsUnique,  s => s.rdsNames.Nodup
  | .cdsUnique,  s => s.clusterNames.Nodup
  | .edsUnique,  s => s.endpoints.Nodup
  | .addrUnique, s => s.addresses.Nodup
  | .rdsClosed,  s => ∀ r, r ∈ s.referenced → r ∈ s.reqRds → r ∈ s.rdsNames
  | .edsClosed,  s => ∀ c, c ∈ s.clusters → c.eds = true → c.loadName ∈ s.reqEds → c.loadName ∈ s.endpoints
  | .vhostNames, s => ∀ rc, rc ∈ s.routes → rc.vhostNames.Nodup
  | .domains,    s => ∀ rc, rc ∈ s.routes → rc.domains.Nodup
  | .fcm,        s => ∀ l, l ∈ s.listeners → l.keys.Nodup
  | .weights,    s => ∀ rc, rc ∈ s.routes → ∀ v, v ∈ rc.vhosts → ∀ ws, ws ∈ v.weighted → WeightsOk ws
  | .apiValid,   s => s.invalid = []

/-- First element (in list order) that occurs again later in the list. -/
def dupOf : List String → Option String
  | [] => none
  | x :: xs => if xs.contains x then some x else dupOf xs

def weightsOkB (ws : List Int) : Bool :=
  ws.all (fun w => decide (0 ≤ w) && decide (w ≤ weightMax)) && decide (0 < ws.sum) && decide (ws.sum ≤ weightMax)

/-- Decide one clause: `none` = the clause holds, `some detail` = violated, with the offending item. -/
def check : Clause → Snapshot → Option (List String)
  | .ldsUnique,  s => (dupOf s.listenerNames).map (fun d => [d])
  | .rdsUnique,  s => (dupOf s.rdsNames).map (fun d => [d])
  | .cdsUnique,  s => (dupOf s.clusterNames).map (fun d => [d])
  | .edsUnique,  s => (dupOf s.endpoints).map (fun d => [d])
  | .addrUnique, s => (dupOf s.addresses).map (fun d => [d])
  | .rdsClosed,  s =>
    (s.referenced.find? (fun r => s.reqRds.contains r && !s.rdsNames.contains r)).map (fun r => [r])
  | .edsClosed,  s =>
    (s.clusters.find? (fun c => c.eds && s.reqEds.contains c.loadName && !s.endpoints.contains c.loadName)).map
      (fun c => [c.name])
  | .vhostNames, s => s.routes.findSome? (fun rc => (dupOf rc.vhostNames).map (fun d => [rc.name, d]))
  | .domains,    s => s.routes.findSome? (fun rc => (dupOf rc.domains).map (fun d => [rc.name, d]))
  | .fcm,        s => s.listeners.findSome? (fun l => (dupOf l.keys).map (fun d => [l.name, d]))
  | .weights,    s =>
    s.routes.findSome? (fun rc => rc.vhosts.findSome? (fun v =>
      (v.weighted.find? (fun ws => !weightsOkB ws)).map (fun _ => [rc.name, v.name])))
  | .apiValid,   s => match s.invalid with
    | [] => none
    | x :: _ => some [x]

/-- The monitor: all clauses hold. -/
def wellFormedB (s : Snapshot) : Bool := Clause.all.all (fun c => (check c s).isNone)

/-- The first violated clause (in `Clause.all` order) with its offending item. -/
def firstViolation (s : Snapshot) : Option (Clause × List String) :=
  Clause.all.findSome? (fun c => (check c s).map (fun d => (c, d)))

/-- EVERY violated clause (in `Clause.all` order), each with the offending item of its check: what the driver prints,
    so that a violation is not hidden behind another clause that is evaluated earlier. -/
def allViolations (s : Snapshot) : List (Clause × List String) :=
  Clause.all.filterMap (fun c => (check c s).map (fun d => (c, d)))

/-- Union of two snapshots (e.g. the resources of two pushes a proxy holds at once). -/
def Snapshot.merge (a b : Snapshot) : Snapshot :=
  { listeners := a.listeners ++ b.listeners, routes := a.routes ++ b.routes,
    clusters := a.clusters ++ b.clusters, endpoints := a.endpoints ++ b.endpoints,
    reqRds := a.reqRds ++ b.reqRds, reqEds := a.reqEds ++ b.reqEds, invalid := a.invalid ++ b.invalid }

end IstioModel.C14
