import IstioModel.C05.Model

/-!
# C05 - registration vs. publication, and start-up

Two of the mechanisms the property rests on:

* "the connection is registered before the proxy is initialised so that no snapshot is missed":
  `Reg` - `initConnection` (read snapshot, `addCon` + read again, initialise) against `Push`, whose two
  halves (`SetPushContext`, then `StartPush` over the registered connections) are SEPARATE steps that
  interleave freely with the connection's steps;
* "not serving before the caches are synced": `Boot` - `IsServerReady` gate and `InitContext` in
  `Stream` / `StreamDeltas`.
-/
namespace IstioModel.C05

/-! ## Registration vs. publication: no snapshot may be missed -/

/-- The connection is up to date: it serves from the newest published snapshot, or a push carrying
    that snapshot is parked for it, or the `Push` that published it has not reached its second half
    yet (it will enqueue that snapshot for every registered connection). -/
def UpToDate (r : Reg) : Prop :=
  r.lpc = r.global ∨ r.queued = some r.global ∨ r.inflight = some r.global

/-- **The window on the pinned tree** (`reread = false`; order inside `Push` as in the code).
    `LastPushContext` is read, then a snapshot is published and its push round enqueued (the
    unregistered connection is not in it), then the connection registers and initialises: it serves
    an old snapshot and nothing is parked for it - stale until the next, unrelated push. -/
theorem init_window_run :
    regRun false true {} [.advance, .setGlobal, .enqueue, .advance, .advance]
      = { global := 1, phase := .initialized, lpc := 0, queued := none, inflight := none } := by
  decide

theorem init_window_witness :
    ¬ UpToDate (regRun false true {} [.advance, .setGlobal, .enqueue, .advance, .advance]) := by
  rw [init_window_run]
  simp [UpToDate]

/-- **The order inside `Push` matters** (`reread = true`, i.e. the repaired `initConnection`, but
    `Push` enqueues BEFORE it publishes).  The push round runs while the connection is not
    registered; the connection then reads the still-old global snapshot twice, registers, and only
    then the new snapshot becomes global: missed again. -/
theorem enqueue_before_publish_run :
    regRun true false {} [.enqueue, .advance, .advance, .setGlobal, .advance]
      = { global := 1, phase := .initialized, lpc := 0, queued := none, inflight := none } := by
  decide

theorem enqueue_before_publish_witness :
    ¬ UpToDate (regRun true false {} [.enqueue, .advance, .advance, .setGlobal, .advance]) := by
  rw [enqueue_before_publish_run]
  simp [UpToDate]

/-- Invariant of the code as it is (`reread = true`, `publishFirst = true`). -/
structure RegInv (r : Reg) : Prop where
  lpc_le : r.lpc ≤ r.global
  inflight_eq : ∀ g, r.inflight = some g → g = r.global
  queued_ok : ∀ g, r.queued = some g →
    r.isRegistered = true ∧ r.lpc ≤ g ∧ g ≤ r.global ∧ (g = r.global ∨ r.inflight = some r.global)
  current : r.isRegistered = true → UpToDate r

theorem regInv_init : RegInv {} := by
  refine ⟨Nat.le_refl _, ?_, ?_, ?_⟩
  · intro g h; cases h
  · intro g h; cases h
  · intro h; simp [Reg.isRegistered] at h

theorem regInv_setGlobal (r : Reg) (h : RegInv r) : RegInv (regStep true true r .setGlobal) := by
  obtain ⟨hle, hin, hq, hup⟩ := h
  cases hi : r.inflight with
  | some g => simpa [regStep, hi] using (⟨hle, hin, hq, hup⟩ : RegInv r)
  | none =>
    have e : regStep true true r .setGlobal = { r with global := r.global + 1, inflight := some (r.global + 1) } := by
      simp [regStep, hi]
    rw [e]
    refine ⟨?_, ?_, ?_, ?_⟩
    · show r.lpc ≤ r.global + 1
      omega
    · intro g hg
      simpa using hg.symm
    · intro g hg
      obtain ⟨h1, h2, h3, _⟩ := hq g hg
      exact ⟨h1, h2, by show g ≤ r.global + 1; omega, Or.inr rfl⟩
    · intro _
      exact Or.inr (Or.inr rfl)

theorem regInv_enqueue (r : Reg) (h : RegInv r) : RegInv (regStep true true r .enqueue) := by
  obtain ⟨hle, hin, hq, hup⟩ := h
  cases hi : r.inflight with
  | none => simpa [regStep, hi] using (⟨hle, hin, hq, hup⟩ : RegInv r)
  | some g =>
    have hg : g = r.global := hin g hi
    subst hg
    by_cases hreg : r.isRegistered = true
    · have e : regStep true true r .enqueue = { r with queued := some r.global, inflight := none } := by
        simp [regStep, hi, hreg]
      rw [e]
      refine ⟨hle, ?_, ?_, ?_⟩
      · intro g hg; cases hg
      · intro g hg
        have : r.global = g := by simpa using hg
        subst this
        exact ⟨hreg, hle, Nat.le_refl _, Or.inl rfl⟩
      · intro _
        exact Or.inr (Or.inl rfl)
    · have hnq : r.queued = none := by
        cases hqq : r.queued with
        | none => rfl
        | some g => exact absurd (hq g hqq).1 hreg
      have e : regStep true true r .enqueue = { r with inflight := none } := by
        simp [regStep, hi, hreg]
      rw [e]
      refine ⟨hle, ?_, ?_, ?_⟩
      · intro g hg; cases hg
      · intro g hg
        have hg' : r.queued = some g := hg
        rw [hnq] at hg'; cases hg'
      · intro h'
        exact absurd h' hreg

theorem regInv_advance (r : Reg) (h : RegInv r) : RegInv (regStep true true r .advance) := by
  obtain ⟨hle, hin, hq, hup⟩ := h
  have hnq_of : r.isRegistered = false → r.queued = none := by
    intro hreg
    cases hqq : r.queued with
    | none => rfl
    | some g =>
      have := (hq g hqq).1
      rw [hreg] at this; cases this
  cases hph : r.phase with
  | start =>
    have hnq := hnq_of (by simp [Reg.isRegistered, hph])
    have e : regStep true true r .advance = { r with phase := .readSnapshot, lpc := r.global } := by
      simp [regStep, hph]
    rw [e]
    refine ⟨Nat.le_refl _, hin, ?_, ?_⟩
    · intro g hg
      have hg' : r.queued = some g := hg
      rw [hnq] at hg'; cases hg'
    · intro h'; simp [Reg.isRegistered] at h'
  | readSnapshot =>
    have hnq := hnq_of (by simp [Reg.isRegistered, hph])
    have e : regStep true true r .advance = { r with phase := .registered, lpc := r.global } := by
      simp [regStep, hph]
    rw [e]
    refine ⟨Nat.le_refl _, hin, ?_, ?_⟩
    · intro g hg
      have hg' : r.queued = some g := hg
      rw [hnq] at hg'; cases hg'
    · intro _
      exact Or.inl rfl
  | registered =>
    have hreg : r.isRegistered = true := by simp [Reg.isRegistered, hph]
    have e : regStep true true r .advance = { r with phase := .initialized } := by
      simp [regStep, hph]
    rw [e]
    refine ⟨hle, hin, ?_, ?_⟩
    · intro g hg
      obtain ⟨_, h2, h3, h4⟩ := hq g hg
      exact ⟨by simp [Reg.isRegistered], h2, h3, h4⟩
    · intro _
      exact hup hreg
  | initialized =>
    have e : regStep true true r .advance = r := by simp [regStep, hph]
    rw [e]
    exact ⟨hle, hin, hq, hup⟩

theorem regInv_handlePush (r : Reg) (h : RegInv r) : RegInv (regStep true true r .handlePush) := by
  obtain ⟨hle, hin, hq, hup⟩ := h
  by_cases hph : r.phase = .initialized
  · cases hqq : r.queued with
    | none =>
      have e : regStep true true r .handlePush = r := by simp [regStep, hph, hqq]
      rw [e]; exact ⟨hle, hin, hq, hup⟩
    | some g =>
      obtain ⟨hreg, h2, h3, h4⟩ := hq g hqq
      have e : regStep true true r .handlePush = { r with lpc := g, queued := none } := by
        simp [regStep, hph, hqq]
      rw [e]
      refine ⟨h3, hin, ?_, ?_⟩
      · intro g' hg'; cases hg'
      · intro _
        rcases h4 with h4 | h4
        · exact Or.inl h4
        · exact Or.inr (Or.inr h4)
  · have e : regStep true true r .handlePush = r := by
      cases hp : r.phase <;> simp_all [regStep]
    rw [e]; exact ⟨hle, hin, hq, hup⟩

theorem regInv_step (r : Reg) (e : RegStep) (h : RegInv r) : RegInv (regStep true true r e) := by
  cases e with
  | setGlobal => exact regInv_setGlobal r h
  | enqueue => exact regInv_enqueue r h
  | advance => exact regInv_advance r h
  | handlePush => exact regInv_handlePush r h

theorem regInv_run (steps : List RegStep) (r : Reg) (h : RegInv r) : RegInv (regRun true true r steps) := by
  induction steps generalizing r with
  | nil => exact h
  | cons e l ih => exact ih _ (regInv_step r e h)

theorem isRegistered_of_initialized (r : Reg) (h : r.phase = .initialized) : r.isRegistered = true := by
  simp [Reg.isRegistered, h]

/-- **No snapshot is missed (the code as it is).**  For EVERY interleaving of the two halves of
    `Push` (publish, then enqueue for the registered connections) with the connection's
    initialisation steps and its push handling: once the connection is registered it serves from the
    newest published snapshot, or a push carrying exactly that snapshot is parked for it, or the
    `Push` that published it is about to enqueue it. -/
theorem registration_no_miss (steps : List RegStep) :
    let r := regRun true true {} steps
    r.isRegistered = true → UpToDate r := by
  intro r
  exact (regInv_run steps {} regInv_init).current

/-- Quiescent corollary: initialised, no `Push` half-way and nothing parked ⇒ serving the newest snapshot. -/
theorem registration_no_miss_quiescent (steps : List RegStep) :
    let r := regRun true true {} steps
    r.phase = .initialized → r.queued = none → r.inflight = none → r.lpc = r.global := by
  intro r hph hq hi
  rcases registration_no_miss steps (isRegistered_of_initialized _ hph) with h | h | h
  · exact h
  · rw [hq] at h; cases h
  · rw [hi] at h; cases h

/-- Handling a parked push ASSIGNS `LastPushContext`; it never moves the proxy to an older snapshot
    than the one it serves from (the re-read after `addCon` cannot be undone by a push queued earlier). -/
theorem handlePush_never_goes_back (steps : List RegStep) :
    let r := regRun true true {} steps
    r.lpc ≤ (regStep true true r .handlePush).lpc := by
  intro r
  have hinv := regInv_run steps {} regInv_init
  by_cases hph : r.phase = .initialized
  · cases hqq : r.queued with
    | none => simp [regStep, hph, hqq]
    | some g =>
      have := (hinv.queued_ok g hqq).2.1
      simpa [regStep, hph, hqq] using this
  · have e : regStep true true r .handlePush = r := by
      cases hp : r.phase <;> simp_all [regStep]
    rw [e]; exact Nat.le_refl _

theorem settle_shape (r : Reg) :
    let r' := regRun true true r [.enqueue, .advance, .advance, .advance, .handlePush]
    r'.phase = .initialized ∧ r'.queued = none ∧ r'.inflight = none := by
  obtain ⟨g, ph, lpc, q, inf⟩ := r
  cases ph <;> cases q <;> cases inf <;> simp [regRun, regStep, Reg.isRegistered]

/-- It converges: from any reachable state, let the pending half of `Push` run, let the connection finish
    `initConnection` and handle its parked push - it then serves from the newest snapshot. -/
theorem registration_catches_up (steps : List RegStep) :
    let r := regRun true true {} (steps ++ [.enqueue, .advance, .advance, .advance, .handlePush])
    r.lpc = r.global := by
  intro r
  have hr : r = regRun true true (regRun true true {} steps) [.enqueue, .advance, .advance, .advance, .handlePush] := by
    simp [r, regRun, List.foldl_append]
  obtain ⟨h1, h2, h3⟩ := settle_shape (regRun true true {} steps)
  exact registration_no_miss_quiescent (steps ++ [.enqueue, .advance, .advance, .advance, .handlePush])
    (by rw [← hr] at h1; exact h1) (by rw [← hr] at h2; exact h2) (by rw [← hr] at h3; exact h3)

/-! ## Start-up: never served before the caches are synced -/

/-- Invariant of the start-up model with all three mechanisms in place. -/
structure BootInv (b : Boot) : Prop where
  le : b.caches ≤ b.full
  com_le : b.committed ≤ b.caches
  bld : ∀ c k, b.building = some (c, k) → c = k ∧ b.committed ≤ k ∧ k ≤ b.caches
  ctx_com : b.ctx = none ∨ b.ctx = some b.committed
  ready_full : b.ready = true → b.caches = b.full ∧ b.committed = b.full

theorem bootInv_init (F : Nat) : BootInv { full := F } := by
  refine ⟨Nat.zero_le _, Nat.le_refl _, ?_, Or.inl rfl, ?_⟩
  · intro c k h; cases h
  · intro h; cases h

theorem bootStep_full (gate ini cap : Bool) (b : Boot) (e : BootStep) : (bootStep gate ini cap b e).1.full = b.full := by
  cases e <;> simp only [bootStep] <;> split <;> (try rfl) <;> (try (split <;> rfl))

/-- One step keeps the invariant, and a proxy that connects is refused or served from a context
    initialised from the COMPLETE caches. -/
theorem bootInv_step (b : Boot) (e : BootStep) (h : BootInv b) :
    BootInv (bootStep true true true b e).1 ∧
      ∀ o, (bootStep true true true b e).2 = some o → o = .refused ∨ o = .from b.full := by
  obtain ⟨hle, hcom, hbld, hctx, hready⟩ := h
  cases e with
  | load =>
    by_cases hlt : b.caches < b.full
    · have e : bootStep true true true b .load = ({ b with caches := b.caches + 1 }, none) := by
        simp [bootStep, hlt]
      rw [e]
      refine ⟨⟨hlt, ?_, ?_, hctx, ?_⟩, by intro o ho; cases ho⟩
      · show b.committed ≤ b.caches + 1
        omega
      · intro c k hb
        obtain ⟨h1, h2, h3⟩ := hbld c k hb
        exact ⟨h1, h2, by show k ≤ b.caches + 1; omega⟩
      · intro hr
        have := (hready hr).1
        omega
    · have e : bootStep true true true b .load = (b, none) := by simp [bootStep, hlt]
      rw [e]
      exact ⟨⟨hle, hcom, hbld, hctx, hready⟩, by intro o ho; cases ho⟩
  | build =>
    cases hb : b.building with
    | some p =>
      have e : bootStep true true true b .build = (b, none) := by simp [bootStep, hb]
      rw [e]
      exact ⟨⟨hle, hcom, hbld, hctx, hready⟩, by intro o ho; cases ho⟩
    | none =>
      have e : bootStep true true true b .build = ({ b with building := some (b.caches, b.caches) }, none) := by
        simp [bootStep, hb]
      rw [e]
      refine ⟨⟨hle, hcom, ?_, hctx, hready⟩, by intro o ho; cases ho⟩
      intro c k hck
      have : b.caches = c ∧ b.caches = k := by simpa using hck
      obtain ⟨h1, h2⟩ := this
      subst h1
      exact ⟨h2, by show b.committed ≤ k; omega, by show k ≤ b.caches; omega⟩
  | commit =>
    cases hb : b.building with
    | none =>
      have e : bootStep true true true b .commit = (b, none) := by simp [bootStep, hb]
      rw [e]
      exact ⟨⟨hle, hcom, hbld, hctx, hready⟩, by intro o ho; cases ho⟩
    | some p =>
      obtain ⟨c, k⟩ := p
      obtain ⟨hck, hk1, hk2⟩ := hbld c k hb
      subst hck
      have e : bootStep true true true b .commit = ({ b with ctx := some c, building := none, committed := c }, none) := by
        simp [bootStep, hb]
      rw [e]
      refine ⟨⟨hle, hk2, ?_, Or.inr rfl, ?_⟩, by intro o ho; cases ho⟩
      · intro c' k' h'; cases h'
      · intro hr
        obtain ⟨h1, h2⟩ := hready hr
        refine ⟨h1, ?_⟩
        show c = b.full
        omega
  | markReady =>
    by_cases hc : b.caches = b.full ∧ b.caches ≤ b.committed
    · have e : bootStep true true true b .markReady = ({ b with ready := true }, none) := by
        simp only [bootStep]
        rw [if_pos hc]
      rw [e]
      refine ⟨⟨hle, hcom, hbld, hctx, ?_⟩, by intro o ho; cases ho⟩
      intro _
      refine ⟨hc.1, ?_⟩
      show b.committed = b.full
      omega
    · have e : bootStep true true true b .markReady = (b, none) := by
        simp only [bootStep]
        rw [if_neg hc]
      rw [e]
      exact ⟨⟨hle, hcom, hbld, hctx, hready⟩, by intro o ho; cases ho⟩
  | connect =>
    cases hr : b.ready with
    | false =>
      have e : bootStep true true true b .connect = (b, some .refused) := by simp [bootStep, hr]
      rw [e]
      exact ⟨⟨hle, hcom, hbld, hctx, hready⟩, by intro o ho; left; simpa using ho.symm⟩
    | true =>
      obtain ⟨hfull, hcf⟩ := hready hr
      have e : bootStep true true true b .connect = ({ b with ctx := some b.full }, some (.from b.full)) := by
        rcases hctx with hc | hc <;> simp [bootStep, hr, hc, hfull, hcf]
      rw [e]
      refine ⟨⟨hle, hcom, hbld, ?_, ?_⟩, by intro o ho; right; simpa using ho.symm⟩
      · right
        show some b.full = some b.committed
        rw [hcf]
      · intro _
        exact ⟨hfull, hcf⟩

theorem boot_outcomes (steps : List BootStep) (b : Boot) (h : BootInv b) :
    ∀ o ∈ (bootRun true true true b steps).2, o = .refused ∨ o = .from b.full := by
  induction steps generalizing b with
  | nil => intro o ho; simp [bootRun] at ho
  | cons e es ih =>
    intro o ho
    obtain ⟨hinv, hout⟩ := bootInv_step b e h
    simp only [bootRun, List.mem_append] at ho
    rcases ho with ho | ho
    · cases ho1 : (bootStep true true true b e).2 with
      | none => rw [ho1] at ho; simp at ho
      | some o' =>
        rw [ho1] at ho
        have : o = o' := by simpa using ho
        subst this
        exact hout o ho1
    · have := ih _ hinv o ho
      rwa [bootStep_full] at this

/-- **Not serving before the caches are synced.**  For every schedule of informer deliveries, debounced
    pushes (start and completion as separate steps, with deliveries in between), the readiness mark and
    connecting proxies, from a cold instance: a proxy that connects is either refused (it keeps what it has and
    retries) or served from a push context that was initialised from the COMPLETE caches - never from an
    uninitialised or partially filled one. -/
theorem never_served_cold (F : Nat) (steps : List BootStep) :
    ∀ o ∈ (bootRun true true true { full := F } steps).2, o = .refused ∨ o = .from F :=
  boot_outcomes steps { full := F } (bootInv_init F)

/-- Non-vacuity: an instance does get ready, and the first proxy is then served from everything -
    also when an object arrives while a push is running (the push that read the smaller caches does not make the
    instance ready), and when nothing ever triggered a push (`InitContext` in the stream initialises the context). -/
example : (bootRun true true true { full := 2 }
    [.connect, .load, .build, .load, .connect, .commit, .markReady, .connect, .build, .commit, .markReady, .connect]).2
    = [.refused, .refused, .refused, .from 2] := by decide
example : (bootRun true true true { full := 0 } [.connect, .markReady, .connect]).2 = [.refused, .from 0] := by decide

/-- Without the `IsServerReady` gate a reconnecting proxy is served from a half-filled (here: empty)
    context and loses configuration (istio/istio#25495). -/
theorem no_ready_gate_witness :
    (bootRun false true true { full := 2 } [.load, .connect]).2 = [.from 1] ∧
    (bootRun false true true { full := 2 } [.connect]).2 = [.from 0] := by decide

/-- Without `InitContext` in the stream entry point a ready instance on which nothing triggered a push
    yet serves from a never-initialised context. -/
theorem no_init_context_witness :
    (bootRun true false true { full := 0 } [.markReady, .connect]).2 = [.cold] := by decide

/-- **The committed counter must move only after the push has published its context.**  If the debouncer counts
    the merged updates as committed when the push STARTS, bootstrap's `CommittedUpdates >= InboundUpdates` test
    passes while the context built from the complete caches is not published yet: the instance is marked ready on
    the context of an earlier push, `InitContext` in the stream is a no-op on it, and the reconnecting proxy is
    served from partial caches. -/
theorem commit_before_push_witness :
    (bootRun true true false { full := 2 } [.load, .build, .commit, .load, .build, .markReady, .connect]).2 = [.from 1] := by
  decide

/-! ## `ProxyUpdate` with two connections of one proxy -/

/-- With the repair every registered connection of the proxy - in particular the live one - reads the new labels,
    whatever the map order. -/
theorem proxyUpdate_reaches_every_connection (n : Nat) (conns : List PConn) :
    ∀ c ∈ proxyUpdate true n conns, c.labels = n := by
  induction conns with
  | nil => intro c hc; cases hc
  | cons x xs ih =>
    intro c hc
    simp only [proxyUpdate, if_true, List.mem_cons] at hc
    rcases hc with hc | hc
    · rw [hc]
    · exact ih c hc

theorem proxyUpdate_keeps_connections (b : Bool) (n : Nat) (conns : List PConn) :
    (proxyUpdate b n conns).map (·.live) = conns.map (·.live) := by
  induction conns with
  | nil => rfl
  | cons x xs ih =>
    cases b
    · simp [proxyUpdate]
    · simp only [proxyUpdate, if_true, List.map_cons, ih]

/-- **Before repair 234a295**: when the map yields the dead (not yet noticed) connection first, the live stream
    keeps the old labels - and with them the old Sidecar selection - until something else updates the proxy. -/
theorem proxyUpdate_first_match_witness :
    proxyUpdate false 1 [{ live := false, labels := 0 }, { live := true, labels := 0 }]
      = [{ live := false, labels := 1 }, { live := true, labels := 0 }] := by decide

end IstioModel.C05
