import IstioModel.C05.ReconnectTheorems

/-!
# C05 - reconnect theorems, part 3: the ztunnel Authorization type

`WorkloadRBACGenerator` (model `IstioModel.C03.wauthOut`, tied to the real generator by the `wds`
stream) is delta-aware (`usedDelta = true`): `pushDeltaXds` does NOT compute `removed = watched -
generated` for it, the generator's own `deletedRes` is what goes on the wire.  So that a policy
deleted while a ztunnel was away is removed after the reconnect, the forced branch of the generator
has to list the names of the watched resource it is handed (`expected.Merge(w.ResourceNames)`) - on a
fresh stream these are exactly the names the client reported in `initial_resource_versions`.

* `wauth_reconnect_resync`: with the merge, the one answer brings ANY retained state that was
  reported to the current policy set; a retained policy that no longer exists is removed.
* `wauth_reconnect_witness_no_merge`: without the merge a deleted ALLOW / DENY policy stays in the
  ztunnel for ever.
-/
namespace IstioModel.C05
open IstioModel.C03 IstioModel.C04

/-! ## What a wildcard first request records -/

/-- The name set recorded / handed to the generator for a first delta request with an explicit `*`
    or the legacy empty (implicit wildcard) subscription that reports `init` as retained: exactly the
    names the client reported (never `*` itself). -/
theorem mem_deltaWatched_wild (sub init : List String) (nonce : String) (t : Ty)
    (hsub : sub = ["*"] ∨ sub = []) (x : String) (hx : x ≠ "*") :
    x ∈ (deltaWatched [] { ty := t, sub := sub, unsub := [], init := init, nonce := nonce, err := none }).1
      ↔ x ∈ init := by
  rw [mem_deltaWatched]
  rcases hsub with h | h <;> subst h <;> simp [hx]

/-- `*` itself is never recorded as a name. -/
theorem star_not_mem_deltaWatched (existing : List String) (r : DReq) : "*" ∉ (deltaWatched existing r).1 := by
  rw [mem_deltaWatched]
  simp

/-- Both forms of the wildcard subscription make the watch a wildcard watch. -/
theorem deltaWatched_wild_wildcard (sub init : List String) (nonce : String) (t : Ty)
    (hsub : sub = ["*"] ∨ sub = []) :
    (deltaWatched [] { ty := t, sub := sub, unsub := [], init := init, nonce := nonce, err := none }).2.1 = true := by
  unfold deltaWatched
  simp only [eraseAll]
  rcases hsub with h | h
  · subst h
    have hstar : "*" ∈ (insertAll (insertAll [] false ["*"]).fst (insertAll [] false ["*"]).snd init).fst := by
      rw [mem_insertAll, mem_insertAll]
      simp
    simp [hstar]
  · subst h
    simp

/-! ## The forced generation and its bookkeeping -/

/-- `pushDeltaXds` for the Authorization type on a forced generation: all policies, removed = the
    names of the watched resource that are no policy (the generator's own list - `usedDelta`), new
    record = (watched - removed) ∪ generated. -/
theorem wauth_pushDelta_forced (pols : List C03.Res) (updated wn : List String) :
    pushDelta .wauth wn (wauthOut pols true updated wn)
      = some ({ resources := pols, removed := diff wn (names pols) },
              some (union (diff wn (diff wn (names pols))) (names pols))) := by
  simp [pushDelta, GenOut.nilOut, wauthOut, wauthOutG, neverRemove, removedRaw, newNames, shouldSetWatched,
    Ty.managed, Ty.wildcard]

/-- As a set, that new record is exactly the set of existing policies. -/
theorem mem_wauth_record (wn : List String) (pols : List C03.Res) (n : String) :
    n ∈ union (diff wn (diff wn (names pols))) (names pols) ↔ n ∈ names pols := by
  simp only [union, List.mem_append, List.mem_filter, mem_diff]
  constructor
  · rintro (⟨_, h⟩ | ⟨h, _⟩)
    · exact Classical.byContradiction fun hn => h ⟨‹_›, hn⟩
    · exact h
  · intro h
    by_cases hw : n ∈ wn
    · exact Or.inl ⟨hw, fun hh => hh.2 h⟩
    · refine Or.inr ⟨h, ?_⟩
      simp [mem_diff, hw]

/-- What the answer `(pols, wn - pols)` does to ANY held state whose names are covered by `wn`. -/
theorem sync_of_cover (held : Held) (wn : List String) (W : List C03.Res)
    (hcover : ∀ n ∈ names held, n ∈ wn) :
    InSync (applyDelta held { resources := W, removed := diff wn (names W) }) W := by
  obtain ⟨resp, hpd, hsync, _⟩ :=
    wild_push_sync .cds wn held (fullOut W) (by decide) (by decide) rfl rfl rfl hcover
  have h2 := cds_pushDelta_full wn W
  rw [hpd] at h2
  injection h2 with h2
  injection h2 with h2 _
  subst h2
  exact hsync

/-- Closed form of `processDeltaRequest` for the first Authorization request of a stream with a
    wildcard subscription (`*` or legacy empty), any nonce, any `initial_resource_versions`. -/
theorem wauthProcess_fresh (pols : List C03.Res) (v : Srv)
    (hfresh : v.st .wauth = none) (hok : v.fail = false)
    (sub init : List String) (oldNonce : String) (hsub : sub = ["*"] ∨ sub = []) :
    let r : DReq := { ty := .wauth, sub := sub, unsub := [], init := init, nonce := oldNonce, err := none }
    let wn := (deltaWatched [] r).1
    let s1 := v.st.set .wauth (some { names := wn, wildcard := true })
    let nn := union (diff wn (diff wn (names pols))) (names pols)
    wauthProcess pols v r
      = some ({ v with st := sendDelta s1 .wauth (freshNonce v) (some nn) true, ctr := v.ctr + 1 },
          [{ ty := .wauth, resources := pols, removed := diff wn (names pols), nonce := freshNonce v }]) := by
  intro r wn s1 nn
  have hwild : (deltaWatched [] r).2.1 = true := deltaWatched_wild_wildcard sub init oldNonce .wauth hsub
  have hsr : shouldRespondDelta v.st r = .out true s1 := by
    simp only [r] at hwild
    simp [shouldRespondDelta, shouldRespondDeltaG, deltaFirst, r, hfresh, Ty.managed, s1, wn, hwild]
  have hnarrow : narrowedDelta .wauth wn wn ([] : List String) = wn := by
    simp [narrowedDelta]
  have hone : pushDeltaOne (wauthGen pols true []) { v with st := s1 } .wauth wn []
      = ({ v with st := sendDelta s1 .wauth (freshNonce v) (some nn) true, ctr := v.ctr + 1 },
         some { ty := .wauth, resources := pols, removed := diff wn (names pols), nonce := freshNonce v }, false) := by
    simp only [pushDeltaOne, s1, State.set_same, hnarrow, wauthGen, wauth_pushDelta_forced, hok,
      Bool.false_eq_true, if_false, nn]
    simp [freshNonce]
  have hr : ({ r with ty := .wauth } : DReq) = r := rfl
  simp only [wauthProcess, hr, processDelta]
  rw [hsr]
  have hsubs : (deltaWatched [] r).1 = wn := rfl
  simp only [hsubs, r, List.filter_nil]
  rw [hone]
  simp [Option.toList]

/-! ## The property -/

/-- The names recorded by the first (wildcard) Authorization request of a stream, i.e. what the
    generator is handed as `w.ResourceNames`: the reported names (`mem_deltaWatched_wild`). -/
def wauthFirstNames (sub init : List String) (nonce : String) : List String :=
  (deltaWatched [] { ty := .wauth, sub := sub, unsub := [], init := init, nonce := nonce, err := none }).1

/-- **Reconnect, ztunnel Authorization type.**  Fresh stream; the ztunnel subscribes with `*` (or
    the legacy empty subscription), ANY old nonce, and reports everything it retained (`retained`:
    any content, including policies that no longer exist, at any version) in
    `initial_resource_versions`; `pols` are the policies that exist now.  Exactly one response goes
    out; applying it the ztunnel holds exactly `pols`: every retained policy that was deleted while
    it was away is in `removed_resources` (no stale ALLOW / DENY survives the reconnect), no existing
    policy is removed, and the server's record is, as a set, the set of existing policies (a wildcard
    watch carrying the response's nonce) - so later keyed pushes start from the right record. -/
theorem wauth_reconnect_resync (pols : List C03.Res) (v : Srv)
    (hfresh : v.st .wauth = none) (hok : v.fail = false)
    (sub init : List String) (oldNonce : String) (hsub : sub = ["*"] ∨ sub = [])
    (retained : Held) (hreport : ∀ n ∈ names retained, n ∈ init) (hstar : "*" ∉ names retained) :
    ∃ v' wire,
      wauthProcess pols v { ty := .wauth, sub := sub, unsub := [], init := init, nonce := oldNonce, err := none }
        = some (v', [wire]) ∧
      wire.ty = .wauth ∧ wire.resources = pols ∧ wire.nonce = freshNonce v ∧
      InSync (applyDelta retained { resources := wire.resources, removed := wire.removed }) pols ∧
      (∀ n ∈ names retained, n ∉ names pols → n ∈ wire.removed) ∧
      (∀ n ∈ names pols, n ∉ wire.removed) ∧
      (∀ n ∈ wire.removed, n ∈ init ∧ n ∉ names pols) ∧
      ∃ w', v'.st .wauth = some w' ∧
        w'.names = union (diff (wauthFirstNames sub init oldNonce)
                      (diff (wauthFirstNames sub init oldNonce) (names pols))) (names pols) ∧
        w'.wildcard = true ∧ w'.nonceSent = freshNonce v ∧
        (∀ n, n ∈ w'.names ↔ n ∈ names pols) := by
  have hcf := wauthProcess_fresh pols v hfresh hok sub init oldNonce hsub
  simp only at hcf
  have hwn : (deltaWatched [] { ty := .wauth, sub := sub, unsub := [], init := init, nonce := oldNonce, err := none }).1
      = wauthFirstNames sub init oldNonce := rfl
  rw [hwn] at hcf
  generalize wauthFirstNames sub init oldNonce = wn at hcf hwn
  have hmem : ∀ x, x ≠ "*" → (x ∈ wn ↔ x ∈ init) := by
    intro x hx
    rw [← hwn]
    exact mem_deltaWatched_wild sub init oldNonce .wauth hsub x hx
  have hcover : ∀ n ∈ names retained, n ∈ wn := by
    intro n hn
    have hne : n ≠ "*" := fun e => hstar (e ▸ hn)
    exact (hmem n hne).mpr (hreport n hn)
  refine ⟨_, _, hcf, rfl, rfl, rfl, sync_of_cover retained wn pols hcover, ?_, ?_, ?_, ?_⟩
  · intro n hn hgone
    exact mem_diff.mpr ⟨hcover n hn, hgone⟩
  · intro n hn hr
    exact (mem_diff.mp hr).2 hn
  · intro n hn
    have h := mem_diff.mp hn
    have hne : n ≠ "*" := by
      intro e
      subst e
      exact star_not_mem_deltaWatched [] _ (hwn ▸ h.1)
    exact ⟨(hmem n hne).mp h.1, h.2⟩
  · refine ⟨{ names := union (diff wn (diff wn (names pols))) (names pols), wildcard := true,
              nonceSent := freshNonce v }, by simp [sendDelta], rfl, rfl, rfl, ?_⟩
    intro n
    exact mem_wauth_record wn pols n

/-- The resync clause of `wauth_reconnect_resync` for an arbitrary Authorization generator `g`
    (given the existing policies): one answer, after which the ztunnel holds exactly the policies. -/
def WauthResyncFor (g : List C03.Res → Gen) : Prop :=
  ∀ (pols : List C03.Res) (v : Srv), v.st .wauth = none → v.fail = false →
    ∀ (sub init : List String) (oldNonce : String), (sub = ["*"] ∨ sub = []) →
      ∀ retained : Held, (∀ n ∈ names retained, n ∈ init) → "*" ∉ names retained →
        ∃ v' wire,
          processDelta (g pols) v { ty := .wauth, sub := sub, unsub := [], init := init, nonce := oldNonce, err := none }
            = some (v', [wire]) ∧
          InSync (applyDelta retained { resources := wire.resources, removed := wire.removed }) pols

/-- The real generator (with `expected.Merge(w.ResourceNames)` in the forced branch) has it. -/
theorem wauth_resync_holds : WauthResyncFor (fun pols => wauthGen pols true []) := by
  intro pols v hfresh hok sub init oldNonce hsub retained hreport hstar
  obtain ⟨v', wire, h, _, _, _, hsync, _⟩ :=
    wauth_reconnect_resync pols v hfresh hok sub init oldNonce hsub retained hreport hstar
  exact ⟨v', wire, h, hsync⟩

/-! ## Without the merge a deleted policy stays -/

/-- The generator WITHOUT `expected.Merge(w.ResourceNames)` in the forced branch. -/
def wauthGenNoMerge (pols : List C03.Res) : Gen := fun _ wn => wauthOutG false pols true [] wn

/-- **Witness.**  The ztunnel retained policy `ns/p`; it was deleted while the ztunnel was away
    (`pols = []`); the ztunnel reconnects with `*` and reports `ns/p`.  The generator without the
    merge answers with an empty response that removes NOTHING, and the ztunnel still holds `ns/p`
    afterwards (a stale ALLOW keeps letting traffic in, a stale DENY keeps rejecting it); the real
    generator removes it. -/
theorem wauth_reconnect_witness_no_merge :
    (processDelta (wauthGenNoMerge []) {}
        { ty := .wauth, sub := ["*"], unsub := [], init := ["ns/p"], nonce := "old3", err := none }).map (·.2)
      = some [{ ty := .wauth, resources := [], removed := [], nonce := "N1" }] ∧
    get (applyDelta [("ns/p", 1)] { resources := [], removed := [] }) "ns/p" = some 1 ∧
    (wauthProcess [] {}
        { ty := .wauth, sub := ["*"], unsub := [], init := ["ns/p"], nonce := "old3", err := none }).map (·.2)
      = some [{ ty := .wauth, resources := [], removed := ["ns/p"], nonce := "N1" }] ∧
    get (applyDelta [("ns/p", 1)] { resources := [], removed := ["ns/p"] }) "ns/p" = none := by
  decide

/-- So the resync statement is FALSE for the generator without the merge. -/
theorem wauth_resync_fails_no_merge : ¬ WauthResyncFor wauthGenNoMerge := by
  intro h
  obtain ⟨v', wire, heq, hsync⟩ :=
    h [] {} rfl rfl ["*"] ["ns/p"] "old3" (Or.inl rfl) [("ns/p", 1)] (by decide) (by decide)
  have h2 := congrArg (Option.map (·.2)) heq
  rw [wauth_reconnect_witness_no_merge.1] at h2
  simp only [Option.map_some, Option.some.injEq, List.cons.injEq, and_true] at h2
  subst h2
  have h3 := hsync "ns/p"
  revert h3
  decide

/-! ## Non-vacuity -/

/-- Concretely: the ztunnel retained `ns/a` (still current), `ns/b` (changed while away) and `ns/c`
    (deleted while away); `ns/d` was created.  One response: all current policies (this generator
    has no version skip), `ns/c` removed; the record is the current policy names. -/
example :
    (wauthProcess [("ns/a", 1), ("ns/b", 2), ("ns/d", 1)] {}
        { ty := .wauth, sub := ["*"], unsub := [], init := ["ns/a", "ns/b", "ns/c"], nonce := "old9", err := none }).map
        (fun p => (p.2, (p.1.st .wauth).map (fun w => (w.names, w.wildcard, w.nonceSent))))
      = some ([{ ty := .wauth, resources := [("ns/a", 1), ("ns/b", 2), ("ns/d", 1)], removed := ["ns/c"], nonce := "N1" }],
              some (["ns/a", "ns/b", "ns/d"], true, "N1")) := by
  decide

/-- The legacy empty subscription (implicit wildcard) gives the same answer. -/
example :
    (wauthProcess [("ns/a", 1), ("ns/b", 2), ("ns/d", 1)] {}
        { ty := .wauth, sub := [], unsub := [], init := ["ns/a", "ns/b", "ns/c"], nonce := "old9", err := none }).map
        (fun p => (p.2, (p.1.st .wauth).map (fun w => (w.names, w.wildcard, w.nonceSent))))
      = some ([{ ty := .wauth, resources := [("ns/a", 1), ("ns/b", 2), ("ns/d", 1)], removed := ["ns/c"], nonce := "N1" }],
              some (["ns/a", "ns/b", "ns/d"], true, "N1")) := by
  decide

/-- The hypotheses of `wauth_reconnect_resync` are met by that case, and its conclusion gives the
    concrete facts: in sync with the current policies, `ns/c` removed, `ns/a` / `ns/b` / `ns/d` not. -/
example : ∃ v' wire,
    wauthProcess [("ns/a", 1), ("ns/b", 2), ("ns/d", 1)] {}
        { ty := .wauth, sub := ["*"], unsub := [], init := ["ns/a", "ns/b", "ns/c"], nonce := "old9", err := none }
      = some (v', [wire]) ∧
    InSync (applyDelta [("ns/a", 1), ("ns/b", 1), ("ns/c", 1)] { resources := wire.resources, removed := wire.removed })
      [("ns/a", 1), ("ns/b", 2), ("ns/d", 1)] ∧
    "ns/c" ∈ wire.removed ∧ "ns/a" ∉ wire.removed ∧ "ns/b" ∉ wire.removed ∧ "ns/d" ∉ wire.removed := by
  obtain ⟨v', wire, h, _, _, _, hsync, hrem, hkeep, _⟩ :=
    wauth_reconnect_resync [("ns/a", 1), ("ns/b", 2), ("ns/d", 1)] {} rfl rfl ["*"] ["ns/a", "ns/b", "ns/c"] "old9"
      (Or.inl rfl) [("ns/a", 1), ("ns/b", 1), ("ns/c", 1)] (by decide) (by decide)
  exact ⟨v', wire, h, hsync, hrem "ns/c" (by decide) (by decide),
    hkeep "ns/a" (by decide), hkeep "ns/b" (by decide), hkeep "ns/d" (by decide)⟩

end IstioModel.C05
