import IstioModel.C05.Model
import IstioModel.C03.Theorems
import IstioModel.C03.WdsTheorems

/-!
# C05 - property theorems

"If a proxy's stream breaks at any point and it reconnects to the same or another instance
presenting its old versions, nonces and retained resource names, it is brought to the current state
for every type it subscribes to.  That includes removal, for delta clients, of retained resources
that were deleted while it was away, and a response to every re-sent subscription so that nothing
stays warming."

The server keeps no cross-stream memory: a reconnect is a FRESH watch table (`s t = none`) facing a
client with ARBITRARY retained state.  All statements quantify over that retained state.
-/
namespace IstioModel.C05
open IstioModel.C03 IstioModel.C04

/-! ## Every re-sent subscription is answered -/

/-- SotW: on a fresh stream a request of any type, with any retained nonce and any names, is
    answered (unless it is an unsubscribe), and the record is what was asked - ALSO when it carries
    `error_detail`: a NACK the proxy had queued when the previous stream broke is, on this stream, the first
    request of the type (repair a581d69; see `nack_first_unanswered_witness_unfixed`). -/
theorem reconnect_request_answered_sotw (s : State) (t : Ty) (names : List String) (oldNonce : String)
    (err : Option String)
    (hfresh : s t = none) (hsub : (names.isEmpty && !t.wildcard) = false) :
    shouldRespond s { ty := t, names := names, nonce := oldNonce, err := err }
      = .out true [] (newWatched s t names) := by
  cases err with
  | none => exact first_request_or_reconnect_responds s _ hfresh rfl (by simpa [Req.unsub] using hsub)
  | some msg =>
    rw [nack_unwatched_is_first_request s _ msg rfl hfresh]
    exact first_request_or_reconnect_responds s _ hfresh rfl (by simpa [Req.unsub, Req.clean] using hsub)

/-- Delta: on a fresh stream any request (any nonce, any subscribe / unsubscribe /
    initial_resource_versions, with or without `error_detail`) is answered. -/
theorem reconnect_request_answered_delta (s : State) (r : DReq) (hfresh : s r.ty = none) :
    ∃ s', shouldRespondDelta s r = .out true s' :=
  ⟨_, delta_unwatched_is_first_request s r hfresh⟩

/-- What a client observes of a handled SotW request: (answered?, type watched afterwards?). -/
def observedS (x : C04.Res) (t : Ty) : Bool × Bool :=
  match x with
  | .out b _ s' => (b, (s' t).isSome)
  | .crash => (false, false)

def observedD (x : DRes) (t : Ty) : Bool × Bool :=
  match x with
  | .out b s' => (b, (s' t).isSome)
  | .crash => (false, false)

/-- **The gap before repair a581d69.**  On a fresh stream the code returned early for a request with
    `error_detail` and created no watch: the SotW request (named EDS, wildcard CDS) and the delta request that
    subscribes the legacy way were neither answered nor would the type ever be pushed on that stream (no watch);
    only a delta NACK that carried a subscription was answered.  With the repair all of them are answered. -/
theorem nack_first_unanswered_witness_unfixed :
    let old : Repairs := { nackFirst := false }
    let eds : Req := { ty := .eds, names := ["a"], nonce := "old", err := some "rejected" }
    let cds : Req := { ty := .cds, names := [], nonce := "old", err := some "rejected" }
    let dcds : DReq := { ty := .cds, sub := [], unsub := [], init := ["a"], nonce := "old", err := some "rejected" }
    let deds : DReq := { ty := .eds, sub := ["a"], unsub := [], init := ["a"], nonce := "old", err := some "rejected" }
    observedS (shouldRespondR old State.empty eds) .eds = (false, false) ∧
    observedS (shouldRespondR old State.empty cds) .cds = (false, false) ∧
    observedD (shouldRespondDeltaG true true false State.empty dcds) .cds = (false, false) ∧
    observedD (shouldRespondDeltaG true true false State.empty deds) .eds = (true, true) ∧
    observedS (shouldRespond State.empty eds) .eds = (true, true) ∧
    observedS (shouldRespond State.empty cds) .cds = (true, true) ∧
    observedD (shouldRespondDelta State.empty dcds) .cds = (true, true) := by
  decide

/-- The whole handler: on a fresh stream the SotW request is answered with exactly what the
    generator produces for the requested names. -/
theorem reconnect_processSotw (gen : Gen) (v : Srv) (t : Ty) (names : List String) (oldNonce : String) (err : Option String)
    (hfresh : v.st t = none) (hsub : (names.isEmpty && !t.wildcard) = false) (hok : v.fail = false)
    (hgen : (gen t names).resNil = false) :
    ∃ v', processSotw gen v { ty := t, names := names, nonce := oldNonce, err := err }
      = some (v', [{ ty := t, resources := (gen t names).res, removed := [], nonce := freshNonce v }]) := by
  unfold processSotw
  rw [reconnect_request_answered_sotw v.st t names oldNonce err hfresh hsub]
  simp only [pushSotwOne, newWatched_self, narrowedSotw, List.isEmpty_nil, Bool.not_true, Bool.false_eq_true,
    if_false, pushSotw, hgen, hok]
  exact ⟨_, rfl⟩

/-- **What "answered" means when the generator has nothing to say.**  The handler theorems above and below assume
    a non-nil generator result.  When `Generate` returns nil (SDS for a proxy that is served no secret, NDS for a
    proxy kind without a name table, ...) `pushXds` sends NOTHING - on the first request of a reconnected stream
    exactly as on the first request of a brand-new proxy (the server cannot tell them apart: the state is fresh and
    the decision does not read the nonce).  The watch IS created, so the type is served as soon as the generator
    has a result.  What the proxy retained for that type is not touched: it is in the position of a brand-new
    proxy plus its retained copy. -/
theorem reconnect_nil_generator_silent (gen : Gen) (v : Srv) (t : Ty) (names : List String) (oldNonce : String)
    (err : Option String)
    (hfresh : v.st t = none) (hsub : (names.isEmpty && !t.wildcard) = false)
    (hnil : (gen t names).resNil = true) :
    ∃ v', processSotw gen v { ty := t, names := names, nonce := oldNonce, err := err } = some (v', []) ∧
      (v'.st t).isSome = true ∧
      processSotw gen v { ty := t, names := names, nonce := "", err := none } = some (v', []) := by
  have h1 := reconnect_request_answered_sotw v.st t names oldNonce err hfresh hsub
  have h2 := reconnect_request_answered_sotw v.st t names "" none hfresh hsub
  refine ⟨{ v with st := newWatched v.st t names }, ?_, ?_, ?_⟩
  · unfold processSotw
    rw [h1]
    simp [pushSotwOne, newWatched_self, narrowedSotw, pushSotw, hnil]
  · simp [newWatched_self]
  · unfold processSotw
    rw [h2]
    simp [pushSotwOne, newWatched_self, narrowedSotw, pushSotw, hnil]

/-! ## SotW after EDS-before-CDS: the EDS request that follows CDS is answered (warming) -/

/-- A reconnecting Envoy may send EDS before CDS.  When the CDS request then creates its watch,
    the existing EDS watch is marked `AlwaysRespond`, so the EDS request Envoy sends for the warming
    clusters - same names, current nonce, i.e. shaped exactly like an ACK - IS answered. -/
theorem eds_after_cds_answered (s : State) (w : WR) (cdsNames : List String) (oldNonce : String)
    (hcds : s .cds = none) (heds : s .eds = some w) (hn : w.nonceSent ≠ "") (hnames : w.names ≠ []) :
    ∃ s1, shouldRespond s { ty := .cds, names := cdsNames, nonce := oldNonce, err := none } = .out true [] s1 ∧
      ∃ s2, shouldRespond s1 { ty := .eds, names := w.names, nonce := w.nonceSent, err := none } = .out true [] s2 := by
  refine ⟨newWatched s .cds cdsNames,
    reconnect_request_answered_sotw s .cds cdsNames oldNonce none hcds (by simp [Ty.wildcard]), ?_⟩
  have h1 : newWatched s .cds cdsNames .eds = some { w with always := true } := by
    simp [newWatched, Ty.warming, markWarming, State.set, heds]
  have hu : ({ ty := .eds, names := w.names, nonce := w.nonceSent, err := none } : Req).unsub = false := by
    cases hl : w.names with
    | nil => exact absurd hl hnames
    | cons a as => simp [Req.unsub]
  exact ⟨_, always_respond_answers _ _ { w with always := true } rfl hu h1 hn rfl rfl⟩

/-- The same for ANY non-empty name list the proxy re-sends: the cluster set may have changed while it was
    away (clusters deleted and/or added), so the re-sent EDS subscription differs from the one recorded before
    CDS - the answer is still a FULL generation (`[]` = no narrowing to the added names), because every listed
    cluster may be warming.  (A server that honoured `AlwaysRespond` only for unchanged names would answer
    nothing when a cluster was deleted, and only the added names otherwise.) -/
theorem eds_after_cds_answered_any_names (s : State) (w : WR) (cdsNames names : List String) (oldNonce : String)
    (hcds : s .cds = none) (heds : s .eds = some w) (hn : w.nonceSent ≠ "") (hnames : names ≠ []) :
    ∃ s1, shouldRespond s { ty := .cds, names := cdsNames, nonce := oldNonce, err := none } = .out true [] s1 ∧
      ∃ s2, shouldRespond s1 { ty := .eds, names := names, nonce := w.nonceSent, err := none } = .out true [] s2 := by
  refine ⟨newWatched s .cds cdsNames,
    reconnect_request_answered_sotw s .cds cdsNames oldNonce none hcds (by simp [Ty.wildcard]), ?_⟩
  have h1 : newWatched s .cds cdsNames .eds = some { w with always := true } := by
    simp [newWatched, Ty.warming, markWarming, State.set, heds]
  have hu : ({ ty := .eds, names := names, nonce := w.nonceSent, err := none } : Req).unsub = false := by
    cases hl : names with
    | nil => exact absurd hl hnames
    | cons a as => simp [Req.unsub]
  exact ⟨_, always_respond_answers _ _ { w with always := true } rfl hu h1 hn rfl rfl⟩

/-! ## Delta, wildcard types: retained state is reconciled by the first answer -/

/-- The name set recorded / handed to the generator for a first delta request that subscribes
    to `*` and reports `init` as retained: everything reported except `*`. -/
theorem mem_deltaWatched_first (sub init : List String) (nonce : String) (x : String)
    (hx : x ≠ "*") :
    x ∈ (deltaWatched [] { ty := .cds, sub := sub, unsub := [], init := init, nonce := nonce, err := none }).1
      ↔ x ∈ sub ∨ x ∈ init := by
  unfold deltaWatched
  simp only [eraseAll]
  generalize hl : (insertAll (insertAll [] false sub).fst (insertAll [] false sub).snd init).fst = l
  have hmem : x ∈ l ↔ x ∈ sub ∨ x ∈ init := by
    rw [← hl, mem_insertAll, mem_insertAll]; simp
  by_cases hc : l.contains "*" = true
  · simp only [hc, if_true, List.mem_filter]
    simp [hx, hmem]
  · simp only [hc, Bool.false_eq_true, if_false]
    exact hmem

/-- **Reconnect, delta, wildcard type.**  Fresh stream; the client retained `retained` (any
    content, including resources that no longer exist) and reports all of it in
    `initial_resource_versions`; the generator produces the current full set `W`.  Then the one
    answer brings the client exactly to `W`: retained resources that were deleted while it was away
    are listed in `removed_resources`, and nothing that exists is removed. -/
theorem reconnect_resync_delta_wild (t : Ty) (hset : shouldSetWatched t = true) (hnr : neverRemove t = false)
    (retained : Held) (init : List String) (W : List C03.Res)
    (hreport : ∀ n ∈ names retained, n ∈ init) (hstar : "*" ∉ names retained) :
    let wn := (deltaWatched [] { ty := .cds, sub := ["*"], unsub := [], init := init, nonce := "", err := none }).1
    ∃ resp nn, pushDelta t wn (fullOut W) = some (resp, some nn) ∧
      InSync (applyDelta retained resp) W ∧
      (∀ n ∈ names retained, n ∉ names W → n ∈ resp.removed) ∧
      (∀ n ∈ names W, n ∉ resp.removed) := by
  intro wn
  have hcover : ∀ n ∈ names retained, n ∈ wn := by
    intro n hn
    have hne : n ≠ "*" := fun e => hstar (e ▸ hn)
    exact (mem_deltaWatched_first ["*"] init "" n hne).mpr (Or.inr (hreport n hn))
  obtain ⟨resp, hpd, hsync, _⟩ := wild_push_sync t wn retained (fullOut W) hset hnr rfl rfl rfl hcover
  refine ⟨resp, _, hpd, hsync, ?_, ?_⟩
  · intro n hn hgone
    exact ceased_resources_removed t hnr wn retained W resp _ hcover hpd n hn hgone
  · intro n hn
    exact needed_not_removed t hnr wn W resp _ hpd n hn

/-- The same at the level of the whole request handler (`processDeltaRequest`, tied to the real code
    by the `book` / `reconn` streams): a fresh stream, a wildcard non-managed type other than CDS
    (whose request additionally forces an EDS push; see `reconnect_processDelta_cds`), a generator producing the
    full current set; ANY subscription list (the explicit `*`, the legacy empty one, extra names - the generator of
    such a type answers with the full set whatever it is asked), any nonce, with or without `error_detail` (a
    queued NACK). -/
theorem reconnect_processDelta_wild (gen : Gen) (v : Srv) (t : Ty)
    (hset : shouldSetWatched t = true) (hnr : neverRemove t = false) (hcds : t ≠ .cds)
    (hfresh : v.st t = none) (hok : v.fail = false)
    (retained : Held) (sub init : List String) (oldNonce : String) (err : Option String) (W : List C03.Res)
    (hgen : ∀ wn, gen t wn = fullOut W)
    (hreport : ∀ n ∈ names retained, n ∈ init) (hstar : "*" ∉ names retained) :
    ∃ v' wire, processDelta gen v { ty := t, sub := sub, unsub := [], init := init, nonce := oldNonce, err := err }
        = some (v', [wire]) ∧
      InSync (applyDelta retained { resources := wire.resources, removed := wire.removed }) W ∧
      ∃ w', v'.st t = some w' ∧ w'.names = names W := by
  let r : DReq := { ty := t, sub := sub, unsub := [], init := init, nonce := oldNonce, err := err }
  have hman : t.managed = false := by
    cases t <;> simp_all [shouldSetWatched, Ty.managed, Ty.wildcard]
  let wn := (deltaWatched [] r).1
  have hwn : wn = (deltaWatched [] { ty := .cds, sub := sub, unsub := [], init := init, nonce := "", err := none }).1 := by
    simp [wn, r, deltaWatched]
  have hcover : ∀ n ∈ names retained, n ∈ wn := by
    intro n hn
    have hne : n ≠ "*" := fun e => hstar (e ▸ hn)
    rw [hwn]
    exact (mem_deltaWatched_first sub init "" n hne).mpr (Or.inr (hreport n hn))
  obtain ⟨resp, hpd, hsync, _⟩ := wild_push_sync t wn retained (fullOut W) hset hnr rfl rfl rfl hcover
  have hsr : shouldRespondDelta v.st r = .out true (v.st.set t (some { names := wn, wildcard := (deltaWatched [] r).2.1 })) := by
    rw [delta_unwatched_is_first_request v.st r hfresh]
    simp [r, hman, wn]
  have hnarrow : narrowedDelta t wn wn ([] : List String) = wn := by
    simp [narrowedDelta, hman]
  let s1 := v.st.set t (some { names := wn, wildcard := (deltaWatched [] r).2.1 })
  let v' : Srv := { v with st := sendDelta s1 t (freshNonce v) (some (names W)) true, ctr := v.ctr + 1 }
  refine ⟨v', { ty := t, resources := resp.resources, removed := resp.removed, nonce := freshNonce v }, ?_, hsync, ?_⟩
  · have hpd' : pushDelta t wn (fullOut W) = some (resp, some (names W)) := hpd
    simp only [processDelta]
    rw [show shouldRespondDelta v.st { ty := t, sub := sub, unsub := [], init := init, nonce := oldNonce, err := err }
          = .out true s1 from hsr]
    have hsubw : (deltaWatched [] { ty := t, sub := sub, unsub := [], init := init, nonce := oldNonce, err := err : DReq }).1 = wn := rfl
    simp only [hsubw, List.filter_nil, pushDeltaOne, s1, State.set_same, hnarrow, hgen, hpd', hok,
      Bool.false_eq_true, if_false, hcds, ne_eq, not_false_eq_true, Bool.false_or, Option.toList, v']
    simp [freshNonce]
  · exact ⟨{ names := names W, wildcard := (deltaWatched [] r).2.1, nonceSent := freshNonce v },
      by simp [v', sendDelta, s1], rfl⟩

/-! ## Workload (WDS) reconnect with version skip -/

theorem get_some_mem (l : Held) (n : String) (v : Nat) (h : get l n = some v) : (n, v) ∈ l := by
  induction l with
  | nil => simp [get_nil] at h
  | cons r rs ih =>
    rw [get_cons] at h
    by_cases hr : r.1 = n
    · simp only [hr, if_true, Option.some.injEq] at h
      have : r = (n, v) := by cases r; simp_all
      simp [this]
    · simp only [hr, if_false] at h
      exact List.mem_cons_of_mem _ (ih h)

theorem mem_get_of_nodup (l : Held) (hnd : (names l).Nodup) (n : String) (v : Nat) (h : (n, v) ∈ l) :
    get l n = some v := by
  induction l with
  | nil => cases h
  | cons r rs ih =>
    rw [get_cons]
    simp only [names, List.map_cons, List.nodup_cons] at hnd
    rcases List.mem_cons.mp h with h1 | h1
    · subst h1; simp
    · have hne : r.1 ≠ n := by
        intro e
        apply hnd.1
        rw [e]
        exact List.mem_map.mpr ⟨(n, v), h1, rfl⟩
      simp only [hne, if_false]
      exact ih hnd.2 h1

/-- Looking a name up after filtering an association list with distinct names. -/
theorem get_filter_nodup (l : Held) (hnd : (names l).Nodup) (p : C03.Res → Bool) (n : String) (v : Nat)
    (h : get l n = some v) : get (l.filter p) n = if p (n, v) then some v else none := by
  cases hf : get (l.filter p) n with
  | some v' =>
    have hm := get_some_mem _ _ _ hf
    have hm' := List.mem_filter.mp hm
    have := mem_get_of_nodup l hnd n v' hm'.1
    rw [h] at this
    cases this
    simp [hm'.2]
  | none =>
    by_cases hp : p (n, v) = true
    · exfalso
      have hm : (n, v) ∈ l.filter p := List.mem_filter.mpr ⟨get_some_mem _ _ _ h, hp⟩
      have : (get (l.filter p) n).isSome :=
        (get_isSome_iff_mem_names _ _).mpr (List.mem_map.mpr ⟨(n, v), hm, rfl⟩)
      simp [hf] at this
    · simp [hp]

/-- **Version skip is sound.**  On a (re)connected wildcard WDS stream the generator omits every
    address whose current version equals the version the client reported, and removes every
    reported / subscribed name that no longer exists.  If the client reported everything it retained,
    it ends up holding exactly the index (versions are content hashes: equal version = equal content). -/
theorem wds_version_skip_sound (index : List C03.Res) (hnd : (names index).Nodup)
    (subscribed : List String) (retained : Held)
    (hreport : ∀ n ∈ names retained, n ∈ subscribed) :
    InSync (applyDelta retained (wdsRequest index subscribed retained)) index := by
  intro n
  rw [get_applyDelta]
  simp only [wdsRequest]
  cases hidx : get index n with
  | none =>
    have hnot : n ∉ names index := by
      intro hm
      have := (get_isSome_iff_mem_names index n).mpr hm
      simp [hidx] at this
    have hres : get (index.filter (fun r => get retained r.1 != some r.2)) n = none := by
      apply get_none_of_not_mem
      intro hm
      apply hnot
      simp only [names, List.mem_map] at hm ⊢
      obtain ⟨r, hr, hrn⟩ := hm
      exact ⟨r, (List.mem_filter.mp hr).1, hrn⟩
    rw [hres]
    simp only []
    by_cases hh : n ∈ names retained
    · have : n ∈ diff subscribed (names index) := mem_diff.mpr ⟨hreport n hh, hnot⟩
      simp [this]
    · have := get_none_of_not_mem retained n hh
      simp [this]
  | some v =>
    rw [get_filter_nodup index hnd _ n v hidx]
    have hin : n ∈ names index := (get_isSome_iff_mem_names index n).mp (by simp [hidx])
    have hnm : n ∉ diff subscribed (names index) := fun hm => (mem_diff.mp hm).2 hin
    by_cases hsame : get retained n = some v
    · -- skipped: not re-sent, not removed; the retained copy is the current one
      simp [hsame, hnm]
    · -- re-sent
      have : (get retained n != some v) = true := by simpa using hsame
      simp [this]

/-- The same for the exact model of the real generator (`IstioModel.C03.wdsGenerate`, tied to
    `WorkloadGenerator.GenerateDeltas` by the `wds` stream): a reconnecting wildcard ztunnel that
    reports what it retained ends up holding exactly the index. -/
theorem wds_reconnect_version_skip_real (idx : Index) (hnd : (idx.map (·.name)).Nodup) (w : WR)
    (hw : w.wildcard = true) (sub : List String) (retained : Held) (hreport : ∀ n ∈ names retained, n ∈ sub) :
    ∃ resp nn, pushDelta .addr w.names (wdsGenerate idx w { isReq := true, sub := sub, retained := retained }).out
        = some (resp, nn) ∧ InSync (applyDelta retained resp) (idxRes idx) :=
  (wds_wildcard_request_sync idx hnd w hw sub retained hreport).2

/-- The skip really happens (non-vacuity): an unchanged retained address is not re-sent, a changed
    one is, a vanished one is removed. -/
example :
    wdsRequest [("a", 1), ("b", 2)] ["a", "b", "c"] [("a", 1), ("b", 1), ("c", 1)]
      = { resources := [("b", 2)], removed := ["c"] } := by decide

/-! Registration vs. publication and start-up: see `IstioModel.C05.RegTheorems`. -/

end IstioModel.C05
