import IstioModel.C05.Theorems

/-!
# C05 - reconnect theorems, part 2

The cases `Theorems.lean` leaves open at the level of the whole request handler
(`processDeltaRequest`, model `processDelta`):

* the wildcard CDS request of a reconnecting delta client (`reconnect_processDelta_wild` excludes
  CDS because a CDS request is followed by the forced EDS push - `forceEDSPush`);
* the named delta types (EDS, RDS, SDS): every re-sent subscription is answered, and a retained
  resource that no longer exists is removed;
* the on-demand workload (WDS) client that reconnects WITH retained versions (version skip).

As everywhere in C05 the server has no cross-stream memory: the stream is fresh (`v.st t = none`) and
the client's retained state is arbitrary.
-/
namespace IstioModel.C05
open IstioModel.C03 IstioModel.C04

/-! ## Delta CDS on a fresh stream (+ forced EDS push) -/

/-- `pushDeltaXds` for CDS with a generator that produced the full current set. -/
theorem cds_pushDelta_full (wn : List String) (W : List C03.Res) :
    pushDelta .cds wn (fullOut W)
      = some ({ resources := W, removed := diff wn (names W) }, some (names W)) := by
  simp [pushDelta, GenOut.nilOut, fullOut, neverRemove, removedRaw, newNames, shouldSetWatched,
    Ty.managed, Ty.wildcard]

/-- What the CDS answer does to ANY retained client state that was reported. -/
theorem cds_reconnect_sync (retained : Held) (init : List String) (oldNonce : String) (W : List C03.Res)
    (hreport : ∀ n ∈ names retained, n ∈ init) (hstar : "*" ∉ names retained) :
    let wn := (deltaWatched [] { ty := .cds, sub := ["*"], unsub := [], init := init, nonce := oldNonce, err := none }).1
    InSync (applyDelta retained { resources := W, removed := diff wn (names W) }) W ∧
      (∀ n ∈ names retained, n ∉ names W → n ∈ diff wn (names W)) ∧
      (∀ n ∈ names W, n ∉ diff wn (names W)) := by
  intro wn
  have hcover : ∀ n ∈ names retained, n ∈ wn := by
    intro n hn
    have hne : n ≠ "*" := fun e => hstar (e ▸ hn)
    exact (mem_deltaWatched_first ["*"] init oldNonce n hne).mpr (Or.inr (hreport n hn))
  obtain ⟨resp, hpd, hsync, _⟩ :=
    wild_push_sync .cds wn retained (fullOut W) (by decide) (by decide) rfl rfl rfl hcover
  have hresp : resp = { resources := W, removed := diff wn (names W) } := by
    have h2 := cds_pushDelta_full wn W
    rw [hpd] at h2
    injection h2 with h2
    injection h2 with h2 _
  subst hresp
  refine ⟨hsync, ?_, ?_⟩
  · intro n hn hgone
    exact mem_diff.mpr ⟨hcover n hn, hgone⟩
  · intro n hn hr
    exact (mem_diff.mp hr).2 hn

/-- Closed form of `processDeltaRequest` for the reconnect CDS request on a fresh stream: the CDS
    answer, then whatever the forced EDS push (`pushDeltaOne .eds [] []` on the updated server) sends. -/
theorem processDelta_cds_fresh (gen : Gen) (v : Srv)
    (hfresh : v.st .cds = none) (hok : v.fail = false)
    (init : List String) (oldNonce : String) (W : List C03.Res)
    (hgen : ∀ wn, gen .cds wn = fullOut W) :
    let r : DReq := { ty := .cds, sub := ["*"], unsub := [], init := init, nonce := oldNonce, err := none }
    let wn := (deltaWatched [] r).1
    let s1 := v.st.set .cds (some { names := wn, wildcard := (deltaWatched [] r).2.1 })
    let v1 : Srv := { v with st := sendDelta s1 .cds (freshNonce v) (some (names W)) true, ctr := v.ctr + 1 }
    processDelta gen v r
      = some ((pushDeltaOne gen v1 .eds [] []).1,
          { ty := .cds, resources := W, removed := diff wn (names W), nonce := freshNonce v }
            :: (pushDeltaOne gen v1 .eds [] []).2.1.toList) := by
  intro r wn s1 v1
  have hsr : shouldRespondDelta v.st r = .out true s1 := by
    simp [shouldRespondDelta, shouldRespondDeltaG, deltaFirst, r, hfresh, Ty.managed, s1, wn]
  have hnarrow : narrowedDelta .cds wn wn ([] : List String) = wn := by
    simp [narrowedDelta]
  have hone : pushDeltaOne gen { v with st := s1 } .cds wn []
      = (v1, some { ty := .cds, resources := W, removed := diff wn (names W), nonce := freshNonce v }, false) := by
    simp only [pushDeltaOne, s1, State.set_same, hnarrow, hgen, cds_pushDelta_full, hok,
      Bool.false_eq_true, if_false, v1]
    simp [freshNonce]
  simp only [processDelta]
  rw [hsr]
  have hsub : (deltaWatched [] r).1 = wn := rfl
  simp only [hsub, r, List.filter_nil]
  rw [hone]
  simp [Option.toList]

/-- The forced EDS push after CDS: nothing when EDS is not watched (or the generator has nothing to
    say), otherwise the FULL generation for the recorded EDS names (no narrowing: every cluster just
    sent may be warming). -/
theorem forced_eds_push (gen : Gen) (v1 : Srv) (hok : v1.fail = false) :
    pushDeltaOne gen v1 .eds [] [] =
      match v1.st .eds with
      | none => (v1, none, false)
      | some we =>
        if (gen .eds we.names).nilOut then (v1, none, false)
        else
          ({ v1 with st := sendDelta v1.st .eds (freshNonce v1) none true, ctr := v1.ctr + 1 },
           some { ty := .eds, resources := (gen .eds we.names).res,
                  removed := removedRaw we.names (gen .eds we.names), nonce := freshNonce v1 }, false) := by
  unfold pushDeltaOne
  cases he : v1.st .eds with
  | none => rfl
  | some we =>
    simp only [narrowedDelta, List.isEmpty_nil, Bool.and_self, Bool.not_true, Bool.false_and,
      Bool.false_eq_true, if_false, pushDelta, neverRemove, newNames, shouldSetWatched, Ty.wildcard,
      Ty.managed, Bool.not_false, Bool.and_false, hok]
    by_cases hn : (gen .eds we.names).nilOut = true
    · simp [hn]
    · simp [hn]

/-- What the forced EDS push puts on the wire after the reconnect CDS answer, as a predicate on the
    rest of the response list. -/
def ForcedEds (gen : Gen) (eds : Option WR) (rest : List Wire) : Prop :=
  match eds with
  | none => rest = []
  | some we =>
    if (gen .eds we.names).nilOut then rest = []
    else ∃ edsWire, rest = [edsWire] ∧ edsWire.ty = .eds ∧
      edsWire.resources = (gen .eds we.names).res ∧
      edsWire.removed = removedRaw we.names (gen .eds we.names)

/-- **Reconnect, delta CDS** (the case `reconnect_processDelta_wild` excludes), general form.
    Fresh stream, the client reports everything it retained (any content, any old nonce), the CDS
    generator produces the full current set `W`.  The handler answers with the CDS response followed
    by the forced EDS push (`ForcedEds`: nothing if EDS is not watched on this stream yet, otherwise
    the full EDS generation for the recorded EDS names).  The CDS response alone brings the client
    exactly to `W`: retained clusters deleted while it was away are in `removed_resources`, nothing
    existing is removed, and the server's CDS record is the names of `W`; the EDS record is
    untouched. -/
theorem reconnect_processDelta_cds (gen : Gen) (v : Srv)
    (hfresh : v.st .cds = none) (hok : v.fail = false)
    (retained : Held) (init : List String) (oldNonce : String) (W : List C03.Res)
    (hgen : ∀ wn, gen .cds wn = fullOut W)
    (hreport : ∀ n ∈ names retained, n ∈ init) (hstar : "*" ∉ names retained) :
    ∃ v' cdsWire rest,
      processDelta gen v { ty := .cds, sub := ["*"], unsub := [], init := init, nonce := oldNonce, err := none }
        = some (v', cdsWire :: rest) ∧
      ForcedEds gen (v.st .eds) rest ∧
      cdsWire.ty = .cds ∧ cdsWire.resources = W ∧
      InSync (applyDelta retained { resources := cdsWire.resources, removed := cdsWire.removed }) W ∧
      (∀ n ∈ names retained, n ∉ names W → n ∈ cdsWire.removed) ∧
      (∀ n ∈ names W, n ∉ cdsWire.removed) ∧
      (∃ w', v'.st .cds = some w' ∧ w'.names = names W) ∧
      (v'.st .eds).map (·.names) = (v.st .eds).map (·.names) := by
  have hclosed := processDelta_cds_fresh gen v hfresh hok init oldNonce W hgen
  obtain ⟨hsync, hrem, hkeep⟩ := cds_reconnect_sync retained init oldNonce W hreport hstar
  simp only [] at hclosed hsync hrem hkeep
  generalize hwn : (deltaWatched [] ({ ty := .cds, sub := ["*"], unsub := [], init := init, nonce := oldNonce, err := none } : DReq)).1 = wn
    at hclosed hsync hrem hkeep
  generalize hwc : (deltaWatched [] ({ ty := .cds, sub := ["*"], unsub := [], init := init, nonce := oldNonce, err := none } : DReq)).2.1 = wc
    at hclosed
  generalize hs1 : sendDelta (v.st.set .cds (some { names := wn, wildcard := wc })) .cds (freshNonce v) (some (names W)) true = s1 at hclosed
  generalize hv1 : ({ v with st := s1, ctr := v.ctr + 1 } : Srv) = v1 at hclosed
  have hv1ok : v1.fail = false := by rw [← hv1]; exact hok
  have hv1cds : v1.st .cds = some { names := names W, wildcard := wc, nonceSent := freshNonce v } := by
    rw [← hv1, ← hs1]; simp [sendDelta]
  have hv1eds : v1.st .eds = v.st .eds := by
    rw [← hv1, ← hs1]; simp [sendDelta, State.set]
  refine ⟨_, _, _, hclosed, ?_, rfl, rfl, hsync, hrem, hkeep, ?_, ?_⟩
  · rw [forced_eds_push gen v1 hv1ok, hv1eds]
    cases he : v.st .eds with
    | none => simp [ForcedEds]
    | some we =>
      simp only [ForcedEds]
      by_cases hn : (gen .eds we.names).nilOut = true
      · simp [hn]
      · simp [hn]
  · rw [forced_eds_push gen v1 hv1ok, hv1eds]
    cases he : v.st .eds with
    | none => exact ⟨_, hv1cds, rfl⟩
    | some we =>
      by_cases hn : (gen .eds we.names).nilOut = true
      · simp only [hn, if_true]; exact ⟨_, hv1cds, rfl⟩
      · simp only [hn, Bool.false_eq_true, if_false]
        exact ⟨{ names := names W, wildcard := wc, nonceSent := freshNonce v },
          by simp [sendDelta, State.set, hv1cds], rfl⟩
  · rw [forced_eds_push gen v1 hv1ok, hv1eds]
    cases he : v.st .eds with
    | none => simp [hv1eds, he]
    | some we =>
      by_cases hn : (gen .eds we.names).nilOut = true
      · simp [hn, hv1eds, he]
      · simp [hn, sendDelta, hv1eds, he]

/-- **(a) EDS not (yet) watched on the new stream** (Envoy sends CDS first): exactly one response,
    the CDS answer. -/
theorem reconnect_processDelta_cds_no_eds (gen : Gen) (v : Srv)
    (hfresh : v.st .cds = none) (hok : v.fail = false) (heds : v.st .eds = none)
    (retained : Held) (init : List String) (oldNonce : String) (W : List C03.Res)
    (hgen : ∀ wn, gen .cds wn = fullOut W)
    (hreport : ∀ n ∈ names retained, n ∈ init) (hstar : "*" ∉ names retained) :
    ∃ v' cdsWire,
      processDelta gen v { ty := .cds, sub := ["*"], unsub := [], init := init, nonce := oldNonce, err := none }
        = some (v', [cdsWire]) ∧
      cdsWire.ty = .cds ∧ cdsWire.resources = W ∧
      InSync (applyDelta retained { resources := cdsWire.resources, removed := cdsWire.removed }) W ∧
      (∀ n ∈ names retained, n ∉ names W → n ∈ cdsWire.removed) ∧
      (∀ n ∈ names W, n ∉ cdsWire.removed) ∧
      (∃ w', v'.st .cds = some w' ∧ w'.names = names W) ∧
      v'.st .eds = none := by
  obtain ⟨v', cdsWire, rest, hp, hf, h1, h2, h3, h4, h5, h6, h7⟩ :=
    reconnect_processDelta_cds gen v hfresh hok retained init oldNonce W hgen hreport hstar
  rw [heds] at hf h7
  simp only [ForcedEds] at hf
  subst hf
  refine ⟨v', cdsWire, hp, h1, h2, h3, h4, h5, h6, ?_⟩
  cases he : v'.st .eds with
  | none => rfl
  | some x => rw [he] at h7; cases h7

/-- **(b) EDS already watched** (the client sent EDS before CDS, or re-subscribed on this stream):
    the CDS answer is followed by the forced EDS push, which carries the FULL generation for the
    recorded EDS names - the warming answer: every cluster of the CDS response gets its endpoints
    even though the client's EDS subscription did not change. -/
theorem reconnect_processDelta_cds_eds (gen : Gen) (v : Srv) (we : WR)
    (hfresh : v.st .cds = none) (hok : v.fail = false) (heds : v.st .eds = some we)
    (hedsgen : (gen .eds we.names).nilOut = false)
    (retained : Held) (init : List String) (oldNonce : String) (W : List C03.Res)
    (hgen : ∀ wn, gen .cds wn = fullOut W)
    (hreport : ∀ n ∈ names retained, n ∈ init) (hstar : "*" ∉ names retained) :
    ∃ v' cdsWire edsWire,
      processDelta gen v { ty := .cds, sub := ["*"], unsub := [], init := init, nonce := oldNonce, err := none }
        = some (v', [cdsWire, edsWire]) ∧
      edsWire.ty = .eds ∧ edsWire.resources = (gen .eds we.names).res ∧
      edsWire.removed = removedRaw we.names (gen .eds we.names) ∧
      cdsWire.ty = .cds ∧ cdsWire.resources = W ∧
      InSync (applyDelta retained { resources := cdsWire.resources, removed := cdsWire.removed }) W ∧
      (∀ n ∈ names retained, n ∉ names W → n ∈ cdsWire.removed) ∧
      (∀ n ∈ names W, n ∉ cdsWire.removed) ∧
      (∃ w', v'.st .cds = some w' ∧ w'.names = names W) ∧
      (∃ we', v'.st .eds = some we' ∧ we'.names = we.names) := by
  obtain ⟨v', cdsWire, rest, hp, hf, h1, h2, h3, h4, h5, h6, h7⟩ :=
    reconnect_processDelta_cds gen v hfresh hok retained init oldNonce W hgen hreport hstar
  rw [heds] at hf h7
  simp only [ForcedEds, hedsgen, Bool.false_eq_true, if_false] at hf
  obtain ⟨edsWire, hr, e1, e2, e3⟩ := hf
  subst hr
  refine ⟨v', cdsWire, edsWire, hp, e1, e2, e3, h1, h2, h3, h4, h5, h6, ?_⟩
  cases he : v'.st .eds with
  | none => rw [he] at h7; cases h7
  | some x =>
    rw [he] at h7
    simp only [Option.map_some, Option.some.injEq] at h7
    exact ⟨x, rfl, h7⟩

/-- (b'), the usual EDS generator (not delta-aware, not incremental): the forced EDS push also removes
    every recorded EDS name it produced nothing for. -/
theorem reconnect_processDelta_cds_eds_plain (gen : Gen) (v : Srv) (we : WR)
    (hfresh : v.st .cds = none) (hok : v.fail = false) (heds : v.st .eds = some we)
    (hedsgen : (gen .eds we.names).nilOut = false)
    (hplain : (gen .eds we.names).usedDelta = false) (hinc : (gen .eds we.names).incremental = false)
    (init : List String) (oldNonce : String) (W : List C03.Res)
    (hgen : ∀ wn, gen .cds wn = fullOut W) :
    ∃ v' cdsWire edsWire,
      processDelta gen v { ty := .cds, sub := ["*"], unsub := [], init := init, nonce := oldNonce, err := none }
        = some (v', [cdsWire, edsWire]) ∧
      edsWire.ty = .eds ∧ edsWire.resources = (gen .eds we.names).res ∧
      ∀ x, x ∈ edsWire.removed ↔ x ∈ we.names ∧ x ∉ names (gen .eds we.names).res := by
  obtain ⟨v', cdsWire, edsWire, hp, e1, e2, e3, _⟩ :=
    reconnect_processDelta_cds_eds gen v we hfresh hok heds hedsgen [] init oldNonce W hgen
      (by intro n hn; cases hn) (by intro hn; cases hn)
  refine ⟨v', cdsWire, edsWire, hp, e1, e2, ?_⟩
  intro x
  rw [e3]
  simp [removedRaw, hplain, hinc, mem_diff]

/-- (c) EDS watched but the EDS generator has nothing to say (`res == nil && deleted == nil`): only
    the CDS answer goes out. -/
theorem reconnect_processDelta_cds_eds_nil (gen : Gen) (v : Srv) (we : WR)
    (hfresh : v.st .cds = none) (hok : v.fail = false) (heds : v.st .eds = some we)
    (hedsgen : (gen .eds we.names).nilOut = true)
    (retained : Held) (init : List String) (oldNonce : String) (W : List C03.Res)
    (hgen : ∀ wn, gen .cds wn = fullOut W)
    (hreport : ∀ n ∈ names retained, n ∈ init) (hstar : "*" ∉ names retained) :
    ∃ v' cdsWire,
      processDelta gen v { ty := .cds, sub := ["*"], unsub := [], init := init, nonce := oldNonce, err := none }
        = some (v', [cdsWire]) ∧
      InSync (applyDelta retained { resources := cdsWire.resources, removed := cdsWire.removed }) W := by
  obtain ⟨v', cdsWire, rest, hp, hf, _, _, h3, _⟩ :=
    reconnect_processDelta_cds gen v hfresh hok retained init oldNonce W hgen hreport hstar
  rw [heds] at hf
  simp only [ForcedEds, hedsgen, if_true] at hf
  subst hf
  exact ⟨v', cdsWire, hp, h3⟩

/-! ### Non-vacuity (CDS) -/

/-- A generator: CDS produces the full set `[c1 v2, c3 v1]`; EDS answers every asked name at version 7. -/
def exGen : Gen := fun t wn =>
  match t with
  | .cds => fullOut [("c1", 2), ("c3", 1)]
  | .eds => { res := wn.map (fun n => (n, 7)) }
  | _ => { resNil := true }

/-- (a) concretely: retained `c1` (stale) and `c2` (deleted while away); `c2` is removed, `c1`
    refreshed, `c3` added; one response. -/
example :
    (processDelta exGen {} { ty := .cds, sub := ["*"], unsub := [], init := ["c1", "c2"], nonce := "old7", err := none }).map
        (fun p => (p.2, (p.1.st .cds).map (·.names)))
      = some ([{ ty := .cds, resources := [("c1", 2), ("c3", 1)], removed := ["c2"], nonce := "N1" }],
              some ["c1", "c3"]) := by
  decide

example : ∃ v' cdsWire,
    processDelta exGen {} { ty := .cds, sub := ["*"], unsub := [], init := ["c1", "c2"], nonce := "old7", err := none }
      = some (v', [cdsWire]) ∧
    InSync (applyDelta [("c1", 1), ("c2", 1)] { resources := cdsWire.resources, removed := cdsWire.removed })
      [("c1", 2), ("c3", 1)] := by
  obtain ⟨v', w, h, _, _, hs, _⟩ := reconnect_processDelta_cds_no_eds exGen {} rfl rfl rfl
    [("c1", 1), ("c2", 1)] ["c1", "c2"] "old7" [("c1", 2), ("c3", 1)] (fun _ => rfl) (by decide) (by decide)
  exact ⟨v', w, h, hs⟩

/-- (b) concretely: EDS (for `c1`, `c2`) was re-subscribed before CDS on the new stream. -/
def exSrvEds : Srv := { st := State.empty.set .eds (some { names := ["c1", "c2"], nonceSent := "N1" }), ctr := 1 }

example :
    (processDelta exGen exSrvEds { ty := .cds, sub := ["*"], unsub := [], init := ["c1", "c2"], nonce := "old7", err := none }).map
        (·.2)
      = some [{ ty := .cds, resources := [("c1", 2), ("c3", 1)], removed := ["c2"], nonce := "N2" },
              { ty := .eds, resources := [("c1", 7), ("c2", 7)], removed := [], nonce := "N3" }] := by
  decide

example : ∃ v' cdsWire edsWire,
    processDelta exGen exSrvEds { ty := .cds, sub := ["*"], unsub := [], init := ["c1", "c2"], nonce := "old7", err := none }
      = some (v', [cdsWire, edsWire]) ∧ edsWire.resources = [("c1", 7), ("c2", 7)] := by
  obtain ⟨v', w, e, h, _, he, _⟩ := reconnect_processDelta_cds_eds exGen exSrvEds { names := ["c1", "c2"], nonceSent := "N1" }
    rfl rfl rfl rfl [("c1", 1), ("c2", 1)] ["c1", "c2"] "old7" [("c1", 2), ("c3", 1)] (fun _ => rfl) (by decide) (by decide)
  exact ⟨v', w, e, h, he⟩

/-! ## Delta, named types (EDS, RDS, SDS) on a fresh stream -/

/-- The name set recorded / handed to the generator for the first request of a named type that
    subscribes to `sub` and reports `init` as retained: `sub ∪ init`. -/
theorem mem_deltaWatched_named (t : Ty) (sub init : List String) (nonce : String)
    (hs : "*" ∉ sub) (hi : "*" ∉ init) (x : String) :
    x ∈ (deltaWatched [] { ty := t, sub := sub, unsub := [], init := init, nonce := nonce, err := none }).1
      ↔ x ∈ sub ∨ x ∈ init := by
  rw [mem_deltaWatched]
  simp only [List.not_mem_nil, false_or, not_false_eq_true, true_and, ne_eq]
  constructor
  · exact fun h => h.1
  · intro h
    refine ⟨h, ?_⟩
    intro e
    subst e
    rcases h with h | h
    · exact hs h
    · exact hi h

/-- ... and that request does not make the watch a wildcard watch. -/
theorem deltaWatched_named_not_wildcard (t : Ty) (sub init : List String) (nonce : String)
    (hsub : sub ≠ []) (hs : "*" ∉ sub) (hi : "*" ∉ init) :
    (deltaWatched [] { ty := t, sub := sub, unsub := [], init := init, nonce := nonce, err := none }).2.1 = false := by
  unfold deltaWatched
  simp only [eraseAll]
  have hstar : "*" ∉ (insertAll (insertAll [] false sub).fst (insertAll [] false sub).snd init).fst := by
    rw [mem_insertAll, mem_insertAll]
    simp [hs, hi]
  have hne : sub.isEmpty = false := by
    cases sub with
    | nil => exact absurd rfl hsub
    | cons a as => rfl
  simp [hstar, hne]

/-- **Reconnect, delta, named types (EDS, RDS, SDS).**  Fresh stream; the client re-subscribes to
    `sub` and reports `init` (any old nonce).  The generator is handed `wn = sub ∪ init` and answers
    a plain non-nil output `o`.  Then exactly one response goes out; it carries `o.res`; its removed
    list is exactly the asked names the generator produced nothing for; the server's record is `wn`
    (a non-wildcard watch).  For ANY retained client state `held` that was reported in `init`:
    every retained name is covered by `wn`, and for every `n ∈ wn` the client ends at the generated
    version if there is one, and otherwise `n` is explicitly removed and the client holds nothing for it
    (a retained secret / route / endpoint set that no longer exists does not survive the reconnect). -/
theorem reconnect_processDelta_named (gen : Gen) (v : Srv) (t : Ty)
    (hwild : t.wildcard = false) (hman : t.managed = false) (hnr : neverRemove t = false)
    (hfresh : v.st t = none) (hok : v.fail = false)
    (sub init : List String) (oldNonce : String)
    (hsub : sub ≠ []) (hs : "*" ∉ sub) (hi : "*" ∉ init) :
    let r : DReq := { ty := t, sub := sub, unsub := [], init := init, nonce := oldNonce, err := none }
    let wn := (deltaWatched [] r).1
    let o := gen t wn
    o.usedDelta = false → o.incremental = false → o.nilOut = false →
    ∃ v' wire, processDelta gen v r = some (v', [wire]) ∧
      wire.ty = t ∧ wire.resources = o.res ∧
      (∀ x, x ∈ wire.removed ↔ x ∈ wn ∧ x ∉ names o.res) ∧
      (∃ w', v'.st t = some w' ∧ w'.names = wn ∧ w'.wildcard = false) ∧
      ∀ held : Held, (∀ n ∈ names held, n ∈ init) →
        (∀ n ∈ names held, n ∈ wn) ∧
        ∀ n ∈ wn,
          (∀ ver, get o.res n = some ver →
            get (applyDelta held { resources := wire.resources, removed := wire.removed }) n = some ver) ∧
          (n ∉ names o.res → n ∈ wire.removed ∧
            get (applyDelta held { resources := wire.resources, removed := wire.removed }) n = none) := by
  intro r wn o hplain hinc hnil
  have hcds : t ≠ .cds := by
    intro e; subst e; simp [Ty.wildcard] at hwild
  have hwc : (deltaWatched [] r).2.1 = false := deltaWatched_named_not_wildcard t sub init oldNonce hsub hs hi
  let s1 := v.st.set t (some { names := wn, wildcard := false })
  have hsr : shouldRespondDelta v.st r = .out true s1 := by
    have hrt : r.ty = t := rfl
    have hre : r.err = none := rfl
    simp only [shouldRespondDelta, shouldRespondDeltaG, deltaFirst, hre, hrt, hfresh, hman, hwc, s1, wn]
    simp
  have hnarrow : narrowedDelta t wn wn ([] : List String) = wn := by
    simp [narrowedDelta]
  have hpd : pushDelta t wn o = some ({ resources := o.res, removed := diff wn (names o.res) }, none) := by
    simp [pushDelta, hnil, hnr, removedRaw, hplain, hinc, newNames, shouldSetWatched, hwild]
  let v' : Srv := { v with st := sendDelta s1 t (freshNonce v) none true, ctr := v.ctr + 1 }
  refine ⟨v', { ty := t, resources := o.res, removed := diff wn (names o.res), nonce := freshNonce v }, ?_, rfl, rfl,
    fun x => mem_diff, ?_, ?_⟩
  · have hrt : r.ty = t := rfl
    have hru : r.unsub = [] := rfl
    have hsubs : (deltaWatched [] r).1 = wn := rfl
    have hgo : gen t wn = o := rfl
    simp only [processDelta, hsr, hrt, hru, hsubs, List.filter_nil, pushDeltaOne, s1, State.set_same, hnarrow, hgo,
      hpd, hok, Bool.false_eq_true, if_false, hcds, ne_eq, not_false_eq_true, Bool.false_or, Option.toList, v']
    simp [freshNonce]
  · exact ⟨{ names := wn, wildcard := false, nonceSent := freshNonce v }, by simp [v', sendDelta, s1], rfl, rfl⟩
  · intro held hreport
    refine ⟨?_, ?_⟩
    · intro n hn
      exact (mem_deltaWatched_named t sub init oldNonce hs hi n).mpr (Or.inr (hreport n hn))
    · intro n hn
      refine ⟨?_, ?_⟩
      · intro ver hver
        rw [get_applyDelta]
        simp [hver]
      · intro hgone
        have hrm : n ∈ diff wn (names o.res) := mem_diff.mpr ⟨hn, hgone⟩
        refine ⟨hrm, ?_⟩
        rw [get_applyDelta]
        simp [get_none_of_not_mem o.res n hgone, hrm]

/-- **Always-answering generators (EDS, RDS): nothing stays warming.**  If the generator answers
    every asked name (`cur n` = its current version), the one response removes nothing and every
    re-sent or reported name ends at its current version, whatever the client retained. -/
theorem reconnect_named_always_answered (gen : Gen) (v : Srv) (t : Ty)
    (hwild : t.wildcard = false) (hman : t.managed = false) (hnr : neverRemove t = false)
    (hfresh : v.st t = none) (hok : v.fail = false)
    (sub init : List String) (oldNonce : String)
    (hsub : sub ≠ []) (hs : "*" ∉ sub) (hi : "*" ∉ init) (cur : String → Nat) :
    let r : DReq := { ty := t, sub := sub, unsub := [], init := init, nonce := oldNonce, err := none }
    let wn := (deltaWatched [] r).1
    let o := gen t wn
    o.usedDelta = false → o.incremental = false → o.nilOut = false →
    (∀ n ∈ wn, get o.res n = some (cur n)) →
    ∃ v' wire, processDelta gen v r = some (v', [wire]) ∧ wire.ty = t ∧ wire.removed = [] ∧
      (∃ w', v'.st t = some w' ∧ w'.names = wn ∧ w'.wildcard = false) ∧
      ∀ held : Held, ∀ n, n ∈ sub ∨ n ∈ init →
        get (applyDelta held { resources := wire.resources, removed := wire.removed }) n = some (cur n) := by
  intro r wn o hplain hinc hnil hans
  obtain ⟨v', wire, hp, hty, hres, hrem, hrec, _⟩ :=
    reconnect_processDelta_named gen v t hwild hman hnr hfresh hok sub init oldNonce hsub hs hi hplain hinc hnil
  refine ⟨v', wire, hp, hty, ?_, hrec, ?_⟩
  · apply List.eq_nil_iff_forall_not_mem.mpr
    intro x hx
    have hx' := (hrem x).mp hx
    have hsome : (get o.res x).isSome := by
      rw [hans x hx'.1]; rfl
    exact hx'.2 ((get_isSome_iff_mem_names _ x).mp hsome)
  · intro held n hn
    have hnw : n ∈ wn := (mem_deltaWatched_named t sub init oldNonce hs hi n).mpr hn
    have hver : get wire.resources n = some (cur n) := by rw [hres]; exact hans n hnw
    rw [get_applyDelta]
    simp [hver]

/-! ### Non-vacuity (named types) -/

/-- SDS: only the secret `s1` still exists (version 3). -/
def exGenSds : Gen := fun t wn =>
  match t with
  | .sds => { res := (wn.filter (· == "s1")).map (fun n => (n, 3)) }
  | _ => { resNil := true }

example : Ty.sds.wildcard = false ∧ Ty.sds.managed = false ∧ neverRemove .sds = false ∧
    Ty.eds.wildcard = false ∧ Ty.eds.managed = false ∧ neverRemove .eds = false ∧
    Ty.rds.wildcard = false ∧ Ty.rds.managed = false ∧ neverRemove .rds = false := by decide

/-- The reconnecting client retained `s1` (stale) and `s2` (deleted while it was away): `s1` is
    refreshed, `s2` is explicitly removed; the watch records both names. -/
example :
    (processDelta exGenSds {} { ty := .sds, sub := ["s1", "s2"], unsub := [], init := ["s1", "s2"], nonce := "old", err := none }).map
        (fun p => (p.2, (p.1.st .sds).map (·.names)))
      = some ([{ ty := .sds, resources := [("s1", 3)], removed := ["s2"], nonce := "N1" }], some ["s1", "s2"]) := by
  decide

example : ∃ v' wire,
    processDelta exGenSds {} { ty := .sds, sub := ["s1", "s2"], unsub := [], init := ["s1", "s2"], nonce := "old", err := none }
      = some (v', [wire]) ∧
    get (applyDelta [("s1", 1), ("s2", 1)] { resources := wire.resources, removed := wire.removed }) "s1" = some 3 ∧
    "s2" ∈ wire.removed ∧
    get (applyDelta [("s1", 1), ("s2", 1)] { resources := wire.resources, removed := wire.removed }) "s2" = none := by
  obtain ⟨v', wire, hp, _, _, _, _, hall⟩ :=
    reconnect_processDelta_named exGenSds {} .sds rfl rfl rfl rfl rfl ["s1", "s2"] ["s1", "s2"] "old"
      (by decide) (by decide) (by decide) rfl rfl rfl
  have h := (hall [("s1", 1), ("s2", 1)] (by decide)).2
  have h1 := (h "s1" (by decide)).1 3 (by decide)
  have h2 := (h "s2" (by decide)).2 (by decide)
  exact ⟨v', wire, hp, h1, h2.1, h2.2⟩

/-- EDS with the always-answering generator `exGen`: both names end at the current version, nothing
    is removed, whatever was retained. -/
example : ∃ v' wire,
    processDelta exGen {} { ty := .eds, sub := ["c1", "c3"], unsub := [], init := ["c1"], nonce := "old", err := none }
      = some (v', [wire]) ∧ wire.removed = [] ∧
    get (applyDelta [("c1", 1)] { resources := wire.resources, removed := wire.removed }) "c3" = some 7 := by
  obtain ⟨v', wire, hp, _, hr, _, hall⟩ :=
    reconnect_named_always_answered exGen {} .eds rfl rfl rfl rfl rfl ["c1", "c3"] ["c1"] "old"
      (by decide) (by decide) (by decide) (fun _ => 7) rfl rfl rfl (by decide)
  exact ⟨v', wire, hp, hr, hall [("c1", 1)] "c3" (by decide)⟩

/-! ## On-demand workload (WDS) client reconnecting with retained versions -/

/-- Closed form of the answer to an on-demand request that asks for at least one name. -/
theorem wds_ondemand_request_resp (idx : Index) (w : WR) (hw : w.wildcard = false)
    (sub : List String) (retained : Held) (n : String) (hn : n ∈ sub) :
    let r : WReq := { isReq := true, sub := sub, retained := retained }
    let g := wdsGenerate idx w r
    let addresses := ondemandAddresses idx w r
    let found := foundOf idx addresses
    n ∈ addresses ∧
    pushDelta .addr (g.newNames.getD w.names) g.out
      = some ({ resources := toSend retained found,
                removed := (missingOf idx addresses).filter (fun a => !(found.map (·.alias)).contains a) }, none) := by
  intro r g addresses found
  have hmemA : n ∈ addresses := by simp [addresses, r, ondemandAddresses, union, hn]
  have hne : addresses.isEmpty = false := by
    cases h : addresses with
    | nil => rw [h] at hmemA; cases hmemA
    | cons a as => rfl
  have hgeq : g = ondemandOut true idx w r := by
    simp [g, r, wdsGenerate, wdsGenerateG, hw]
  refine ⟨hmemA, ?_⟩
  rw [hgeq, ondemandOut_nonempty true idx w r hne]
  simp [pushDelta, GenOut.nilOut, neverRemove, removedRaw, newNames, shouldSetWatched, Ty.managed, found, addresses, r]

/-- **On-demand reconnect answers what was asked (with version skip).**  An on-demand ztunnel
    reconnects holding `retained` and re-subscribes to `sub`, reporting its retained versions.  Every
    subscribed name that exists ends at its current version - whether the retained copy was current
    (skipped: not re-sent, not removed, kept), stale (re-sent) or absent (sent). -/
theorem wds_ondemand_reconnect_answers (idx : Index) (hnd : (idx.map (·.name)).Nodup) (w : WR) (hw : w.wildcard = false)
    (sub : List String) (retained : Held) (x : Wl) (hx : x ∈ idx) (hsub : x.name ∈ sub) :
    let g := wdsGenerate idx w { isReq := true, sub := sub, retained := retained }
    ∃ resp nn, pushDelta .addr (g.newNames.getD w.names) g.out = some (resp, nn) ∧
      get (applyDelta retained resp) x.name = some x.ver ∧
      x.name ∉ resp.removed ∧
      (get retained x.name = some x.ver → get resp.resources x.name = none) ∧
      (get retained x.name ≠ some x.ver → get resp.resources x.name = some x.ver) := by
  intro g
  obtain ⟨hmemA, hpd⟩ := wds_ondemand_request_resp idx w hw sub retained x.name hsub
  generalize haddr : ondemandAddresses idx w { isReq := true, sub := sub, retained := retained } = addresses at hmemA hpd
  have hxf : x ∈ foundOf idx addresses := by
    apply List.mem_filter.mpr
    exact ⟨hx, by simp [hmemA]⟩
  have hndf : ((foundOf idx addresses).map (·.name)).Nodup :=
    List.Nodup.sublist ((List.filter_sublist (l := idx)).map _) hnd
  have hget := get_toSend retained (foundOf idx addresses) hndf x hxf
  have hnrm : x.name ∉ (missingOf idx addresses).filter
      (fun a => !((foundOf idx addresses).map (·.alias)).contains a) := by
    intro hm
    have h1 := (List.mem_filter.mp (List.mem_filter.mp hm).1).2
    have hxl : x ∈ idx.lookup x.name := by
      apply List.mem_filter.mpr
      exact ⟨hx, by simp⟩
    have : idx.lookup x.name = [] := by simpa using h1
    rw [this] at hxl
    cases hxl
  generalize (missingOf idx addresses).filter
      (fun a => !((foundOf idx addresses).map (·.alias)).contains a) = rmd at hpd hnrm
  refine ⟨_, _, hpd, ?_, hnrm, ?_, ?_⟩
  · rw [get_applyDelta]
    simp only [hget]
    by_cases hsame : get retained x.name = some x.ver
    · simp [hsame, hnrm]
    · simp [hsame]
  · intro hsame
    simp [hget, hsame]
  · intro hdiff
    simp [hget, hdiff]

/-- **... and removes what vanished.**  A subscribed name that resolves to nothing in the index
    (neither a resource name nor an indexed address) and is not listed as the alias of any address
    (the generator filters the aliases of what it found out of `removed`: an address listed in
    `Aliases()` that a lookup does not find - a host-network pod's IP - is not reported as removed)
    is listed in `removed_resources`, and the client - whatever version it retained - holds nothing for it. -/
theorem wds_ondemand_reconnect_removes_vanished (idx : Index) (w : WR) (hw : w.wildcard = false)
    (sub : List String) (retained : Held) (n : String) (hn : n ∈ sub) (hgone : (idx.lookup n).isEmpty = true)
    (hnoalias : ∀ y ∈ idx, y.alias ≠ n) :
    let g := wdsGenerate idx w { isReq := true, sub := sub, retained := retained }
    ∃ resp nn, pushDelta .addr (g.newNames.getD w.names) g.out = some (resp, nn) ∧
      n ∈ resp.removed ∧ get (applyDelta retained resp) n = none := by
  intro g
  obtain ⟨hmemA, hpd⟩ := wds_ondemand_request_resp idx w hw sub retained n hn
  generalize haddr : ondemandAddresses idx w { isReq := true, sub := sub, retained := retained } = addresses at hmemA hpd
  have hnone : ∀ y ∈ idx, y.name ≠ n ∧ y.alias ≠ n := by
    intro y hy
    have hl : idx.lookup n = [] := by simpa using hgone
    have := (List.filter_eq_nil_iff.mp hl) y hy
    have hname : y.name ≠ n := by
      intro e
      exact this (by simp [e])
    exact ⟨hname, hnoalias y hy⟩
  have hrm : n ∈ (missingOf idx addresses).filter
      (fun a => !((foundOf idx addresses).map (·.alias)).contains a) := by
    apply List.mem_filter.mpr
    refine ⟨List.mem_filter.mpr ⟨hmemA, hgone⟩, ?_⟩
    have : n ∉ (foundOf idx addresses).map (·.alias) := by
      intro hm
      obtain ⟨y, hy, hyn⟩ := List.mem_map.mp hm
      exact (hnone y (List.mem_filter.mp hy).1).2 hyn
    simpa using this
  have hres : get (toSend retained (foundOf idx addresses)) n = none := by
    apply get_none_of_not_mem
    intro hm
    obtain ⟨y, hy, hyn⟩ := List.mem_map.mp (toSend_names_subset retained _ n hm)
    exact (hnone y (List.mem_filter.mp hy).1).1 hyn
  generalize (missingOf idx addresses).filter
      (fun a => !((foundOf idx addresses).map (·.alias)).contains a) = rmd at hpd hrm
  refine ⟨_, _, hpd, hrm, ?_⟩
  rw [get_applyDelta]
  simp only [hres]
  simp [hrm]

/-! ### Non-vacuity (on-demand WDS) -/

/-- Index: `a` (v1) and `b` (v2) exist; `c` vanished.  The reconnecting on-demand ztunnel retained
    `a` at v1 (current: skipped), `b` at v1 (stale: re-sent), `c` at v1 (vanished: removed). -/
def exIdx : Index :=
  [{ name := "a", alias := "net/1", onNode := false, ver := 1 },
   { name := "b", alias := "net/2", onNode := false, ver := 2 }]

example :
    let g := wdsGenerate exIdx {} { isReq := true, sub := ["a", "b", "c"], retained := [("a", 1), ("b", 1), ("c", 1)] }
    pushDelta .addr (g.newNames.getD []) g.out = some ({ resources := [("b", 2)], removed := ["c"] }, none) ∧
    applyDelta [("a", 1), ("b", 1), ("c", 1)] { resources := [("b", 2)], removed := ["c"] } = [("b", 2), ("a", 1)] := by
  decide

example :
    let g := wdsGenerate exIdx {} { isReq := true, sub := ["a", "b", "c"], retained := [("a", 1), ("b", 1), ("c", 1)] }
    ∃ resp nn, pushDelta .addr (g.newNames.getD ({} : WR).names) g.out = some (resp, nn) ∧
      get (applyDelta [("a", 1), ("b", 1), ("c", 1)] resp) "a" = some 1 ∧ get resp.resources "a" = none := by
  obtain ⟨resp, nn, hp, h1, _, h3, _⟩ := wds_ondemand_reconnect_answers exIdx (by decide) {} rfl ["a", "b", "c"]
    [("a", 1), ("b", 1), ("c", 1)] { name := "a", alias := "net/1", onNode := false, ver := 1 } (by decide) (by decide)
  exact ⟨resp, nn, hp, h1, h3 (by decide)⟩

example :
    let g := wdsGenerate exIdx {} { isReq := true, sub := ["a", "b", "c"], retained := [("a", 1), ("b", 1), ("c", 1)] }
    ∃ resp nn, pushDelta .addr (g.newNames.getD ({} : WR).names) g.out = some (resp, nn) ∧
      get (applyDelta [("a", 1), ("b", 1), ("c", 1)] resp) "b" = some 2 ∧ get resp.resources "b" = some 2 := by
  obtain ⟨resp, nn, hp, h1, _, _, h4⟩ := wds_ondemand_reconnect_answers exIdx (by decide) {} rfl ["a", "b", "c"]
    [("a", 1), ("b", 1), ("c", 1)] { name := "b", alias := "net/2", onNode := false, ver := 2 } (by decide) (by decide)
  exact ⟨resp, nn, hp, h1, h4 (by decide)⟩

example :
    let g := wdsGenerate exIdx {} { isReq := true, sub := ["a", "b", "c"], retained := [("a", 1), ("b", 1), ("c", 1)] }
    ∃ resp nn, pushDelta .addr (g.newNames.getD ({} : WR).names) g.out = some (resp, nn) ∧
      "c" ∈ resp.removed ∧ get (applyDelta [("a", 1), ("b", 1), ("c", 1)] resp) "c" = none :=
  wds_ondemand_reconnect_removes_vanished exIdx {} rfl ["a", "b", "c"] [("a", 1), ("b", 1), ("c", 1)] "c"
    (by decide) (by decide) (by decide)

end IstioModel.C05
