import IstioModel.C03.Clients

/-!
C05 - models specific to reconnection (the system model with the `reconnect` operation is
`IstioModel.C03.Clients`, shared with C03).

1. The wildcard request path of the workload (WDS / Address) generator with `initial_resource_versions`
   (pilot/pkg/xds/workload.go `GenerateDeltas`, `appendAddress`): a resource whose retained version
   equals the current one is not re-sent but still counts as held; removed = subscribed - have.
2. Registration of a new connection versus publication of a new snapshot
   (pilot/pkg/xds/ads.go `initConnection`: `proxy.LastPushContext = s.globalPushContext()`, `authorize`,
   `addCon`, `initializeProxy`; discovery.go `Push` / ads.go `StartPush`: the new snapshot becomes global,
   then a push is enqueued for every REGISTERED connection).
-/
namespace IstioModel.C05
open IstioModel.C03 IstioModel.C04

/-! ### Workload generator, request on a (re)connected wildcard stream -/

/-- `index`: every address the ambient index currently has, with its content version;
    `subscribed`: `req.Delta.Subscribed` (everything the client reported + subscribed);
    `retained`: name → version the client reported in `initial_resource_versions`. -/
def wdsRequest (index : List C03.Res) (subscribed : List String) (retained : Held) : DeltaResp :=
  { resources := index.filter (fun r => get retained r.1 != some r.2),
    removed := diff subscribed (names index) }

/-! ### Connection registration vs. snapshot publication -/

/-- Phases of `initConnection`. -/
inductive Phase
  | start          -- nothing done
  | readSnapshot   -- `proxy.LastPushContext = globalPushContext()` done
  | registered     -- `addCon` done (pushes are now enqueued for this connection)
  | initialized    -- `initializeProxy` done: the proxy serves from `lpc`
  deriving DecidableEq, Repr

structure Reg where
  global : Nat := 0            -- version of the published snapshot
  phase  : Phase := .start
  lpc    : Nat := 0            -- `proxy.LastPushContext` (version)
  queued : Option Nat := none  -- push event parked for this connection (newest snapshot wins on merge)
  deriving DecidableEq, Repr

inductive RegStep
  | publish        -- `Push`: a newer snapshot becomes global; StartPush enqueues for registered connections
  | advance        -- the connection's goroutine performs its next `initConnection` step
  | handlePush     -- the connection's stream loop handles its parked push event (only once initialized)
  deriving DecidableEq, Repr

/-- `reread`: the repaired code reads the global snapshot again right after `addCon`. -/
def regStep (reread : Bool) (r : Reg) : RegStep → Reg
  | .publish =>
    let g := r.global + 1
    { r with global := g,
             queued := if r.phase = .registered ∨ r.phase = .initialized then some g else r.queued }
  | .advance =>
    match r.phase with
    | .start => { r with phase := .readSnapshot, lpc := r.global }
    | .readSnapshot => { r with phase := .registered, lpc := if reread then r.global else r.lpc }
    | .registered => { r with phase := .initialized }
    | .initialized => r
  | .handlePush =>
    match r.phase, r.queued with
    | .initialized, some g => { r with lpc := max r.lpc g, queued := none }
    | _, _ => r

def regRun (reread : Bool) (r : Reg) (steps : List RegStep) : Reg := steps.foldl (regStep reread) r

end IstioModel.C05
