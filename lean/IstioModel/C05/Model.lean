import IstioModel.C03.Clients

/-!
C05 - models specific to reconnection (the system model with the `reconnect` operation is
`IstioModel.C03.Clients`, shared with C03).

1. The wildcard request path of the workload (WDS / Address) generator with `initial_resource_versions`
   (pilot/pkg/xds/workload.go `GenerateDeltas`, `appendAddress`): a resource whose retained version
   equals the current one is not re-sent but still counts as held; removed = subscribed - have.
2. Registration of a new connection versus publication of a new snapshot
   (pilot/pkg/xds/ads.go `initConnection`: `proxy.LastPushContext = s.globalPushContext()`, `authorize`,
   `addCon`, `initializeProxy`; discovery.go `Push`: `initPushContext` makes the new snapshot global
   (`Env.SetPushContext`), THEN `AdsPushAll` -> ads.go `StartPush` enqueues a push carrying that snapshot for
   every REGISTERED connection (`AllClients`) - two separate steps, with `initConnection` of another
   goroutine free to run in between).
3. Start-up: `Stream` / `StreamDeltas` refuse a connection while `IsServerReady()` is false and initialise the
   global push context (`globalPushContext().InitContext`) before a connection is created; bootstrap
   `waitForCacheSync` marks the server ready only when the caches are synced and every update received until
   then has been committed to a push context.
-/
namespace IstioModel.C05
open IstioModel.C03 IstioModel.C04

/-! ### Workload generator, request on a (re)connected wildcard stream -/

/-- `index`: every address the ambient index currently has, with its content version;
    `subscribed`: `req.Delta.Subscribed` (everything the client reported + subscribed);
    `retained`: name → version the client reported in `initial_resource_versions`. -/
def wdsRequest (index : List C03.Res) (subscribed : List String) (retained : Held) : DeltaResp :=
  { resources := index.filter (fun r => get retained r.1 != some r.2),
    removed := diff subscribed (names index) }

/-! ### Connection registration vs. snapshot publication -/

/-- Phases of `initConnection`. -/
inductive Phase
  | start          -- nothing done
  | readSnapshot   -- `proxy.LastPushContext = globalPushContext()` done
  | registered     -- `addCon` done (pushes are now enqueued for this connection)
  | initialized    -- `initializeProxy` done: the proxy serves from `lpc`
  deriving DecidableEq, Repr

structure Reg where
  global   : Nat := 0            -- version of the published snapshot (`Env.PushContext()`)
  phase    : Phase := .start
  lpc      : Nat := 0            -- `proxy.LastPushContext` (version)
  queued   : Option Nat := none  -- push event parked for this connection (the newest request wins on merge)
  inflight : Option Nat := none  -- a `Push` call is between its two halves: the snapshot it built
  deriving DecidableEq, Repr

/-- `Push` runs on one goroutine at a time (the debouncer starts the next one only when the previous
    returned), so its two halves alternate; everything else interleaves freely with them. -/
inductive RegStep
  | setGlobal      -- `initPushContext`: the snapshot built by this `Push` becomes global (`SetPushContext`)
  | enqueue        -- `AdsPushAll` / `StartPush`: a push carrying that snapshot is enqueued for registered connections
  | advance        -- the connection's goroutine performs its next `initConnection` step
  | handlePush     -- the connection's stream loop handles its parked push event (only once initialized)
  deriving DecidableEq, Repr

def Reg.isRegistered (r : Reg) : Bool := r.phase = .registered || r.phase = .initialized

/-- `reread`: the repaired code reads the global snapshot again right after `addCon`.
    `publishFirst`: the order inside `Push` - `true` is the code (`SetPushContext`, then `StartPush`);
    `false` is the reverse order (enqueue the snapshot, then make it global).  The second half of a
    `Push` is only enabled after its first half and vice versa; a disabled step changes nothing. -/
def regStep (reread publishFirst : Bool) (r : Reg) : RegStep → Reg
  | .setGlobal =>
    if publishFirst then
      match r.inflight with
      | none => { r with global := r.global + 1, inflight := some (r.global + 1) }
      | some _ => r
    else
      match r.inflight with
      | some g => { r with global := g, inflight := none }
      | none => r
  | .enqueue =>
    if publishFirst then
      match r.inflight with
      | some g => { r with queued := if r.isRegistered then some g else r.queued, inflight := none }
      | none => r
    else
      match r.inflight with
      | none => { r with queued := if r.isRegistered then some (r.global + 1) else r.queued,
                         inflight := some (r.global + 1) }
      | some _ => r
  | .advance =>
    match r.phase with
    | .start => { r with phase := .readSnapshot, lpc := r.global }
    | .readSnapshot => { r with phase := .registered, lpc := if reread then r.global else r.lpc }
    | .registered => { r with phase := .initialized }
    | .initialized => r
  | .handlePush =>
    match r.phase, r.queued with
    -- `computeProxyState`: `proxy.LastPushContext = push` - an assignment, not a maximum.
    -- Not modelled: `pushConnection` skips `computeProxyState` when every key of `ConfigsUpdated` is
    -- `kind.Endpoints`: the proxy then keeps the previous `LastPushContext` although a newer snapshot
    -- was published, so `lpc = global` does not hold literally after such a push.  The snapshot of an
    -- endpoints-only push differs from its predecessor in nothing a generator reads through
    -- `LastPushContext` (endpoints are read live from the endpoint index), so `global` is to be read as
    -- "the newest snapshot up to endpoints-only successors".
    | .initialized, some g => { r with lpc := g, queued := none }
    | _, _ => r

def regRun (reread publishFirst : Bool) (r : Reg) (steps : List RegStep) : Reg :=
  steps.foldl (regStep reread publishFirst) r

/-! ### Start-up: nothing is served before the caches are synced -/

/-- An instance that is starting.  The cluster state is static here (`full` objects; changes after
    start-up are C01's subject); `caches` of them have reached the registries / config store so far.
    Every object that reaches a cache calls `ConfigUpdate` (`InboundUpdates` = `caches`; limit of the model:
    an object that reaches a cache WITHOUT a `ConfigUpdate` cannot be expressed). -/
structure Boot where
  full      : Nat
  caches    : Nat := 0            -- = `InboundUpdates`
  committed : Nat := 0            -- `CommittedUpdates`: updates the debouncer counts as pushed
  building  : Option (Nat × Nat) := none
                                  -- a debounced `Push` is running: (what the caches held when `InitContext` read them,
                                  -- the number of updates merged into it = `InboundUpdates` at that moment)
  ctx       : Option Nat := none  -- the global push context: `none` = `NewPushContext()`, never initialised
                                  -- (no mesh config, no services); `some n` = initialised when the caches held n objects
  ready     : Bool := false       -- `serverReady` (`CachesSynced()` was called)
  deriving DecidableEq, Repr

inductive BootStep
  | load           -- an informer delivers one more object: the cache grows, `ConfigUpdate` is called
  | build          -- the debouncer starts `pushFn` (= `Push`) for everything received so far: the new context is
                   -- initialised from the caches as they are NOW (one `Push` at a time)
  | commit         -- that `Push` publishes its context and returns; only THEN the debouncer adds the merged updates
                   -- to `CommittedUpdates` (discovery.go `debounce`: `pushFn(req); updateSent.Add(debouncedEvents)`)
  | markReady      -- bootstrap `waitForCacheSync`: caches synced, `expected := InboundUpdates`, wait until
                   -- `CommittedUpdates >= expected`, then `CachesSynced()`
  | connect        -- a proxy calls `Stream` / `StreamDeltas`
  deriving DecidableEq, Repr

/-- What a connecting proxy meets. -/
inductive Served
  | refused                 -- `codes.Unavailable`: the proxy keeps what it has and retries
  | cold                    -- served from a never-initialised push context
  | from (n : Nat)          -- served from a context initialised when the caches held `n` objects
  deriving DecidableEq, Repr

/-- `gate`: the `IsServerReady` check of `Stream` / `StreamDeltas` is present;
    `initInStream`: so is `globalPushContext().InitContext(...)`;
    `commitAfterPush`: the debouncer counts the updates as committed AFTER `pushFn` returned (the code) -
    `false` counts them when the push STARTS.  Returns the new state and, for a `connect`, what the proxy met. -/
def bootStep (gate initInStream commitAfterPush : Bool) (b : Boot) : BootStep → Boot × Option Served
  | .load => if b.caches < b.full then ({ b with caches := b.caches + 1 }, none) else (b, none)
  | .build =>
    match b.building with
    | some _ => (b, none)
    | none =>
      ({ b with building := some (b.caches, b.caches),
                committed := if commitAfterPush then b.committed else b.caches }, none)
  | .commit =>
    match b.building with
    | none => (b, none)
    | some (c, k) =>
      ({ b with ctx := some c, building := none,
                committed := if commitAfterPush then k else b.committed }, none)
  | .markReady => if b.caches = b.full ∧ b.caches ≤ b.committed then ({ b with ready := true }, none) else (b, none)
  | .connect =>
    if gate && !b.ready then (b, some .refused)
    else
      -- `InitContext` returns immediately when the context is already initialised
      let ctx := if initInStream then (match b.ctx with | some n => some n | none => some b.caches) else b.ctx
      ({ b with ctx := ctx }, some (match ctx with | some n => .from n | none => .cold))

/-- Run a schedule; collect what every connecting proxy met. -/
def bootRun (gate initInStream commitAfterPush : Bool) : Boot → List BootStep → Boot × List Served
  | b, [] => (b, [])
  | b, e :: es =>
    let (b1, o) := bootStep gate initInStream commitAfterPush b e
    let (b2, os) := bootRun gate initInStream commitAfterPush b1 es
    (b2, o.toList ++ os)

/-! ### `ProxyUpdate` in the overlap window

A proxy that reconnects before the instance has noticed its dead stream has TWO registered connections for a
while.  A change of the workload's labels reaches connected proxies only through `ProxyUpdate` (ads.go): a forced
push with reason `ProxyUpdate` makes `computeProxyState` call `SetWorkloadLabels` again. -/

/-- A registered connection of the proxy: is it the live stream, and which version of the workload labels its
    proxy object has read. -/
structure PConn where
  live   : Bool
  labels : Nat
  deriving DecidableEq, Repr

/-- `ProxyUpdate` over the matching connections in the order the Go map yields them (arbitrary).
    `everyMatch = false` is the code before repair 234a295: `break` at the first match. -/
def proxyUpdate (everyMatch : Bool) (newLabels : Nat) : List PConn → List PConn
  | [] => []
  | c :: cs =>
    { c with labels := newLabels } :: (if everyMatch then proxyUpdate everyMatch newLabels cs else cs)

end IstioModel.C05
