import IstioModel.C03.Server

/-!
C04 - the code that actually ANSWERS a request: `processRequest` / `pushXds` / `pushConnection`
(pilot/pkg/xds/ads.go, xdsgen.go) and `processDeltaRequest` / `pushDeltaXds` / `forceEDSPush` /
`pushConnectionDelta` (pilot/pkg/xds/delta.go), observed through three things:

* `sent`  - the responses put on the stream (nothing here = the server stayed silent),
* `calls` - the generator calls: the type and the name set of the `WatchedResource` the generator was
            handed (`req.Delta.Subscribed` narrowing: on a subscription change only the newly
            subscribed names are generated),
* `srv`   - the resulting watch table (names, nonce sent / acked, AlwaysRespond, LastError).

The one-push functions (`pushSotwOne`, `pushDeltaOne`: generator call, nil-output skip, failed send,
`Send` / `sendDelta` watch update, new ResourceNames of wildcard types) are the ones of the C03 model
(`IstioModel/C03/Server.lean`); this file adds the record of the generator calls and states the
composition again so that every observable is a field of one result.  `procSotw_refines` etc.
(ProcessTheorems.lean) prove that dropping `calls` gives exactly the C03 functions.
-/
namespace IstioModel.C04

/-- One generator call: the type and the name set of the watched resource handed to the generator. -/
abbrev Call := Ty × List String

/-- What handling one request / one push event did. -/
structure POut where
  srv   : C03.Srv
  sent  : List C03.Wire
  calls : List Call

/-- The generator call `pushXds` makes for type `t` (none: the type is not watched). -/
def askedSotw (st : State) (t : Ty) (sub : List String) : Option Call :=
  (st t).map fun w => (t, C03.narrowedSotw w.names sub)

/-- The generator call `pushDeltaXds` makes for type `t`. -/
def askedDelta (st : State) (t : Ty) (sub unsub : List String) : Option Call :=
  (st t).map fun w => (t, C03.narrowedDelta t w.names sub unsub)

/-- `processRequest` (debug / health types: see Recv.lean). -/
def procSotw (gen : C03.Gen) (v : C03.Srv) (r : Req) : Option POut :=
  match shouldRespond v.st r with
  | .crash => none
  | .out false _ s' => some { srv := { v with st := s' }, sent := [], calls := [] }
  | .out true sub s' =>
    let p := C03.pushSotwOne gen { v with st := s' } r.ty sub
    some { srv := p.1, sent := p.2.1.toList, calls := (askedSotw s' r.ty sub).toList }

/-- `processRequest` for a proxyless gRPC client (`proxy.IsProxylessGrpc()`): `pushXds` does NOT narrow the
    watched resource to the newly subscribed names - such a client expects the whole subscription in every
    response (it is a state-of-the-world client in the strict sense). -/
def procSotwGrpc (gen : C03.Gen) (v : C03.Srv) (r : Req) : Option POut :=
  match shouldRespond v.st r with
  | .crash => none
  | .out false _ s' => some { srv := { v with st := s' }, sent := [], calls := [] }
  | .out true _ s' =>
    let p := C03.pushSotwOne gen { v with st := s' } r.ty []
    some { srv := p.1, sent := p.2.1.toList, calls := (askedSotw s' r.ty []).toList }

/-- The loop of `pushConnection`; stops at the first failed send. -/
def pushAllSotwC (gen : C03.Gen) (v : C03.Srv) : List Ty → POut
  | [] => { srv := v, sent := [], calls := [] }
  | t :: ts =>
    let p := C03.pushSotwOne gen v t []
    let c := (askedSotw v.st t []).toList
    if p.2.2 then { srv := p.1, sent := [], calls := c }
    else
      let o := pushAllSotwC gen p.1 ts
      { srv := o.srv, sent := p.2.1.toList ++ o.sent, calls := c ++ o.calls }

def pushConnSotwC (gen : C03.Gen) (v : C03.Srv) : POut := pushAllSotwC gen v C03.pushOrder

/-- `processDeltaRequest` with `forceEDSPush`. -/
def procDelta (gen : C03.Gen) (v : C03.Srv) (r : DReq) : Option POut :=
  match shouldRespondDelta v.st r with
  | .crash => none
  | .out false s' => some { srv := { v with st := s' }, sent := [], calls := [] }
  | .out true s' =>
    let subs := (deltaWatched [] r).1
    let unsub := r.unsub.filter (· ≠ "*")
    let p1 := C03.pushDeltaOne gen { v with st := s' } r.ty subs unsub
    let c1 := (askedDelta s' r.ty subs unsub).toList
    if p1.2.2 || r.ty ≠ .cds then some { srv := p1.1, sent := p1.2.1.toList, calls := c1 }
    else
      let p2 := C03.pushDeltaOne gen p1.1 .eds [] []
      some { srv := p2.1, sent := p1.2.1.toList ++ p2.2.1.toList,
             calls := c1 ++ (askedDelta p1.1.st .eds [] []).toList }

/-- The loop of `pushConnectionDelta`. -/
def pushAllDeltaC (gen : C03.Gen) (v : C03.Srv) : List Ty → POut
  | [] => { srv := v, sent := [], calls := [] }
  | t :: ts =>
    let p := C03.pushDeltaOne gen v t [] []
    let c := (askedDelta v.st t [] []).toList
    if p.2.2 then { srv := p.1, sent := [], calls := c }
    else
      let o := pushAllDeltaC gen p.1 ts
      { srv := o.srv, sent := p.2.1.toList ++ o.sent, calls := c ++ o.calls }

def pushConnDeltaC (gen : C03.Gen) (v : C03.Srv) : POut := pushAllDeltaC gen v C03.pushOrder

/-! ### What the generator is told besides the watched resource: the `PushRequest`

`req.Delta` (`Subscribed`, `Unsubscribed`, `InitialResourceVersions`) and `req.Forced`.  For the types whose
generator manages the names itself (WDS, WL: `requiresResourceNamesModification`) the watched resource is NOT
narrowed and `req.Delta` is the only way the generator learns what changed; `InitialResourceVersions` is
released before generation for every other type. -/

structure CallInfo where
  sub    : List String := []
  unsub  : List String := []
  init   : List String := []
  forced : Bool := true
  deriving DecidableEq, Repr

/-- `processRequest`: `Delta = ResourceDelta{Subscribed: added}`, `Forced`. -/
def infoSotw (sub : List String) : CallInfo := { sub := sub }

/-- `processDeltaRequest`: the request's whole subscribe set, its unsubscribes without the synthetic `*`, the
    client's retained versions only for generator-managed types, `Forced`. -/
def infoDelta (r : DReq) : CallInfo :=
  { sub := (deltaWatched [] r).1, unsub := r.unsub.filter (· ≠ "*"), init := if r.ty.managed then r.init else [] }

/-- `forceEDSPush` and the calls of a push event: no delta. -/
def infoPush (forced : Bool) : CallInfo := { forced := forced }

/-! ### Generator errors

A generator may fail (`Generate` returns an error): `pushXds` / `pushDeltaXds` return it, nothing is sent, the
watch table is left as the classification made it, a push loop stops, and the handler's caller (`Stream`) ends
the stream.  `errs t` = the generator of `t` fails.  With no failing generator these are the functions above. -/

structure POutE where
  out : POut
  err : Bool        -- the handler returned an error (generator error or failed send)

def failedSend (v : C03.Srv) (p : C03.Srv × Option C03.Wire × Bool) : Bool := p.2.2 && v.fail

def procSotwE (grpc : Bool) (errs : Ty → Bool) (gen : C03.Gen) (v : C03.Srv) (r : Req) : Option POutE :=
  match shouldRespond v.st r with
  | .crash => none
  | .out false _ s' => some { out := { srv := { v with st := s' }, sent := [], calls := [] }, err := false }
  | .out true sub s' =>
    let sub' := if grpc then [] else sub
    let c := (askedSotw s' r.ty sub').toList
    if errs r.ty && !c.isEmpty then some { out := { srv := { v with st := s' }, sent := [], calls := c }, err := true }
    else
      let p := C03.pushSotwOne gen { v with st := s' } r.ty sub'
      some { out := { srv := p.1, sent := p.2.1.toList, calls := c }, err := p.2.2 }

def pushAllSotwE (errs : Ty → Bool) (gen : C03.Gen) (v : C03.Srv) : List Ty → POutE
  | [] => { out := { srv := v, sent := [], calls := [] }, err := false }
  | t :: ts =>
    let c := (askedSotw v.st t []).toList
    if errs t && !c.isEmpty then { out := { srv := v, sent := [], calls := c }, err := true }
    else
      let p := C03.pushSotwOne gen v t []
      if p.2.2 then { out := { srv := p.1, sent := [], calls := c }, err := true }
      else
        let o := pushAllSotwE errs gen p.1 ts
        { out := { srv := o.out.srv, sent := p.2.1.toList ++ o.out.sent, calls := c ++ o.out.calls }, err := o.err }

def procDeltaE (errs : Ty → Bool) (gen : C03.Gen) (v : C03.Srv) (r : DReq) : Option POutE :=
  match shouldRespondDelta v.st r with
  | .crash => none
  | .out false s' => some { out := { srv := { v with st := s' }, sent := [], calls := [] }, err := false }
  | .out true s' =>
    let subs := (deltaWatched [] r).1
    let unsub := r.unsub.filter (· ≠ "*")
    let c1 := (askedDelta s' r.ty subs unsub).toList
    if errs r.ty && !c1.isEmpty then some { out := { srv := { v with st := s' }, sent := [], calls := c1 }, err := true }
    else
      let p1 := C03.pushDeltaOne gen { v with st := s' } r.ty subs unsub
      if p1.2.2 || r.ty ≠ .cds then some { out := { srv := p1.1, sent := p1.2.1.toList, calls := c1 }, err := p1.2.2 }
      else
        let c2 := (askedDelta p1.1.st .eds [] []).toList
        if errs .eds && !c2.isEmpty then
          some { out := { srv := p1.1, sent := p1.2.1.toList, calls := c1 ++ c2 }, err := true }
        else
          let p2 := C03.pushDeltaOne gen p1.1 .eds [] []
          some { out := { srv := p2.1, sent := p1.2.1.toList ++ p2.2.1.toList, calls := c1 ++ c2 }, err := p2.2.2 }

def pushAllDeltaE (errs : Ty → Bool) (gen : C03.Gen) (v : C03.Srv) : List Ty → POutE
  | [] => { out := { srv := v, sent := [], calls := [] }, err := false }
  | t :: ts =>
    let c := (askedDelta v.st t [] []).toList
    if errs t && !c.isEmpty then { out := { srv := v, sent := [], calls := c }, err := true }
    else
      let p := C03.pushDeltaOne gen v t [] []
      if p.2.2 then { out := { srv := p.1, sent := [], calls := c }, err := true }
      else
        let o := pushAllDeltaE errs gen p.1 ts
        { out := { srv := o.out.srv, sent := p.2.1.toList ++ o.out.sent, calls := c ++ o.out.calls }, err := o.err }

/-- A debug request (`strings.HasPrefix(TypeUrl, DebugType)`): no classification, no watch; the generator is handed an
    ephemeral watched resource with the request's names, its answer (if any) is sent and no nonce is recorded. -/
def procDebug (errs : Bool) (resNil : Bool) (v : C03.Srv) : Bool × Bool :=
  -- (a response is sent, the handler returns an error)
  if errs then (false, true) else if resNil then (false, false) else if v.fail then (false, true) else (true, false)

/-! ### Generators of the `proc` / `dproc` streams

A scripted answer per type; in `echo` mode the generator answers with one resource (version 1) for
every name of the watched resource it was handed, so that the response on the wire shows what the
generator was asked for. -/

structure Script where
  echo  : Bool := true
  out   : C03.GenOut := { resNil := false, delNil := true }
  fails : Bool := false      -- the generator returns an error

def echoRes (wn : List String) : List C03.Res := wn.map (fun n => (n, 1))

def scriptGen (look : Ty → Script) : C03.Gen := fun t wn =>
  let s := look t
  if s.echo then { s.out with resNil := false, res := echoRes wn } else s.out

end IstioModel.C04
