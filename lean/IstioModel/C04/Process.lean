import IstioModel.C03.Server

/-!
C04 - the code that actually ANSWERS a request: `processRequest` / `pushXds` / `pushConnection`
(pilot/pkg/xds/ads.go, xdsgen.go) and `processDeltaRequest` / `pushDeltaXds` / `forceEDSPush` /
`pushConnectionDelta` (pilot/pkg/xds/delta.go), observed through three things:

* `sent`  - the responses put on the stream (nothing here = the server stayed silent),
* `calls` - the generator calls: the type and the name set of the `WatchedResource` the generator was
            handed (`req.Delta.Subscribed` narrowing: on a subscription change only the newly
            subscribed names are generated),
* `srv`   - the resulting watch table (names, nonce sent / acked, AlwaysRespond, LastError).

The one-push functions (`pushSotwOne`, `pushDeltaOne`: generator call, nil-output skip, failed send,
`Send` / `sendDelta` watch update, new ResourceNames of wildcard types) are the ones of the C03 model
(`IstioModel/C03/Server.lean`); this file adds the record of the generator calls and states the
composition again so that every observable is a field of one result.  `procSotw_refines` etc.
(ProcessTheorems.lean) prove that dropping `calls` gives exactly the C03 functions.
-/
namespace IstioModel.C04

/-- One generator call: the type and the name set of the watched resource handed to the generator. -/
abbrev Call := Ty × List String

/-- What handling one request / one push event did. -/
structure POut where
  srv   : C03.Srv
  sent  : List C03.Wire
  calls : List Call

/-- The generator call `pushXds` makes for type `t` (none: the type is not watched). -/
def askedSotw (st : State) (t : Ty) (sub : List String) : Option Call :=
  (st t).map fun w => (t, C03.narrowedSotw w.names sub)

/-- The generator call `pushDeltaXds` makes for type `t`. -/
def askedDelta (st : State) (t : Ty) (sub unsub : List String) : Option Call :=
  (st t).map fun w => (t, C03.narrowedDelta t w.names sub unsub)

/-- `processRequest` (debug / health types: see Recv.lean). -/
def procSotw (gen : C03.Gen) (v : C03.Srv) (r : Req) : Option POut :=
  match shouldRespond v.st r with
  | .crash => none
  | .out false _ s' => some { srv := { v with st := s' }, sent := [], calls := [] }
  | .out true sub s' =>
    let p := C03.pushSotwOne gen { v with st := s' } r.ty sub
    some { srv := p.1, sent := p.2.1.toList, calls := (askedSotw s' r.ty sub).toList }

/-- `processRequest` for a proxyless gRPC client (`proxy.IsProxylessGrpc()`): `pushXds` does NOT narrow the
    watched resource to the newly subscribed names - such a client expects the whole subscription in every
    response (it is a state-of-the-world client in the strict sense). -/
def procSotwGrpc (gen : C03.Gen) (v : C03.Srv) (r : Req) : Option POut :=
  match shouldRespond v.st r with
  | .crash => none
  | .out false _ s' => some { srv := { v with st := s' }, sent := [], calls := [] }
  | .out true _ s' =>
    let p := C03.pushSotwOne gen { v with st := s' } r.ty []
    some { srv := p.1, sent := p.2.1.toList, calls := (askedSotw s' r.ty []).toList }

/-- The loop of `pushConnection`; stops at the first failed send. -/
def pushAllSotwC (gen : C03.Gen) (v : C03.Srv) : List Ty → POut
  | [] => { srv := v, sent := [], calls := [] }
  | t :: ts =>
    let p := C03.pushSotwOne gen v t []
    let c := (askedSotw v.st t []).toList
    if p.2.2 then { srv := p.1, sent := [], calls := c }
    else
      let o := pushAllSotwC gen p.1 ts
      { srv := o.srv, sent := p.2.1.toList ++ o.sent, calls := c ++ o.calls }

def pushConnSotwC (gen : C03.Gen) (v : C03.Srv) : POut := pushAllSotwC gen v C03.pushOrder

/-- `processDeltaRequest` with `forceEDSPush`. -/
def procDelta (gen : C03.Gen) (v : C03.Srv) (r : DReq) : Option POut :=
  match shouldRespondDelta v.st r with
  | .crash => none
  | .out false s' => some { srv := { v with st := s' }, sent := [], calls := [] }
  | .out true s' =>
    let subs := (deltaWatched [] r).1
    let unsub := r.unsub.filter (· ≠ "*")
    let p1 := C03.pushDeltaOne gen { v with st := s' } r.ty subs unsub
    let c1 := (askedDelta s' r.ty subs unsub).toList
    if p1.2.2 || r.ty ≠ .cds then some { srv := p1.1, sent := p1.2.1.toList, calls := c1 }
    else
      let p2 := C03.pushDeltaOne gen p1.1 .eds [] []
      some { srv := p2.1, sent := p1.2.1.toList ++ p2.2.1.toList,
             calls := c1 ++ (askedDelta p1.1.st .eds [] []).toList }

/-- The loop of `pushConnectionDelta`. -/
def pushAllDeltaC (gen : C03.Gen) (v : C03.Srv) : List Ty → POut
  | [] => { srv := v, sent := [], calls := [] }
  | t :: ts =>
    let p := C03.pushDeltaOne gen v t [] []
    let c := (askedDelta v.st t [] []).toList
    if p.2.2 then { srv := p.1, sent := [], calls := c }
    else
      let o := pushAllDeltaC gen p.1 ts
      { srv := o.srv, sent := p.2.1.toList ++ o.sent, calls := c ++ o.calls }

def pushConnDeltaC (gen : C03.Gen) (v : C03.Srv) : POut := pushAllDeltaC gen v C03.pushOrder

/-! ### Generators of the `proc` / `dproc` streams

A scripted answer per type; in `echo` mode the generator answers with one resource (version 1) for
every name of the watched resource it was handed, so that the response on the wire shows what the
generator was asked for. -/

structure Script where
  echo : Bool := true
  out  : C03.GenOut := { resNil := false, delNil := true }

def echoRes (wn : List String) : List C03.Res := wn.map (fun n => (n, 1))

def scriptGen (look : Ty → Script) : C03.Gen := fun t wn =>
  let s := look t
  if s.echo then { s.out with resNil := false, res := echoRes wn } else s.out

end IstioModel.C04
