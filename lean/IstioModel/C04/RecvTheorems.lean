import IstioModel.C04.Recv

/-!
C04 - the receive side never crashes, refuses a stream whose first real request has no usable node,
and after a valid first request hands on every request, in order.
-/
namespace IstioModel.C04

/-- **Crash freedom of `Receive` / `receiveDelta`**: whatever the client sends - no node, an empty or
    malformed node id, probes, unknown or empty type URLs, in any order - the receive goroutine does not
    dereference a nil pointer. -/
theorem recvG_never_crashes (first : Bool) (i : Nat) (reqs : List FReq) : recvG true first i reqs ≠ .crash := by
  induction reqs generalizing first i with
  | nil => simp [recvG]
  | cons r rs ih =>
    unfold recvG
    cases first
    · simp only [Bool.false_eq_true, if_false]
      exact RecvRes.cons_ne_crash _ _ (ih false (i + 1))
    · simp only [if_true]
      split
      · exact ih true (i + 1)
      · cases hn : r.node <;> simp [missingNode, NodeK.parses] <;> exact RecvRes.cons_ne_crash _ _ (ih false (i + 1))

theorem recv_never_crashes (reqs : List FReq) : recv reqs ≠ .crash := recvG_never_crashes true 0 reqs

/-- **The waiting event loop is always released**: however the receive side ends - clean EOF, refused stream,
    malformed node - it reports `released` (the deferred `close(initialized)`), so `Stream` never hangs on a stream it
    refused. -/
theorem recvG_always_releases (first : Bool) (i : Nat) (reqs : List FReq) (o : RecvOut)
    (h : recvG true first i reqs = .done o) : o.released = true := by
  induction reqs generalizing first i o with
  | nil => simp [recvG] at h; rw [← h]
  | cons r rs ih =>
    have hcons : ∀ (res : RecvRes), RecvRes.cons i res = .done o → ∃ o', res = .done o' ∧ o.released = o'.released := by
      intro res hres
      cases res with
      | crash => simp [RecvRes.cons] at hres
      | done o' => simp [RecvRes.cons] at hres; exact ⟨o', rfl, by rw [← hres]⟩
    unfold recvG at h
    cases first
    · simp only [Bool.false_eq_true, if_false] at h
      obtain ⟨o', h1, h2⟩ := hcons _ h
      rw [h2]; exact ih false (i + 1) o' h1
    · simp only [if_true] at h
      split at h
      · exact ih true (i + 1) o h
      · cases hn : r.node <;> simp [hn, missingNode, NodeK.parses] at h
        all_goals first
          | (rw [← h])
          | (obtain ⟨o', h1, h2⟩ := hcons _ h; rw [h2]; exact ih false (i + 1) o' h1)

/-- ... also when the stream breaks with an unexpected error; what was handed on before is unaffected. -/
theorem recvE_never_crashes (endErr : Bool) (reqs : List FReq) : recvE endErr reqs ≠ .crash := by
  unfold recvE
  cases h : recv reqs with
  | crash => exact absurd h (recv_never_crashes reqs)
  | done o => simp only; split <;> simp

/-- Without the `req.Node == nil` guard a first request without a Node message kills the goroutine. -/
theorem recv_crash_witness_unguarded : recvG false true 0 [{ ty := .cds, node := .nil }] = .crash := by decide

/-- Health probes before the first real request are skipped and do not count as the first request. -/
theorem recv_skips_probes (guard : Bool) (i : Nat) (probes rest : List FReq) (hp : ∀ p ∈ probes, p.ty = .health) :
    recvG guard true i (probes ++ rest) = recvG guard true (i + probes.length) rest := by
  induction probes generalizing i with
  | nil => simp
  | cons p ps ih =>
    have h1 : p.ty = .health := hp p (by simp)
    simp only [List.cons_append, recvG, if_true, h1, List.length_cons]
    rw [ih (i + 1) (fun q hq => hp q (by simp [hq]))]
    congr 1
    omega

/-- After the first request was accepted every request is handed on, whatever it carries. -/
theorem recv_after_first (guard : Bool) (i : Nat) (rest : List FReq) :
    recvG guard false i rest = .done { fwd := List.range' i rest.length, err := .none, init := true } := by
  induction rest generalizing i with
  | nil => simp [recvG]
  | cons r rs ih =>
    simp only [recvG, Bool.false_eq_true, if_false, ih (i + 1), RecvRes.cons, List.length_cons]
    simp [List.range'_succ]

/-- **A stream whose first real request has no usable node is refused**: an error is reported, nothing
    is handed on (neither that request nor anything after it) and no proxy is initialised. -/
theorem recv_first_without_node_refused (probes rest : List FReq) (r : FReq)
    (hp : ∀ p ∈ probes, p.ty = .health) (hr : r.ty ≠ .health) (hn : r.node ≠ .ok) :
    ∃ e, e ≠ RecvErr.none ∧ recv (probes ++ r :: rest) = .done { fwd := [], err := e, init := false } := by
  unfold recv
  rw [recv_skips_probes true 0 probes (r :: rest) hp]
  simp only [recvG, if_true, hr, if_false]
  cases h : r.node
  · exact ⟨.missingNode, by decide, by simp [missingNode]⟩
  · exact ⟨.missingNode, by decide, by simp [missingNode]⟩
  · exact ⟨.badNode, by decide, by simp [missingNode, NodeK.parses]⟩
  · exact ⟨.badNode, by decide, by simp [missingNode, NodeK.parses]⟩
  · exact ⟨.badNode, by decide, by simp [missingNode, NodeK.parses]⟩
  · exact absurd h hn

/-- **A stream with a valid first request**: that request and everything after it is handed on, in
    order, no error, the proxy is initialised. -/
theorem recv_valid_forwards_all (probes rest : List FReq) (r : FReq)
    (hp : ∀ p ∈ probes, p.ty = .health) (hr : r.ty ≠ .health) (hn : r.node = .ok) :
    recv (probes ++ r :: rest) =
      .done { fwd := List.range' probes.length (rest.length + 1), err := .none, init := true } := by
  unfold recv
  rw [recv_skips_probes true 0 probes (r :: rest) hp]
  simp only [recvG, if_true, hr, if_false, hn, missingNode, NodeK.parses, recv_after_first, RecvRes.cons]
  simp [List.range'_succ]

/-- A stream of probes only ends cleanly with nothing handed on. -/
theorem recv_probes_only (probes : List FReq) (hp : ∀ p ∈ probes, p.ty = .health) :
    recv probes = .done { fwd := [], err := .none, init := false } := by
  have := recv_skips_probes true 0 probes [] hp
  simp only [List.append_nil] at this
  unfold recv
  rw [this]; simp [recvG]

/-- A health probe or a debug request never starts a watch and a probe is never answered. -/
theorem health_debug_not_watched (delta auth : Bool) (t : TyK) (h : t = .health ∨ t = .debug ∨ t = .debugx) :
    (procClass delta auth t).2.1 = false ∧ (t = .health → (procClass delta auth t).1 = 0) := by
  rcases h with h | h | h <;> subst h <;> cases auth <;> simp [procClass]

def TyK.control (t : TyK) : Bool := t = .health ∨ t = .debug ∨ t = .debugx

theorem procStep_control (delta auth : Bool) (watched : List TyK) (t : TyK) (nack : Bool) (hc : t.control = true) :
    (procStep delta auth watched t nack).2.1 = false := by
  have h : t = .health ∨ t = .debug ∨ t = .debugx := by simpa [TyK.control] using hc
  simp only [procStep, h, if_true]
  exact (health_debug_not_watched delta auth t h).1

/-- Over a whole stream, authenticated or not, with or without `error_detail`: no health probe and no debug request
    ever starts a watch (in particular a debug RESPONSE that goes out does not record a nonce for a watch). -/
theorem procSeq_control_not_watched (delta auth : Bool) (watched : List TyK) (tys : List (TyK × Bool)) :
    ∀ e ∈ procSeq delta auth watched tys, e.1.control = true → e.2.2.1 = false := by
  induction tys generalizing watched with
  | nil => simp [procSeq]
  | cons t ts ih =>
    intro e he hc
    obtain ⟨t, nack⟩ := t
    simp only [procSeq, List.mem_cons] at he
    rcases he with he | he
    · subst he
      exact procStep_control delta auth watched t nack hc
    · exact ih _ e he hc

example : recv [{ ty := .health, node := .nil }, { ty := .cds, node := .ok }, { ty := .unknown, node := .nil, nack := true }] =
    .done { fwd := [1, 2], err := .none, init := true } := by decide

end IstioModel.C04
