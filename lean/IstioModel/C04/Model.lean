/-
C04 - executable model of the xDS request / ACK / NACK classification.

Go sources modelled (istio/istio):
  pkg/xds/server.go            ShouldRespond, shouldUnsubscribe, IsWildcardTypeURL, Send
  pilot/pkg/model/context.go   Proxy.NewWatchedResource (+ WarmingDependencies),
                               UpdateWatchedResource, DeleteWatchedResource
  pilot/pkg/xds/delta.go       shouldRespondDelta, deltaWatchedResources, sendDelta,
                               requiresResourceNamesModification

Conventions: a Go `sets.String` is a `List String` read as a set (the driver prints it sorted and
de-duplicated); a nil `*WatchedResource` is `none`; a nil-pointer dereference is the explicit
result `Res.crash`, so that "never crashes" is a statement, not an artefact of totalisation.
-/
namespace IstioModel.C04

/-- The xDS types of the property's universe. -/
inductive Ty
  | cds | eds | lds | rds | sds | ecds | nds | addr | wl | wauth
  deriving DecidableEq, Repr, Inhabited

def Ty.all : List Ty := [.cds, .eds, .lds, .rds, .sds, .ecds, .nds, .addr, .wl, .wauth]

/-- `IsWildcardTypeURL`. -/
def Ty.wildcard : Ty → Bool
  | .sds | .eds | .rds | .ecds => false
  | _ => true

/-- `WarmingDependencies`: a new CDS watch forces the next EDS request to be answered. -/
def Ty.warming : Ty → List Ty
  | .cds => [.eds]
  | _ => []

/-- `requiresResourceNamesModification` (delta only). -/
def Ty.managed : Ty → Bool
  | .addr | .wl => true
  | _ => false

/-- `WatchedResource` (fields the protocol logic reads or writes). `names = none` is a nil set. -/
structure WR where
  names      : List String := []
  wildcard   : Bool := false
  nonceSent  : String := ""
  nonceAcked : String := ""
  always     : Bool := false
  lastError  : String := ""
  deriving DecidableEq, Repr, Inhabited

/-- `Proxy.WatchedResources`. A structure around the lookup function (not a bare function type):
    compiled code would eta-expand every function *returning* a bare function and re-evaluate its
    body on each lookup. -/
structure State where
  get : Ty → Option WR

instance : CoeFun State (fun _ => Ty → Option WR) := ⟨State.get⟩

@[ext] theorem State.ext' {a b : State} (h : ∀ t, a t = b t) : a = b := by
  cases a; cases b; congr; funext t; exact h t

def State.empty : State := ⟨fun _ => none⟩

def State.set (s : State) (t : Ty) (v : Option WR) : State :=
  ⟨fun t' => if t' = t then v else s t'⟩

@[simp] theorem State.empty_get (t : Ty) : State.empty t = none := rfl

@[simp] theorem State.set_same (s : State) (t : Ty) (v : Option WR) : (s.set t v) t = v := by
  simp [State.set]

@[simp] theorem State.set_other (s : State) (t t' : Ty) (v : Option WR) (h : t' ≠ t) :
    (s.set t v) t' = s t' := by
  simp [State.set, h]

/-- A state-of-the-world `DiscoveryRequest` (fields read by `ShouldRespond`). -/
structure Req where
  ty    : Ty
  names : List String
  nonce : String
  err   : Option String
  deriving DecidableEq, Repr

/-- Result of handling a request: a Go panic (nil dereference) or
    `(respond?, ResourceDelta.Subscribed, new state)`. -/
inductive Res
  | crash
  | out (respond : Bool) (subscribed : List String) (s : State)

/-- Set difference on lists-as-sets (`sets.Difference`). -/
def diff (a b : List String) : List String := a.filter (fun x => !b.contains x)

/-- `shouldUnsubscribe`. -/
def Req.unsub (r : Req) : Bool := r.names.isEmpty && !r.ty.wildcard

/-- Marks `AlwaysRespond` on every existing dependent watch. -/
def markWarming (s : State) : List Ty → State
  | [] => s
  | d :: ds =>
    let s' := match s d with
      | some w => s.set d (some { w with always := true })
      | none => s
    markWarming s' ds

/-- `Proxy.NewWatchedResource`. -/
def newWatched (s : State) (t : Ty) (names : List String) : State :=
  markWarming (s.set t (some { names := names })) t.warming

/-- The repairs made to `xds.ShouldRespond` in /repo (`fix:` commits); `false` selects the code before the repair.
    * `nilGuard` (finding F1, d45c5e2): a NACK for an unwatched type no longer dereferences the nil watch;
    * `unsentNew` (finding F-C04-3, 6064924): a request for a watch nothing was sent on yet (`NonceSent == ""`:
      the previous request was answered with nothing to send) is a new request, not a stale one, whatever nonce
      it echoes;
    * `nackFirst` (a581d69, found by the C05 review): a request with `error_detail` for a type that is NOT watched on
      this stream (a NACK Envoy had queued when the previous stream broke) is the first request of the type: it is
      handled as if it carried no `error_detail`. -/
structure Repairs where
  nilGuard  : Bool := true
  unsentNew : Bool := true
  nackFirst : Bool := true
  deriving DecidableEq, Repr

/-- `xds.ShouldRespond` below the `error_detail` block (it does not read `error_detail`). -/
def respondTail (f : Repairs) (s : State) (r : Req) : Res :=
  if r.unsub then .out false [] (s.set r.ty none)
  else
    match s r.ty with
    | none => .out true [] (newWatched s r.ty r.names)
    | some prev =>
      if r.nonce = "" then .out true [] (newWatched s r.ty r.names)
      else if f.unsentNew = true ∧ prev.nonceSent = "" then .out true [] (newWatched s r.ty r.names)
      else if r.nonce ≠ prev.nonceSent then .out false [] s
      else
        let s' := s.set r.ty (some { prev with lastError := "", nonceAcked := r.nonce,
                                               names := r.names, always := false })
        let removed := diff prev.names r.names
        let added := diff r.names prev.names
        if prev.always then .out true [] s'
        else if removed.isEmpty && added.isEmpty then .out false [] s'
        else if !r.ty.wildcard && added.isEmpty then .out false [] s'
        else .out true added s'

/-- `xds.ShouldRespond`, including the nil dereference of the NACK path of the pinned tree:
    `UpdateWatchedResource` hands the callback a nil `*WatchedResource` when the type has no watch,
    and the callback wrote `wr.LastError` unconditionally before the repair `nilGuard`. -/
def shouldRespondR (f : Repairs) (s : State) (r : Req) : Res :=
  match r.err with
  | some msg =>
    match s r.ty with
    | none => if f.nackFirst then respondTail f s r else if f.nilGuard then .out false [] s else .crash
    | some w => .out false [] (s.set r.ty (some { w with lastError := msg }))
  | none => respondTail f s r

/-- The code before the repairs `unsentNew` and `nackFirst`, with or without the nil guard. -/
def shouldRespondG (nilGuard : Bool) : State → Req → Res :=
  shouldRespondR { nilGuard := nilGuard, unsentNew := false, nackFirst := false }

/-- The code as it is in /repo now. -/
def shouldRespond : State → Req → Res := shouldRespondR {}

/-- The watch update performed by `xds.Send` after a successful `stream.Send` of a response with a
    non-empty nonce (debug types are outside the model). -/
def send (s : State) (t : Ty) (nonce : String) (ok : Bool) : State :=
  if ok && nonce ≠ "" then
    match s t with
    | none => s.set t (some { nonceSent := nonce })
    | some w => s.set t (some { w with nonceSent := nonce })
  else s

/-! ### Delta xDS -/

/-- A `DeltaDiscoveryRequest`. `init` are the keys of `initial_resource_versions`. -/
structure DReq where
  ty    : Ty
  sub   : List String
  unsub : List String
  init  : List String
  nonce : String
  err   : Option String
  deriving DecidableEq, Repr

def insertAll (res : List String) (changed : Bool) : List String → List String × Bool
  | [] => (res, changed)
  | x :: xs => if res.contains x then insertAll res changed xs else insertAll (res ++ [x]) true xs

def eraseAll (res : List String) (changed : Bool) : List String → List String × Bool
  | [] => (res, changed)
  | x :: xs =>
    if res.contains x then eraseAll (res.filter (· ≠ x)) true xs else eraseAll res changed xs

/-- `deltaWatchedResources`: returns (names, wildcard, changed). -/
def deltaWatched (existing : List String) (r : DReq) : List String × Bool × Bool :=
  let a := insertAll existing false r.sub
  let b := insertAll a.1 a.2 r.init
  let c := eraseAll b.1 b.2 r.unsub
  let star := c.1.contains "*"
  (if star then c.1.filter (· ≠ "*") else c.1, star || r.sub.isEmpty, c.2)

inductive DRes
  | crash
  | out (respond : Bool) (s : State)

/-- Names recorded by `shouldRespondDelta` for a request whose nonce is current or empty. For
    generator-managed types with a wildcard watch the stored name set is nil; the model stores
    `[]` and the harness prints a nil set as empty. -/
def deltaNames (prev : WR) (r : DReq) : List String :=
  if r.ty.managed && prev.wildcard then [] else (deltaWatched prev.names r).1

/-- Whether that request changed the subscription (`subChanged`). -/
def deltaChanged (prev : WR) (r : DReq) : Bool :=
  if r.ty.managed && prev.wildcard then (!r.sub.isEmpty || !r.unsub.isEmpty)
  else (deltaWatched prev.names r).2.2

/-- The request carries a subscription change (`resource_names_subscribe` / `_unsubscribe`).  A delta
    client sends every change exactly once and may attach it to ANY request - also to a NACK or to
    the ACK of a response that a newer push has overtaken (Envoy: `getNextRequestWithAck`). -/
def DReq.carries (r : DReq) : Bool := !r.sub.isEmpty || !r.unsub.isEmpty

/-- A stale ACK: a non-empty nonce that is not the last one sent. -/
def deltaStale (prev : WR) (r : DReq) : Prop := r.nonce ≠ "" ∧ r.nonce ≠ prev.nonceSent

instance (prev : WR) (r : DReq) : Decidable (deltaStale prev r) := by unfold deltaStale; infer_instance

/-- The watch update inside `shouldRespondDelta`.  `detached` = the request is a NACK or a stale ACK
    whose subscription change is handled like a spontaneous request (no ACK is recorded). -/
def deltaUpdateG (detached : Bool) (prev : WR) (r : DReq) : WR :=
  let w1 : WR := { prev with names := deltaNames prev r, always := false }
  if r.nonce = "" ∨ detached = true then w1 else { w1 with lastError := "", nonceAcked := r.nonce }

def deltaUpdate (prev : WR) (r : DReq) : WR := deltaUpdateG false prev r

/-- The current-nonce / spontaneous tail of `shouldRespondDelta`. -/
def deltaTail (detached : Bool) (s : State) (prev : WR) (r : DReq) : DRes :=
  .out (deltaChanged prev r || prev.always) (s.set r.ty (some (deltaUpdateG detached prev r)))

/-- First request of a type on the stream: the watch is created and the request answered. -/
def deltaFirst (s : State) (r : DReq) : DRes :=
  let d := deltaWatched [] r
  let res := if r.ty.managed && d.2.1 then [] else d.1
  .out true (s.set r.ty (some { names := res, wildcard := d.2.1 }))

/-- `shouldRespondDelta`.  `keepSub = false` is the code before the repair "a subscription change
    attached to a NACK or to a stale ACK is not dropped with it": there a NACK and a stale ACK returned
    before looking at the subscription change.  `nackFirst = false` is the code before the repair "a request with
    `error_detail` for a type that is not watched on this stream is the first request of the type" (a581d69). -/
def shouldRespondDeltaG (nilGuard : Bool) (keepSub : Bool) (nackFirst : Bool) (s : State) (r : DReq) : DRes :=
  match r.err with
  | some msg =>
    match s r.ty with
    | none =>
      if nackFirst then deltaFirst s r
      else if keepSub && r.carries then deltaFirst s r
      else if nilGuard then .out false s else .crash
    | some w =>
      let s1 := s.set r.ty (some { w with lastError := msg })
      let w1 : WR := { w with lastError := msg }
      if keepSub && r.carries then deltaTail true s1 w1 r else .out false s1
  | none =>
    match s r.ty with
    | none => deltaFirst s r
    | some prev =>
      if deltaStale prev r then
        (if keepSub && r.carries then deltaTail true s prev r else .out false s)
      else deltaTail false s prev r

def shouldRespondDelta : State → DReq → DRes := shouldRespondDeltaG true true true

/-- The watch update of `sendDelta` after a successful send: optional new resource names (wildcard
    types whose generator is not delta-aware) and the nonce. -/
def sendDelta (s : State) (t : Ty) (nonce : String) (newNames : Option (List String)) (ok : Bool) : State :=
  if ok then
    let w := (s t).getD {}
    let w := match newNames with
      | some n => { w with names := n }
      | none => w
    s.set t (some { w with nonceSent := nonce })
  else s

/-- `shouldSetWatchedResources`: after a delta push of such a type the recorded names are REPLACED by what the push
    carried (wildcard types whose generator does not manage the names itself). -/
def Ty.setsWatched (t : Ty) : Bool := !t.managed && t.wildcard

/-- The `newResourceNames` argument `pushDeltaXds` hands to `sendDelta` for a response carrying the names `gen`. -/
def sentNames (t : Ty) (gen : List String) : Option (List String) := if t.setsWatched then some gen else none

end IstioModel.C04
