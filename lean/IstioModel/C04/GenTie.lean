import IstioModel.C04.Types
import IstioModel.Generated.C04Types

/-!
C04 - tie of the type universe: the table `IstioModel/Generated/C04Types.lean` is written on every run by
`harness/c04 table` from the tree under test (every type-URL constant found in the sources, the real Go
predicates evaluated on each).  The theorems below are re-checked by the kernel against that table on
every run: if a constant is added, or any predicate changes its answer for any constant, they fail.
-/
namespace IstioModel.C04
open IstioModel.Generated.C04Types

/-- The model's answer for one row equals the real one, predicate by predicate. -/
def rowAgrees (r : Row) : Bool :=
  urlWildcard r.url == r.wildcard && urlManaged r.url == r.managed && urlSetsWatched r.url == r.setsWatched &&
  urlNeverRemove r.url == r.neverRemove && urlDebug r.url == r.debug && urlHealth r.url == r.health &&
  urlWarming r.url == r.warming

/-- **Every type-URL constant of the tree**: the model's predicates are the real ones. -/
theorem types_table_agrees : rows.all rowAgrees = true := by decide

/-- Every modelled type is in the table (so the ten constructors are real type URLs of the tree). -/
theorem modelled_types_in_table : Ty.all.all (fun t => rows.any (fun r => r.url == t.url)) = true := by decide

/-- What the request handling reads of a type. -/
def profile (r : Row) : Bool × Bool × Bool × Bool × List String :=
  (r.wildcard, r.managed, r.setsWatched, r.neverRemove, r.warming)

/-- **Every other constant is indistinguishable from NDS** (a modelled wildcard type without dependencies):
    every type-URL constant that is not one of the ten modelled types, not a debug type and not the health type
    has, on the real code, exactly the answers of the NameTable type for every predicate the handling reads - so
    the theorems about `.nds` are the theorems about ProxyConfig, Bootstrap, agentgateway and unknown types. -/
theorem other_rows_like_nds :
    rows.all (fun r => Ty.all.any (fun t => r.url == t.url) || r.debug || r.health ||
      profile r == (true, false, true, false, [])) = true := by decide

theorem nds_profile : rows.any (fun r => r.url == Ty.url .nds && profile r == (true, false, true, false, [])) = true := by
  decide

end IstioModel.C04
