import IstioModel.C04.Driver
import IstioModel.C04.Process
import IstioModel.C04.Recv
import IstioModel.C04.DeltaProtocol
import IstioModel.C04.Types
import IstioModel.C04.StreamLoop

/-!
Line-protocol driver for the streams added in review round 2 (`proc`, `dproc`, ...); every other
stream is handed to `stepD` of Driver.lean.  The stream is named by the `case <n> <stream>` header.
-/
namespace IstioModel.C04
open IstioModel.Wire

/-- Client-side view of one type: nonces of the responses that reached the client, newest first. -/
abbrev Delivered := List (Ty × List String)

def Delivered.of (d : Delivered) (t : Ty) : List String :=
  match d.find? (fun p => p.1 == t) with
  | some p => p.2
  | none => []

def Delivered.push (d : Delivered) (t : Ty) (n : String) : Delivered :=
  (t, n :: d.of t) :: d.filter (fun p => p.1 != t)

structure PState where
  base      : DState := {}
  stream    : String := ""
  srv       : C03.Srv := {}
  scripts   : List (Ty × Script) := []
  delivered : Delivered := []
  tty       : Option Ty := none -- stream tproc: the modelled type the type URL of the case is handled as (printed as `T`)
  tdebug    : Bool := false     -- stream tproc: the type URL of the case is a debug type
  grpc      : Bool := false     -- the proxy of the case is a proxyless gRPC client
  needs     : Bool := true      -- what ProxyNeedsPush answers for pushes
  dsys      : DSys := DSys.init
  dty       : Ty := .eds

def PState.look (p : PState) (t : Ty) : Script :=
  match p.scripts.find? (fun q => q.1 == t) with
  | some q => q.2
  | none => {}

def PState.gen (p : PState) : C03.Gen := scriptGen p.look

def decPRes (tok : String) : List C03.Res :=
  if tok == "-" || tok == "nil" || tok == "echo" then [] else
  (tok.splitOn ",").map fun e =>
    match e.splitOn "@" with
    | [n, v] => (dec n, v.toNat?.getD 0)
    | _ => (dec e, 0)

/-- Resources sorted by name, first entry per name. -/
def encPRes (l : List C03.Res) : String :=
  let s := l.mergeSort (fun a b => !(b.1 < a.1))
  let d := s.foldr (fun x acc => match acc with
    | y :: rest => if x.1 = y.1 then x :: rest else x :: acc
    | [] => [x]) []
  if d.isEmpty then "-" else ",".intercalate (d.map fun r => s!"{enc r.1}@{r.2}")

def showPWire (w : C03.Wire) : String := s!"{w.ty.tok}:res={encPRes w.resources}:rem={encSet w.removed}"

def showPWires (ws : List C03.Wire) : String :=
  if ws.isEmpty then "-" else ";".intercalate (ws.map showPWire)

def showCalls (cs : List Call) : String :=
  if cs.isEmpty then "-" else ";".intercalate (cs.map fun c => s!"{c.1.tok}:{encSet c.2}")

def showWRp (t : Ty) (w : WR) : String :=
  let acked := if w.nonceAcked == "" then "empty" else if w.nonceAcked == w.nonceSent then "cur" else "old"
  s!"{t.tok}[names={encSet w.names};w={boolTok w.wildcard};sent={boolTok (w.nonceSent != "")};acked={acked};always={boolTok w.always};err={enc w.lastError}]"

def showStateP (s : State) : String :=
  let parts := Ty.all.filterMap (fun t => (s t).map (showWRp t))
  if parts.isEmpty then "empty" else " ".intercalate parts

/-- The nonce a client puts in its request: `cur` = of the last response that reached it, `prev` = of the
    one before, `failed` / `stale` = a nonce that never reached it. -/
def resolveP (d : Delivered) (t : Ty) (kind : String) : String :=
  match kind, d.of t with
  | "cur", n :: _ => n
  | "cur", [] => ""
  | "prev", _ :: n :: _ => n
  | "prev", _ => "stale-nonce"
  | "failed", _ => "stale-nonce"
  | "stale", _ => "stale-nonce"
  | _, _ => ""

def showInfo (i : CallInfo) : String :=
  "{+" ++ encSet i.sub ++ ";-" ++ encSet i.unsub ++ ";i=" ++ encSet i.init ++ ";f=" ++ boolTok i.forced ++ "}"

/-- Calls with what the generator was told besides the watched resource (`infos`: one per call, in call order). -/
def showCallsI (cs : List Call) (infos : List CallInfo) : String :=
  if cs.isEmpty then "-" else
  ";".intercalate ((cs.zip (infos ++ cs.map (fun _ => infoPush true))).map fun (c, i) => s!"{c.1.tok}:{encSet c.2}{showInfo i}")

def PState.errs (p : PState) : Ty → Bool := fun t => (p.look t).fails

/-- The types are printed in push order; in the `tproc` stream the one type of the case is printed as `T`. -/
def PState.finishE (p : PState) (o : POutE) (infos : List CallInfo) : PState × String :=
  let v := { o.out.srv with st := normalize o.out.srv.st }
  let d := o.out.sent.foldl (fun d w => d.push w.ty w.nonce) p.delivered
  ({ p with srv := v, delivered := d },
   s!"sent={showPWires o.out.sent} calls={showCallsI o.out.calls infos} err={boolTok o.err} | {showStateP v.st}")

def stepProc (p : PState) (toks : List String) : PState × String :=
  match toks with
  | ["out", ty, kind, res, del, used, inc] =>
    match Ty.ofTok ty with
    | none => (p, "bad-op")
    | some t =>
      let o : C03.GenOut :=
        if kind == "plain" then
          { resNil := res == "nil" || res == "err", res := decPRes res, delNil := true, deleted := [], usedDelta := false,
            incremental := tokBool inc }
        else
          { resNil := res == "nil" || res == "err", res := decPRes res, delNil := del == "nil",
            deleted := decList (if del == "nil" then "-" else del), usedDelta := tokBool used, incremental := tokBool inc }
      ({ p with scripts := (t, { echo := res == "echo", out := o, fails := res == "err" }) :: p.scripts.filter (fun q => q.1 != t) }, "ok")
  | ["fail", v] => ({ p with srv := { p.srv with fail := tokBool v } }, "ok")
  | ["req", ty, names, nk, err] =>
    match Ty.ofTok ty with
    | none => (p, "bad-op")
    | some t =>
      let r : Req := { ty := t, names := decList names, nonce := resolveP p.delivered t nk, err := decErr err }
      let sub := match shouldRespond p.srv.st r with
        | .out true sub _ => sub
        | _ => []
      match procSotwE p.grpc p.errs p.gen p.srv r with
      | none => (p, "crash")
      | some o => p.finishE o [infoSotw sub]
  | ["needs", v] => ({ p with needs := tokBool v }, "ok")
  | ["version", _] => (p, "ok")
  | [op] =>
    let idle : POutE := { out := { srv := p.srv, sent := [], calls := [] }, err := false }
    let infos (f : Bool) : List CallInfo := C03.pushOrder.map (fun _ => infoPush f)
    if op == "push" || op == "apush" then p.finishE (if p.needs then pushAllSotwE p.errs p.gen p.srv C03.pushOrder else idle) (infos false)
    else if op == "fpush" then p.finishE (if p.needs then pushAllSotwE p.errs p.gen p.srv C03.pushOrder else idle) (infos true)
    else if op == "dpush" || op == "dapush" then p.finishE (if p.needs then pushAllDeltaE p.errs p.gen p.srv C03.pushOrder else idle) (infos false)
    else if op == "dfpush" then p.finishE (if p.needs then pushAllDeltaE p.errs p.gen p.srv C03.pushOrder else idle) (infos true)
    else (p, "bad-op")
  | ["dreq", ty, sub, unsub, init, nk, err] =>
    match Ty.ofTok ty with
    | none => (p, "bad-op")
    | some t =>
      let r : DReq := { ty := t, sub := decList sub, unsub := decList unsub, init := decList init,
                        nonce := resolveP p.delivered t nk, err := decErr err }
      match procDeltaE p.errs p.gen p.srv r with
      | none => (p, "crash")
      | some o => p.finishE o [infoDelta r, infoPush true]
  | _ => (p, "bad-op")

/-! ### stream recv -/

def TyK.ofTok : String → Option TyK
  | "health" => some .health | "debug" => some .debug | "debugx" => some .debugx
  | "unknown3" => some .unknown3 | "unknown" => some .unknown | "empty" => some .empty
  | "cds" => some .cds | "eds" => some .eds | _ => none

def TyK.tok : TyK → String
  | .health => "health" | .debug => "debug" | .debugx => "debugx" | .unknown3 => "unknown3"
  | .unknown => "unknown" | .empty => "empty" | .cds => "cds" | .eds => "eds"

def NodeK.ofTok : String → Option NodeK
  | "nil" => some .nil | "noid" => some .noid | "few" => some .few | "badtype" => some .badtype
  | "noip" => some .noip | "ok" => some .ok | _ => none

def decFReq (tok : String) : Option FReq :=
  match tok.splitOn "/" with
  | [t, n] => match TyK.ofTok t, NodeK.ofTok n with
    | some t, some n => some { ty := t, node := n }
    | _, _ => none
  | [t, n, "e"] => match TyK.ofTok t, NodeK.ofTok n with
    | some t, some n => some { ty := t, node := n, nack := true }
    | _, _ => none
  | _ => none

def RecvErr.tok : RecvErr → String
  | .none => "none" | .missingNode => "missing-node" | .badNode => "bad-node" | .stream => "stream-error"

def stepRecv (toks : List String) : String :=
  match toks with
  | ["recv", mode, items] =>
    let toks := if items == "-" then [] else items.splitOn ";"
    let endErr := toks.getLast? == some "ERR"
    let reqs := toks.filterMap decFReq
    match recvE endErr reqs with
    | .crash => "crash"
    | .done o =>
      let fwd := if o.fwd.isEmpty then "-" else ",".intercalate (o.fwd.map toString)
      let tys := o.fwd.filterMap fun i => (reqs[i]?).map (fun r => (r.ty, r.nack))
      let delta := mode == "delta" || mode == "deltaA"
      let auth := mode == "sotwA" || mode == "deltaA"
      let procs := (procSeq delta auth [] tys).map fun (t, c) =>
        s!"{t.tok}:{c.1}:{boolTok c.2.1}:{boolTok c.2.2}"
      let pr := if procs.isEmpty then "-" else ";".intercalate procs
      s!"fwd={fwd} err={o.err.tok} init={boolTok o.init} released={boolTok o.released} proc={pr}"
  | _ => "bad-op"

/-! ### stream dloop -/

def showDMsg (m : DMsg) : String :=
  let e := match m.err with
    | none => "-"
    | some msg => "e:" ++ enc msg
  s!"{enc m.nonce}/+{encSet m.sub}/-{encSet m.unsub}/{e}"

def showDSys (y : DSys) : String :=
  let c := if y.c2s.isEmpty then "-" else ";".intercalate (y.c2s.map showDMsg)
  s!"{showState y.srv} | c2s={c} s2c={encList y.s2c} want={encSet y.cwant} pend=+{encSet y.pendSub}/-{encSet y.pendUnsub}"

def stepDloop (p : PState) (toks : List String) : PState × String :=
  let go (e : DStep) : PState × String :=
    let y := dstep p.dty p.dsys e
    let y := { y with srv := normalize y.srv }
    ({ p with dsys := y }, showDSys y)
  match toks with
  | ["cwant", add, remove] => go (.clientWant (decList add) (decList remove))
  | ["cflush"] => go .clientFlush
  | ["crecv", nack] => go (.clientRecv (decNack nack))
  | ["srecv", n, gen] => go (.serverRecv (dec n) (decList gen) true)
  | ["srecv", n, gen, deliver] => go (.serverRecv (dec n) (decList gen) (tokBool deliver))
  | ["spush", n, ok, gen] => go (.serverPush (dec n) (tokBool ok) (decList gen))
  | _ => (p, "bad-op")

/-! ### stream tproc: every type-URL constant of the tree through the handlers

The type URL of the case is handled as the modelled type with the same URL, a debug type as a debug request, and
EVERY other URL as NDS - the claim of `GenTie.other_rows_like_nds`, here put to the test on the real handlers. -/

def tyOfUrl (u : String) : Ty :=
  match Ty.all.find? (fun t => t.url == u) with
  | some t => t
  | none => .nds

def retag (t : Ty) (s : String) : String :=
  (s.replace (t.tok ++ ":") "T:").replace (t.tok ++ "[") "T["

def stepTproc (p : PState) (t : Ty) (toks : List String) : PState × String :=
  let toks := toks.map (fun x => if x == "T" then t.tok else x)
  if p.tdebug then
    -- a debug request: the generator is handed the request's names, its answer is sent, nothing is recorded
    let answer (names : String) : PState × String :=
      let ns := decList names
      let call := showCallsI [(t, ns)] [infoPush true]
      let r := procDebug false false p.srv
      let sent := if r.1 then showPWires [{ ty := t, resources := echoRes ns, removed := [] }] else "-"
      (p, retag t s!"sent={sent} calls={call} err={boolTok r.2} | empty")
    match toks with
    | ["req", _, names, _, _] => answer names
    | ["dreq", _, sub, _, _, _, _] => answer sub
    | ["fail", v] => ({ p with srv := { p.srv with fail := tokBool v } }, "ok")
    | [_] => (p, "sent=- calls=- err=0 | empty")
    | _ => (p, "bad-op")
  else
    let (p', o) := stepProc p toks
    (p', retag t o)

def stepP (p : PState) (toks : List String) : PState × String :=
  match toks with
  | ["case", _, "proc"] => ({ base := p.base, stream := "proc" }, "ok")
  | ["case", _, "proc", "grpc"] => ({ base := p.base, stream := "proc", grpc := true }, "ok")
  | ["case", _, "dproc"] => ({ base := p.base, stream := "dproc" }, "ok")
  | ["case", _, "dproc", "grpc"] => ({ base := p.base, stream := "dproc" }, "ok")   -- the delta path does not read IsProxylessGrpc
  | ["case", _, "recv"] => ({ base := p.base, stream := "recv" }, "ok")
  | ["case", _, "sloop"] => ({ base := p.base, stream := "sloop" }, "ok")
  | ["case", _, "tproc", _, _, url] =>
    let u := dec url
    ({ base := p.base, stream := "tproc", tty := some (tyOfUrl u), tdebug := urlDebug u }, "ok")
  | ["case", _, "dloop", ty] =>
    match Ty.ofTok ty with
    | none => (p, "bad-op")
    | some t => ({ base := p.base, stream := "dloop", dty := t }, "ok")
  | "case" :: _ =>
    let (b, o) := stepD p.base toks
    ({ base := b, stream := "" }, o)
  | _ =>
    if p.stream == "proc" || p.stream == "dproc" then stepProc p toks
    else if p.stream == "tproc" then stepTproc p (p.tty.getD .nds) toks
    else if p.stream == "recv" then (p, stepRecv toks)
    else if p.stream == "sloop" then
      match toks with
      | ["sloop", _, sc] =>
        let o := streamLoop (scenario sc)
        (p, s!"responses={o.responses} ended={boolTok o.ended} error={boolTok o.error}")
      | _ => (p, "bad-op")
    else if p.stream == "dloop" then stepDloop p toks
    else
      let (b, o) := stepD p.base toks
      ({ p with base := b }, o)

end IstioModel.C04
