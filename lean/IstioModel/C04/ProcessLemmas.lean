import IstioModel.C04.Process
import IstioModel.C04.Lemmas

/-! C04 - plumbing lemmas for ProcessTheorems.lean (closed forms of one push, no-op subscription changes). Not counted. -/
namespace IstioModel.C04

theorem pushSotwOne_none (gen : C03.Gen) (v : C03.Srv) (t : Ty) (sub : List String) (h : v.st t = none) :
    C03.pushSotwOne gen v t sub = (v, none, false) := by
  simp [C03.pushSotwOne, h]

theorem pushSotwOne_some (gen : C03.Gen) (v : C03.Srv) (t : Ty) (sub : List String) (w : WR)
    (h : v.st t = some w) :
    C03.pushSotwOne gen v t sub =
      if (gen t (C03.narrowedSotw w.names sub)).resNil then (v, none, false)
      else if v.fail then (v, none, true)
      else ({ v with st := send v.st t (C03.freshNonce v) true, ctr := v.ctr + 1 },
            some { ty := t, resources := (gen t (C03.narrowedSotw w.names sub)).res, removed := [],
                   nonce := C03.freshNonce v }, false) := by
  simp only [C03.pushSotwOne, h, C03.pushSotw]
  cases (gen t (C03.narrowedSotw w.names sub)).resNil <;> simp

theorem pushDeltaOne_none (gen : C03.Gen) (v : C03.Srv) (t : Ty) (sub unsub : List String) (h : v.st t = none) :
    C03.pushDeltaOne gen v t sub unsub = (v, none, false) := by
  simp [C03.pushDeltaOne, h]

theorem insertAll_noop (res : List String) (c : Bool) (xs : List String) (h : ∀ x ∈ xs, x ∈ res) :
    insertAll res c xs = (res, c) := by
  induction xs with
  | nil => rfl
  | cons x xs ih =>
    have hx : res.contains x = true := by simpa using h x (by simp)
    simp only [insertAll, hx, if_true]
    exact ih (fun y hy => h y (by simp [hy]))

theorem eraseAll_noop (res : List String) (c : Bool) (xs : List String) (h : ∀ x ∈ xs, x ∉ res) :
    eraseAll res c xs = (res, c) := by
  induction xs with
  | nil => rfl
  | cons x xs ih =>
    have hx : res.contains x = false := by simpa using h x (by simp)
    simp only [eraseAll, hx, Bool.false_eq_true, if_false]
    exact ih (fun y hy => h y (by simp [hy]))

/-- Subscribing to names that are on record and unsubscribing from names that are not changes nothing. -/
theorem deltaWatched_unchanged (names : List String) (r : DReq)
    (hs : ∀ x ∈ r.sub, x ∈ names) (hi : ∀ x ∈ r.init, x ∈ names) (hu : ∀ x ∈ r.unsub, x ∉ names) :
    (deltaWatched names r).2.2 = false := by
  unfold deltaWatched
  simp only [insertAll_noop names false r.sub hs, insertAll_noop names false r.init hi,
    eraseAll_noop names false r.unsub hu]

end IstioModel.C04
