import IstioModel.C04.Model

/-!
C04 - the type universe.  The property speaks of "every xDS type"; the request handling reads a type only
through a handful of predicates over its type URL.  This file states them over type-URL STRINGS (every
string, not only the ten constructors of `Ty`):

  pkg/xds/server.go      IsWildcardTypeURL
  pilot/pkg/xds/delta.go requiresResourceNamesModification, shouldSetWatchedResources, neverRemoveDelta
  pilot/pkg/model        WarmingDependencies
  request handlers       strings.HasPrefix(url, DebugType), url == HealthInfoType

`Ty.url` embeds the ten modelled types; `*_url` prove that the predicates of `Model.lean` are these functions
on them.  `GenTie.lean` proves the functions equal to the real Go predicates on EVERY type-URL constant of
the tree under test (table regenerated on every run), and `other_rows_like_nds` that every constant outside
the ten (ProxyConfig, Bootstrap, agentgateway, HttpProtocolOptions, unknown, empty) is - for every
predicate the request handling reads - indistinguishable from NDS, a modelled wildcard type.
-/
namespace IstioModel.C04

def apiPrefix : String := "type.googleapis.com/"

def Ty.url : Ty → String
  | .cds => apiPrefix ++ "envoy.config.cluster.v3.Cluster"
  | .eds => apiPrefix ++ "envoy.config.endpoint.v3.ClusterLoadAssignment"
  | .lds => apiPrefix ++ "envoy.config.listener.v3.Listener"
  | .rds => apiPrefix ++ "envoy.config.route.v3.RouteConfiguration"
  | .sds => apiPrefix ++ "envoy.extensions.transport_sockets.tls.v3.Secret"
  | .ecds => apiPrefix ++ "envoy.config.core.v3.TypedExtensionConfig"
  | .nds => apiPrefix ++ "istio.networking.nds.v1.NameTable"
  | .addr => apiPrefix ++ "istio.workload.Address"
  | .wl => apiPrefix ++ "istio.workload.Workload"
  | .wauth => apiPrefix ++ "istio.security.Authorization"

/-- `IsWildcardTypeURL`: the four named Envoy types are not wildcard, everything else is. -/
def urlWildcard (u : String) : Bool :=
  !(u == Ty.url .sds || u == Ty.url .eds || u == Ty.url .rds || u == Ty.url .ecds)

/-- `requiresResourceNamesModification`. -/
def urlManaged (u : String) : Bool := u == Ty.url .addr || u == Ty.url .wl

/-- `shouldSetWatchedResources`. -/
def urlSetsWatched (u : String) : Bool := !urlManaged u && urlWildcard u

/-- `neverRemoveDelta`. -/
def urlNeverRemove (u : String) : Bool := u == Ty.url .ecds

/-- `WarmingDependencies`. -/
def urlWarming (u : String) : List String := if u == Ty.url .cds then [Ty.url .eds] else []

def debugPrefix : String := "istio.io/debug"

/-- `strings.HasPrefix(url, DebugType)`. -/
def urlDebug (u : String) : Bool := u.toList.take debugPrefix.length == debugPrefix.toList

/-- `url == HealthInfoType`. -/
def urlHealth (u : String) : Bool := u == apiPrefix ++ "istio.v1.HealthInformation"

theorem wildcard_url (t : Ty) : urlWildcard t.url = t.wildcard := by cases t <;> decide
theorem managed_url (t : Ty) : urlManaged t.url = t.managed := by cases t <;> decide
theorem warming_url (t : Ty) : urlWarming t.url = t.warming.map Ty.url := by cases t <;> decide
theorem url_injective (a b : Ty) (h : a.url = b.url) : a = b := by
  cases a <;> cases b <;> first | rfl | (exfalso; revert h; decide)
theorem modelled_not_control (t : Ty) : urlDebug t.url = false ∧ urlHealth t.url = false := by cases t <;> decide

end IstioModel.C04
