import IstioModel.Common.Wire
import IstioModel.C04.Model
import IstioModel.C04.Protocol

/-! Line-protocol driver for C04 (streams `sotw` and `delta`). See harness/c04. -/
namespace IstioModel.C04
open IstioModel.Wire

def Ty.ofTok : String → Option Ty
  | "CDS" => some .cds | "EDS" => some .eds | "LDS" => some .lds | "RDS" => some .rds
  | "SDS" => some .sds | "ECDS" => some .ecds | "NDS" => some .nds | "WDS" => some .addr
  | "WL" => some .wl | "WAUTH" => some .wauth | _ => none

def Ty.tok : Ty → String
  | .cds => "CDS" | .eds => "EDS" | .lds => "LDS" | .rds => "RDS" | .sds => "SDS"
  | .ecds => "ECDS" | .nds => "NDS" | .addr => "WDS" | .wl => "WL" | .wauth => "WAUTH"

def sortDedup (l : List String) : List String :=
  let s := l.mergeSort (fun a b => !(b < a))
  s.foldr (fun x acc => match acc with
    | y :: _ => if x = y then acc else x :: acc
    | [] => [x]) []

def encSet (l : List String) : String := encList (sortDedup l)

def showWR (t : Ty) (w : WR) : String :=
  s!"{t.tok}[names={encSet w.names};w={boolTok w.wildcard};sent={enc w.nonceSent};acked={enc w.nonceAcked};always={boolTok w.always};err={enc w.lastError}]"

def showState (s : State) : String :=
  let parts := Ty.all.filterMap (fun t => (s t).map (showWR t))
  if parts.isEmpty then "empty" else " ".intercalate parts

def decErr (t : String) : Option String :=
  if t == "-" then none else some (dec ((t.drop 2).toString))

/-- Re-materialise a watch table as a lookup in an evaluated list (bounds the length of the update
    chain a lookup walks). Extensionally the identity (`normalize_eq`). -/
def normalize (s : State) : State :=
  let tbl := Ty.all.map (fun t => (t, s t))
  ⟨fun t => match tbl.find? (fun p => p.1 == t) with
    | some p => p.2
    | none => none⟩

theorem normalize_eq (s : State) : normalize s = s := by
  apply State.ext'
  intro t
  cases t <;> rfl

def stepBasic (s : State) (toks : List String) : State × String :=
  match toks with
  | ["req", ty, names, nonce, err] =>
    match Ty.ofTok ty with
    | none => (s, "bad-op")
    | some t =>
      match shouldRespond s { ty := t, names := decList names, nonce := dec nonce, err := decErr err } with
      | .crash => (s, "crash")
      | .out r sub s' => (s', s!"{boolTok r} {encSet sub} {showState s'}")
  | ["send", ty, nonce, ok] =>
    match Ty.ofTok ty with
    | none => (s, "bad-op")
    | some t => let s' := send s t (dec nonce) (tokBool ok); (s', showState s')
  | ["dreq", ty, sub, unsub, init, nonce, err] =>
    match Ty.ofTok ty with
    | none => (s, "bad-op")
    | some t =>
      match shouldRespondDelta s { ty := t, sub := decList sub, unsub := decList unsub,
                                   init := decList init, nonce := dec nonce, err := decErr err } with
      | .crash => (s, "crash")
      | .out r s' => (s', s!"{boolTok r} {showState s'}")
  | ["always", ty] =>
    match Ty.ofTok ty with
    | none => (s, "bad-op")
    | some t =>
      let s' := match s t with
        | some w => s.set t (some { w with always := true })
        | none => s
      (s', showState s')
  | ["dsend", ty, nonce, names, ok] =>
    match Ty.ofTok ty with
    | none => (s, "bad-op")
    | some t =>
      let nn := if names == "nil" then none else some (decList names)
      let s' := sendDelta s t (dec nonce) nn (tokBool ok); (s', showState s')
  | _ => (s, "bad-op")

/-- Driver state: the bare watch table (streams `sotw`, `delta`) and the closed-loop system of
    `Protocol.lean` (stream `loop`). -/
structure DState where
  st  : State := State.empty
  sys : Sys := Sys.init State.empty [] ""
  ty  : Ty := .cds

def showReq (r : Req) : String :=
  let e := match r.err with
    | none => "-"
    | some m => "e:" ++ enc m
  s!"{enc r.nonce}/{encSet r.names}/{e}"

def showSys (y : Sys) : String :=
  let c := if y.c2s.isEmpty then "-" else ";".intercalate (y.c2s.map showReq)
  s!"{showState y.srv} | c2s={c} s2c={encList y.s2c} cnonce={enc y.cnonce} cnames={encSet y.cnames} sent={boolTok y.sentAny} nack={boolTok y.lastNack}"

def decNack (t : String) : Option String :=
  if t == "-" then none else some (dec ((t.drop 2).toString))

def stepD (d : DState) (toks : List String) : DState × String :=
  match toks with
  | ["case", _, "loop", ty, nonce] =>
    match Ty.ofTok ty with
    | none => (d, "bad-op")
    | some t => ({ d with ty := t, sys := Sys.init State.empty [] (dec nonce) }, "ok")
  | "case" :: _ => ({ d with st := State.empty }, "ok")
  | ["cchange", names] =>
    let y := IstioModel.C04.step d.ty d.sys (.clientChange (decList names)); let y := { y with srv := normalize y.srv }; ({ d with sys := y }, showSys y)
  | ["crecv", nack] =>
    let y := IstioModel.C04.step d.ty d.sys (.clientRecv (decNack nack)); let y := { y with srv := normalize y.srv }; ({ d with sys := y }, showSys y)
  | ["srecv", n] =>
    let y := IstioModel.C04.step d.ty d.sys (.serverRecv (dec n) true); let y := { y with srv := normalize y.srv }; ({ d with sys := y }, showSys y)
  | ["srecv", n, deliver] =>
    let y := IstioModel.C04.step d.ty d.sys (.serverRecv (dec n) (tokBool deliver)); let y := { y with srv := normalize y.srv }; ({ d with sys := y }, showSys y)
  | ["spush", n] =>
    let y := IstioModel.C04.step d.ty d.sys (.serverPush (dec n)); let y := { y with srv := normalize y.srv }; ({ d with sys := y }, showSys y)
  | ["other", ty, names, nonce] =>
    -- a request of ANOTHER type arrives on the same stream (the real NewWatchedResource: a new CDS watch marks EDS)
    match Ty.ofTok ty with
    | none => (d, "bad-op")
    | some t2 =>
      let srv := match shouldRespond d.sys.srv { ty := t2, names := decList names, nonce := dec nonce, err := none } with
        | .out _ _ s' => s'
        | .crash => d.sys.srv
      let y := { d.sys with srv := normalize srv }; ({ d with sys := y }, showSys y)
  | ["always"] =>
    let y := IstioModel.C04.step d.ty d.sys .envAlways; let y := { y with srv := normalize y.srv }; ({ d with sys := y }, showSys y)
  | _ => let (s', o) := stepBasic d.st toks; ({ d with st := normalize s' }, o)

end IstioModel.C04
