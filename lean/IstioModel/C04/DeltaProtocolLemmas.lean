import IstioModel.C04.DeltaProtocol

/-! C04 - plumbing lemmas for DeltaProtocolTheorems.lean (set views of the client's bookkeeping). Not counted. -/
namespace IstioModel.C04

theorem mem_applyChange (l sub unsub : List String) (x : String) :
    x ∈ applyChange l sub unsub ↔ (x ∈ l ∨ x ∈ sub) ∧ x ∉ unsub ∧ x ≠ "*" := by
  unfold applyChange
  simp only [List.mem_filter, List.mem_append, Bool.and_eq_true, Bool.not_eq_true', bne_iff_ne, ne_eq,
    List.contains_eq_mem, decide_eq_false_iff_not]
  constructor
  · rintro ⟨h1 | ⟨h1, _⟩, h2, h3⟩
    · exact ⟨Or.inl h1, h2, h3⟩
    · exact ⟨Or.inr h1, h2, h3⟩
  · rintro ⟨h1 | h1, h2, h3⟩
    · exact ⟨Or.inl h1, h2, h3⟩
    · by_cases hx : x ∈ l
      · exact ⟨Or.inl hx, h2, h3⟩
      · exact ⟨Or.inr ⟨h1, hx⟩, h2, h3⟩

theorem mem_removeAll (l r : List String) (x : String) : x ∈ removeAll l r ↔ x ∈ l ∧ x ∉ r := by
  simp [removeAll]

theorem mem_addAll (l a : List String) (x : String) : x ∈ addAll l a ↔ x ∈ l ∨ x ∈ a := by
  unfold addAll
  simp only [List.mem_append, List.mem_filter, Bool.not_eq_true', List.contains_eq_mem, decide_eq_false_iff_not]
  constructor
  · rintro (h | ⟨h, _⟩)
    · exact Or.inl h
    · exact Or.inr h
  · rintro (h | h)
    · exact Or.inl h
    · by_cases hx : x ∈ l
      · exact Or.inl hx
      · exact Or.inr ⟨h, hx⟩

theorem foldMsgs_append (l : List String) (a b : List DMsg) : foldMsgs l (a ++ b) = foldMsgs (foldMsgs l a) b := by
  simp [foldMsgs, List.foldl_append]

/-- Folding an empty change over a fold result changes nothing (as a set), provided `*` is not in it. -/
theorem mem_applyChange_nil (l : List String) (x : String) (h : "*" ∉ l) : x ∈ applyChange l [] [] ↔ x ∈ l := by
  rw [mem_applyChange]
  constructor
  · rintro ⟨h1 | h1, _, _⟩
    · exact h1
    · simp at h1
  · intro hx
    exact ⟨Or.inl hx, by simp, fun e => h (e ▸ hx)⟩

theorem star_not_mem_applyChange (l sub unsub : List String) : "*" ∉ applyChange l sub unsub := by
  intro h
  exact ((mem_applyChange l sub unsub "*").mp h).2.2 rfl

end IstioModel.C04
