import IstioModel.C04.Model

/-!
C04 - closed loop for DELTA xDS: the server's `shouldRespondDelta` / `sendDelta` composed with a
protocol-conformant delta client over two FIFO channels, for one xDS type `t`.

The client keeps the set of names it wants (`cwant`) and, like Envoy's `names_added_` /
`names_removed_`, the changes it has decided on but not yet sent (`pendSub`, `pendUnsub`: disjoint).
Every change is sent exactly once, attached to whatever request goes out next:
* a spontaneous request (`flush`, empty nonce), or
* the ACK / NACK of the next response it receives (`clientRecv`) - which may be the ACK of a response
  that a newer push has already overtaken: by the time the server reads it its nonce is stale.
The server handles the oldest undelivered request with `shouldRespondDelta`; when that says "respond"
it sends a response (`sendDelta`) that travels to the client.  It may also push at any time.  For a wildcard type
whose generator does not manage the names (`Ty.setsWatched`: CDS, LDS, NDS, ...) every response that goes out
REPLACES the recorded names by the names it carries, as the real `pushDeltaXds` does.
`applied` is a ghost: the fold of the changes carried by the requests the server has handled.
-/
namespace IstioModel.C04

structure DMsg where
  sub   : List String
  unsub : List String
  nonce : String
  err   : Option String
  deriving DecidableEq, Repr

def DMsg.toReq (t : Ty) (m : DMsg) : DReq :=
  { ty := t, sub := m.sub, unsub := m.unsub, init := [], nonce := m.nonce, err := m.err }

/-- A subscription change applied to a set of names (the synthetic `*` is never a name). -/
def applyChange (l sub unsub : List String) : List String :=
  (l ++ sub.filter (fun x => !l.contains x)).filter (fun x => !unsub.contains x && x != "*")

structure DSys where
  srv       : State
  cwant     : List String
  pendSub   : List String
  pendUnsub : List String
  c2s       : List DMsg        -- requests in flight, oldest first
  s2c       : List String      -- nonces of responses in flight, oldest first
  applied   : List String      -- ghost: fold of the changes of the requests the server has handled

inductive DStep
  | clientWant (add remove : List String)
  | clientFlush
  | clientRecv (nack : Option String)
  /-- `gen`: the names of the resources the answer / push carries (they replace the record of a wildcard type);
      `deliver = false`: the server decides to answer but nothing goes out (nothing to send, or the send is lost). -/
  | serverRecv (n : String) (gen : List String) (deliver : Bool)
  | serverPush (n : String) (ok : Bool) (gen : List String)

def removeAll (l r : List String) : List String := l.filter (fun x => !r.contains x)
def addAll (l a : List String) : List String := l ++ a.filter (fun x => !l.contains x)

/-- The request that goes out next carries every pending change. -/
def DSys.outMsg (y : DSys) (nonce : String) (err : Option String) : DMsg :=
  { sub := y.pendSub, unsub := y.pendUnsub, nonce := nonce, err := err }

def dstep (t : Ty) (y : DSys) : DStep → DSys
  | .clientWant add remove =>
    { y with cwant := applyChange y.cwant add remove,
             pendSub := removeAll (addAll y.pendSub add) remove,
             pendUnsub := addAll (removeAll y.pendUnsub add) remove }
  | .clientFlush =>
    { y with c2s := y.c2s ++ [y.outMsg "" none], pendSub := [], pendUnsub := [] }
  | .clientRecv nack =>
    match y.s2c with
    | [] => y
    | n :: rest =>
      { y with s2c := rest, c2s := y.c2s ++ [y.outMsg n nack], pendSub := [], pendUnsub := [] }
  | .serverRecv n gen deliver =>
    match y.c2s with
    | [] => y
    | m :: rest =>
      match shouldRespondDelta y.srv (m.toReq t) with
      | .crash => y
      | .out true s' =>
        if deliver then
          { y with srv := sendDelta s' t n (sentNames t gen) true, c2s := rest, s2c := y.s2c ++ [n],
                   applied := applyChange y.applied m.sub m.unsub }
        else { y with srv := s', c2s := rest, applied := applyChange y.applied m.sub m.unsub }
      | .out false s' => { y with srv := s', c2s := rest, applied := applyChange y.applied m.sub m.unsub }
  | .serverPush n ok gen =>
    match y.srv t with
    | none => y
    | some _ => { y with srv := sendDelta y.srv t n (sentNames t gen) ok, s2c := if ok then y.s2c ++ [n] else y.s2c }

def DSys.init : DSys :=
  { srv := State.empty, cwant := [], pendSub := [], pendUnsub := [], c2s := [], s2c := [], applied := [] }

def drun (t : Ty) (y : DSys) (steps : List DStep) : DSys := steps.foldl (dstep t) y

/-- The fold of the changes carried by a list of requests. -/
def foldMsgs (l : List String) (ms : List DMsg) : List String :=
  ms.foldl (fun l m => applyChange l m.sub m.unsub) l

end IstioModel.C04
