import IstioModel.C04.DeltaProtocol
import IstioModel.C04.DeltaProtocolLemmas
import IstioModel.C04.DeltaTraceTheorems

/-!
C04 - the last sentence of the property for the DELTA closed loop: for every schedule of client
decisions, spontaneous requests, ACKs / NACKs with attached subscription changes, server handling and
pushes (which may overtake ACKs in flight and may fail),

* the server's record is exactly the fold of the changes carried by the requests it has handled
  (`dinv_run`, server part), and
* what the client wants is that fold continued over the requests still in flight and the changes not
  yet sent (client part);

so whenever nothing is in flight towards the server and nothing is pending, the record equals what the
client wants (`dloop_quiescent_record_matches`) - also when the client's last message was a rejection.
-/
namespace IstioModel.C04

/-- Server part: the record is the fold of the handled changes. -/
def SInv (t : Ty) (y : DSys) : Prop :=
  match y.srv t with
  | none => y.applied = []
  | some w => "*" ∉ w.names ∧ ∀ x, x ∈ w.names ↔ x ∈ y.applied

/-- Client part: what the client wants is the same fold continued over what is in flight and pending. -/
def CInv (y : DSys) : Prop :=
  ∀ x, x ∈ y.cwant ↔ x ∈ applyChange (foldMsgs y.applied y.c2s) y.pendSub y.pendUnsub

/-- First request of the type on the stream, of any shape (also one that carries `error_detail`). -/
theorem delta_first_record_any (s : State) (r : DReq) (hnone : s r.ty = none) (hm : r.ty.managed = false) :
    ∃ b s' w, shouldRespondDelta s r = .out b s' ∧ s' r.ty = some w ∧
      ∀ x, x ∈ w.names ↔ ((x ∈ r.sub ∨ x ∈ r.init) ∧ x ∉ r.unsub ∧ x ≠ "*") := by
  refine ⟨true, _, { names := (deltaWatched [] r).1, wildcard := (deltaWatched [] r).2.1 },
    delta_unwatched_is_first_request s r hnone, ?_, ?_⟩
  · simp [hm]
  · intro x
    rw [mem_deltaWatched]; simp

theorem sinv_serverRecv (t : Ty) (hm : t.managed = false) (hwild : t.wildcard = false) (y : DSys) (n : String)
    (gen : List String) (deliver : Bool) (h : SInv t y) :
    SInv t (dstep t y (.serverRecv n gen deliver)) := by
  simp only [dstep, sentNames_named t gen hwild]
  cases hc : y.c2s with
  | nil => simpa using h
  | cons m rest =>
    simp only []
    -- the record after the request, whatever the answer
    have key : (∃ w, (shouldRespondDelta y.srv (m.toReq t)).state t = some w ∧ "*" ∉ w.names ∧
        (∀ x, x ∈ w.names ↔ x ∈ applyChange y.applied m.sub m.unsub)) ∨
        ((shouldRespondDelta y.srv (m.toReq t)).state t = none ∧ applyChange y.applied m.sub m.unsub = []) := by
      unfold SInv at h
      cases hs : y.srv t with
      | some prev =>
        rw [hs] at h
        obtain ⟨w, hw, hstar, hmem⟩ := delta_step_record y.srv (m.toReq t) prev (by simpa [DMsg.toReq] using hs) rfl
          (by simpa [DMsg.toReq] using hm) h.1
        left
        refine ⟨w, by simpa [DMsg.toReq] using hw, hstar, ?_⟩
        intro x
        rw [hmem x, mem_applyChange, h.2 x]
        simp [DMsg.toReq]
      | none =>
        rw [hs] at h
        obtain ⟨b, s', w, hr, hw, hmem⟩ := delta_first_record_any y.srv (m.toReq t) (by simpa [DMsg.toReq] using hs)
          (by simpa [DMsg.toReq] using hm)
        left
        refine ⟨w, by rw [hr]; simpa [DRes.state, DMsg.toReq] using hw, ?_, ?_⟩
        · intro hstar
          exact ((hmem "*").mp hstar).2.2 rfl
        · intro x
          rw [hmem x, mem_applyChange, h]
          simp [DMsg.toReq]
    cases hres : shouldRespondDelta y.srv (m.toReq t) with
    | crash => exact absurd hres (never_crashes_delta _ _)
    | out b s' =>
      rw [hres] at key
      simp only [DRes.state] at key
      cases b
      · simp only [SInv]
        rcases key with ⟨w, hw, hstar, hmem⟩ | ⟨hnone, hnil⟩
        · simp only [hw]; exact ⟨hstar, hmem⟩
        · simp only [hnone]; exact hnil
      · cases deliver
        · -- answered, nothing went out: the record is the one the classification made
          simp only [SInv, Bool.false_eq_true, if_false]
          rcases key with ⟨w, hw, hstar, hmem⟩ | ⟨hnone, hnil⟩
          · simp only [hw]; exact ⟨hstar, hmem⟩
          · simp only [hnone]; exact hnil
        · simp only [SInv, if_true]
          rcases key with ⟨w, hw, hstar, hmem⟩ | ⟨hnone, hnil⟩
          · obtain ⟨w2, hw2, hn2⟩ := sendDelta_names s' t n true w hw
            simp only [hw2]
            rw [hn2]; exact ⟨hstar, hmem⟩
          · -- answered requests always leave a record
            obtain ⟨w, hw, _⟩ := delta_responded_state_clean y.srv (m.toReq t) s' hres
            have : s' t = some w := by simpa [DMsg.toReq] using hw
            rw [this] at hnone; cases hnone

theorem sinv_step (t : Ty) (hm : t.managed = false) (hwild : t.wildcard = false) (y : DSys) (e : DStep) (h : SInv t y) :
    SInv t (dstep t y e) := by
  cases e with
  | clientWant add remove => simpa [dstep, SInv] using h
  | clientFlush => simpa [dstep, SInv] using h
  | clientRecv nack =>
    unfold dstep
    cases hs : y.s2c <;> simpa [SInv] using h
  | serverRecv n gen deliver => exact sinv_serverRecv t hm hwild y n gen deliver h
  | serverPush n ok gen =>
    simp only [dstep, sentNames_named t gen hwild]
    cases hs : y.srv t with
    | none => simpa using h
    | some prev =>
      simp only []
      unfold SInv at h ⊢
      rw [hs] at h
      obtain ⟨w2, hw2, hn2⟩ := sendDelta_names y.srv t n ok prev hs
      simp only [hw2]
      rw [hn2]; exact h

theorem cinv_step (t : Ty) (y : DSys) (e : DStep) (h : CInv y) : CInv (dstep t y e) := by
  cases e with
  | clientWant add remove =>
    intro x
    simp only [dstep]
    rw [mem_applyChange, h x, mem_applyChange, mem_applyChange, mem_removeAll, mem_addAll, mem_addAll, mem_removeAll]
    by_cases h1 : x ∈ foldMsgs y.applied y.c2s <;> by_cases h2 : x ∈ y.pendSub <;> by_cases h3 : x ∈ y.pendUnsub <;>
      by_cases h4 : x ∈ add <;> by_cases h5 : x ∈ remove <;> simp [h1, h2, h3, h4, h5]
  | clientFlush =>
    intro x
    simp only [dstep, DSys.outMsg]
    rw [h x, foldMsgs_append]
    simp only [foldMsgs, List.foldl_cons, List.foldl_nil]
    rw [mem_applyChange_nil _ _ (star_not_mem_applyChange _ _ _)]
  | clientRecv nack =>
    unfold dstep
    cases hs : y.s2c with
    | nil => simpa using h
    | cons n rest =>
      intro x
      simp only [DSys.outMsg]
      rw [h x, foldMsgs_append]
      simp only [foldMsgs, List.foldl_cons, List.foldl_nil]
      rw [mem_applyChange_nil _ _ (star_not_mem_applyChange _ _ _)]
  | serverRecv n gen deliver =>
    unfold dstep
    cases hc : y.c2s with
    | nil => simpa using h
    | cons m rest =>
      simp only []
      have h' : ∀ x, x ∈ y.cwant ↔ x ∈ applyChange (foldMsgs (applyChange y.applied m.sub m.unsub) rest) y.pendSub y.pendUnsub := by
        intro x
        rw [h x, hc]
        simp [foldMsgs]
      cases hres : shouldRespondDelta y.srv (m.toReq t) with
      | crash => simpa [CInv, hc] using h
      | out b s' =>
        cases b
        · exact h'
        · cases deliver <;> exact h'
  | serverPush n ok gen =>
    unfold dstep
    cases hs : y.srv t <;> simpa [CInv] using h

theorem dinv_run (t : Ty) (hm : t.managed = false) (hwild : t.wildcard = false) (y : DSys) (steps : List DStep)
    (h : SInv t y ∧ CInv y) :
    SInv t (drun t y steps) ∧ CInv (drun t y steps) := by
  induction steps generalizing y with
  | nil => exact h
  | cons e es ih => exact ih (dstep t y e) ⟨sinv_step t hm hwild y e h.1, cinv_step t y e h.2⟩

theorem dinv_init (t : Ty) : SInv t DSys.init ∧ CInv DSys.init := by
  refine ⟨by simp [SInv, DSys.init], ?_⟩
  intro x
  simp [DSys.init, foldMsgs, applyChange]

/-- **Record = what the client wants (delta closed loop).**  From a fresh stream, after ANY schedule,
    whenever no request is in flight and no change is waiting to be sent, the server's record of a
    NAMED type (EDS, RDS, SDS, ECDS: pushes do not rewrite it) is exactly the set the client wants (no record at all only if it wants nothing). -/
theorem dloop_quiescent_record_matches (t : Ty) (hm : t.managed = false) (hwild : t.wildcard = false)
    (steps : List DStep)
    (hq : (drun t DSys.init steps).c2s = []) (hs : (drun t DSys.init steps).pendSub = [])
    (hu : (drun t DSys.init steps).pendUnsub = []) :
    match (drun t DSys.init steps).srv t with
    | none => (drun t DSys.init steps).cwant = []
    | some w => ∀ x, x ∈ w.names ↔ x ∈ (drun t DSys.init steps).cwant := by
  obtain ⟨hS, hC⟩ := dinv_run t hm hwild DSys.init steps (dinv_init t)
  unfold SInv at hS
  unfold CInv at hC
  rw [hq, hs, hu] at hC
  simp only [foldMsgs, List.foldl_nil] at hC
  cases hsrv : (drun t DSys.init steps).srv t with
  | none =>
    rw [hsrv] at hS
    simp only
    rw [hS] at hC
    apply List.eq_nil_iff_forall_not_mem.mpr
    intro x hx
    have := (hC x).mp hx
    simp [applyChange] at this
  | some w =>
    rw [hsrv] at hS
    simp only
    intro x
    rw [hC x, mem_applyChange_nil _ _ (fun h => hS.1 ((hS.2 "*").mpr h)), hS.2 x]

/-- Non-vacuity: the finding F-C04-2 schedule (a push overtakes the ACK that carries `+b`) is a schedule of
    this loop; it ends quiescent with `{a, b}` on record. -/
example :
    let y := drun .eds DSys.init [.clientWant ["a"] [], .clientFlush, .serverRecv "n1" ["a"] true, .serverPush "n2" true ["a"],
      .clientWant ["b"] [], .clientRecv none, .serverRecv "n3" ["b"] true, .clientRecv none, .clientRecv none,
      .serverRecv "n4" [] true, .serverRecv "n5" [] true]
    y.c2s = [] ∧ y.pendSub = [] ∧ y.pendUnsub = [] ∧ (y.srv .eds).map (·.names) = some ["a", "b"] ∧ y.cwant = ["a", "b"] := by
  decide

end IstioModel.C04
