import IstioModel.C04.Protocol
import IstioModel.C04.Theorems

/-!
# C04 - the last sentence of the property, at trace level

"After any exchange with a protocol-conformant client whose last message has been processed and
was not a rejection, the server's record of the client's subscription equals what the client last
asked for."

`quiescent_record_matches`: for EVERY finite schedule of client subscription changes, client
ACKs/NACKs, server request handling - where an answer either goes out or does NOT (the generator has
nothing to send, or the send fails) -, spontaneous server pushes and warming marks (any interleaving,
any nonces, a client that may have retained any nonce from an earlier stream), whenever both
channels are empty, the client has spoken and its last message was not a NACK, the server's record
equals the client's current names.

`FullStatement f` is that sentence for the code with the repairs `f`; `quiescent_record_matches` proves it
for the code in /repo, `full_statement_witness_unfixed` refutes it for the code before repair F-C04-3
(an answer with nothing to send leaves a watch with an empty `NonceSent`; the client's next request,
echoing the nonce it retains, was dropped as stale).
-/
namespace IstioModel.C04

structure Inv (t : Ty) (y : Sys) : Prop where
  tys : ∀ m ∈ y.c2s, m.ty = t
  nonce : ∀ w, y.srv t = some w → w.nonceSent = "" ∨ w.nonceSent = lastOr y.cnonce y.s2c
  lastMsg : ∀ m, y.c2s.getLast? = some m →
    m.names = y.cnames ∧ m.nonce = y.cnonce ∧ (y.lastNack = false → m.err = none)
  settled : y.c2s = [] →
    y.s2c ≠ [] ∨ y.sentAny = false ∨ y.lastNack = true ∨ recordMatches y.srv t y.cnames

theorem inv_init (t : Ty) (srv : State) (names : List String) (nonce : String) (h : srv t = none) :
    Inv t (Sys.init srv names nonce) where
  tys := by intro m hm; simp [Sys.init] at hm
  nonce := by intro w hw; simp [Sys.init, h] at hw
  lastMsg := by intro m hm; simp [Sys.init] at hm
  settled := by intro _; right; left; rfl

/-- A silent answer never changes the nonce on record. -/
theorem silent_keeps_nonce_noerr (s : State) (m : Req) (sub : List String) (s' : State) (he : m.err = none)
    (h : shouldRespond s m = .out false sub s') (w' : WR) (hw' : s' m.ty = some w') :
    ∃ w, s m.ty = some w ∧ w'.nonceSent = w.nonceSent := by
  cases hu : m.unsub
  · cases hp : s m.ty with
    | none =>
      rw [first_request_or_reconnect_responds s m hp he hu] at h
      injection h with hb; cases hb
    | some prev =>
      by_cases hn : m.nonce = ""
      · rw [empty_nonce_responds s m he hu hn] at h
        injection h with hb; cases hb
      · by_cases hst : m.nonce = prev.nonceSent
        · rw [match_branch s m prev he hu hp hn hst] at h
          have hacked : acked s m prev = s' := by
            repeat' split at h
            all_goals (injection h)
          rw [← hacked] at hw'
          simp [acked] at hw'
          exact ⟨prev, rfl, by rw [← hw']⟩
        · by_cases hsent : prev.nonceSent = ""
          · rw [unsent_watch_request_responds s m prev he hu hp hsent] at h
            injection h with hb; cases hb
          · rw [stale_nonce_silent s m prev he hu hp hn hsent hst] at h
            injection h with _ _ hs
            rw [← hs, hp] at hw'
            exact ⟨prev, rfl, by rw [Option.some.inj hw']⟩
  · rw [unsubscribe_deletes_watch s m he hu] at h
    injection h with _ _ hs
    rw [← hs] at hw'
    simp at hw'

theorem silent_keeps_nonce (s : State) (m : Req) (sub : List String) (s' : State)
    (h : shouldRespond s m = .out false sub s') (w' : WR) (hw' : s' m.ty = some w') :
    ∃ w, s m.ty = some w ∧ w'.nonceSent = w.nonceSent := by
  rcases respond_cases s m with ⟨msg, w, _, hw, hr⟩ | heq
  · rw [hr] at h
    injection h with _ _ hs
    rw [← hs] at hw'
    simp at hw'
    exact ⟨w, hw, by rw [← hw']⟩
  · rw [heq] at h
    exact silent_keeps_nonce_noerr s m.clean sub s' rfl h w' hw'

/-- An answer leaves the nonce on record alone, or starts a watch nothing was sent on yet. -/
theorem answered_nonce_noerr (s : State) (m : Req) (sub : List String) (s' : State) (he : m.err = none)
    (h : shouldRespond s m = .out true sub s') (w' : WR) (hw' : s' m.ty = some w') :
    w'.nonceSent = "" ∨ ∃ w, s m.ty = some w ∧ w'.nonceSent = w.nonceSent := by
  have hnew : shouldRespond s m = .out true [] (newWatched s m.ty m.names) → w'.nonceSent = "" := by
    intro h2
    rw [h2] at h
    injection h with _ _ hs
    rw [← hs, newWatched_self] at hw'
    rw [← Option.some.inj hw']
  cases hu : m.unsub
  · cases hp : s m.ty with
    | none => exact Or.inl (hnew (first_request_or_reconnect_responds s m hp he hu))
    | some prev =>
      by_cases hn : m.nonce = ""
      · exact Or.inl (hnew (empty_nonce_responds s m he hu hn))
      · by_cases hsent : prev.nonceSent = ""
        · exact Or.inl (hnew (unsent_watch_request_responds s m prev he hu hp hsent))
        · by_cases hst : m.nonce = prev.nonceSent
          · rw [match_branch s m prev he hu hp hn hst] at h
            have hacked : acked s m prev = s' := by
              repeat' split at h
              all_goals (injection h)
            rw [← hacked] at hw'
            simp [acked] at hw'
            exact Or.inr ⟨prev, rfl, by rw [← hw']⟩
          · rw [stale_nonce_silent s m prev he hu hp hn hsent hst] at h
            injection h with hb; cases hb
  · rw [unsubscribe_deletes_watch s m he hu] at h
    injection h with hb; cases hb

theorem answered_nonce (s : State) (m : Req) (sub : List String) (s' : State)
    (h : shouldRespond s m = .out true sub s') (w' : WR) (hw' : s' m.ty = some w') :
    w'.nonceSent = "" ∨ ∃ w, s m.ty = some w ∧ w'.nonceSent = w.nonceSent :=
  answered_nonce_noerr s m.clean sub s' rfl (answered_clean s m sub s' h) w' hw'

/-- An answered request is not an unsubscribe, and leaves its names on record. -/
theorem answered_record (s : State) (m : Req) (sub : List String) (s' : State)
    (h : shouldRespond s m = .out true sub s') : recordMatches s' m.ty m.names := by
  obtain ⟨w, hw, _, hnames⟩ := responded_state_clean s m sub s' h
  have hu : m.unsub = false := answered_not_unsub s m sub s' h
  unfold recordMatches
  have : (m.names.isEmpty && !m.ty.wildcard) = false := by simpa [Req.unsub] using hu
  simp only [this, Bool.false_eq_true, if_false]
  exact ⟨w, hw, hnames⟩

/-- The settled clause when the server silently handles the client's last message. -/
theorem silent_last_settles (t : Ty) (s : State) (m : Req) (sub : List String) (s' : State)
    (cnames : List String) (cnonce : String) (s2c : List String)
    (hty : m.ty = t) (hnames : m.names = cnames) (hnonce : m.nonce = cnonce) (herr : m.err = none)
    (hinv : ∀ w, s t = some w → w.nonceSent = "" ∨ w.nonceSent = lastOr cnonce s2c)
    (h : shouldRespond s m = .out false sub s') :
    s2c ≠ [] ∨ recordMatches s' t cnames := by
  subst hty
  cases hu : m.unsub
  · cases hp : s m.ty with
    | none =>
      rw [first_request_or_reconnect_responds s m hp herr hu] at h
      injection h with hb; cases hb
    | some prev =>
      by_cases hn : m.nonce = ""
      · rw [empty_nonce_responds s m herr hu hn] at h
        injection h with hb; cases hb
      · by_cases hst : m.nonce = prev.nonceSent
        · right
          have := record_matches_request s m false sub s' herr (Or.inr (Or.inr ⟨prev, hp, hst⟩)) h
          simp only [hu, Bool.false_eq_true, if_false] at this
          unfold recordMatches
          have hu' : (cnames.isEmpty && !m.ty.wildcard) = false := by
            rw [← hnames]; simpa [Req.unsub] using hu
          simp only [hu', Bool.false_eq_true, if_false]
          rw [← hnames]; exact this
        · by_cases hsent : prev.nonceSent = ""
          · rw [unsent_watch_request_responds s m prev herr hu hp hsent] at h
            injection h with hb; cases hb
          · left
            apply lastOr_ne_nil cnonce
            rcases hinv prev hp with h1 | h1
            · exact absurd h1 hsent
            · rw [← h1, ← hnonce]
              exact fun e => hst e.symm
  · right
    rw [unsubscribe_deletes_watch s m herr hu] at h
    injection h with _ _ hs
    unfold recordMatches
    have hu' : (cnames.isEmpty && !m.ty.wildcard) = true := by
      rw [← hnames]; simpa [Req.unsub] using hu
    simp only [hu', if_true]
    rw [← hs]; simp

theorem inv_step (t : Ty) (y : Sys) (e : Step) (h : Inv t y) : Inv t (step t y e) := by
  cases e with
  | clientChange names =>
    refine ⟨?_, ?_, ?_, ?_⟩
    · intro m hm
      simp only [step, stepR, List.mem_append, List.mem_singleton] at hm
      rcases hm with hm | hm
      · exact h.tys m hm
      · subst hm; rfl
    · exact h.nonce
    · intro m hm
      simp only [step, stepR, getLast?_append_singleton, Option.some.injEq] at hm
      subst hm
      exact ⟨rfl, rfl, fun _ => rfl⟩
    · intro hc; simp [step, stepR] at hc
  | clientRecv nack =>
    cases hs : y.s2c with
    | nil => simpa [step, stepR, hs] using h
    | cons n rest =>
      refine ⟨?_, ?_, ?_, ?_⟩
      · intro m hm
        simp only [step, stepR, hs, List.mem_append, List.mem_singleton] at hm
        rcases hm with hm | hm
        · exact h.tys m hm
        · subst hm; rfl
      · intro w hw
        simp only [step, stepR, hs] at hw ⊢
        have := h.nonce w hw
        rw [hs] at this
        exact this
      · intro m hm
        simp only [step, stepR, hs, getLast?_append_singleton, Option.some.injEq] at hm
        subst hm
        refine ⟨by simp [step, stepR, hs, clientMsg], by simp [step, stepR, hs, clientMsg], ?_⟩
        intro hl
        simp only [step, stepR, hs] at hl
        cases nack with
        | none => rfl
        | some _ => simp at hl
      · intro hc; simp [step, stepR, hs] at hc
  | serverPush n =>
    by_cases hn : n = ""
    · simpa [step, stepR, hn] using h
    · cases hp : y.srv t with
      | none => simpa [step, stepR, hn, hp] using h
      | some w0 =>
        refine ⟨?_, ?_, ?_, ?_⟩
        · simpa [step, stepR, hn, hp] using h.tys
        · intro w hw
          simp only [step, stepR, hn, if_false, hp] at hw ⊢
          rw [lastOr_append]
          obtain ⟨w1, hw1, hn1⟩ := send_ok_records_nonce y.srv t n hn
          rw [hw1] at hw; cases hw; exact Or.inr hn1
        · simpa [step, stepR, hn, hp] using h.lastMsg
        · intro _; left; simp [step, stepR, hn, hp]
  | envAlways =>
    cases hp : y.srv t with
    | none => simpa [step, stepR, hp] using h
    | some w0 =>
      refine ⟨?_, ?_, ?_, ?_⟩
      · simpa [step, stepR, hp] using h.tys
      · intro w hw
        simp only [step, stepR, hp] at hw ⊢
        simp at hw
        rw [← hw]
        exact h.nonce w0 hp
      · simpa [step, stepR, hp] using h.lastMsg
      · intro hc
        simp only [step, stepR, hp] at hc ⊢
        rcases h.settled hc with h1 | h1 | h1 | h1
        · exact Or.inl h1
        · exact Or.inr (Or.inl h1)
        · exact Or.inr (Or.inr (Or.inl h1))
        · exact Or.inr (Or.inr (Or.inr (recordMatches_set_always _ _ _ _ hp h1)))
  | serverRecv n deliver =>
    cases hc : y.c2s with
    | nil => simpa [step, stepR, hc] using h
    | cons m rest =>
      by_cases hn : n = ""
      · simpa [step, stepR, hc, hn] using h
      · have hmt : m.ty = t := h.tys m (by simp [hc])
        have htys' : ∀ m' ∈ rest, m'.ty = t := fun m' hm' => h.tys m' (by simp [hc, hm'])
        have hlast' : ∀ m', rest.getLast? = some m' →
            m'.names = y.cnames ∧ m'.nonce = y.cnonce ∧ (y.lastNack = false → m'.err = none) := by
          intro m' hm'
          apply h.lastMsg m'
          rw [hc]
          cases rest with
          | nil => simp at hm'
          | cons a as => simpa [List.getLast?_cons_cons] using hm'
        have hr0 : shouldRespondR {} y.srv m = shouldRespond y.srv m := rfl
        cases hr : shouldRespond y.srv m with
        | crash => exact absurd hr (never_crashes _ _)
        | out b sub s' =>
          cases b with
          | true =>
            cases deliver with
            | true =>
              refine ⟨?_, ?_, ?_, ?_⟩
              · simpa [step, stepR, hc, hn, hr0, hr] using htys'
              · intro w hw
                simp only [step, stepR, hc, hn, if_false, hr0, hr, if_true] at hw ⊢
                rw [lastOr_append]
                obtain ⟨w1, hw1, hn1⟩ := send_ok_records_nonce s' t n hn
                rw [hw1] at hw; cases hw; exact Or.inr hn1
              · simpa [step, stepR, hc, hn, hr0, hr] using hlast'
              · intro _; left; simp [step, stepR, hc, hn, hr0, hr]
            | false =>
              -- answered, but nothing went out
              refine ⟨?_, ?_, ?_, ?_⟩
              · simpa [step, stepR, hc, hn, hr0, hr] using htys'
              · intro w hw
                simp only [step, stepR, hc, hn, if_false, hr0, hr, Bool.false_eq_true] at hw ⊢
                rw [← hmt] at hw
                rcases answered_nonce y.srv m sub s' hr w hw with h1 | ⟨w0, hw0, hn0⟩
                · exact Or.inl h1
                · rw [hn0]
                  rw [hmt] at hw0
                  exact h.nonce w0 hw0
              · simpa [step, stepR, hc, hn, hr0, hr] using hlast'
              · intro hrest
                simp only [step, stepR, hc, hn, if_false, hr0, hr, Bool.false_eq_true] at hrest ⊢
                subst hrest
                obtain ⟨hnames, _, _⟩ := h.lastMsg m (by simp [hc])
                have := answered_record y.srv m sub s' hr
                rw [hmt, hnames] at this
                exact Or.inr (Or.inr (Or.inr this))
          | false =>
            refine ⟨?_, ?_, ?_, ?_⟩
            · simpa [step, stepR, hc, hn, hr0, hr] using htys'
            · intro w hw
              simp only [step, stepR, hc, hn, if_false, hr0, hr] at hw ⊢
              rw [← hmt] at hw
              obtain ⟨w0, hw0, hn0⟩ := silent_keeps_nonce y.srv m sub s' hr w hw
              rw [hn0]
              rw [hmt] at hw0
              exact h.nonce w0 hw0
            · simpa [step, stepR, hc, hn, hr0, hr] using hlast'
            · intro hrest
              simp only [step, stepR, hc, hn, if_false, hr0, hr] at hrest ⊢
              subst hrest
              obtain ⟨hnames, hnonce, herr⟩ := h.lastMsg m (by simp [hc])
              cases hl : y.lastNack with
              | true => exact Or.inr (Or.inr (Or.inl rfl))
              | false =>
                rcases silent_last_settles t y.srv m sub s' y.cnames y.cnonce y.s2c hmt hnames hnonce
                  (herr hl) h.nonce hr with h1 | h1
                · exact Or.inl h1
                · exact Or.inr (Or.inr (Or.inr h1))

theorem inv_run (t : Ty) (y : Sys) (steps : List Step) (h : Inv t y) : Inv t (run t y steps) := by
  induction steps generalizing y with
  | nil => exact h
  | cons e es ih => exact ih (step t y e) (inv_step t y e h)

/-- **A request of ANOTHER type touches the watch of `t` in one way only**: it may mark it for a forced response
    (a new CDS watch marks EDS: warming).  This is why the closed loop for one type can treat the rest of the
    stream as the environment step `envAlways`. -/
theorem other_type_request_only_marks (s : State) (r : Req) (t : Ty) (hne : r.ty ≠ t) (b : Bool) (sub : List String)
    (s' : State) (hr : shouldRespond s r = .out b sub s') :
    s' t = s t ∨ ∃ w, s t = some w ∧ s' t = some { w with always := true } := by
  have hne' : t ≠ r.ty := fun e => hne e.symm
  have hnew : ∀ names, newWatched s r.ty names t = s t ∨
      ∃ w, s t = some w ∧ newWatched s r.ty names t = some { w with always := true } := by
    intro names
    unfold newWatched
    by_cases ht : t ∈ r.ty.warming
    · have hc : r.ty = .cds ∧ t = .eds := by
        cases hty : r.ty <;> simp [hty, Ty.warming] at ht
        exact ⟨rfl, ht⟩
      obtain ⟨hc1, hc2⟩ := hc
      subst hc2
      simp only [hc1, Ty.warming, markWarming]
      cases hs : s .eds with
      | none => left; simp [State.set, hs]
      | some w => right; exact ⟨w, rfl, by simp [State.set, hs]⟩
    · left
      rw [markWarming_other _ _ _ ht]
      exact State.set_other _ _ _ _ hne'
  rcases respond_cases s r with ⟨msg, w, _, _, h1⟩ | heq
  · rw [h1] at hr
    injection hr with _ _ hs
    left; rw [← hs]; exact State.set_other _ _ _ _ hne'
  · rw [heq, shouldRespond_noerr s r.clean rfl] at hr
    have hty : r.clean.ty = r.ty := rfl
    unfold respondTail at hr
    simp only [hty] at hr
    split at hr
    · injection hr with _ _ hs
      left; rw [← hs]; exact State.set_other _ _ _ _ hne'
    · split at hr
      · injection hr with _ _ hs
        rw [← hs]; exact hnew _
      · split at hr
        · injection hr with _ _ hs
          rw [← hs]; exact hnew _
        · split at hr
          · injection hr with _ _ hs
            rw [← hs]; exact hnew _
          · split at hr
            · injection hr with _ _ hs
              left; rw [hs]
            · have hset : ∀ v, (s.set r.ty v) t = s t := fun v => State.set_other _ _ _ _ hne'
              repeat' split at hr
              all_goals (injection hr with _ _ hs; left; rw [← hs]; exact hset _)

/-- The last sentence of the property for the code with the repairs `f`: after EVERY exchange from a fresh
    stream, whenever both channels are empty, the client has spoken and its last message was not a rejection,
    the record equals the client's names. -/
def FullStatement (f : Repairs) : Prop :=
  ∀ (t : Ty) (srv : State) (names : List String) (nonce : String), srv t = none → ∀ (steps : List Step),
    (runR f t (Sys.init srv names nonce) steps).c2s = [] → (runR f t (Sys.init srv names nonce) steps).s2c = [] →
    (runR f t (Sys.init srv names nonce) steps).sentAny = true →
    (runR f t (Sys.init srv names nonce) steps).lastNack = false →
      recordMatches (runR f t (Sys.init srv names nonce) steps).srv t (runR f t (Sys.init srv names nonce) steps).cnames

theorem runR_default (t : Ty) (y : Sys) (steps : List Step) : runR {} t y steps = run t y steps := rfl

/-- **Record = last request, for every exchange** - including exchanges in which an answer had nothing to send
    or could not be sent. -/
theorem quiescent_record_matches (t : Ty) (srv : State) (names : List String) (nonce : String)
    (hfresh : srv t = none) (steps : List Step) :
    let y := run t (Sys.init srv names nonce) steps
    y.c2s = [] → y.s2c = [] → y.sentAny = true → y.lastNack = false →
      recordMatches y.srv t y.cnames := by
  intro y hc hs hsent hnack
  have hinv : Inv t y := inv_run t _ steps (inv_init t srv names nonce hfresh)
  rcases hinv.settled hc with h1 | h1 | h1 | h1
  · exact absurd hs h1
  · rw [hsent] at h1; cases h1
  · rw [hnack] at h1; cases h1
  · exact h1

theorem full_statement : FullStatement {} := by
  intro t srv names nonce hfresh steps
  simp only [runR_default]
  exact quiescent_record_matches t srv names nonce hfresh steps

/-- The exchange of finding F-C04-3: the client subscribes to `c` (answered, acknowledged), unsubscribes,
    subscribes to `c` again echoing the nonce it retains - the answer has nothing to send -, then asks for `c, d`. -/
def unsentTrace : List Step :=
  [.clientChange ["c"], .serverRecv "n1" true, .clientRecv none, .serverRecv "x" true,
   .clientChange [], .serverRecv "x" true,
   .clientChange ["c"], .serverRecv "n2" false,
   .clientChange ["c", "d"], .serverRecv "n3" true]

/-- Before repair F-C04-3 the last sentence was FALSE: on `unsentTrace` everything is processed, the last message
    was not a rejection, the client asked for `c, d` - and the record is `c`. -/
theorem full_statement_witness_unfixed : ¬ FullStatement { unsentNew := false } := by
  intro h
  have hrec := h .sds State.empty [] "" rfl unsentTrace (by decide) (by decide) (by decide) (by decide)
  have hs : (runR { unsentNew := false } .sds (Sys.init State.empty [] "") unsentTrace).srv .sds = some { names := ["c"] } := by
    decide
  have hc : (runR { unsentNew := false } .sds (Sys.init State.empty [] "") unsentTrace).cnames = ["c", "d"] := by decide
  unfold recordMatches at hrec
  rw [hc, hs] at hrec
  simp [Ty.wildcard] at hrec

/-- Non-vacuity: a concrete exchange (reconnecting client with a retained nonce `old`, subscribes
    to `a`, gets a response, ACKs, then adds `b`, gets a response, ACKs) reaches a quiescent state
    meeting all hypotheses, with the record equal to `[a, b]`. -/
example :
    let y := run .eds (Sys.init State.empty [] "old")
      [.clientChange ["a"], .serverRecv "n1" true, .clientRecv none, .serverRecv "x" true,
       .clientChange ["a", "b"], .serverRecv "n2" true, .clientRecv none, .serverRecv "x" true]
    y.c2s = [] ∧ y.s2c = [] ∧ y.sentAny = true ∧ y.lastNack = false ∧
      (∃ w, y.srv .eds = some w ∧ w.names = ["a", "b"]) := by
  decide

/-- ... and on `unsentTrace` the code in /repo ends with `c, d` on record (answered, sent, still to be ACKed). -/
example :
    let y := run .sds (Sys.init State.empty [] "") unsentTrace
    y.c2s = [] ∧ (∃ w, y.srv .sds = some w ∧ w.names = ["c", "d"]) := by
  decide

end IstioModel.C04
