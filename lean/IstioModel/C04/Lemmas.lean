import IstioModel.C04.Model
import IstioModel.C04.Protocol

/-!
C04 - plumbing lemmas (set views of the list operations of the model, frame lemmas of the watch table).
Not property statements: this module is not counted as obligations; the property-level modules import it.
-/
namespace IstioModel.C04

/-- Membership view of `diff`. -/
theorem mem_diff {a b : List String} {x : String} : x ∈ diff a b ↔ x ∈ a ∧ x ∉ b := by
  simp [diff]

theorem diff_isEmpty_iff {a b : List String} : (diff a b).isEmpty = true ↔ ∀ x ∈ a, x ∈ b := by
  rw [List.isEmpty_iff]
  constructor
  · intro h x hx
    by_cases hb : x ∈ b
    · exact hb
    · have : x ∈ diff a b := mem_diff.mpr ⟨hx, hb⟩
      rw [h] at this; cases this
  · intro h
    apply List.eq_nil_iff_forall_not_mem.mpr
    intro x hx
    have := mem_diff.mp hx
    exact this.2 (h x this.1)

/-- `markWarming` never touches a type that is not a warming dependency. -/
theorem markWarming_other (s : State) (ds : List Ty) (t : Ty) (h : t ∉ ds) :
    markWarming s ds t = s t := by
  induction ds generalizing s with
  | nil => rfl
  | cons d ds ih =>
    simp only [markWarming]
    have hd : t ≠ d := fun e => h (by simp [e])
    have ht : t ∉ ds := fun e => h (by simp [e])
    rw [ih _ ht]
    cases hs : s d <;> simp [State.set, hd]

theorem not_mem_warming_self (t : Ty) : t ∉ t.warming := by
  cases t <;> simp [Ty.warming]

theorem newWatched_self (s : State) (t : Ty) (names : List String) :
    newWatched s t names t = some { names := names } := by
  unfold newWatched
  rw [markWarming_other _ _ _ (not_mem_warming_self t)]
  simp

theorem insertAll_nil (res : List String) (c : Bool) : insertAll res c [] = (res, c) := rfl

theorem eraseAll_nil (res : List String) (c : Bool) : eraseAll res c [] = (res, c) := rfl

theorem deltaUpdateG_always (d : Bool) (prev : WR) (r : DReq) : (deltaUpdateG d prev r).always = false := by
  unfold deltaUpdateG
  split <;> rfl

theorem deltaUpdate_always (prev : WR) (r : DReq) : (deltaUpdate prev r).always = false :=
  deltaUpdateG_always false prev r

theorem deltaUpdateG_names (d : Bool) (prev : WR) (r : DReq) :
    (deltaUpdateG d prev r).names = deltaNames prev r := by
  unfold deltaUpdateG
  split <;> rfl

/-- `insertAll` reports a change exactly when it really adds a name. -/
theorem insertAll_changed (res : List String) (c : Bool) (xs : List String) :
    (insertAll res c xs).2 = (c || xs.any (fun x => !res.contains x)) := by
  induction xs generalizing res c with
  | nil => simp [insertAll]
  | cons x xs ih =>
    simp only [insertAll]
    by_cases h : res.contains x = true
    · simp only [h, if_true, ih, List.any_cons, Bool.not_true, Bool.false_or]
    · have hf : res.contains x = false := by simpa using h
      simp only [hf, Bool.false_eq_true, if_false, ih, List.any_cons, Bool.not_false, Bool.true_or, Bool.or_true]

theorem insertAll_changed_mono (res : List String) (xs : List String) :
    (insertAll res true xs).2 = true := by
  rw [insertAll_changed]; simp

theorem eraseAll_changed_mono (res : List String) (xs : List String) :
    (eraseAll res true xs).2 = true := by
  induction xs generalizing res with
  | nil => rfl
  | cons x xs ih =>
    simp only [eraseAll]
    split <;> exact ih _

/-- `deltaWatchedResources` reports a change whenever a subscribed name was not on record. -/
theorem deltaWatched_changed_of_new (names : List String) (r : DReq)
    (x : String) (hx : x ∈ r.sub) (hnew : x ∉ names) : (deltaWatched names r).2.2 = true := by
  unfold deltaWatched
  have h1 : (insertAll names false r.sub).2 = true := by
    rw [insertAll_changed]
    simp only [Bool.false_or, List.any_eq_true]
    exact ⟨x, hx, by simpa using hnew⟩
  simp only [h1]
  rw [insertAll_changed_mono, eraseAll_changed_mono]

theorem deltaTail_clean (d : Bool) (s : State) (prev : WR) (r : DReq) (b : Bool) (s' : State)
    (h : deltaTail d s prev r = .out b s') : ∃ w, s' r.ty = some w ∧ w.always = false := by
  unfold deltaTail at h
  injection h with _ hs
  exact ⟨_, by rw [← hs]; simp, deltaUpdateG_always d prev r⟩

theorem deltaFirst_clean (s : State) (r : DReq) (b : Bool) (s' : State)
    (h : deltaFirst s r = .out b s') : ∃ w, s' r.ty = some w ∧ w.always = false := by
  unfold deltaFirst at h
  injection h with _ hs
  subst hs
  exact ⟨_, State.set_same _ _ _, rfl⟩

theorem mem_insertAll (res : List String) (c : Bool) (xs : List String) (x : String) :
    x ∈ (insertAll res c xs).1 ↔ x ∈ res ∨ x ∈ xs := by
  induction xs generalizing res c with
  | nil => simp [insertAll]
  | cons y ys ih =>
    simp only [insertAll]
    by_cases h : res.contains y = true
    · simp only [h, if_true, ih, List.mem_cons]
      constructor
      · rintro (h1 | h1)
        · exact Or.inl h1
        · exact Or.inr (Or.inr h1)
      · rintro (h1 | h1 | h1)
        · exact Or.inl h1
        · subst h1; exact Or.inl (by simpa using h)
        · exact Or.inr h1
    · have hf : res.contains y = false := by simpa using h
      simp only [hf, Bool.false_eq_true, if_false, ih]
      simp [or_assoc]

theorem mem_eraseAll (res : List String) (c : Bool) (xs : List String) (x : String) :
    x ∈ (eraseAll res c xs).1 ↔ x ∈ res ∧ x ∉ xs := by
  induction xs generalizing res c with
  | nil => simp [eraseAll]
  | cons y ys ih =>
    simp only [eraseAll]
    by_cases h : res.contains y = true
    · simp only [h, if_true, ih, List.mem_filter, List.mem_cons, not_or]
      constructor
      · rintro ⟨⟨h1, h2⟩, h3⟩
        exact ⟨h1, by simpa using h2, h3⟩
      · rintro ⟨h1, h2, h3⟩
        exact ⟨⟨h1, by simpa using h2⟩, h3⟩
    · have hf : res.contains y = false := by simpa using h
      simp only [hf, Bool.false_eq_true, if_false, ih, List.mem_cons, not_or]
      constructor
      · rintro ⟨h1, h3⟩
        refine ⟨h1, ?_, h3⟩
        intro e
        subst e
        have : x ∉ res := by simpa using hf
        exact this h1
      · rintro ⟨h1, _, h3⟩
        exact ⟨h1, h3⟩

/-- `deltaWatchedResources` as a set: everything on record, subscribed or reported as retained,
    minus what is unsubscribed, minus the synthetic `*`. -/
theorem mem_deltaWatched (existing : List String) (r : DReq) (x : String) :
    x ∈ (deltaWatched existing r).1 ↔
      ((x ∈ existing ∨ x ∈ r.sub ∨ x ∈ r.init) ∧ x ∉ r.unsub ∧ x ≠ "*") := by
  unfold deltaWatched
  simp only []
  generalize hl : (eraseAll (insertAll (insertAll existing false r.sub).fst (insertAll existing false r.sub).snd r.init).fst
      (insertAll (insertAll existing false r.sub).fst (insertAll existing false r.sub).snd r.init).snd r.unsub).fst = l
  have hmem : x ∈ l ↔ (x ∈ existing ∨ x ∈ r.sub ∨ x ∈ r.init) ∧ x ∉ r.unsub := by
    rw [← hl, mem_eraseAll, mem_insertAll, mem_insertAll]
    simp [or_assoc]
  by_cases hc : l.contains "*" = true
  · simp only [hc, if_true, List.mem_filter]
    rw [hmem]
    simp [and_assoc]
  · simp only [hc, Bool.false_eq_true, if_false]
    rw [hmem]
    have hstar : "*" ∉ l := by simpa using hc
    constructor
    · rintro ⟨h1, h2⟩
      refine ⟨h1, h2, ?_⟩
      intro e
      subst e
      exact hstar (hmem.mpr ⟨h1, h2⟩)
    · rintro ⟨h1, h2, _⟩
      exact ⟨h1, h2⟩

def lastOr (d : String) : List String → String
  | [] => d
  | x :: xs => lastOr x xs

theorem lastOr_append (d : String) (l : List String) (n : String) : lastOr d (l ++ [n]) = n := by
  induction l generalizing d with
  | nil => rfl
  | cons x xs ih => exact ih x

theorem lastOr_ne_nil (d : String) (l : List String) (h : lastOr d l ≠ d) : l ≠ [] := by
  intro hl; subst hl; exact h rfl

theorem getLast?_append_singleton (l : List Req) (m : Req) : (l ++ [m]).getLast? = some m := by
  simp

theorem recordMatches_set_always (s : State) (t : Ty) (names : List String) (w : WR)
    (hw : s t = some w) (h : recordMatches s t names) :
    recordMatches (s.set t (some { w with always := true })) t names := by
  unfold recordMatches at *
  split
  · rename_i hc; simp only [hc, if_true] at h; rw [hw] at h; cases h
  · rename_i hc; simp only [hc, if_false] at h
    obtain ⟨w0, hw0, hn⟩ := h
    rw [hw] at hw0; cases hw0
    exact ⟨{ w with always := true }, by simp, hn⟩

theorem carries_false_iff (r : DReq) : r.carries = false ↔ r.sub = [] ∧ r.unsub = [] := by
  unfold DReq.carries
  cases r.sub <;> cases r.unsub <;> simp

/-- A send never touches the recorded names of a named type. -/
theorem sentNames_named (t : Ty) (gen : List String) (hw : t.wildcard = false) : sentNames t gen = none := by
  simp [sentNames, Ty.setsWatched, hw]

/-- A send never touches the recorded names of a type whose record is not rewritten by pushes. -/
theorem sendDelta_names (s : State) (t : Ty) (n : String) (ok : Bool) (prev : WR) (hprev : s t = some prev) :
    ∃ w, sendDelta s t n none ok t = some w ∧ w.names = prev.names := by
  unfold sendDelta
  cases ok
  · exact ⟨prev, by simpa using hprev, rfl⟩
  · exact ⟨{ prev with nonceSent := n }, by simp [hprev], rfl⟩

/-- A send never touches the forced-response mark. -/
theorem sendDelta_always (s : State) (t : Ty) (n : String) (nn : Option (List String)) (ok : Bool) (prev : WR)
    (hprev : s t = some prev) : ∃ w, sendDelta s t n nn ok t = some w ∧ w.always = prev.always := by
  unfold sendDelta
  cases ok
  · exact ⟨prev, by simpa using hprev, rfl⟩
  · cases nn <;> simp [hprev]

end IstioModel.C04
