import IstioModel.C04.Theorems

/-!
C04 - the last sentence of the property for DELTA xDS, at trace level.

"After any exchange with a protocol-conformant client whose last message has been processed and was not a
rejection, the server's record of the client's subscription equals what the client last asked for."

A delta client states what it asks for incrementally: every `DeltaDiscoveryRequest` may carry
`resource_names_subscribe` / `resource_names_unsubscribe`, each change is sent exactly once, and the client
attaches pending changes to whatever request goes out next - a spontaneous request, an ACK, the ACK of a
response that a newer push has already overtaken (stale nonce), or a NACK.  What the client "last asked for"
is therefore the fold of ALL the changes it has sent, whatever the requests carrying them looked like.

`delta_trace_record` proves that for every sequence of requests of any of those shapes, interleaved in every
order with server sends (pushes and answers, successful or failed), the record of a named type is exactly that
fold.  `delta_trace_record_witness_unfixed` shows the statement is false for the code before the repair
(`keepSub = false`), on the trace of `Theorems.delta_stale_sub_lost_witness_unfixed`.
-/
namespace IstioModel.C04

/-- One event at the server for a fixed type: a request arrives, or a response is sent (`ok = false`: the
    send failed). -/
inductive DOp
  | req (r : DReq)
  | send (nonce : String) (ok : Bool) (gen : List String)   -- `gen`: the names the response carries

/-- The server side of the exchange (named types: sends do not rewrite the recorded names).  `keepSub = false`
    is the code before the repairs of `shouldRespondDelta` (ea06a0f, a581d69). -/
def runOp (keepSub : Bool) (t : Ty) (s : State) : DOp → State
  | .req r => (shouldRespondDeltaG true keepSub keepSub s r).state
  | .send n ok gen => sendDelta s t n (sentNames t gen) ok

def runOps (keepSub : Bool) (t : Ty) (s : State) (ops : List DOp) : State := ops.foldl (runOp keepSub t) s

/-- What the client asks for after one more request: the change the request carries, applied. -/
def askStep (m : String → Prop) (r : DReq) : String → Prop :=
  fun x => (m x ∨ x ∈ r.sub) ∧ x ∉ r.unsub ∧ x ≠ "*"

/-- What the client asks for after a sequence of events (sends do not change it). -/
def asked (m : String → Prop) : List DOp → String → Prop
  | [] => m
  | .req r :: ops => asked (askStep m r) ops
  | .send _ _ _ :: ops => asked m ops

/-- Conformance of the requests of a trace: all for the one type, `initial_resource_versions` only on the
    first request of a stream (which precedes the trace). -/
def ReqsOK (t : Ty) : List DOp → Prop
  | [] => True
  | .req r :: ops => r.ty = t ∧ r.init = [] ∧ ReqsOK t ops
  | .send _ _ _ :: ops => ReqsOK t ops

/-- One request of ANY shape on a watched, name-recording type: the record becomes the old record with the
    carried change applied; nothing else about the request matters. -/
theorem delta_step_record (s : State) (r : DReq) (prev : WR)
    (hprev : s r.ty = some prev) (hinit : r.init = []) (hm : r.ty.managed = false)
    (hstar : "*" ∉ prev.names) :
    ∃ w, (shouldRespondDelta s r).state r.ty = some w ∧ "*" ∉ w.names ∧
      ∀ x, x ∈ w.names ↔ ((x ∈ prev.names ∨ x ∈ r.sub) ∧ x ∉ r.unsub ∧ x ≠ "*") := by
  have hm' : (r.ty.managed && prev.wildcard) = false := by simp [hm]
  -- the record after a request that is applied
  have applied : ∀ w : WR, (∀ x, x ∈ w.names ↔
      ((x ∈ prev.names ∨ x ∈ r.sub ∨ x ∈ r.init) ∧ x ∉ r.unsub ∧ x ≠ "*")) →
      "*" ∉ w.names ∧ ∀ x, x ∈ w.names ↔ ((x ∈ prev.names ∨ x ∈ r.sub) ∧ x ∉ r.unsub ∧ x ≠ "*") := by
    intro w hw
    constructor
    · intro h
      exact ((hw "*").mp h).2.2 rfl
    · intro x
      rw [hw x, hinit]
      simp
  -- the record after a request that is dropped or only records an error: unchanged, and nothing was carried
  have unchanged : r.carries = false →
      "*" ∉ prev.names ∧ ∀ x, x ∈ prev.names ↔ ((x ∈ prev.names ∨ x ∈ r.sub) ∧ x ∉ r.unsub ∧ x ≠ "*") := by
    intro hc
    obtain ⟨hs, hu⟩ := (carries_false_iff r).mp hc
    refine ⟨hstar, ?_⟩
    intro x
    rw [hs, hu]
    constructor
    · intro hx
      exact ⟨Or.inl hx, by simp, fun e => hstar (e ▸ hx)⟩
    · rintro ⟨h1 | h1, _, _⟩
      · exact h1
      · simp at h1
  cases he : r.err with
  | some msg =>
    by_cases hc : r.carries = true
    · obtain ⟨b, s', w, hr, hw, hmem⟩ := delta_record_matches_request_nack s r prev msg he hprev hc hm'
      refine ⟨w, by rw [hr]; exact hw, applied w hmem⟩
    · have hcf : r.carries = false := by simpa using hc
      rw [delta_nack_silent s r msg prev he hprev hcf]
      refine ⟨{ prev with lastError := msg }, by simp [DRes.state], unchanged hcf⟩
  | none =>
    by_cases hkept : r.nonce = "" ∨ r.nonce = prev.nonceSent ∨ r.carries = true
    · cases hres : shouldRespondDelta s r with
      | crash => exact absurd hres (never_crashes_delta s r)
      | out b s' =>
        obtain ⟨w, hw, hmem⟩ := delta_record_matches_request s r prev b s' he hprev hkept hm' hres
        exact ⟨w, by simpa [DRes.state] using hw, applied w hmem⟩
    · have hn : r.nonce ≠ "" := fun e => hkept (Or.inl e)
      have hst : r.nonce ≠ prev.nonceSent := fun e => hkept (Or.inr (Or.inl e))
      have hcf : r.carries = false := by
        cases hcc : r.carries
        · rfl
        · exact absurd (Or.inr (Or.inr hcc)) hkept
      rw [delta_stale_nonce_silent s r prev he hprev hn hst hcf]
      exact ⟨prev, by simpa [DRes.state] using hprev, unchanged hcf⟩

theorem asked_congr (m m' : String → Prop) (h : ∀ x, m x ↔ m' x) (ops : List DOp) :
    ∀ x, asked m ops x ↔ asked m' ops x := by
  induction ops generalizing m m' with
  | nil => exact h
  | cons op ops ih =>
    cases op with
    | req r =>
      apply ih
      intro x
      unfold askStep
      rw [h x]
    | send n ok gen => exact ih m m' h

/-- **Record = what the client last asked for (delta, every exchange).**  From any state in which the type
    is watched, after ANY sequence of delta requests - spontaneous, ACK, stale ACK, NACK, each with or without
    a subscription change, in every order - interleaved with any server sends, the server's record of a
    name-recording NAMED type (EDS, RDS, SDS, ECDS: a push does not rewrite the record; for wildcard types the record
    follows what the pushes carry, property C03) is exactly the fold of the subscription changes the client has sent. -/
theorem delta_trace_record (t : Ty) (hm : t.managed = false) (hwild : t.wildcard = false) (ops : List DOp) :
    ∀ (s : State) (prev : WR), s t = some prev → "*" ∉ prev.names → ReqsOK t ops →
      ∃ w, runOps true t s ops t = some w ∧ ∀ x, x ∈ w.names ↔ asked (· ∈ prev.names) ops x := by
  induction ops with
  | nil =>
    intro s prev hprev _ _
    exact ⟨prev, hprev, fun x => Iff.rfl⟩
  | cons op ops ih =>
    intro s prev hprev hstar hok
    cases op with
    | req r =>
      obtain ⟨hty, hinit, hrest⟩ := hok
      subst hty
      obtain ⟨w, hw, hwstar, hmem⟩ := delta_step_record s r prev hprev hinit hm hstar
      obtain ⟨w2, hw2, hmem2⟩ := ih (shouldRespondDelta s r).state w hw hwstar hrest
      refine ⟨w2, by simpa [runOps, runOp, shouldRespondDelta] using hw2, ?_⟩
      intro x
      rw [hmem2 x]
      exact asked_congr _ _ (fun y => by unfold askStep; exact hmem y) ops x
    | send n ok gen =>
      obtain ⟨w, hw, hnames⟩ := sendDelta_names s t n ok prev hprev
      obtain ⟨w2, hw2, hmem2⟩ := ih (sendDelta s t n none ok) w hw (by rw [hnames]; exact hstar) hok
      refine ⟨w2, by simpa [runOps, runOp, sentNames_named t gen hwild] using hw2, ?_⟩
      intro x
      rw [hmem2 x]
      exact asked_congr _ _ (fun y => by rw [hnames]) ops x

/-- The trace of finding F-C04-2 as a `DOp` list, after the first request (subscribe `a`) created the watch. -/
def staleOps : List DOp :=
  [.send "n1" true ["a"], .send "n2" true ["a"], .req staleAckWithSub, .req ackN2]

def afterFirst (keepSub : Bool) : State :=
  (shouldRespondDeltaG true keepSub keepSub State.empty
    { ty := .eds, sub := ["a"], unsub := [], init := [], nonce := "", err := none }).state

/-- The hypotheses of `delta_trace_record` hold on that trace (non-vacuity) ... -/
example : afterFirst true .eds = some { names := ["a"] } ∧ "*" ∉ ["a"] ∧ ReqsOK .eds staleOps := by
  refine ⟨by decide, by decide, ?_⟩
  simp [staleOps, ReqsOK, staleAckWithSub, ackN2]

/-- ... the client asked for `b` on it ... -/
theorem staleOps_asks_b : asked (· ∈ ["a"]) staleOps "b" := by
  simp [staleOps, asked, askStep, staleAckWithSub, ackN2]

/-- ... and the code before the repair ends WITHOUT `b` on record: the trace-level statement is false there. -/
theorem delta_trace_record_witness_unfixed :
    ¬ (∃ w, runOps false .eds (afterFirst false) staleOps .eds = some w ∧
        ∀ x, x ∈ w.names ↔ asked (· ∈ ["a"]) staleOps x) := by
  rintro ⟨w, hw, hmem⟩
  have hb : "b" ∈ w.names := (hmem "b").mpr staleOps_asks_b
  have hnames : namesOf (runOps false .eds (afterFirst false) staleOps) .eds = some ["a"] := by decide
  have : w.names = ["a"] := by
    unfold namesOf at hnames
    rw [hw] at hnames
    simpa using hnames
  rw [this] at hb
  simp at hb

end IstioModel.C04
