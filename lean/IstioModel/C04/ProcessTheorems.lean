import IstioModel.C04.Process
import IstioModel.C04.ProcessLemmas
import IstioModel.C04.Theorems

/-!
C04 - the clauses of the property stated over the code that ANSWERS (`processRequest`, `pushXds`,
`processDeltaRequest`, `pushDeltaXds`, `forceEDSPush`, the push loops), for every generator, every
watch table and every request:

* a NACK, a stale nonce, an unsubscribe and an ACK never put a response on the stream and never call
  a generator (`proc_*_silent`, `dproc_*_silent`);
* a request that is answered is answered with at most one response of its own type (delta CDS: plus the
  forced EDS push), `proc_sent_shape`, `dproc_sent_types`;
* a subscription change is generated for exactly the newly subscribed names, the first request / a
  reconnect / a pending warming response for the whole set (`proc_added_names_generated`,
  `proc_first_request_generates_all`, `proc_warming_generates_all`, `dproc_sub_change_generated`);
* the outcome depends on the generator only through its answers to the recorded calls (`*_congr`):
  `calls` really is "what the generator was asked for";
* the nonce is recorded exactly when a response went out (`proc_nonce_recorded_iff_sent`).
-/
namespace IstioModel.C04

/-! ## Dropping `calls` gives the C03 functions -/

theorem procSotw_refines (gen : C03.Gen) (v : C03.Srv) (r : Req) :
    (procSotw gen v r).map (fun o => (o.srv, o.sent)) = C03.processSotw gen v r := by
  unfold procSotw C03.processSotw
  cases h : shouldRespond v.st r with
  | crash => rfl
  | out b sub s' => cases b <;> rfl

theorem pushAllSotwC_refines (gen : C03.Gen) (v : C03.Srv) (ts : List Ty) :
    ((pushAllSotwC gen v ts).srv, (pushAllSotwC gen v ts).sent) = C03.pushAllSotw gen v ts := by
  induction ts generalizing v with
  | nil => rfl
  | cons t ts ih =>
    unfold pushAllSotwC C03.pushAllSotw
    cases hf : (C03.pushSotwOne gen v t []).2.2
    · have := ih (C03.pushSotwOne gen v t []).1
      simp only [hf, Bool.false_eq_true, if_false]
      rw [← this]
    · simp [hf]

theorem procDelta_refines (gen : C03.Gen) (v : C03.Srv) (r : DReq) :
    (procDelta gen v r).map (fun o => (o.srv, o.sent)) = C03.processDelta gen v r := by
  unfold procDelta C03.processDelta
  cases h : shouldRespondDelta v.st r with
  | crash => rfl
  | out b s' =>
    cases b
    · rfl
    · simp only
      split <;> rfl

theorem pushAllDeltaC_refines (gen : C03.Gen) (v : C03.Srv) (ts : List Ty) :
    ((pushAllDeltaC gen v ts).srv, (pushAllDeltaC gen v ts).sent) = C03.pushAllDelta gen v ts := by
  induction ts generalizing v with
  | nil => rfl
  | cons t ts ih =>
    unfold pushAllDeltaC C03.pushAllDelta
    cases hf : (C03.pushDeltaOne gen v t [] []).2.2
    · have := ih (C03.pushDeltaOne gen v t [] []).1
      simp only [hf, Bool.false_eq_true, if_false]
      rw [← this]
    · simp [hf]

/-! ## One push, in closed form -/

/-! ## The outcome depends on the generator only through the recorded calls -/

theorem pushSotwOne_congr (gen gen' : C03.Gen) (v : C03.Srv) (t : Ty) (sub : List String)
    (h : ∀ c ∈ askedSotw v.st t sub, gen c.1 c.2 = gen' c.1 c.2) :
    C03.pushSotwOne gen v t sub = C03.pushSotwOne gen' v t sub := by
  cases hw : v.st t with
  | none => rw [pushSotwOne_none _ _ _ _ hw, pushSotwOne_none _ _ _ _ hw]
  | some w =>
    have := h (t, C03.narrowedSotw w.names sub) (by simp [askedSotw, hw])
    simp only at this
    rw [pushSotwOne_some _ _ _ _ w hw, pushSotwOne_some _ _ _ _ w hw, this]

theorem pushDeltaOne_congr (gen gen' : C03.Gen) (v : C03.Srv) (t : Ty) (sub unsub : List String)
    (h : ∀ c ∈ askedDelta v.st t sub unsub, gen c.1 c.2 = gen' c.1 c.2) :
    C03.pushDeltaOne gen v t sub unsub = C03.pushDeltaOne gen' v t sub unsub := by
  cases hw : v.st t with
  | none => rw [pushDeltaOne_none _ _ _ _ _ hw, pushDeltaOne_none _ _ _ _ _ hw]
  | some w =>
    have := h (t, C03.narrowedDelta t w.names sub unsub) (by simp [askedDelta, hw])
    simp only at this
    simp only [C03.pushDeltaOne, hw, this]

/-- **`calls` is what the generator was asked for (SotW)**: two generators that agree on the recorded
    calls produce the same responses, the same calls and the same watch table. -/
theorem procSotw_congr (gen gen' : C03.Gen) (v : C03.Srv) (r : Req) (o : POut)
    (ho : procSotw gen v r = some o) (h : ∀ c ∈ o.calls, gen c.1 c.2 = gen' c.1 c.2) :
    procSotw gen' v r = some o := by
  unfold procSotw at ho ⊢
  cases hs : shouldRespond v.st r with
  | crash => simp [hs] at ho
  | out b sub s' =>
    cases b
    · simpa [hs] using ho
    · simp only [hs, Option.some.injEq] at ho ⊢
      subst ho
      simp only at h
      rw [pushSotwOne_congr gen' gen { v with st := s' } r.ty sub (fun c hc => (h c (by simpa using hc)).symm)]

theorem pushAllSotwC_congr (gen gen' : C03.Gen) (v : C03.Srv) (ts : List Ty)
    (h : ∀ c ∈ (pushAllSotwC gen v ts).calls, gen c.1 c.2 = gen' c.1 c.2) :
    pushAllSotwC gen' v ts = pushAllSotwC gen v ts := by
  induction ts generalizing v with
  | nil => rfl
  | cons t ts ih =>
    unfold pushAllSotwC at h ⊢
    have h1 : C03.pushSotwOne gen' v t [] = C03.pushSotwOne gen v t [] := by
      apply pushSotwOne_congr
      intro c hc
      refine (h c ?_).symm
      have hc' : c ∈ (askedSotw v.st t []).toList := by simpa using hc
      cases hf : (C03.pushSotwOne gen v t []).2.2 <;> simp [hf, hc']
    rw [h1]
    cases hf : (C03.pushSotwOne gen v t []).2.2
    · simp only [hf, Bool.false_eq_true, if_false] at h ⊢
      rw [ih (C03.pushSotwOne gen v t []).1 (fun c hc => h c (by simp [hc]))]
    · simp [hf]

theorem pushAllDeltaC_congr (gen gen' : C03.Gen) (v : C03.Srv) (ts : List Ty)
    (h : ∀ c ∈ (pushAllDeltaC gen v ts).calls, gen c.1 c.2 = gen' c.1 c.2) :
    pushAllDeltaC gen' v ts = pushAllDeltaC gen v ts := by
  induction ts generalizing v with
  | nil => rfl
  | cons t ts ih =>
    unfold pushAllDeltaC at h ⊢
    have h1 : C03.pushDeltaOne gen' v t [] [] = C03.pushDeltaOne gen v t [] [] := by
      apply pushDeltaOne_congr
      intro c hc
      refine (h c ?_).symm
      have hc' : c ∈ (askedDelta v.st t [] []).toList := by simpa using hc
      cases hf : (C03.pushDeltaOne gen v t [] []).2.2 <;> simp [hf, hc']
    rw [h1]
    cases hf : (C03.pushDeltaOne gen v t [] []).2.2
    · simp only [hf, Bool.false_eq_true, if_false] at h ⊢
      rw [ih (C03.pushDeltaOne gen v t [] []).1 (fun c hc => h c (by simp [hc]))]
    · simp [hf]

/-! ## State of the world: silent classes -/

/-- Whatever `ShouldRespond` classifies as "do not respond" puts nothing on the stream, calls no
    generator, and leaves exactly the watch table `ShouldRespond` produced. -/
theorem proc_silent_of_not_respond (gen : C03.Gen) (v : C03.Srv) (r : Req) (sub : List String) (s' : State)
    (h : shouldRespond v.st r = .out false sub s') :
    procSotw gen v r = some { srv := { v with st := s' }, sent := [], calls := [] } := by
  simp [procSotw, h]

/-- A NACK for a watched type is never answered: nothing is sent, no generator runs, only `LastError` changes. -/
theorem proc_nack_silent (gen : C03.Gen) (v : C03.Srv) (r : Req) (msg : String) (w : WR) (herr : r.err = some msg)
    (hw : v.st r.ty = some w) :
    procSotw gen v r = some { srv := { v with st := v.st.set r.ty (some { w with lastError := msg }) },
                              sent := [], calls := [] } :=
  proc_silent_of_not_respond gen v r [] _ (nack_silent v.st r msg w herr hw)

/-- A request with `error_detail` for a type that is not watched on the stream is the first request of the type:
    the handler does exactly what it does for the same request without `error_detail`. -/
theorem proc_nack_unwatched_is_first_request (gen : C03.Gen) (v : C03.Srv) (r : Req) (msg : String)
    (herr : r.err = some msg) (hnone : v.st r.ty = none) : procSotw gen v r = procSotw gen v r.clean := by
  unfold procSotw
  rw [nack_unwatched_is_first_request v.st r msg herr hnone]
  rfl

/-- A request echoing a nonce that is not the last one recorded - on a watch something was sent on - is dropped. -/
theorem proc_stale_silent (gen : C03.Gen) (v : C03.Srv) (r : Req) (prev : WR)
    (herr : r.err = none) (hsub : r.unsub = false) (hprev : v.st r.ty = some prev)
    (hn : r.nonce ≠ "") (hsent : prev.nonceSent ≠ "") (hstale : r.nonce ≠ prev.nonceSent) :
    procSotw gen v r = some { srv := v, sent := [], calls := [] } :=
  proc_silent_of_not_respond gen v r [] _ (stale_nonce_silent v.st r prev herr hsub hprev hn hsent hstale)

/-- An unsubscribe deletes the watch and is not answered. -/
theorem proc_unsubscribe_silent (gen : C03.Gen) (v : C03.Srv) (r : Req)
    (herr : r.err = none) (hsub : r.unsub = true) :
    procSotw gen v r = some { srv := { v with st := v.st.set r.ty none }, sent := [], calls := [] } :=
  proc_silent_of_not_respond gen v r [] _ (unsubscribe_deletes_watch v.st r herr hsub)

/-- An ACK is recorded and not answered. -/
theorem proc_ack_silent (gen : C03.Gen) (v : C03.Srv) (r : Req) (prev : WR)
    (herr : r.err = none) (hsub : r.unsub = false) (hprev : v.st r.ty = some prev)
    (hn : r.nonce ≠ "") (hcur : r.nonce = prev.nonceSent) (halways : prev.always = false)
    (hsame : ∀ x, x ∈ r.names ↔ x ∈ prev.names) :
    procSotw gen v r = some { srv := { v with st := acked v.st r prev }, sent := [], calls := [] } :=
  proc_silent_of_not_respond gen v r [] _ (ack_silent v.st r prev herr hsub hprev hn hcur halways hsame)

/-- Removing names of a named type (EDS, RDS, SDS, ECDS) is recorded and not answered. -/
theorem proc_removed_only_named_silent (gen : C03.Gen) (v : C03.Srv) (r : Req) (prev : WR)
    (herr : r.err = none) (hsub : r.unsub = false) (hprev : v.st r.ty = some prev)
    (hn : r.nonce ≠ "") (hcur : r.nonce = prev.nonceSent) (halways : prev.always = false)
    (hsubset : ∀ x ∈ r.names, x ∈ prev.names) (y : String) (hy : y ∈ prev.names) (hgone : y ∉ r.names)
    (hw : r.ty.wildcard = false) :
    procSotw gen v r = some { srv := { v with st := acked v.st r prev }, sent := [], calls := [] } := by
  have := removed_only v.st r prev herr hsub hprev hn hcur halways hsubset y hy hgone
  rw [hw] at this
  exact proc_silent_of_not_respond gen v r [] _ this

/-! ## State of the world: answered classes -/

/-- Closed form of an answered request: ONE generator call on the (narrowed) name set, ONE response
    of the request's type unless the generator has nothing or the send fails, and the nonce is recorded
    exactly when the response went out. -/
theorem proc_respond_form (gen : C03.Gen) (v : C03.Srv) (r : Req) (sub : List String) (s' : State)
    (h : shouldRespond v.st r = .out true sub s') :
    procSotw gen v r = some (
      if (gen r.ty (C03.narrowedSotw r.names sub)).resNil || v.fail then
        { srv := { v with st := s' }, sent := [], calls := [(r.ty, C03.narrowedSotw r.names sub)] }
      else
        { srv := { v with st := send s' r.ty (C03.freshNonce v) true, ctr := v.ctr + 1 },
          sent := [{ ty := r.ty, resources := (gen r.ty (C03.narrowedSotw r.names sub)).res, removed := [],
                     nonce := C03.freshNonce v }],
          calls := [(r.ty, C03.narrowedSotw r.names sub)] }) := by
  obtain ⟨w, hw, _, hnames⟩ := responded_state_clean v.st r sub s' h
  simp only [procSotw, h, askedSotw, hw, Option.map_some, Option.toList_some]
  rw [pushSotwOne_some gen { v with st := s' } r.ty sub w hw, hnames]
  cases h1 : (gen r.ty (C03.narrowedSotw r.names sub)).resNil <;> cases h2 : v.fail <;>
    simp_all [C03.freshNonce]

/-- First request of a type / reconnect: the generator is asked for the whole requested set. -/
theorem proc_first_request_generates_all (gen : C03.Gen) (v : C03.Srv) (r : Req) (o : POut)
    (hnew : v.st r.ty = none ∨ r.nonce = "") (herr : r.err = none) (hsub : r.unsub = false)
    (ho : procSotw gen v r = some o) :
    o.calls = [(r.ty, r.names)] := by
  have h : shouldRespond v.st r = .out true [] (newWatched v.st r.ty r.names) := by
    rcases hnew with h1 | h1
    · exact first_request_or_reconnect_responds v.st r h1 herr hsub
    · exact empty_nonce_responds v.st r herr hsub h1
  rw [proc_respond_form gen v r [] _ h] at ho
  injection ho with ho
  subst ho
  split <;> simp [C03.narrowedSotw]

/-- **A request for a watch nothing was sent on yet** (the previous answer had nothing to send) is generated for
    the whole requested set, whatever nonce it echoes. -/
theorem proc_unsent_watch_generates_all (gen : C03.Gen) (v : C03.Srv) (r : Req) (prev : WR) (o : POut)
    (herr : r.err = none) (hsub : r.unsub = false) (hprev : v.st r.ty = some prev) (hsent : prev.nonceSent = "")
    (ho : procSotw gen v r = some o) :
    o.calls = [(r.ty, r.names)] ∧ ∃ w, o.srv.st r.ty = some w ∧ w.names = r.names := by
  have h := unsent_watch_request_responds v.st r prev herr hsub hprev hsent
  rw [proc_respond_form gen v r [] _ h] at ho
  injection ho with ho
  subst ho
  split
  · exact ⟨by simp [C03.narrowedSotw], _, newWatched_self _ _ _, rfl⟩
  · refine ⟨by simp [C03.narrowedSotw], ?_⟩
    obtain ⟨w, hw, _⟩ := send_ok_records_nonce (newWatched v.st r.ty r.names) r.ty (C03.freshNonce v)
      (by simp [C03.freshNonce])
    refine ⟨w, hw, ?_⟩
    simp [send, C03.freshNonce, newWatched_self] at hw
    rw [← hw]

/-- **Narrowing**: a request with the current nonce that adds names (no warming response pending) makes
    the generator produce exactly the newly subscribed names - not the names already delivered. -/
theorem proc_added_names_generated (gen : C03.Gen) (v : C03.Srv) (r : Req) (prev : WR) (o : POut)
    (herr : r.err = none) (hsub : r.unsub = false) (hprev : v.st r.ty = some prev)
    (hn : r.nonce ≠ "") (hcur : r.nonce = prev.nonceSent) (halways : prev.always = false)
    (x : String) (hx : x ∈ r.names) (hnew : x ∉ prev.names)
    (ho : procSotw gen v r = some o) :
    o.calls = [(r.ty, diff r.names prev.names)] ∧
    (∀ w ∈ o.sent, w.ty = r.ty ∧ w.resources = (gen r.ty (diff r.names prev.names)).res) := by
  have h := added_names_respond v.st r prev herr hsub hprev hn hcur x hx hnew
  rw [halways] at h
  simp only [Bool.false_eq_true, if_false] at h
  have hne : (diff r.names prev.names).isEmpty = false := by
    cases hh : (diff r.names prev.names).isEmpty
    · rfl
    · exact absurd (diff_isEmpty_iff.mp hh x hx) hnew
  have hnar : C03.narrowedSotw r.names (diff r.names prev.names) = diff r.names prev.names := by
    simp [C03.narrowedSotw, hne]
  rw [proc_respond_form gen v r _ _ h, hnar] at ho
  injection ho with ho
  subst ho
  split <;> simp

/-- A pending warming response (`AlwaysRespond`) is generated for the whole requested set. -/
theorem proc_warming_generates_all (gen : C03.Gen) (v : C03.Srv) (r : Req) (prev : WR) (o : POut)
    (herr : r.err = none) (hsub : r.unsub = false) (hprev : v.st r.ty = some prev)
    (hn : r.nonce ≠ "") (hcur : r.nonce = prev.nonceSent) (halways : prev.always = true)
    (ho : procSotw gen v r = some o) :
    o.calls = [(r.ty, r.names)] := by
  have h := always_respond_answers v.st r prev herr hsub hprev hn hcur halways
  rw [proc_respond_form gen v r _ _ h] at ho
  injection ho with ho
  subst ho
  split <;> simp [C03.narrowedSotw]

/-- **Proxyless gRPC clients are never narrowed**: whatever the request, if it is answered the generator is asked
    for the whole requested set. -/
theorem proc_grpc_generates_all (gen : C03.Gen) (v : C03.Srv) (r : Req) (o : POut)
    (ho : procSotwGrpc gen v r = some o) : o.calls = [] ∨ o.calls = [(r.ty, r.names)] := by
  unfold procSotwGrpc at ho
  cases hs : shouldRespond v.st r with
  | crash => simp [hs] at ho
  | out b sub s' =>
    cases b
    · simp only [hs, Option.some.injEq] at ho
      subst ho; exact Or.inl rfl
    · obtain ⟨w, hw, _, hnames⟩ := responded_state_clean v.st r sub s' hs
      simp only [hs, Option.some.injEq] at ho
      subst ho
      right
      simp [askedSotw, hw, C03.narrowedSotw, hnames]

/-- ... and the decision to answer, the state and the silent classes are those of every other client. -/
theorem proc_grpc_same_decision (gen : C03.Gen) (v : C03.Srv) (r : Req) (sub : List String) (s' : State)
    (h : shouldRespond v.st r = .out false sub s') : procSotwGrpc gen v r = procSotw gen v r := by
  simp [procSotwGrpc, procSotw, h]

/-- Shape of every outcome: at most one response, of the request's type; at most one generator call. -/
theorem proc_sent_shape (gen : C03.Gen) (v : C03.Srv) (r : Req) (o : POut)
    (ho : procSotw gen v r = some o) :
    o.sent.length ≤ 1 ∧ o.calls.length ≤ 1 ∧ (∀ w ∈ o.sent, w.ty = r.ty) ∧ (∀ c ∈ o.calls, c.1 = r.ty) ∧
    (o.sent ≠ [] → o.calls ≠ []) := by
  cases hs : shouldRespond v.st r with
  | crash => simp [procSotw, hs] at ho
  | out b sub s' =>
    cases b
    · rw [proc_silent_of_not_respond gen v r sub s' hs] at ho
      injection ho with ho; subst ho; simp
    · rw [proc_respond_form gen v r sub s' hs] at ho
      injection ho with ho; subst ho
      split <;> simp

/-- The nonce on record changes exactly when a response went out (anchor mechanism "nonce recorded
    only after a successful send"), and then it is the nonce of that response. -/
theorem proc_nonce_recorded_iff_sent (gen : C03.Gen) (v : C03.Srv) (r : Req) (sub : List String) (s' : State)
    (o : POut) (h : shouldRespond v.st r = .out true sub s') (ho : procSotw gen v r = some o) :
    (o.sent = [] ∧ o.srv.st = s') ∨
    (∃ w, o.sent = [w] ∧ ∃ wr, o.srv.st r.ty = some wr ∧ wr.nonceSent = w.nonce ∧ w.nonce ≠ "") := by
  rw [proc_respond_form gen v r sub s' h] at ho
  injection ho with ho; subst ho
  split
  · left; simp
  · right
    refine ⟨_, rfl, ?_⟩
    have hn : C03.freshNonce v ≠ "" := by simp [C03.freshNonce]
    obtain ⟨wr, h1, h2⟩ := send_ok_records_nonce s' r.ty (C03.freshNonce v) hn
    exact ⟨wr, h1, h2, hn⟩

/-! ## Delta: silent classes -/

theorem dproc_silent_of_not_respond (gen : C03.Gen) (v : C03.Srv) (r : DReq) (s' : State)
    (h : shouldRespondDelta v.st r = .out false s') :
    procDelta gen v r = some { srv := { v with st := s' }, sent := [], calls := [] } := by
  simp [procDelta, h]

/-- A delta NACK for a watched type without a subscription change: nothing sent, no generator call. -/
theorem dproc_nack_silent (gen : C03.Gen) (v : C03.Srv) (r : DReq) (msg : String) (w : WR)
    (herr : r.err = some msg) (hw : v.st r.ty = some w) (hc : r.carries = false) :
    procDelta gen v r = some { srv := { v with st := v.st.set r.ty (some { w with lastError := msg }) },
                               sent := [], calls := [] } :=
  dproc_silent_of_not_respond gen v r _ (delta_nack_silent v.st r msg w herr hw hc)

/-- A stale delta ACK without a subscription change: dropped. -/
theorem dproc_stale_silent (gen : C03.Gen) (v : C03.Srv) (r : DReq) (prev : WR)
    (herr : r.err = none) (hprev : v.st r.ty = some prev)
    (hn : r.nonce ≠ "") (hstale : r.nonce ≠ prev.nonceSent) (hc : r.carries = false) :
    procDelta gen v r = some { srv := v, sent := [], calls := [] } :=
  dproc_silent_of_not_respond gen v r _ (delta_stale_nonce_silent v.st r prev herr hprev hn hstale hc)

/-- An ACK (or a spontaneous request) that re-subscribes to names already on record is silent: the request carries
    subscribe names, yet nothing is sent and no generator runs.  This describes the code as it is - an OBSERVATION,
    not a clause of the property: the delta protocol would let a server re-send the re-subscribed resources, and
    the oracle accepts that too. -/
theorem dproc_resubscribe_silent (gen : C03.Gen) (v : C03.Srv) (r : DReq) (prev : WR)
    (herr : r.err = none) (hprev : v.st r.ty = some prev)
    (hfresh : r.nonce = "" ∨ r.nonce = prev.nonceSent) (halways : prev.always = false)
    (hm : (r.ty.managed && prev.wildcard) = false)
    (hs : ∀ x ∈ r.sub, x ∈ prev.names) (hi : ∀ x ∈ r.init, x ∈ prev.names) (hu : ∀ x ∈ r.unsub, x ∉ prev.names) :
    procDelta gen v r = some { srv := { v with st := v.st.set r.ty (some (deltaUpdate prev r)) },
                               sent := [], calls := [] } := by
  apply dproc_silent_of_not_respond
  rw [delta_fresh_branch v.st r prev herr hprev hfresh]
  have : deltaChanged prev r = false := by
    unfold deltaChanged
    simp only [hm, Bool.false_eq_true, if_false]
    exact deltaWatched_unchanged prev.names r hs hi hu
  rw [this, halways]; rfl

/-- A stale ACK that re-subscribes to names already on record stays silent as well (the subscription
    change it carries is empty in effect). -/
theorem dproc_stale_resubscribe_silent (gen : C03.Gen) (v : C03.Srv) (r : DReq) (prev : WR)
    (herr : r.err = none) (hprev : v.st r.ty = some prev)
    (hn : r.nonce ≠ "") (hstale : r.nonce ≠ prev.nonceSent) (halways : prev.always = false)
    (hm : (r.ty.managed && prev.wildcard) = false)
    (hs : ∀ x ∈ r.sub, x ∈ prev.names) (hi : ∀ x ∈ r.init, x ∈ prev.names) (hu : ∀ x ∈ r.unsub, x ∉ prev.names) :
    ∃ s', procDelta gen v r = some { srv := { v with st := s' }, sent := [], calls := [] } := by
  have hch : deltaChanged prev r = false := by
    unfold deltaChanged
    simp only [hm, Bool.false_eq_true, if_false]
    exact deltaWatched_unchanged prev.names r hs hi hu
  cases hc : r.carries
  · exact ⟨v.st, dproc_stale_silent gen v r prev herr hprev hn hstale hc⟩
  · refine ⟨v.st.set r.ty (some (deltaUpdateG true prev r)), dproc_silent_of_not_respond gen v r _ ?_⟩
    rw [delta_stale_sub_change_applied v.st r prev herr hprev hn hstale hc, hch, halways]; rfl

/-- A pure delta ACK is silent. -/
theorem dproc_ack_silent (gen : C03.Gen) (v : C03.Srv) (r : DReq) (prev : WR)
    (herr : r.err = none) (hprev : v.st r.ty = some prev)
    (hcur : r.nonce = prev.nonceSent) (halways : prev.always = false)
    (hs : r.sub = []) (hu : r.unsub = []) (hi : r.init = []) :
    ∃ s', procDelta gen v r = some { srv := { v with st := s' }, sent := [], calls := [] } := by
  obtain ⟨s', h⟩ := delta_ack_silent v.st r prev herr hprev hcur halways hs hu hi
  exact ⟨s', dproc_silent_of_not_respond gen v r s' h⟩

/-! ## Delta: answered classes -/

/-- **Narrowing (delta)**: the first generator call of an answered request is for the request's own
    type; for a request that carries a subscription change (types whose generator does not manage the
    names itself) it is for exactly the names the request subscribes to, otherwise for the whole record. -/
theorem dproc_sub_change_generated (gen : C03.Gen) (v : C03.Srv) (r : DReq) (s' : State) (o : POut)
    (h : shouldRespondDelta v.st r = .out true s') (ho : procDelta gen v r = some o) :
    ∃ w, s' r.ty = some w ∧
      o.calls.head? = some (r.ty,
        if !((deltaWatched [] r).1.isEmpty && (r.unsub.filter (· ≠ "*")).isEmpty) && !r.ty.managed
        then (deltaWatched [] r).1 else w.names) := by
  obtain ⟨w, hw, _⟩ := delta_responded_state_clean v.st r s' h
  refine ⟨w, hw, ?_⟩
  simp only [procDelta, h] at ho
  split at ho
  · injection ho with ho; subst ho
    simp [askedDelta, hw, C03.narrowedDelta]
  · injection ho with ho; subst ho
    simp [askedDelta, hw, C03.narrowedDelta]

/-- Every response to a delta request is of the request's type, or the forced EDS push after CDS;
    same for the generator calls; at most two of each. -/
theorem dproc_sent_types (gen : C03.Gen) (v : C03.Srv) (r : DReq) (o : POut)
    (ho : procDelta gen v r = some o) :
    (∀ w ∈ o.sent, w.ty = r.ty ∨ (r.ty = .cds ∧ w.ty = .eds)) ∧
    (∀ c ∈ o.calls, c.1 = r.ty ∨ (r.ty = .cds ∧ c.1 = .eds)) ∧ o.sent.length ≤ 2 ∧ o.calls.length ≤ 2 := by
  have hone : ∀ (v : C03.Srv) (t : Ty) (sub unsub : List String) (w : C03.Wire),
      (C03.pushDeltaOne gen v t sub unsub).2.1 = some w → w.ty = t := by
    intro v t sub unsub w hw
    unfold C03.pushDeltaOne at hw
    cases hst : v.st t with
    | none => simp [hst] at hw
    | some wr =>
      simp only [hst] at hw
      cases hp : C03.pushDelta t (C03.narrowedDelta t wr.names sub unsub)
          (gen t (C03.narrowedDelta t wr.names sub unsub)) with
      | none => simp [hp] at hw
      | some pr =>
        simp only [hp] at hw
        cases hf : v.fail
        · simp only [hf, Bool.false_eq_true, if_false, Option.some.injEq] at hw
          rw [← hw]
        · simp [hf] at hw
  have hask : ∀ (st : State) (t : Ty) (sub unsub : List String) (c : Call),
      c ∈ askedDelta st t sub unsub → c.1 = t := by
    intro st t sub unsub c hc
    unfold askedDelta at hc
    cases hst : st t <;> simp [hst] at hc
    rw [← hc]
  cases hs : shouldRespondDelta v.st r with
  | crash => simp [procDelta, hs] at ho
  | out b s' =>
    cases b
    · rw [dproc_silent_of_not_respond gen v r s' hs] at ho
      injection ho with ho; subst ho; simp
    · simp only [procDelta, hs] at ho
      split at ho
      · injection ho with ho; subst ho
        refine ⟨?_, ?_, ?_, ?_⟩
        · intro w hw
          exact Or.inl (hone _ _ _ _ w (by simpa using hw))
        · intro c hc
          exact Or.inl (hask _ _ _ _ c (by simpa using hc))
        · cases (C03.pushDeltaOne gen { v with st := s' } r.ty (deltaWatched [] r).1
            (r.unsub.filter (· ≠ "*"))).2.1 <;> simp
        · cases askedDelta s' r.ty (deltaWatched [] r).1 (r.unsub.filter (· ≠ "*")) <;> simp
      · rename_i hcond
        have hcds : r.ty = .cds := by
          by_cases hc : r.ty = .cds
          · exact hc
          · exact absurd (by simp [hc]) hcond
        injection ho with ho; subst ho
        refine ⟨?_, ?_, ?_, ?_⟩
        · intro w hw
          simp only [List.mem_append] at hw
          rcases hw with hw | hw
          · exact Or.inl (hone _ _ _ _ w (by simpa using hw))
          · exact Or.inr ⟨hcds, hone _ _ _ _ w (by simpa using hw)⟩
        · intro c hc
          simp only [List.mem_append] at hc
          rcases hc with hc | hc
          · exact Or.inl (hask _ _ _ _ c (by simpa using hc))
          · exact Or.inr ⟨hcds, hask _ _ _ _ c (by simpa using hc)⟩
        · simp only [List.length_append]
          have a : ∀ o : Option C03.Wire, o.toList.length ≤ 1 := by intro o; cases o <;> simp
          have := a (C03.pushDeltaOne gen { v with st := s' } r.ty (deltaWatched [] r).1 (r.unsub.filter (· ≠ "*"))).2.1
          have := a (C03.pushDeltaOne gen (C03.pushDeltaOne gen { v with st := s' } r.ty (deltaWatched [] r).1 (r.unsub.filter (· ≠ "*"))).1 .eds [] []).2.1
          omega
        · simp only [List.length_append]
          have a : ∀ o : Option Call, o.toList.length ≤ 1 := by intro o; cases o <;> simp
          have := a (askedDelta s' r.ty (deltaWatched [] r).1 (r.unsub.filter (· ≠ "*")))
          have := a (askedDelta (C03.pushDeltaOne gen { v with st := s' } r.ty (deltaWatched [] r).1 (r.unsub.filter (· ≠ "*"))).1.st .eds [] [])
          omega

/-- **`calls` is what the generator was asked for (delta).** -/
theorem procDelta_congr (gen gen' : C03.Gen) (v : C03.Srv) (r : DReq) (o : POut)
    (ho : procDelta gen v r = some o) (h : ∀ c ∈ o.calls, gen c.1 c.2 = gen' c.1 c.2) :
    procDelta gen' v r = some o := by
  unfold procDelta at ho ⊢
  cases hs : shouldRespondDelta v.st r with
  | crash => simp [hs] at ho
  | out b s' =>
    cases b
    · simpa [hs] using ho
    · simp only [hs] at ho ⊢
      have h1 : C03.pushDeltaOne gen' { v with st := s' } r.ty (deltaWatched [] r).1 (r.unsub.filter (· ≠ "*"))
          = C03.pushDeltaOne gen { v with st := s' } r.ty (deltaWatched [] r).1 (r.unsub.filter (· ≠ "*")) := by
        apply pushDeltaOne_congr
        intro c hc
        refine (h c ?_).symm
        split at ho <;> (injection ho with ho; subst ho; simp only [List.mem_append]; simp_all)
      rw [h1]
      split at ho
      · rename_i hcond
        rw [if_pos hcond]; exact ho
      · rename_i hcond
        rw [if_neg hcond]
        injection ho with ho; subst ho
        have h2 : C03.pushDeltaOne gen' (C03.pushDeltaOne gen { v with st := s' } r.ty (deltaWatched [] r).1 (r.unsub.filter (· ≠ "*"))).1 .eds [] []
            = C03.pushDeltaOne gen (C03.pushDeltaOne gen { v with st := s' } r.ty (deltaWatched [] r).1 (r.unsub.filter (· ≠ "*"))).1 .eds [] [] := by
          apply pushDeltaOne_congr
          intro c hc
          refine (h c ?_).symm
          simp only [List.mem_append]
          right
          simpa using hc
        rw [h2]

/-! ## Generator errors and the returned error -/

def noErrs : Ty → Bool := fun _ => false

/-- Without failing generators the error-aware handlers are the handlers above. -/
theorem procSotwE_refines (gen : C03.Gen) (v : C03.Srv) (r : Req) :
    (procSotwE false noErrs gen v r).map (·.out) = procSotw gen v r ∧
    (procSotwE true noErrs gen v r).map (·.out) = procSotwGrpc gen v r := by
  unfold procSotwE procSotw procSotwGrpc
  cases h : shouldRespond v.st r with
  | crash => exact ⟨rfl, rfl⟩
  | out b sub s' => cases b <;> simp [noErrs]

theorem pushAllSotwE_refines (gen : C03.Gen) (v : C03.Srv) (ts : List Ty) :
    (pushAllSotwE noErrs gen v ts).out = pushAllSotwC gen v ts := by
  induction ts generalizing v with
  | nil => rfl
  | cons t ts ih =>
    unfold pushAllSotwE pushAllSotwC
    simp only [noErrs, Bool.false_and, Bool.false_eq_true, if_false]
    cases hf : (C03.pushSotwOne gen v t []).2.2
    · simp only [Bool.false_eq_true, if_false, ih]
    · simp

theorem procDeltaE_refines (gen : C03.Gen) (v : C03.Srv) (r : DReq) :
    (procDeltaE noErrs gen v r).map (·.out) = procDelta gen v r := by
  unfold procDeltaE procDelta
  cases h : shouldRespondDelta v.st r with
  | crash => rfl
  | out b s' =>
    cases b
    · rfl
    · simp only [noErrs, Bool.false_and, Bool.false_eq_true, if_false]
      split <;> rfl

theorem pushAllDeltaE_refines (gen : C03.Gen) (v : C03.Srv) (ts : List Ty) :
    (pushAllDeltaE noErrs gen v ts).out = pushAllDeltaC gen v ts := by
  induction ts generalizing v with
  | nil => rfl
  | cons t ts ih =>
    unfold pushAllDeltaE pushAllDeltaC
    simp only [noErrs, Bool.false_and, Bool.false_eq_true, if_false]
    cases hf : (C03.pushDeltaOne gen v t [] []).2.2
    · simp only [Bool.false_eq_true, if_false, ih]
    · simp

/-- **A SotW handler that returns an error has sent nothing** (failing generator or failed send): the caller ends
    the stream with no response of this request on the wire. -/
theorem procSotwE_error_sent_nothing (grpc : Bool) (errs : Ty → Bool) (gen : C03.Gen) (v : C03.Srv) (r : Req) (o : POutE)
    (ho : procSotwE grpc errs gen v r = some o) (he : o.err = true) : o.out.sent = [] := by
  unfold procSotwE at ho
  cases h : shouldRespond v.st r with
  | crash => simp [h] at ho
  | out b sub s' =>
    cases b
    · simp only [h, Option.some.injEq] at ho; subst ho; rfl
    · simp only [h] at ho
      generalize hs : (if grpc = true then [] else sub) = sub' at ho
      by_cases hc : (errs r.ty && !(askedSotw s' r.ty sub').toList.isEmpty) = true
      · rw [if_pos hc] at ho; injection ho with ho; subst ho; rfl
      · rw [if_neg hc] at ho; injection ho with ho
        subst ho
        -- the send failed: pushSotwOne reports no response
        simp only at he ⊢
        cases hw : s' r.ty with
        | none => rw [pushSotwOne_none gen _ r.ty sub' (by simpa using hw)] at he; cases he
        | some w =>
          rw [pushSotwOne_some gen { v with st := s' } r.ty sub' w (by simpa using hw)] at he ⊢
          split at he
          · cases he
          · split at he
            · simp_all
            · cases he

/-- A failing generator is called and its error returned, with nothing sent and the watch table as classified. -/
theorem procSotwE_generator_error (grpc : Bool) (errs : Ty → Bool) (gen : C03.Gen) (v : C03.Srv) (r : Req)
    (sub : List String) (s' : State) (h : shouldRespond v.st r = .out true sub s') (he : errs r.ty = true) :
    ∃ c, procSotwE grpc errs gen v r =
      some { out := { srv := { v with st := s' }, sent := [], calls := [c] }, err := true } ∧ c.1 = r.ty := by
  obtain ⟨w, hw, _, _⟩ := responded_state_clean v.st r sub s' h
  refine ⟨(r.ty, C03.narrowedSotw w.names (if grpc then [] else sub)), ?_, rfl⟩
  simp [procSotwE, h, he, askedSotw, hw]

end IstioModel.C04
