import IstioModel.C04.NoLoop

/-!
# C04 - no request / response loop, at trace level

A loop would be an exchange that keeps itself alive: the server answers, the client acknowledges, the
server answers the acknowledgement, ... with nobody changing anything.  `tail_responses_bounded`: take ANY
state of the closed loop of Protocol.lean (any watch table, any requests and responses in flight) and let
it run for as long as one likes with the environment quiet - the client only acknowledges or rejects what
it receives, the server only handles requests (no subscription change, no push, no warming mark).  Then the
number of responses the server sends during that run is bounded by the state it started from, not by
the length of the run: at most two per request that was already in flight and asks for something else
than the client's current subscription, plus one.  In particular (`settled_tail_silent`) once the record
matches the client's subscription and only acknowledgements are in flight, the server never sends again.
-/
namespace IstioModel.C04

theorem quiet_settled_silent_noerr (c : List String) (s : State) (m : Req) (he : m.err = none)
    (hn : m.names = c) (hnonce : m.nonce ≠ "") (hs : Settled m.ty c s) :
    ∃ sub s', shouldRespond s m = .out false sub s' ∧ Settled m.ty c s' := by
  cases hu : m.unsub
  · cases hp : s m.ty with
    | none =>
      exfalso
      unfold Settled at hs
      rw [hp] at hs
      simp [Req.unsub, hn, hs.1, hs.2] at hu
    | some w =>
      unfold Settled at hs
      rw [hp] at hs
      by_cases hcur : m.nonce = w.nonceSent
      · refine ⟨[], _, ack_silent s m w he hu hp hnonce hcur hs.1 (fun x => by rw [hn]; exact (hs.2.2 x).symm), ?_⟩
        unfold Settled
        simp [acked, hn, hs.2.1]
      · refine ⟨[], _, stale_nonce_silent s m w he hu hp hnonce hs.2.1 hcur, ?_⟩
        unfold Settled
        rw [hp]; exact hs
  · refine ⟨[], _, unsubscribe_deletes_watch s m he hu, ?_⟩
    unfold Settled
    simp only [State.set_same]
    simp only [Req.unsub, Bool.and_eq_true, Bool.not_eq_true'] at hu
    rw [← hn]; exact hu

/-- A quiet request (acknowledgement or rejection carrying the client's names) handled in a settled state is
    not answered and leaves the state settled. -/
theorem quiet_settled_silent (t : Ty) (c : List String) (s : State) (m : Req)
    (hq : quietMsg t c m = true) (hs : Settled t c s) :
    ∃ sub s', shouldRespond s m = .out false sub s' ∧ Settled t c s' := by
  simp only [quietMsg, Bool.and_eq_true, decide_eq_true_eq] at hq
  obtain ⟨⟨hty, hn⟩, hnonce⟩ := hq
  have hnonce' : m.nonce ≠ "" := by simpa using hnonce
  subst hty
  rcases respond_cases s m with ⟨msg, w, _, hw, hr⟩ | heq
  · refine ⟨[], _, hr, ?_⟩
    unfold Settled at hs ⊢
    rw [hw] at hs
    simpa using hs
  · rw [heq]
    exact quiet_settled_silent_noerr c s m.clean rfl hn hnonce' hs

/-- Whenever a request is answered and the response goes out, the record is settled for the names the
    request carried. -/
theorem answered_settles (s : State) (m : Req) (sub : List String) (s' : State) (n : String) (hn : n ≠ "")
    (h : shouldRespond s m = .out true sub s') : Settled m.ty m.names (send s' m.ty n true) := by
  obtain ⟨w, hw, hal, hnames⟩ := responded_state_clean s m sub s' h
  unfold Settled
  have : send s' m.ty n true m.ty = some { w with nonceSent := n } := by simp [send, hn, hw]
  rw [this]
  exact ⟨hal, hn, fun x => by simp [hnames]⟩

/-- One quiet step: what it sends is paid for by the potential. -/
theorem quiet_step (t : Ty) (y : Sys) (e : Step) (hq : e.quiet = true) (hs2c : ∀ n ∈ y.s2c, n ≠ "") :
    responds t y e + potential t (step t y e) ≤ potential t y ∧ (step t y e).cnames = y.cnames ∧
    (∀ n ∈ (step t y e).s2c, n ≠ "") := by
  cases e with
  | clientChange names => simp [Step.quiet] at hq
  | serverPush n => simp [Step.quiet] at hq
  | envAlways => simp [Step.quiet] at hq
  | clientRecv nack =>
    cases hs : y.s2c with
    | nil =>
      have hst : step t y (.clientRecv nack) = y := by simp [step, stepR, hs]
      rw [hst]
      exact ⟨by simp [responds], rfl, hs2c⟩
    | cons n rest =>
      have hn : n ≠ "" := hs2c n (by simp [hs])
      simp only [step, stepR, hs]
      refine ⟨?_, trivial, fun k hk => hs2c k (by simp [hs, hk])⟩
      have hquiet : quietMsg t y.cnames (clientMsg t { y with cnonce := n, s2c := rest } nack) = true := by
        simp [quietMsg, clientMsg, hn]
      simp only [responds, potential, Nat.zero_add, List.filter_append, List.filter_cons, hquiet, Bool.not_true,
        Bool.false_eq_true, if_false, List.filter_nil, List.append_nil]
      exact Nat.le_refl _
  | serverRecv n deliver =>
    cases hc : y.c2s with
    | nil =>
      have hst : step t y (.serverRecv n deliver) = y := by simp [step, stepR, hc]
      rw [hst]
      exact ⟨by simp [responds, hc], rfl, hs2c⟩
    | cons m rest =>
      by_cases hn : n = ""
      · have hst : step t y (.serverRecv n deliver) = y := by simp [step, stepR, hc, hn]
        rw [hst]
        exact ⟨by simp [responds, hc, hn], rfl, hs2c⟩
      · have hs2c' : ∀ k ∈ y.s2c ++ [n], k ≠ "" := by
          intro k hk
          simp only [List.mem_append, List.mem_singleton] at hk
          rcases hk with hk | hk
          · exact hs2c k hk
          · rw [hk]; exact hn
        have hr0 : shouldRespondR {} y.srv m = shouldRespond y.srv m := rfl
        by_cases hqm : quietMsg t y.cnames m = true
        · -- a quiet request
          have hqm2 := hqm
          simp only [quietMsg, Bool.and_eq_true, decide_eq_true_eq] at hqm2
          obtain ⟨⟨hty, hnm⟩, _⟩ := hqm2
          by_cases hset : Settled t y.cnames y.srv
          · obtain ⟨sub, s', hr, hset'⟩ := quiet_settled_silent t y.cnames y.srv m hqm hset
            simp only [step, stepR, responds, hc, hn, if_false, hr0, hr]
            refine ⟨?_, trivial, hs2c⟩
            simp only [potential, hc, List.filter_cons, hqm, Bool.not_true, Bool.false_eq_true, if_false, hset, hset',
              if_true, Nat.zero_add]
            exact Nat.le_refl _
          · cases hr : shouldRespond y.srv m with
            | crash => exact absurd hr (never_crashes _ _)
            | out b sub s' =>
              cases b
              · simp only [step, stepR, responds, hc, hn, if_false, hr0, hr]
                refine ⟨?_, trivial, hs2c⟩
                simp only [potential, hc, List.filter_cons, hqm, Bool.not_true, Bool.false_eq_true, if_false, hset,
                  Nat.zero_add]
                split <;> omega
              · cases deliver
                · -- answered, nothing went out: no response to pay for
                  simp only [step, stepR, responds, hc, hn, if_false, hr0, hr, Bool.false_eq_true]
                  refine ⟨?_, trivial, hs2c⟩
                  simp only [potential, hc, List.filter_cons, hqm, Bool.not_true, Bool.false_eq_true, if_false, hset,
                    Nat.zero_add]
                  split <;> omega
                · have hset' := answered_settles y.srv m sub s' n hn hr
                  rw [hty, hnm] at hset'
                  simp only [step, stepR, responds, hc, hn, if_false, hr0, hr, if_true]
                  refine ⟨?_, trivial, hs2c'⟩
                  simp only [potential, hc, List.filter_cons, hqm, Bool.not_true, Bool.false_eq_true, if_false, hset,
                    hset', if_true]
                  omega
        · -- a request that asks for something: it pays for itself and for the acknowledgement it may unsettle
          have hqm' : quietMsg t y.cnames m = false := by simpa using hqm
          have hpot : potential t y = 2 * (rest.filter (fun m => !quietMsg t y.cnames m)).length + 2 +
              (if Settled t y.cnames y.srv then 0 else 1) := by
            simp only [potential, hc, List.filter_cons, hqm', Bool.not_false, if_true, List.length_cons]
            omega
          cases hr : shouldRespond y.srv m with
          | crash => exact absurd hr (never_crashes _ _)
          | out b sub s' =>
            cases b
            · simp only [step, stepR, responds, hc, hn, if_false, hr0, hr]
              refine ⟨?_, trivial, hs2c⟩
              rw [hpot]
              simp only [potential, Nat.zero_add]
              split <;> split <;> omega
            · cases deliver
              · simp only [step, stepR, responds, hc, hn, if_false, hr0, hr, Bool.false_eq_true]
                refine ⟨?_, trivial, hs2c⟩
                rw [hpot]
                simp only [potential, Nat.zero_add]
                split <;> split <;> omega
              · simp only [step, stepR, responds, hc, hn, if_false, hr0, hr, if_true]
                refine ⟨?_, trivial, hs2c'⟩
                rw [hpot]
                simp only [potential]
                split <;> split <;> omega

/-- **No loop (trace level).**  With the environment quiet, the number of responses the server sends is
    bounded by the state the run starts from - however long the run. -/
theorem tail_responses_bounded (t : Ty) (steps : List Step) :
    ∀ (y : Sys), (∀ e ∈ steps, e.quiet = true) → (∀ n ∈ y.s2c, n ≠ "") →
      responses t y steps ≤ potential t y := by
  induction steps with
  | nil => intro y _ _; simp [responses]
  | cons e es ih =>
    intro y hq hs2c
    obtain ⟨h1, _, h3⟩ := quiet_step t y e (hq e (by simp)) hs2c
    have h4 := ih (step t y e) (fun e' he' => hq e' (by simp [he'])) h3
    simp only [responses]
    omega

/-- In particular: once the record matches the client's subscription and only acknowledgements / rejections
    are in flight, the server never sends again, however long client and server go on. -/
theorem settled_tail_silent (t : Ty) (y : Sys) (steps : List Step)
    (hq : ∀ e ∈ steps, e.quiet = true) (hs2c : ∀ n ∈ y.s2c, n ≠ "")
    (hset : Settled t y.cnames y.srv) (hmsgs : ∀ m ∈ y.c2s, quietMsg t y.cnames m = true) :
    responses t y steps = 0 := by
  have h := tail_responses_bounded t steps y hq hs2c
  have hp : potential t y = 0 := by
    simp only [potential, hset, if_true, Nat.add_zero, Nat.mul_eq_zero, List.length_eq_zero_iff, List.filter_eq_nil_iff]
    right
    intro m hm
    simp [hmsgs m hm]
  omega

/-- The responses in flight never carry an empty nonce in any run from a fresh stream (hypothesis of the two
    theorems above). -/
theorem s2c_nonempty_nonces (t : Ty) (y : Sys) (e : Step) (h : ∀ n ∈ y.s2c, n ≠ "") :
    ∀ n ∈ (step t y e).s2c, n ≠ "" := by
  cases e with
  | clientChange names => simpa [step, stepR] using h
  | clientRecv nack =>
    cases hs : y.s2c with
    | nil => simp [step, stepR, hs]
    | cons n rest =>
      simp only [step, stepR, hs]
      intro k hk; exact h k (by simp [hs, hk])
  | serverRecv n deliver =>
    simp only [step, stepR]
    cases hc : y.c2s with
    | nil => exact h
    | cons m rest =>
      simp only
      split
      · exact h
      · rename_i hn
        have hadd : ∀ k ∈ y.s2c ++ [n], k ≠ "" := by
          intro k hk
          simp only [List.mem_append, List.mem_singleton] at hk
          rcases hk with hk | hk
          · exact h k hk
          · rw [hk]; exact hn
        split
        · exact h
        · split
          · exact hadd
          · exact h
        · exact h
  | serverPush n =>
    simp only [step, stepR]
    split
    · exact h
    · rename_i hn
      split
      · exact h
      · intro k hk
        simp only [List.mem_append, List.mem_singleton] at hk
        rcases hk with hk | hk
        · exact h k hk
        · rw [hk]; exact hn
  | envAlways =>
    simp only [step, stepR]
    split <;> exact h

/-- Non-vacuity: a request adding `b` is in flight behind a stale one; running the quiet loop for 8 steps
    sends exactly 1 response (the first request is stale), within the bound 2 * 1 + 1. -/
example :
    let y : Sys := { srv := State.empty.set .eds (some { names := ["a"], nonceSent := "n1" }), cnames := ["a", "b"],
                     cnonce := "n1", c2s := [⟨.eds, ["a"], "n0", none⟩, ⟨.eds, ["a", "b"], "n1", none⟩], s2c := [],
                     sentAny := true, lastNack := false }
    responses .eds y [.serverRecv "n2" true, .serverRecv "n2" true, .clientRecv none, .serverRecv "n3" true, .clientRecv none,
      .serverRecv "n4" true, .clientRecv none, .serverRecv "n5" true] = 1 ∧ potential .eds y = 3 := by
  decide

end IstioModel.C04
