/-!
C04 - the event loop of a stream: `xds.Stream` (pkg/xds/server.go) and `DiscoveryServer.StreamDeltas`
(pilot/pkg/xds/delta.go), the same `select` loop twice, seen from outside: the requests the receive side hands
over and the push events are handled one at a time, in order; a request or a push whose handling FAILS ends the
stream with that error (nothing after it is handled); the client closing the stream, a transport error or the
cancellation of the stream's context end it as well.  `Connection.Push` calls `pushEv.done()` for every push it
handles - the push queue does not dispatch the connection again before.
(The interleaving of requests and pushes is the order of the event list: Go's `select` picks one.)
-/
namespace IstioModel.C04

inductive LEv
  | req (answers fails : Bool)     -- a request is handed over: it is answered or not, or its handling fails
  | push (answers fails : Bool)    -- a push event
  | eof                            -- the client closed the stream
  | recvErr                        -- the transport broke
  | ctxDone                        -- the stream's context is cancelled (what was handed over before is still handled)
  deriving DecidableEq, Repr

structure LOut where
  responses  : Nat := 0
  pushesDone : Nat := 0
  ended      : Bool := false
  error      : Bool := false
  deriving DecidableEq, Repr

def LOut.more (o : LOut) (r p : Nat) : LOut := { o with responses := o.responses + r, pushesDone := o.pushesDone + p }

/-- The loop over the events, in order. -/
def streamLoop : List LEv → LOut
  | [] => {}
  | .req a f :: es => if f then { ended := true, error := true } else (streamLoop es).more (if a then 1 else 0) 0
  | .push a f :: es =>
    -- `done` is called whether or not the push succeeded
    if f then { pushesDone := 1, ended := true, error := true } else (streamLoop es).more (if a then 1 else 0) 1
  | .eof :: _ => { ended := true }
  | .recvErr :: _ => { ended := true, error := true }
  | .ctxDone :: _ => { ended := true }

/-- No terminal event. -/
def LEv.goesOn : LEv → Bool
  | .req _ f => !f
  | .push _ f => !f
  | _ => false

/-- **A failing request ends the stream**: whatever follows it is never handled - the outcome does not depend on it. -/
theorem failing_request_ends_the_stream (pre post : List LEv) (a : Bool) (hpre : ∀ e ∈ pre, e.goesOn = true) :
    streamLoop (pre ++ .req a true :: post) = streamLoop (pre ++ [.req a true]) ∧
    (streamLoop (pre ++ .req a true :: post)).ended = true ∧ (streamLoop (pre ++ .req a true :: post)).error = true := by
  induction pre with
  | nil => simp [streamLoop]
  | cons e es ih =>
    have h := ih (fun x hx => hpre x (by simp [hx]))
    have he := hpre e (by simp)
    cases e with
    | req a' f =>
      simp only [LEv.goesOn, Bool.not_eq_true'] at he; subst he
      obtain ⟨h1, h2, h3⟩ := h
      simp only [List.cons_append, streamLoop, Bool.false_eq_true, if_false, LOut.more, h1]
      rw [h1] at h2 h3
      exact ⟨trivial, h2, h3⟩
    | push a' f =>
      simp only [LEv.goesOn, Bool.not_eq_true'] at he; subst he
      obtain ⟨h1, h2, h3⟩ := h
      simp only [List.cons_append, streamLoop, Bool.false_eq_true, if_false, LOut.more, h1]
      rw [h1] at h2 h3
      exact ⟨trivial, h2, h3⟩
    | eof => simp [LEv.goesOn] at he
    | recvErr => simp [LEv.goesOn] at he
    | ctxDone => simp [LEv.goesOn] at he

/-- **Every push that is handled is marked done**, so the queue can dispatch the connection again. -/
theorem every_push_done (es : List LEv) (h : ∀ e ∈ es, e.goesOn = true) :
    (streamLoop es).pushesDone = (es.filter (fun e => match e with | .push _ _ => true | _ => false)).length ∧
    (streamLoop es).ended = false := by
  induction es with
  | nil => simp [streamLoop]
  | cons e es ih =>
    have h' := ih (fun x hx => h x (by simp [hx]))
    have he := h e (by simp)
    cases e with
    | req a f => simp only [LEv.goesOn, Bool.not_eq_true'] at he; subst he; simp [streamLoop, LOut.more, h']
    | push a f => simp only [LEv.goesOn, Bool.not_eq_true'] at he; subst he; simp [streamLoop, LOut.more, h']
    | eof => simp [LEv.goesOn] at he
    | recvErr => simp [LEv.goesOn] at he
    | ctxDone => simp [LEv.goesOn] at he

/-- The scenarios of stream `sloop`. -/
def scenario : String → List LEv
  | "process-error" => [.req true false, .req false false, .req false true, .req true false]
  | "pushes" => [.req true false, .req false false, .push true false, .req false false, .push true false, .req false false]
  | "ctx-done" => [.req true false, .req false false, .ctxDone, .req true false]
  | "eof" => [.req true false, .req false false, .eof]
  | _ => []

end IstioModel.C04
