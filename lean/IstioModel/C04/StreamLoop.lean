/-!
C04 - the event loop of a stream: `xds.Stream` (pkg/xds/server.go) and `DiscoveryServer.StreamDeltas`
(pilot/pkg/xds/delta.go), the same `select` loop twice, seen from outside: the requests the receive side hands
over and the push events are handled one at a time, in order; a request or a push whose handling FAILS ends the
stream with that error (nothing after it is handled); the client closing the stream, a transport error or the
cancellation of the stream's context end it as well.  `Connection.Push` calls `pushEv.done()` for every push it
handles - the push queue does not dispatch the connection again before.
(The interleaving of requests and pushes is the order of the event list: Go's `select` picks one.)
-/
namespace IstioModel.C04

inductive LEv
  /-- A request is handed over: it is answered or not, or its handling fails.  `second`: which of the two copies of
      the request arm takes it - the polling `select` at the top of the loop (the loop was busy when the request came)
      or the blocking one (the loop was waiting). -/
  | req (second : Bool) (answers fails : Bool)
  | push (answers fails : Bool)    -- a push event
  | eof                            -- the client closed the stream
  | recvErr                        -- the transport broke
  | ctxDone                        -- the stream's context is cancelled (what was handed over before is still handled)
  | stop                           -- the connection is stopped from outside (`con.stop`)
  deriving DecidableEq, Repr

structure LOut where
  responses  : Nat := 0
  pushesDone : Nat := 0
  ended      : Bool := false
  error      : Bool := false
  deriving DecidableEq, Repr

def LOut.more (o : LOut) (r p : Nat) : LOut := { o with responses := o.responses + r, pushesDone := o.pushesDone + p }

/-- The loop over the events, in order. -/
def streamLoop : List LEv → LOut
  | [] => {}
  | .req _ a f :: es => if f then { ended := true, error := true } else (streamLoop es).more (if a then 1 else 0) 0
  | .push a f :: es =>
    -- `done` is called whether or not the push succeeded
    if f then { pushesDone := 1, ended := true, error := true } else (streamLoop es).more (if a then 1 else 0) 1
  | .eof :: _ => { ended := true }
  | .recvErr :: _ => { ended := true, error := true }
  | .ctxDone :: _ => { ended := true }
  | .stop :: _ => { ended := true }

/-- No terminal event. -/
def LEv.goesOn : LEv → Bool
  | .req _ _ f => !f
  | .push _ f => !f
  | _ => false

/-- **A failing request ends the stream**: whatever follows it is never handled - the outcome does not depend on it. -/
theorem failing_request_ends_the_stream (pre post : List LEv) (arm a : Bool) (hpre : ∀ e ∈ pre, e.goesOn = true) :
    streamLoop (pre ++ .req arm a true :: post) = streamLoop (pre ++ [.req arm a true]) ∧
    (streamLoop (pre ++ .req arm a true :: post)).ended = true ∧ (streamLoop (pre ++ .req arm a true :: post)).error = true := by
  induction pre with
  | nil => simp [streamLoop]
  | cons e es ih =>
    have h := ih (fun x hx => hpre x (by simp [hx]))
    have he := hpre e (by simp)
    cases e with
    | req arm' a' f =>
      simp only [LEv.goesOn, Bool.not_eq_true'] at he; subst he
      obtain ⟨h1, h2, h3⟩ := h
      simp only [List.cons_append, streamLoop, Bool.false_eq_true, if_false, LOut.more, h1]
      rw [h1] at h2 h3
      exact ⟨trivial, h2, h3⟩
    | push a' f =>
      simp only [LEv.goesOn, Bool.not_eq_true'] at he; subst he
      obtain ⟨h1, h2, h3⟩ := h
      simp only [List.cons_append, streamLoop, Bool.false_eq_true, if_false, LOut.more, h1]
      rw [h1] at h2 h3
      exact ⟨trivial, h2, h3⟩
    | eof => simp [LEv.goesOn] at he
    | recvErr => simp [LEv.goesOn] at he
    | ctxDone => simp [LEv.goesOn] at he
    | stop => simp [LEv.goesOn] at he

/-- **Every push that is handled is marked done**, so the queue can dispatch the connection again. -/
theorem every_push_done (es : List LEv) (h : ∀ e ∈ es, e.goesOn = true) :
    (streamLoop es).pushesDone = (es.filter (fun e => match e with | .push _ _ => true | _ => false)).length ∧
    (streamLoop es).ended = false := by
  induction es with
  | nil => simp [streamLoop]
  | cons e es ih =>
    have h' := ih (fun x hx => h x (by simp [hx]))
    have he := h e (by simp)
    cases e with
    | req arm a f => simp only [LEv.goesOn, Bool.not_eq_true'] at he; subst he; simp [streamLoop, LOut.more, h']
    | push a f => simp only [LEv.goesOn, Bool.not_eq_true'] at he; subst he; simp [streamLoop, LOut.more, h']
    | eof => simp [LEv.goesOn] at he
    | recvErr => simp [LEv.goesOn] at he
    | ctxDone => simp [LEv.goesOn] at he
    | stop => simp [LEv.goesOn] at he

/-- The other copy of the request arm. -/
def LEv.otherArm : LEv → LEv
  | .req second a f => .req (!second) a f
  | e => e

/-- **The two copies of the request arm behave alike**: which of them takes a request - i.e. whether the loop was
    busy or waiting when it came - makes no difference to what the stream does (in particular a failing request ends
    the stream from either).  The real loops are held to this by the scenarios `process-error-idle` / `-busy`. -/
theorem arms_alike (es : List LEv) (g : LEv → LEv) (hg : ∀ e, g e = e ∨ g e = e.otherArm) :
    streamLoop (es.map g) = streamLoop es := by
  induction es with
  | nil => rfl
  | cons e es ih =>
    simp only [List.map_cons]
    rcases hg e with h | h
    · rw [h]; cases e <;> simp [streamLoop, ih]
    · rw [h]; cases e <;> simp [streamLoop, LEv.otherArm, ih]

/-- A push is marked done also when handling it fails (`pushEv.done()` runs before the error is returned). -/
theorem failing_push_done (pre post : List LEv) (a : Bool) (hpre : ∀ e ∈ pre, e.goesOn = true) :
    (streamLoop (pre ++ .push a true :: post)).pushesDone =
      (pre.filter (fun e => match e with | .push _ _ => true | _ => false)).length + 1 ∧
    (streamLoop (pre ++ .push a true :: post)).error = true := by
  induction pre with
  | nil => simp [streamLoop]
  | cons e es ih =>
    have h := ih (fun x hx => hpre x (by simp [hx]))
    have he := hpre e (by simp)
    cases e with
    | req arm a' f => simp only [LEv.goesOn, Bool.not_eq_true'] at he; subst he; simp [streamLoop, LOut.more, h]
    | push a' f => simp only [LEv.goesOn, Bool.not_eq_true'] at he; subst he; simp [streamLoop, LOut.more, h]
    | eof => simp [LEv.goesOn] at he
    | recvErr => simp [LEv.goesOn] at he
    | ctxDone => simp [LEv.goesOn] at he
    | stop => simp [LEv.goesOn] at he

/-- The scenarios of stream `sloop` (a refused first request and a failed send are failing requests). -/
def scenario : String → List LEv
  | "process-error-idle" => [.req false true false, .req false false false, .req true false true, .req false true false]
  | "process-error-busy" => [.req false true false, .req false false true, .req false true false]
  | "no-node" => [.recvErr, .req false true false]
  | "transport-error" => [.req false true false, .recvErr]
  | "send-fails" => [.req false false true]
  | "stop" => [.req false true false, .stop, .req false true false]
  -- (the forced push reaches two watched types: one `push` event each)
  | "exchange" => [.req false true false, .req false false false, .req false false false, .req false true false,
                   .push true false, .push true false, .req true false false, .eof]
  | "pushes" => [.req false true false, .req false false false, .push true false, .req false false false, .push true false,
                 .req false false false]
  | "ctx-done" => [.req false true false, .req false false false, .ctxDone, .req false true false]
  | "eof" => [.req false true false, .req false false false, .eof]
  | _ => []

end IstioModel.C04
