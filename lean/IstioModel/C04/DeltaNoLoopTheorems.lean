import IstioModel.C04.DeltaProtocol
import IstioModel.C04.DeltaProtocolLemmas
import IstioModel.C04.DeltaTraceTheorems

/-!
# C04 - no request / response loop for DELTA xDS, at trace level

`delta_no_loop` / `delta_ack_silent` (Theorems.lean) are about an ACK that carries no subscription change.
A real delta client attaches pending changes to its ACKs.  `dtail_responses_bounded` covers that: from ANY
state of the delta closed loop (DeltaProtocol.lean), with the environment quiet - the client only
acknowledges / rejects what it receives (attaching whatever change is pending), the server only handles
requests - the number of responses is bounded by the state the run starts from: one per request in flight
that carries a change, one for a pending change, one if the type is not watched yet or a forced response is
pending.  It does not depend on the length of the run: an acknowledgement is never answered for its own sake.
-/
namespace IstioModel.C04

def dresponds (t : Ty) (y : DSys) : DStep → Nat
  | .serverRecv _ _ deliver =>
    match y.c2s with
    | [] => 0
    | m :: _ =>
      match shouldRespondDelta y.srv (m.toReq t) with
      | .out true _ => if deliver then 1 else 0
      | _ => 0
  | .serverPush _ ok _ => if (y.srv t).isSome && ok then 1 else 0
  | _ => 0

def dresponses (t : Ty) (y : DSys) : List DStep → Nat
  | [] => 0
  | e :: es => dresponds t y e + dresponses t (dstep t y e) es

def DStep.quiet : DStep → Bool
  | .serverRecv _ _ _ => true
  | .clientRecv _ => true
  | _ => false

def DMsg.carries (m : DMsg) : Bool := !m.sub.isEmpty || !m.unsub.isEmpty

/-- 1 when the next request may be answered whatever it carries: no watch yet, or a forced response pending. -/
def owes (t : Ty) (s : State) : Nat :=
  match s t with
  | none => 1
  | some w => if w.always then 1 else 0

def dpotential (t : Ty) (y : DSys) : Nat :=
  (y.c2s.filter DMsg.carries).length + (if y.pendSub.isEmpty && y.pendUnsub.isEmpty then 0 else 1) + owes t y.srv

theorem owes_le_one (t : Ty) (s : State) : owes t s ≤ 1 := by
  unfold owes
  cases h : s t with
  | none => simp
  | some w => simp only; split <;> omega

/-- Handling a request never creates a debt: a watch without a pending forced response stays one. -/
theorem handled_keeps_clean (s : State) (r : DReq) (w : WR) (hw : s r.ty = some w) (hal : w.always = false) :
    ∃ w', (shouldRespondDelta s r).state r.ty = some w' ∧ w'.always = false := by
  cases he : r.err with
  | some msg =>
    cases hc : r.carries
    · rw [delta_nack_silent s r msg w he hw hc]
      exact ⟨{ w with lastError := msg }, by simp [DRes.state], hal⟩
    · rw [delta_nack_sub_change_applied s r w msg he hw hc]
      exact ⟨deltaUpdateG true { w with lastError := msg } r, by simp [DRes.state], deltaUpdateG_always _ _ _⟩
  | none =>
    by_cases hst : r.nonce ≠ "" ∧ r.nonce ≠ w.nonceSent
    · cases hc : r.carries
      · rw [delta_stale_nonce_silent s r w he hw hst.1 hst.2 hc]
        exact ⟨w, by simpa [DRes.state] using hw, hal⟩
      · rw [delta_stale_sub_change_applied s r w he hw hst.1 hst.2 hc]
        exact ⟨deltaUpdateG true w r, by simp [DRes.state], deltaUpdateG_always _ _ _⟩
    · have hfresh : r.nonce = "" ∨ r.nonce = w.nonceSent := by
        by_cases h1 : r.nonce = ""
        · exact Or.inl h1
        · right
          by_cases h2 : r.nonce = w.nonceSent
          · exact h2
          · exact absurd ⟨h1, h2⟩ hst
      rw [delta_fresh_branch s r w he hw hfresh]
      exact ⟨deltaUpdate w r, by simp [DRes.state], deltaUpdate_always _ _⟩

/-- A request that carries no change, for a watched type with no forced response pending, is never answered -
    whatever its nonce, acknowledgement or rejection. -/
theorem plain_request_silent (s : State) (r : DReq) (w : WR) (hw : s r.ty = some w) (hal : w.always = false)
    (hs : r.sub = []) (hu : r.unsub = []) (hi : r.init = []) :
    ∃ s', shouldRespondDelta s r = .out false s' := by
  have hc : r.carries = false := (carries_false_iff r).mpr ⟨hs, hu⟩
  cases he : r.err with
  | some msg => exact ⟨_, delta_nack_silent s r msg w he hw hc⟩
  | none =>
    by_cases hst : r.nonce ≠ "" ∧ r.nonce ≠ w.nonceSent
    · exact ⟨_, delta_stale_nonce_silent s r w he hw hst.1 hst.2 hc⟩
    · have hfresh : r.nonce = "" ∨ r.nonce = w.nonceSent := by
        by_cases h1 : r.nonce = ""
        · exact Or.inl h1
        · right
          by_cases h2 : r.nonce = w.nonceSent
          · exact h2
          · exact absurd ⟨h1, h2⟩ hst
      rw [delta_fresh_branch s r w he hw hfresh]
      have : deltaChanged w r = false := by
        unfold deltaChanged
        by_cases hm : (r.ty.managed && w.wildcard) = true
        · simp [hs, hu, hm]
        · simp [hs, hu, hi, hm, deltaWatched, insertAll, eraseAll]
      rw [this, hal]
      exact ⟨_, rfl⟩

theorem dquiet_step (t : Ty) (y : DSys) (e : DStep) (hq : e.quiet = true) :
    dresponds t y e + dpotential t (dstep t y e) ≤ dpotential t y := by
  cases e with
  | clientWant add remove => simp [DStep.quiet] at hq
  | clientFlush => simp [DStep.quiet] at hq
  | serverPush n ok gen => simp [DStep.quiet] at hq
  | clientRecv nack =>
    cases hs : y.s2c with
    | nil =>
      have : dstep t y (.clientRecv nack) = y := by simp [dstep, hs]
      rw [this]; simp [dresponds]
    | cons n rest =>
      simp only [dstep, hs, dresponds, dpotential, DSys.outMsg, List.filter_append, List.length_append, Nat.zero_add,
        List.isEmpty_nil, Bool.and_self, if_true]
      by_cases hp : (y.pendSub.isEmpty && y.pendUnsub.isEmpty) = true
      · have : DMsg.carries { sub := y.pendSub, unsub := y.pendUnsub, nonce := n, err := nack } = false := by
          simp only [Bool.and_eq_true] at hp
          simp [DMsg.carries, hp.1, hp.2]
        simp [this, hp]
      · have : DMsg.carries { sub := y.pendSub, unsub := y.pendUnsub, nonce := n, err := nack } = true := by
          simp only [DMsg.carries]
          cases h1 : y.pendSub.isEmpty <;> cases h2 : y.pendUnsub.isEmpty <;> simp_all
        simp only [List.filter_cons, this, if_true, List.filter_nil, List.length_cons, List.length_nil, if_neg hp]
        omega
  | serverRecv n gen deliver =>
    cases hc : y.c2s with
    | nil =>
      have : dstep t y (.serverRecv n gen deliver) = y := by simp [dstep, hc]
      rw [this]; simp [dresponds, hc]
    | cons m rest =>
      have hty : (m.toReq t).ty = t := rfl
      cases hr : shouldRespondDelta y.srv (m.toReq t) with
      | crash => exact absurd hr (never_crashes_delta _ _)
      | out b s' =>
        -- (ii) no debt is created
        have hclean : owes t y.srv = 0 → owes t s' = 0 := by
          intro h0
          unfold owes at h0
          cases hw : y.srv t with
          | none => simp [hw] at h0
          | some w =>
            have hal : w.always = false := by
              cases ha : w.always
              · rfl
              · simp [hw, ha] at h0
            obtain ⟨w', hw', hal'⟩ := handled_keeps_clean y.srv (m.toReq t) w hw hal
            rw [hr] at hw'
            simp only [DRes.state] at hw'
            unfold owes
            rw [show s' t = some w' from hw']
            simp [hal']
        cases b
        · -- silent
          have h1 := owes_le_one t s'
          have h2 := owes_le_one t y.srv
          have h3 : owes t s' ≤ owes t y.srv + (if m.carries then 1 else 0) := by
            by_cases h0 : owes t y.srv = 0
            · have := hclean h0; omega
            · omega
          simp only [dstep, hc, hr, dresponds, dpotential, Nat.zero_add, List.filter_cons]
          cases hcar : m.carries
          · simp only [hcar, Bool.false_eq_true, if_false] at h3 ⊢
            omega
          · simp only [hcar, if_true, List.length_cons] at h3 ⊢
            omega
        · -- answered: the debt, if any, is paid; a plain request is answered only against a debt
          obtain ⟨w', hw', hal'⟩ := delta_responded_state_clean y.srv (m.toReq t) s' hr
          cases deliver
          · -- answered, nothing went out: no response to pay for, and the record owes nothing
            have howes0 : owes t s' = 0 := by
              unfold owes
              rw [show s' t = some w' from hw']
              simp [hal']
            simp only [dstep, hc, hr, dresponds, dpotential, List.filter_cons, howes0, Bool.false_eq_true, if_false]
            cases hcar : m.carries
            · simp only [Bool.false_eq_true, if_false]; omega
            · simp only [if_true, List.length_cons]; omega
          have howes' : owes t (sendDelta s' t n (sentNames t gen) true) = 0 := by
            obtain ⟨w2, hw2, hal2⟩ := sendDelta_always s' t n (sentNames t gen) true w' hw'
            unfold owes
            rw [hw2]
            simp [hal2, hal']
          simp only [dstep, hc, hr, dresponds, dpotential, List.filter_cons, howes', if_true]
          by_cases hcar : m.carries = true
          · simp only [hcar, if_true, List.length_cons]
            omega
          · have hcf : m.carries = false := by simpa using hcar
            simp only [hcf, Bool.false_eq_true, if_false]
            -- then the type was unwatched or owed a forced response
            have : owes t y.srv = 1 := by
              have hle := owes_le_one t y.srv
              by_cases h0 : owes t y.srv = 0
              · exfalso
                unfold owes at h0
                cases hw : y.srv t with
                | none => simp [hw] at h0
                | some w =>
                  have hal : w.always = false := by
                    cases ha : w.always
                    · rfl
                    · simp [hw, ha] at h0
                  simp only [DMsg.carries, Bool.or_eq_false_iff, Bool.not_eq_false', List.isEmpty_iff] at hcf
                  obtain ⟨s'', hs''⟩ := plain_request_silent y.srv (m.toReq t) w hw hal hcf.1 hcf.2 rfl
                  rw [hs''] at hr
                  injection hr with hb
                  cases hb
              · omega
            omega

/-- **No loop (delta, trace level).** -/
theorem dtail_responses_bounded (t : Ty) (steps : List DStep) :
    ∀ (y : DSys), (∀ e ∈ steps, e.quiet = true) → dresponses t y steps ≤ dpotential t y := by
  induction steps with
  | nil => intro y _; simp [dresponses]
  | cons e es ih =>
    intro y hq
    have h1 := dquiet_step t y e (hq e (by simp))
    have h2 := ih (dstep t y e) (fun e' he' => hq e' (by simp [he']))
    simp only [dresponses]
    omega

/-- Once the type is watched, nothing that carries a change is in flight or pending and no forced response is
    owed, the server never sends again - however many acknowledgements and rejections go back and forth. -/
theorem dsettled_tail_silent (t : Ty) (y : DSys) (steps : List DStep) (hq : ∀ e ∈ steps, e.quiet = true)
    (hmsgs : ∀ m ∈ y.c2s, m.carries = false) (hs : y.pendSub = []) (hu : y.pendUnsub = [])
    (w : WR) (hw : y.srv t = some w) (hal : w.always = false) :
    dresponses t y steps = 0 := by
  have h := dtail_responses_bounded t steps y hq
  have hp : dpotential t y = 0 := by
    have hf : y.c2s.filter DMsg.carries = [] := by
      rw [List.filter_eq_nil_iff]
      intro m hm
      simp [hmsgs m hm]
    simp [dpotential, hf, hs, hu, owes, hw, hal]
  omega

/-- Non-vacuity: the first request (`+a`) is in flight on a fresh stream (bound 2: it carries a change and the
    type is not watched yet); it is answered once, the acknowledgements that follow never are. -/
example :
    let y := drun .eds DSys.init [.clientWant ["a"] [], .clientFlush]
    dpotential .eds y = 2 ∧
    dresponses .eds y [.serverRecv "n1" ["a"] true, .clientRecv none, .serverRecv "n2" [] true, .clientRecv none, .serverRecv "n3" [] true] = 1 := by
  decide

end IstioModel.C04
