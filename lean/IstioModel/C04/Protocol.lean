import IstioModel.C04.Model

/-!
C04 - closed-loop protocol model: the server's SotW request handling (`shouldRespond`, `send`)
composed with a protocol-conformant client over two FIFO channels, for one xDS type `t`.

The client keeps the set of names it wants (`cnames`) and the nonce of the last response it has
received (`cnonce`, arbitrary at start: a reconnecting client retains its old nonce).  It
* may change its subscription at any time: it sends a request with its new names and `cnonce`;
* answers every response it receives with exactly one ACK or NACK echoing that response's nonce
  and carrying its current names.
The server handles the oldest undelivered request with `shouldRespond`; when that says "respond"
it generates a response; either that goes out with some non-empty nonce (`send`) and travels to the client, or
nothing goes out (the generator has nothing to send for the request, or the send fails: `deliver = false`).  The
server may also push spontaneously, and other types' requests may mark this type `AlwaysRespond` (warming).
Nonces are arbitrary non-empty strings: uniqueness is *not* assumed.
-/
namespace IstioModel.C04

structure Sys where
  srv      : State
  cnames   : List String
  cnonce   : String
  c2s      : List Req          -- requests in flight, oldest first
  s2c      : List String       -- nonces of responses in flight, oldest first
  sentAny  : Bool              -- the client has sent at least one request on this stream
  lastNack : Bool              -- the client's most recent message was a rejection

inductive Step
  | clientChange (names : List String)
  | clientRecv (nack : Option String)
  /-- The server handles the oldest request; when it decides to answer, `deliver = false` is the case in which
      nothing goes out: the generator has nothing to send (`pushXds` with `res == nil`) or the send fails. -/
  | serverRecv (n : String) (deliver : Bool)
  | serverPush (n : String)
  | envAlways

def clientMsg (t : Ty) (y : Sys) (err : Option String) : Req :=
  { ty := t, names := y.cnames, nonce := y.cnonce, err := err }

/-- One step of the closed loop; `f` selects the repaired / unrepaired `ShouldRespond`. -/
def stepR (f : Repairs) (t : Ty) (y : Sys) : Step → Sys
  | .clientChange names =>
    let y1 := { y with cnames := names }
    { y1 with c2s := y.c2s ++ [clientMsg t y1 none], sentAny := true, lastNack := false }
  | .clientRecv nack =>
    match y.s2c with
    | [] => y
    | n :: rest =>
      let y1 := { y with cnonce := n, s2c := rest }
      { y1 with c2s := y.c2s ++ [clientMsg t y1 nack], sentAny := true, lastNack := nack.isSome }
  | .serverRecv n deliver =>
    match y.c2s with
    | [] => y
    | m :: rest =>
      if n = "" then y else
      match shouldRespondR f y.srv m with
      | .crash => y
      | .out true _ s' =>
        if deliver then { y with srv := send s' t n true, c2s := rest, s2c := y.s2c ++ [n] }
        else { y with srv := s', c2s := rest }
      | .out false _ s' => { y with srv := s', c2s := rest }
  | .serverPush n =>
    if n = "" then y else
    match y.srv t with
    | none => y        -- pushes are only sent for watched types
    | some _ => { y with srv := send y.srv t n true, s2c := y.s2c ++ [n] }
  | .envAlways =>
    match y.srv t with
    | none => y
    | some w => { y with srv := y.srv.set t (some { w with always := true }) }

/-- The code in /repo. -/
def step (t : Ty) (y : Sys) (e : Step) : Sys := stepR {} t y e

/-- A fresh stream: the server has no watch for `t`; the client may retain any nonce and names. -/
def Sys.init (srv : State) (names : List String) (nonce : String) : Sys :=
  { srv := srv, cnames := names, cnonce := nonce, c2s := [], s2c := [], sentAny := false, lastNack := false }

def run (t : Ty) (y : Sys) (steps : List Step) : Sys := steps.foldl (step t) y

def runR (f : Repairs) (t : Ty) (y : Sys) (steps : List Step) : Sys := steps.foldl (stepR f t) y

/-- The server's record for `t` equals what the client currently asks for. -/
def recordMatches (s : State) (t : Ty) (names : List String) : Prop :=
  if names.isEmpty && !t.wildcard then s t = none else ∃ w, s t = some w ∧ w.names = names

end IstioModel.C04
