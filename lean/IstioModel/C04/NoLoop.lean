import IstioModel.C04.Protocol
import IstioModel.C04.Theorems

/-! C04 - definitions for NoLoopTheorems.lean: counting the responses of a schedule of the closed loop, the
    quiet environment, and the potential that bounds them.  Not counted as obligations. -/
namespace IstioModel.C04

/-- Responses sent by one step. -/
def responds (t : Ty) (y : Sys) : Step → Nat
  | .serverRecv n deliver =>
    match y.c2s with
    | [] => 0
    | m :: _ =>
      if n = "" then 0 else
      match shouldRespond y.srv m with
      | .out true _ _ => if deliver then 1 else 0
      | _ => 0
  | .serverPush n => if n = "" then 0 else if (y.srv t).isSome then 1 else 0
  | _ => 0

/-- Responses sent during a schedule. -/
def responses (t : Ty) (y : Sys) : List Step → Nat
  | [] => 0
  | e :: es => responds t y e + responses t (step t y e) es

/-- The environment is quiet: the client only acknowledges / rejects, the server only handles requests. -/
def Step.quiet : Step → Bool
  | .serverRecv _ _ => true
  | .clientRecv _ => true
  | _ => false

/-- A request that asks for nothing new: an acknowledgement or a rejection (non-empty nonce) carrying the
    client's current names `c`. -/
def quietMsg (t : Ty) (c : List String) (m : Req) : Bool :=
  m.ty = t && m.names = c && m.nonce ≠ ""

/-- The server's record agrees with the client's names `c`, something has been sent on the watch and no forced
    response is pending. -/
def Settled (t : Ty) (c : List String) (s : State) : Prop :=
  match s t with
  | none => c.isEmpty = true ∧ t.wildcard = false
  | some w => w.always = false ∧ w.nonceSent ≠ "" ∧ ∀ x, x ∈ w.names ↔ x ∈ c

def settledB (t : Ty) (c : List String) (s : State) : Bool :=
  match s t with
  | none => c.isEmpty && !t.wildcard
  | some w => !w.always && w.nonceSent != "" && w.names.all (fun x => c.contains x) && c.all (fun x => w.names.contains x)

theorem settledB_iff (t : Ty) (c : List String) (s : State) : settledB t c s = true ↔ Settled t c s := by
  unfold settledB Settled
  cases s t with
  | none => simp
  | some w =>
    simp only [Bool.and_eq_true, Bool.not_eq_true', List.all_eq_true, List.contains_iff_mem, and_assoc, bne_iff_ne, ne_eq]
    constructor
    · rintro ⟨h1, h0, h2, h3⟩; exact ⟨h1, h0, fun x => ⟨h2 x, h3 x⟩⟩
    · rintro ⟨h1, h0, h2⟩; exact ⟨h1, h0, fun x hx => (h2 x).mp hx, fun x hx => (h2 x).mpr hx⟩

instance (t : Ty) (c : List String) (s : State) : Decidable (Settled t c s) :=
  decidable_of_iff _ (settledB_iff t c s)

/-- The bound: what is in flight and not quiet counts twice, an unsettled record once. -/
def potential (t : Ty) (y : Sys) : Nat :=
  2 * (y.c2s.filter (fun m => !quietMsg t y.cnames m)).length + (if Settled t y.cnames y.srv then 0 else 1)

end IstioModel.C04
