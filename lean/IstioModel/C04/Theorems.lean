import IstioModel.C04.Model
import IstioModel.C04.Lemmas

/-!
# C04 - property theorems

"For every xDS type the server responds to a first request, to a request that adds names to the
subscription it has on record and to a reconnect, and stays silent on an ACK, on a NACK and on a
request carrying a stale nonce; it never enters a request/response loop, and no request sequence,
conformant or not, crashes it.  After any exchange with a protocol-conformant client whose last
message has been processed and was not a rejection, the server's record of the client's
subscription equals what the client last asked for."

Every theorem quantifies over *all* states and requests (no bound on names, nonces, history).
-/
namespace IstioModel.C04

/-! ## Crash freedom -/

/-- No request, conformant or not, in any state, crashes the SotW classification
    (holds for the repaired code; see `crash_witness_unguarded` for the pinned tree). -/
theorem respondTail_never_crashes (f : Repairs) (s : State) (r : Req) : respondTail f s r ≠ .crash := by
  unfold respondTail
  split
  · simp
  · cases s r.ty <;> simp only []
    · simp
    · repeat' split
      all_goals simp

theorem never_crashes (s : State) (r : Req) : shouldRespond s r ≠ .crash := by
  unfold shouldRespond shouldRespondR
  cases r.err <;> simp only []
  · exact respondTail_never_crashes _ _ _
  · cases s r.ty <;> simp only []
    · simp only [if_true]
      exact respondTail_never_crashes _ _ _
    · simp

theorem never_crashes_delta (s : State) (r : DReq) : shouldRespondDelta s r ≠ .crash := by
  unfold shouldRespondDelta shouldRespondDeltaG deltaFirst deltaTail
  cases r.err <;> simp only []
  · cases s r.ty <;> simp only []
    · simp
    · repeat' split
      all_goals simp
  · cases s r.ty <;> simp only []
    · repeat' split
      all_goals simp_all
    · repeat' split
      all_goals simp_all

/-- Finding F1 (pinned commit 8d5216c, before the `fix:` commit): without the nil guard, a first
    request of a type that carries `error_detail` crashes. -/
theorem crash_witness_unguarded :
    shouldRespondG false State.empty { ty := .cds, names := [], nonce := "", err := some "boom" } = .crash := by
  rfl

theorem crash_witness_unguarded_delta :
    shouldRespondDeltaG false false false State.empty
      { ty := .cds, sub := [], unsub := [], init := [], nonce := "", err := some "boom" } = .crash := by
  rfl

/-- Without the guard the crash happens exactly on a NACK for an unwatched type. -/
theorem crash_iff_unguarded (s : State) (r : Req) :
    shouldRespondG false s r = .crash ↔ (r.err.isSome ∧ s r.ty = none) := by
  unfold shouldRespondG shouldRespondR
  cases h : r.err <;> simp only []
  · simp [respondTail_never_crashes]
  · cases s r.ty <;> simp

/-! ## Classification (state of the world) -/

/-- First request of a type on this stream, and reconnect (any nonce, the server has no record):
    always answered, and the record is what was asked. -/
theorem first_request_or_reconnect_responds (s : State) (r : Req)
    (hnone : s r.ty = none) (herr : r.err = none) (hsub : r.unsub = false) :
    shouldRespond s r = .out true [] (newWatched s r.ty r.names) := by
  simp [shouldRespond, shouldRespondR, respondTail, herr, hsub, hnone]

/-- A request with an empty nonce (new subscription on a known type) is always answered. -/
theorem empty_nonce_responds (s : State) (r : Req)
    (herr : r.err = none) (hsub : r.unsub = false) (hn : r.nonce = "") :
    shouldRespond s r = .out true [] (newWatched s r.ty r.names) := by
  unfold shouldRespond shouldRespondR respondTail
  simp only [herr, hsub]
  cases s r.ty <;> simp [hn]

/-- A request without `error_detail` is handled by the part of `ShouldRespond` below the `error_detail` block. -/
theorem shouldRespond_noerr (s : State) (r : Req) (herr : r.err = none) : shouldRespond s r = respondTail {} s r := by
  simp [shouldRespond, shouldRespondR, herr]

/-- The same request with `error_detail` removed. -/
def Req.clean (r : Req) : Req := { r with err := none }

/-- **A NACK for a watched type is never answered** and changes nothing but `LastError`. -/
theorem nack_silent (s : State) (r : Req) (msg : String) (w : WR) (herr : r.err = some msg) (hw : s r.ty = some w) :
    shouldRespond s r = .out false [] (s.set r.ty (some { w with lastError := msg })) := by
  simp [shouldRespond, shouldRespondR, herr, hw]

/-- **A request with `error_detail` for a type that is not watched on this stream** (a NACK queued when the
    previous stream broke) is the first request of the type: it is handled exactly like the same request
    without `error_detail` (repair a581d69). -/
theorem nack_unwatched_is_first_request (s : State) (r : Req) (msg : String) (herr : r.err = some msg)
    (hnone : s r.ty = none) : shouldRespond s r = shouldRespond s r.clean := by
  rw [shouldRespond_noerr s r.clean rfl]
  simp only [shouldRespond, shouldRespondR, herr, hnone, if_true]
  rfl

/-- Every request is either a NACK for a watched type (silent, `LastError` recorded) or handled like the request
    without `error_detail`. -/
theorem respond_cases (s : State) (r : Req) :
    (∃ msg w, r.err = some msg ∧ s r.ty = some w ∧
      shouldRespond s r = .out false [] (s.set r.ty (some { w with lastError := msg }))) ∨
    shouldRespond s r = shouldRespond s r.clean := by
  cases he : r.err with
  | none => right; cases r; simp only at he; subst he; rfl
  | some msg =>
    cases hw : s r.ty with
    | none => exact Or.inr (nack_unwatched_is_first_request s r msg he hw)
    | some w => exact Or.inl ⟨msg, w, rfl, rfl, nack_silent s r msg w he hw⟩

/-- A request carrying a stale nonce is ignored: no answer, no state change. -/
theorem stale_nonce_silent (s : State) (r : Req) (prev : WR)
    (herr : r.err = none) (hsub : r.unsub = false) (hprev : s r.ty = some prev)
    (hn : r.nonce ≠ "") (hsent : prev.nonceSent ≠ "") (hstale : r.nonce ≠ prev.nonceSent) :
    shouldRespond s r = .out false [] s := by
  simp [shouldRespond, shouldRespondR, respondTail, herr, hsub, hprev, hn, hstale, hsent]

/-- **A request for a watch nothing was sent on yet is a new request** (repair F-C04-3): whatever nonce it
    echoes - the client retains the nonce of a response that preceded this watch - it is answered and the record
    becomes what it asks for. -/
theorem unsent_watch_request_responds (s : State) (r : Req) (prev : WR)
    (herr : r.err = none) (hsub : r.unsub = false) (hprev : s r.ty = some prev) (hsent : prev.nonceSent = "") :
    shouldRespond s r = .out true [] (newWatched s r.ty r.names) := by
  unfold shouldRespond shouldRespondR respondTail
  simp only [herr, hsub, hprev, Bool.false_eq_true, if_false]
  by_cases hn : r.nonce = "" <;> simp [hn, hsent]

/-- Finding F-C04-3 on the code before the repair: a watch re-created by a request that was answered with
    nothing to send (`NonceSent = ""`), then the client - echoing the nonce it retains - asks for `c, d`: the
    request is classified stale and dropped, the record stays `c`. -/
theorem unsent_watch_request_dropped_witness_unfixed :
    shouldRespondG true (newWatched State.empty .sds ["c"]) { ty := .sds, names := ["c", "d"], nonce := "n1", err := none }
      = .out false [] (newWatched State.empty .sds ["c"]) := by
  simp [shouldRespondG, shouldRespondR, respondTail, Req.unsub, Ty.wildcard, newWatched_self]

/-- An empty request for a non-wildcard type unsubscribes: no answer, watch deleted. -/
theorem unsubscribe_deletes_watch (s : State) (r : Req)
    (herr : r.err = none) (hsub : r.unsub = true) :
    shouldRespond s r = .out false [] (s.set r.ty none) := by
  simp [shouldRespond, shouldRespondR, respondTail, herr, hsub]

/-- The state after a request with the current nonce (ACK or subscription change). -/
def acked (s : State) (r : Req) (prev : WR) : State :=
  s.set r.ty (some { prev with lastError := "", nonceAcked := r.nonce, names := r.names, always := false })

/-- The nonce-match branch of `ShouldRespond`, in closed form. -/
theorem match_branch (s : State) (r : Req) (prev : WR)
    (herr : r.err = none) (hsub : r.unsub = false) (hprev : s r.ty = some prev)
    (hn : r.nonce ≠ "") (hcur : r.nonce = prev.nonceSent) :
    shouldRespond s r =
      if prev.always then .out true [] (acked s r prev)
      else if (diff prev.names r.names).isEmpty && (diff r.names prev.names).isEmpty then
        .out false [] (acked s r prev)
      else if !r.ty.wildcard && (diff r.names prev.names).isEmpty then .out false [] (acked s r prev)
      else .out true (diff r.names prev.names) (acked s r prev) := by
  unfold shouldRespond shouldRespondR respondTail acked
  simp only [herr, hsub, hprev, Bool.false_eq_true, if_false, hn]
  have hne : ¬ (r.nonce ≠ prev.nonceSent) := by simp [hcur]
  have hsent : ¬ (True ∧ prev.nonceSent = "") := by
    rintro ⟨_, h⟩
    exact hn (hcur.trans h)
  simp only [hne, hsent, if_false]

/-- An ACK (current nonce, same set of names, no forced warming response pending) is silent. -/
theorem ack_silent (s : State) (r : Req) (prev : WR)
    (herr : r.err = none) (hsub : r.unsub = false) (hprev : s r.ty = some prev)
    (hn : r.nonce ≠ "") (hcur : r.nonce = prev.nonceSent) (halways : prev.always = false)
    (hsame : ∀ x, x ∈ r.names ↔ x ∈ prev.names) :
    shouldRespond s r = .out false [] (acked s r prev) := by
  have h1 : (diff prev.names r.names).isEmpty = true := diff_isEmpty_iff.mpr (fun x hx => (hsame x).mpr hx)
  have h2 : (diff r.names prev.names).isEmpty = true := diff_isEmpty_iff.mpr (fun x hx => (hsame x).mp hx)
  rw [match_branch s r prev herr hsub hprev hn hcur]
  simp [halways, h1, h2]

/-- A request with the current nonce that adds at least one name is answered, and (unless a
    warming response was pending) the generator is asked for exactly the added names. -/
theorem added_names_respond (s : State) (r : Req) (prev : WR)
    (herr : r.err = none) (hsub : r.unsub = false) (hprev : s r.ty = some prev)
    (hn : r.nonce ≠ "") (hcur : r.nonce = prev.nonceSent)
    (x : String) (hx : x ∈ r.names) (hnew : x ∉ prev.names) :
    shouldRespond s r = .out true (if prev.always then [] else diff r.names prev.names) (acked s r prev) := by
  have hadd : (diff r.names prev.names).isEmpty = false := by
    cases h : (diff r.names prev.names).isEmpty
    · rfl
    · exact absurd (diff_isEmpty_iff.mp h x hx) hnew
  rw [match_branch s r prev herr hsub hprev hn hcur]
  cases ha : prev.always <;> simp [hadd]

/-- Removing names only: wildcard types are answered (the full set is re-sent), named types are
    not (removal is implied by the parent resource). -/
theorem removed_only (s : State) (r : Req) (prev : WR)
    (herr : r.err = none) (hsub : r.unsub = false) (hprev : s r.ty = some prev)
    (hn : r.nonce ≠ "") (hcur : r.nonce = prev.nonceSent) (halways : prev.always = false)
    (hsubset : ∀ x ∈ r.names, x ∈ prev.names) (y : String) (hy : y ∈ prev.names) (hgone : y ∉ r.names) :
    shouldRespond s r = .out r.ty.wildcard [] (acked s r prev) := by
  have hadd : (diff r.names prev.names).isEmpty = true := diff_isEmpty_iff.mpr hsubset
  have hrem : (diff prev.names r.names).isEmpty = false := by
    cases h : (diff prev.names r.names).isEmpty
    · rfl
    · exact absurd (diff_isEmpty_iff.mp h y hy) hgone
  have hnil : diff r.names prev.names = [] := List.isEmpty_iff.mp hadd
  rw [match_branch s r prev herr hsub hprev hn hcur]
  cases hw : r.ty.wildcard <;> simp [halways, hadd, hrem, hnil]

/-- A pending warming response (`AlwaysRespond`) is answered once, even for a pure ACK ... -/
theorem always_respond_answers (s : State) (r : Req) (prev : WR)
    (herr : r.err = none) (hsub : r.unsub = false) (hprev : s r.ty = some prev)
    (hn : r.nonce ≠ "") (hcur : r.nonce = prev.nonceSent) (halways : prev.always = true) :
    shouldRespond s r = .out true [] (acked s r prev) := by
  rw [match_branch s r prev herr hsub hprev hn hcur]
  simp [halways]

/-! ## Record = last request -/

/-- After a processed request that was neither a rejection (NACK) nor stale, the server's record
    for the type is exactly what the client asked for (names, as a list = as a set), or is absent
    when the client asked for nothing of a non-wildcard type. -/
theorem record_matches_request (s : State) (r : Req) (b : Bool) (sub : List String) (s' : State)
    (herr : r.err = none)
    (hfresh : r.nonce = "" ∨ s r.ty = none ∨ ∃ prev, s r.ty = some prev ∧ r.nonce = prev.nonceSent)
    (h : shouldRespond s r = .out b sub s') :
    if r.unsub then s' r.ty = none else ∃ w, s' r.ty = some w ∧ w.names = r.names := by
  cases hu : r.unsub
  · simp only [Bool.false_eq_true, if_false]
    have hnew : shouldRespond s r = .out true [] (newWatched s r.ty r.names) →
        ∃ w, s' r.ty = some w ∧ w.names = r.names := by
      intro h2
      rw [h2] at h
      injection h with _ _ hs
      exact ⟨_, by rw [← hs]; exact newWatched_self _ _ _, rfl⟩
    cases hp : s r.ty with
    | none => exact hnew (first_request_or_reconnect_responds s r hp herr hu)
    | some prev =>
      by_cases hn : r.nonce = ""
      · exact hnew (empty_nonce_responds s r herr hu hn)
      · have hcur : r.nonce = prev.nonceSent := by
          rcases hfresh with h1 | h1 | ⟨p, hp', hc⟩
          · exact absurd h1 hn
          · rw [hp] at h1; cases h1
          · rw [hp] at hp'; cases hp'; exact hc
        rw [match_branch s r prev herr hu hp hn hcur] at h
        refine ⟨{ prev with lastError := "", nonceAcked := r.nonce, names := r.names, always := false }, ?_, rfl⟩
        have hacked : acked s r prev = s' := by
          repeat' split at h
          all_goals (injection h)
        rw [← hacked]; simp [acked]
  · simp only [if_true]
    rw [unsubscribe_deletes_watch s r herr hu] at h
    injection h with _ _ hs
    rw [← hs]; simp

/-! ## No request/response loop -/

/-- Whenever a request is answered, the record left behind has no pending forced response, and
    carries the requested names. -/
theorem responded_state_clean_noerr (s : State) (r : Req) (sub : List String) (s' : State) (he : r.err = none)
    (h : shouldRespond s r = .out true sub s') :
    ∃ w, s' r.ty = some w ∧ w.always = false ∧ w.names = r.names := by
  cases hu : r.unsub
  · have hnew : shouldRespond s r = .out true [] (newWatched s r.ty r.names) →
        ∃ w, s' r.ty = some w ∧ w.always = false ∧ w.names = r.names := by
      intro h2
      rw [h2] at h
      injection h with _ _ hs
      exact ⟨_, by rw [← hs]; exact newWatched_self _ _ _, rfl, rfl⟩
    cases hp : s r.ty with
    | none => exact hnew (first_request_or_reconnect_responds s r hp he hu)
    | some prev =>
      by_cases hn : r.nonce = ""
      · exact hnew (empty_nonce_responds s r he hu hn)
      · by_cases hst : r.nonce = prev.nonceSent
        · rw [match_branch s r prev he hu hp hn hst] at h
          refine ⟨{ prev with lastError := "", nonceAcked := r.nonce, names := r.names, always := false }, ?_, rfl, rfl⟩
          have hacked : acked s r prev = s' := by
            repeat' split at h
            all_goals (injection h)
          rw [← hacked]; simp [acked]
        · by_cases hsent : prev.nonceSent = ""
          · exact hnew (unsent_watch_request_responds s r prev he hu hp hsent)
          · rw [stale_nonce_silent s r prev he hu hp hn hsent hst] at h
            injection h with hb; cases hb
  · rw [unsubscribe_deletes_watch s r he hu] at h
    injection h with hb; cases hb

/-- An answered request was handled like the request without `error_detail` (a NACK is answered only as the
    first request of an unwatched type). -/
theorem answered_clean (s : State) (r : Req) (sub : List String) (s' : State)
    (h : shouldRespond s r = .out true sub s') : shouldRespond s r.clean = .out true sub s' := by
  rcases respond_cases s r with ⟨msg, w, _, _, hr⟩ | heq
  · rw [hr] at h; injection h with hb; cases hb
  · rw [← heq]; exact h

theorem responded_state_clean (s : State) (r : Req) (sub : List String) (s' : State)
    (h : shouldRespond s r = .out true sub s') :
    ∃ w, s' r.ty = some w ∧ w.always = false ∧ w.names = r.names :=
  responded_state_clean_noerr s r.clean sub s' rfl (answered_clean s r sub s' h)

/-- An answered request is not an unsubscribe. -/
theorem answered_not_unsub (s : State) (r : Req) (sub : List String) (s' : State)
    (h : shouldRespond s r = .out true sub s') : r.unsub = false := by
  have h' := answered_clean s r sub s' h
  cases hu : r.unsub
  · rfl
  · rw [unsubscribe_deletes_watch s r.clean rfl hu] at h'
    injection h' with hb; cases hb

/-- The shapes of the decision for a request that is neither a rejection nor an unsubscribe: silent with the
    watch kept (only when there was one), or answered with a watch on record.  (Used by the C03 history
    theorems, which do not depend on the branch structure of `ShouldRespond`.) -/
theorem respond_shapes (s : State) (r : Req) (herr : r.err = none) (hun : r.unsub = false) :
    (∃ s', shouldRespond s r = .out false [] s' ∧ (s' r.ty).isSome = true ∧ (s r.ty).isSome = true) ∨
    (∃ sub s' w, shouldRespond s r = .out true sub s' ∧ s' r.ty = some w) := by
  have hnew : shouldRespond s r = .out true [] (newWatched s r.ty r.names) →
      ∃ sub s' w, shouldRespond s r = .out true sub s' ∧ s' r.ty = some w :=
    fun h => ⟨[], _, _, h, newWatched_self _ _ _⟩
  cases hp : s r.ty with
  | none => exact Or.inr (hnew (first_request_or_reconnect_responds s r hp herr hun))
  | some prev =>
    by_cases hn : r.nonce = ""
    · exact Or.inr (hnew (empty_nonce_responds s r herr hun hn))
    · by_cases hsent : prev.nonceSent = ""
      · exact Or.inr (hnew (unsent_watch_request_responds s r prev herr hun hp hsent))
      · by_cases hst : r.nonce = prev.nonceSent
        · rw [match_branch s r prev herr hun hp hn hst]
          split
          · exact Or.inr ⟨_, _, _, rfl, State.set_same _ _ _⟩
          · split
            · exact Or.inl ⟨_, rfl, by simp [acked], by simp⟩
            · split
              · exact Or.inl ⟨_, rfl, by simp [acked], by simp⟩
              · exact Or.inr ⟨_, _, _, rfl, State.set_same _ _ _⟩
        · exact Or.inl ⟨s, stale_nonce_silent s r prev herr hun hp hn hsent hst, by simp [hp], by simp⟩

/-- The same, as one outcome (the form the C03 history theorems use). -/
theorem respond_outcome (s : State) (r : Req) (herr : r.err = none) (hun : r.unsub = false) :
    ∃ b sub s', shouldRespond s r = .out b sub s' ∧ (s' r.ty).isSome = true ∧ (b = false → sub = []) ∧
      (s r.ty = none → b = true) := by
  rcases respond_shapes s r herr hun with ⟨s', h, hs', hs⟩ | ⟨sub, s', w, h, hw⟩
  · refine ⟨false, [], s', h, hs', fun _ => rfl, ?_⟩
    intro hn; rw [hn] at hs; cases hs
  · exact ⟨true, sub, s', h, by simp [hw], fun hb => Bool.noConfusion hb, fun _ => rfl⟩

/-- **No loop.** Take any answered request `r`; the server sends its response with any non-empty
    nonce `n` and the send succeeds; a conformant client acknowledges with that nonce and the names
    it asked for.  That ACK is never answered: the exchange stops. -/
theorem no_loop (s : State) (r : Req) (sub : List String) (s1 : State)
    (h : shouldRespond s r = .out true sub s1) (n : String) (hn : n ≠ "") :
    ∃ s3, shouldRespond (send s1 r.ty n true) { ty := r.ty, names := r.names, nonce := n, err := none }
      = .out false [] s3 := by
  obtain ⟨w, hw, hal, hnames⟩ := responded_state_clean s r sub s1 h
  have hu : r.unsub = false := answered_not_unsub s r sub s1 h
  have hs2 : send s1 r.ty n true r.ty = some { w with nonceSent := n } := by
    simp [send, hn, hw]
  refine ⟨_, ack_silent (send s1 r.ty n true) { ty := r.ty, names := r.names, nonce := n, err := none }
    { w with nonceSent := n } rfl ?_ hs2 hn rfl hal ?_⟩
  · simpa [Req.unsub] using hu
  · intro x; simp [hnames]

/-- The number of watches with a pending forced response. -/
def alwaysCount (s : State) : Nat := (Ty.all.filter (fun t => match s t with
  | some w => w.always
  | none => false)).length

/-- A forced ("warming") answer consumes the flag: the same request repeated is silent.  Together
    with `no_loop` this bounds every chain of automatic answers by two. -/
theorem always_respond_consumed (s : State) (r : Req) (prev : WR)
    (herr : r.err = none) (hsub : r.unsub = false) (hprev : s r.ty = some prev)
    (hn : r.nonce ≠ "") (hcur : r.nonce = prev.nonceSent) (halways : prev.always = true) :
    ∃ s1, shouldRespond s r = .out true [] s1 ∧ ∃ s2, shouldRespond s1 r = .out false [] s2 := by
  refine ⟨acked s r prev, always_respond_answers s r prev herr hsub hprev hn hcur halways, ?_⟩
  refine ⟨_, ack_silent (acked s r prev) r
    { prev with lastError := "", nonceAcked := r.nonce, names := r.names, always := false }
    herr hsub (by simp [acked]) hn (by simpa using hcur) rfl (fun x => Iff.rfl)⟩

/-! ## Send: the nonce is recorded only after a successful send -/

theorem send_failed_no_change (s : State) (t : Ty) (n : String) : send s t n false = s := by
  simp [send]

theorem send_ok_records_nonce (s : State) (t : Ty) (n : String) (hn : n ≠ "") :
    ∃ w, send s t n true t = some w ∧ w.nonceSent = n := by
  unfold send
  cases h : s t <;> simp [hn]

/-- Consequently a client that never received a response (failed send) and re-sends its previous
    nonce is still recognised: the nonce on record is the last one *delivered*. -/
theorem failed_send_keeps_ack_valid (s : State) (r : Req) (n : String) :
    shouldRespond (send s r.ty n false) r = shouldRespond s r := by
  rw [send_failed_no_change]

/-! ## Delta xDS -/

theorem delta_first_request_or_reconnect_responds (s : State) (r : DReq)
    (hnone : s r.ty = none) (herr : r.err = none) :
    ∃ s', shouldRespondDelta s r = .out true s' := by
  simp [shouldRespondDelta, shouldRespondDeltaG, deltaFirst, herr, hnone]

/-- A NACK for a watched type that carries no subscription change is silent; only the error is recorded. -/
theorem delta_nack_silent (s : State) (r : DReq) (msg : String) (w : WR) (herr : r.err = some msg)
    (hw : s r.ty = some w) (hc : r.carries = false) :
    shouldRespondDelta s r = .out false (s.set r.ty (some { w with lastError := msg })) := by
  unfold shouldRespondDelta shouldRespondDeltaG
  simp [herr, hc, hw]

/-- The first request of a type on the stream is answered whatever it carries - also `error_detail` (a NACK queued
    when the previous stream broke, repair a581d69): closed form. -/
theorem delta_unwatched_is_first_request (s : State) (r : DReq) (hnone : s r.ty = none) :
    shouldRespondDelta s r = .out true (s.set r.ty (some
      { names := if r.ty.managed && (deltaWatched [] r).2.1 then [] else (deltaWatched [] r).1,
        wildcard := (deltaWatched [] r).2.1 })) := by
  unfold shouldRespondDelta shouldRespondDeltaG
  cases r.err <;> simp [hnone, deltaFirst]

/-- A stale ACK that carries no subscription change is silent and changes nothing. -/
theorem delta_stale_nonce_silent (s : State) (r : DReq) (prev : WR)
    (herr : r.err = none) (hprev : s r.ty = some prev)
    (hn : r.nonce ≠ "") (hstale : r.nonce ≠ prev.nonceSent) (hc : r.carries = false) :
    shouldRespondDelta s r = .out false s := by
  have hst : deltaStale prev r := ⟨hn, hstale⟩
  simp [shouldRespondDelta, shouldRespondDeltaG, herr, hprev, hst, hc]

/-- **A subscription change attached to a stale ACK is not lost.**  It is handled like a spontaneous
    request: the record is updated, the request is answered when the subscription really changed, and
    the stale ACK itself is not recorded. -/
theorem delta_stale_sub_change_applied (s : State) (r : DReq) (prev : WR)
    (herr : r.err = none) (hprev : s r.ty = some prev)
    (hn : r.nonce ≠ "") (hstale : r.nonce ≠ prev.nonceSent) (hc : r.carries = true) :
    shouldRespondDelta s r =
      .out (deltaChanged prev r || prev.always) (s.set r.ty (some (deltaUpdateG true prev r))) := by
  have hst : deltaStale prev r := ⟨hn, hstale⟩
  simp [shouldRespondDelta, shouldRespondDeltaG, deltaTail, herr, hprev, hst, hc]

/-- **A subscription change attached to a NACK is not lost either**: the error is recorded, the ACK is
    not, and the change is applied to the record. -/
theorem delta_nack_sub_change_applied (s : State) (r : DReq) (prev : WR) (msg : String)
    (herr : r.err = some msg) (hprev : s r.ty = some prev) (hc : r.carries = true) :
    shouldRespondDelta s r =
      .out (deltaChanged { prev with lastError := msg } r || prev.always)
        ((s.set r.ty (some { prev with lastError := msg })).set r.ty
          (some (deltaUpdateG true { prev with lastError := msg } r))) := by
  simp [shouldRespondDelta, shouldRespondDeltaG, deltaTail, herr, hprev, hc]

/-- Closed form of the current-nonce / spontaneous branch of `shouldRespondDelta`. -/
theorem delta_fresh_branch (s : State) (r : DReq) (prev : WR)
    (herr : r.err = none) (hprev : s r.ty = some prev)
    (hfresh : r.nonce = "" ∨ r.nonce = prev.nonceSent) :
    shouldRespondDelta s r =
      .out (deltaChanged prev r || prev.always) (s.set r.ty (some (deltaUpdate prev r))) := by
  unfold shouldRespondDelta shouldRespondDeltaG
  simp only [herr, hprev]
  have hstale : ¬ deltaStale prev r := by
    unfold deltaStale
    rcases hfresh with h | h <;> simp [h]
  simp only [hstale, if_false, deltaTail, deltaUpdate]

/-- Closed form for EVERY non-rejecting request on a watched type that is not dropped (i.e. not a stale
    ACK without a subscription change): the record becomes `deltaNames prev r`. -/
theorem delta_handled_names (s : State) (r : DReq) (prev : WR) (b : Bool) (s' : State)
    (herr : r.err = none) (hprev : s r.ty = some prev)
    (hkept : r.nonce = "" ∨ r.nonce = prev.nonceSent ∨ r.carries = true)
    (h : shouldRespondDelta s r = .out b s') :
    ∃ w, s' r.ty = some w ∧ w.names = deltaNames prev r := by
  by_cases hst : deltaStale prev r
  · have hc : r.carries = true := by
      rcases hkept with h1 | h1 | h1
      · exact absurd h1 hst.1
      · exact absurd h1 hst.2
      · exact h1
    rw [delta_stale_sub_change_applied s r prev herr hprev hst.1 hst.2 hc] at h
    injection h with _ hs
    exact ⟨_, by rw [← hs]; simp, deltaUpdateG_names true prev r⟩
  · have hfresh : r.nonce = "" ∨ r.nonce = prev.nonceSent := by
      unfold deltaStale at hst
      by_cases h1 : r.nonce = ""
      · exact Or.inl h1
      · right
        by_cases h2 : r.nonce = prev.nonceSent
        · exact h2
        · exact absurd ⟨h1, h2⟩ hst
    rw [delta_fresh_branch s r prev herr hprev hfresh] at h
    injection h with _ hs
    exact ⟨_, by rw [← hs]; simp [deltaUpdate], deltaUpdateG_names false prev r⟩

/-- A delta ACK (current nonce, no subscription change, no forced response pending) is silent. -/
theorem delta_ack_silent (s : State) (r : DReq) (prev : WR)
    (herr : r.err = none) (hprev : s r.ty = some prev)
    (hcur : r.nonce = prev.nonceSent) (halways : prev.always = false)
    (hs : r.sub = []) (hu : r.unsub = []) (hi : r.init = []) :
    ∃ s', shouldRespondDelta s r = .out false s' := by
  rw [delta_fresh_branch s r prev herr hprev (Or.inr hcur)]
  have : deltaChanged prev r = false := by
    unfold deltaChanged
    by_cases hm : (r.ty.managed && prev.wildcard) = true
    · simp [hs, hu, hm]
    · simp [hs, hu, hi, hm, deltaWatched, insertAll, eraseAll]
  rw [this, halways]
  exact ⟨_, rfl⟩

/-- A delta request subscribing to a name the server has no record of is answered
    (for types whose name set is recorded). -/
theorem delta_added_names_respond (s : State) (r : DReq) (prev : WR)
    (herr : r.err = none) (hprev : s r.ty = some prev)
    (hfresh : r.nonce = "" ∨ r.nonce = prev.nonceSent)
    (hm : (r.ty.managed && prev.wildcard) = false)
    (x : String) (hx : x ∈ r.sub) (hnew : x ∉ prev.names) :
    ∃ s', shouldRespondDelta s r = .out true s' := by
  rw [delta_fresh_branch s r prev herr hprev hfresh]
  have : deltaChanged prev r = true := by
    unfold deltaChanged
    simp only [hm, Bool.false_eq_true, if_false]
    exact deltaWatched_changed_of_new prev.names r x hx hnew
  rw [this]
  exact ⟨_, rfl⟩

/-- Whenever a delta request is answered the forced-response flag is consumed. -/
theorem delta_responded_state_clean (s : State) (r : DReq) (s' : State)
    (h : shouldRespondDelta s r = .out true s') :
    ∃ w, s' r.ty = some w ∧ w.always = false := by
  unfold shouldRespondDelta shouldRespondDeltaG at h
  cases he : r.err with
  | some msg =>
    simp only [he] at h
    cases hp : s r.ty with
    | none =>
      simp only [hp, if_true] at h
      exact deltaFirst_clean _ _ _ _ h
    | some w =>
      simp only [hp] at h
      by_cases hc : r.carries = true
      · rw [if_pos (by simp [hc])] at h
        exact deltaTail_clean _ _ _ _ _ _ h
      · have hcf : r.carries = false := by simpa using hc
        simp [hcf] at h
  | none =>
    simp only [he] at h
    cases hp : s r.ty with
    | none =>
      simp only [hp] at h
      exact deltaFirst_clean _ _ _ _ h
    | some prev =>
      simp only [hp] at h
      by_cases hst : deltaStale prev r
      · rw [if_pos hst] at h
        by_cases hc : r.carries = true
        · rw [if_pos (by simp [hc])] at h
          exact deltaTail_clean _ _ _ _ _ _ h
        · have hcf : r.carries = false := by simpa using hc
          simp [hcf] at h
      · rw [if_neg hst] at h
        exact deltaTail_clean _ _ _ _ _ _ h

/-- **No loop (delta).** The ACK of any answered delta request is silent. -/
theorem delta_no_loop (s : State) (r : DReq) (s1 : State)
    (h : shouldRespondDelta s r = .out true s1) (n : String) (newNames : Option (List String)) :
    ∃ s3, shouldRespondDelta (sendDelta s1 r.ty n newNames true)
      { ty := r.ty, sub := [], unsub := [], init := [], nonce := n, err := none } = .out false s3 := by
  obtain ⟨w, hw, hal⟩ := delta_responded_state_clean s r s1 h
  cases newNames with
  | none =>
    have hs2 : sendDelta s1 r.ty n none true r.ty = some { w with nonceSent := n } := by
      simp [sendDelta, hw]
    exact delta_ack_silent _ { ty := r.ty, sub := [], unsub := [], init := [], nonce := n, err := none }
      { w with nonceSent := n } rfl hs2 rfl hal rfl rfl rfl
  | some nn =>
    have hs2 : sendDelta s1 r.ty n (some nn) true r.ty = some { w with names := nn, nonceSent := n } := by
      simp [sendDelta, hw]
    exact delta_ack_silent _ { ty := r.ty, sub := [], unsub := [], init := [], nonce := n, err := none }
      { w with names := nn, nonceSent := n } rfl hs2 rfl hal rfl rfl rfl

/-! ## Delta: the record is the fold of the subscribe / unsubscribe history -/

/-- **Record = what the client asked for (delta).**  After ANY delta request that is not a rejection
    and is not dropped - current nonce, empty nonce, or a stale ACK that carries a subscription change -
    (and whose type keeps a name record: not a generator-managed wildcard watch), the server's record is
    exactly the fold of the client's subscribe / unsubscribe / retained-names history: old record ∪
    subscribed ∪ reported, minus unsubscribed, minus `*`.  The only dropped requests are stale ACKs
    WITHOUT a subscription change (`delta_stale_nonce_silent`), which ask for nothing. -/
theorem delta_record_matches_request (s : State) (r : DReq) (prev : WR) (b : Bool) (s' : State)
    (herr : r.err = none) (hprev : s r.ty = some prev)
    (hkept : r.nonce = "" ∨ r.nonce = prev.nonceSent ∨ r.carries = true)
    (hm : (r.ty.managed && prev.wildcard) = false)
    (h : shouldRespondDelta s r = .out b s') :
    ∃ w, s' r.ty = some w ∧ ∀ x, x ∈ w.names ↔
      ((x ∈ prev.names ∨ x ∈ r.sub ∨ x ∈ r.init) ∧ x ∉ r.unsub ∧ x ≠ "*") := by
  obtain ⟨w, hw, hn⟩ := delta_handled_names s r prev b s' herr hprev hkept h
  refine ⟨w, hw, ?_⟩
  intro x
  have hn' : w.names = (deltaWatched prev.names r).1 := by
    rw [hn]
    unfold deltaNames
    simp only [hm, Bool.false_eq_true, if_false]
  rw [hn']
  exact mem_deltaWatched prev.names r x

/-- **... and after a NACK that carries a subscription change** (the rejection concerns the response, not
    the subscription): same fold. -/
theorem delta_record_matches_request_nack (s : State) (r : DReq) (prev : WR) (msg : String)
    (herr : r.err = some msg) (hprev : s r.ty = some prev) (hc : r.carries = true)
    (hm : (r.ty.managed && prev.wildcard) = false) :
    ∃ b s' w, shouldRespondDelta s r = .out b s' ∧ s' r.ty = some w ∧ ∀ x, x ∈ w.names ↔
      ((x ∈ prev.names ∨ x ∈ r.sub ∨ x ∈ r.init) ∧ x ∉ r.unsub ∧ x ≠ "*") := by
  refine ⟨_, _, deltaUpdateG true { prev with lastError := msg } r,
    delta_nack_sub_change_applied s r prev msg herr hprev hc, State.set_same _ _ _, ?_⟩
  intro x
  rw [deltaUpdateG_names]
  unfold deltaNames
  simp only [hm, Bool.false_eq_true, if_false]
  exact mem_deltaWatched prev.names r x

/-- The same for the first request of a type on a stream (fresh or reconnect): the record is what was
    subscribed or reported as retained. -/
theorem delta_first_record (s : State) (r : DReq) (hnone : s r.ty = none) (herr : r.err = none)
    (hm : (r.ty.managed && (deltaWatched [] r).2.1) = false) :
    ∃ s' w, shouldRespondDelta s r = .out true s' ∧ s' r.ty = some w ∧
      ∀ x, x ∈ w.names ↔ ((x ∈ r.sub ∨ x ∈ r.init) ∧ x ∉ r.unsub ∧ x ≠ "*") := by
  have hsr : shouldRespondDelta s r = .out true (s.set r.ty (some
      { names := if (r.ty.managed && (deltaWatched [] r).2.1) = true then [] else (deltaWatched [] r).1,
        wildcard := (deltaWatched [] r).2.1 })) := by
    simp only [shouldRespondDelta, shouldRespondDeltaG, deltaFirst, herr, hnone]
  refine ⟨_, { names := if (r.ty.managed && (deltaWatched [] r).2.1) = true then [] else (deltaWatched [] r).1,
               wildcard := (deltaWatched [] r).2.1 }, hsr, State.set_same _ _ _, ?_⟩
  intro x
  simp only [hm, Bool.false_eq_true, if_false]
  rw [mem_deltaWatched]
  simp

/-! ## Non-vacuity: concrete states meeting the hypotheses above -/

def exState : State := (State.empty.set .eds (some { names := ["a"], nonceSent := "n1" }))

example : shouldRespond exState { ty := .eds, names := ["a", "b"], nonce := "n1", err := none }
    = .out true ["b"] (acked exState { ty := .eds, names := ["a", "b"], nonce := "n1", err := none }
        { names := ["a"], nonceSent := "n1" }) := by
  have := added_names_respond exState { ty := .eds, names := ["a", "b"], nonce := "n1", err := none }
    { names := ["a"], nonceSent := "n1" } rfl (by simp [Req.unsub]) (by simp [exState]) (by simp) rfl "b"
    (by simp) (by simp)
  simpa [diff] using this

example : ∃ s', shouldRespond exState { ty := .eds, names := ["a"], nonce := "n1", err := none }
    = .out false [] s' :=
  ⟨_, ack_silent exState _ { names := ["a"], nonceSent := "n1" } rfl (by simp [Req.unsub]) (by simp [exState])
    (by simp) rfl rfl (by simp)⟩

example : shouldRespond exState { ty := .eds, names := ["a"], nonce := "n0", err := none }
    = .out false [] exState :=
  stale_nonce_silent exState _ { names := ["a"], nonceSent := "n1" } rfl (by simp [Req.unsub]) (by simp [exState])
    (by simp) (by simp) (by simp)

/-! ## The subscription change attached to a stale ACK (finding F-C04-2)

Trace: the client subscribes to `a`; the server answers (nonce n1) and pushes again (n2) before the
client's ACK of n1 arrives; that ACK carries the client's next subscription change `+b` (Envoy attaches
pending changes to whatever request goes out next); then the client ACKs n2.  The client wants {a, b}. -/

def DRes.state : DRes → State
  | .out _ s => s
  | .crash => State.empty

def DRes.responded : DRes → Bool
  | .out b _ => b
  | .crash => false

def namesOf (s : State) (t : Ty) : Option (List String) := (s t).map (·.names)

/-- The state after the first three steps of the trace (subscribe a; responses n1 and n2 sent). -/
def staleTraceS3 (keepSub : Bool) : State :=
  sendDelta (sendDelta
    (shouldRespondDeltaG true keepSub keepSub State.empty
      { ty := .eds, sub := ["a"], unsub := [], init := [], nonce := "", err := none }).state
    .eds "n1" none true) .eds "n2" none true

def staleAckWithSub : DReq := { ty := .eds, sub := ["b"], unsub := [], init := [], nonce := "n1", err := none }
def ackN2 : DReq := { ty := .eds, sub := [], unsub := [], init := [], nonce := "n2", err := none }

/-- Before the repair the change `+b` is dropped with the stale ACK and never recovered: at the end of
    the exchange (last message = a plain ACK, processed, not a rejection) the record is {a} although the
    client asked for {a, b} - the last sentence of the property is false for delta. -/
theorem delta_stale_sub_lost_witness_unfixed :
    namesOf (shouldRespondDeltaG true false false
      (shouldRespondDeltaG true false false (staleTraceS3 false) staleAckWithSub).state ackN2).state .eds
      = some ["a"] := by
  decide

/-- After the repair the same exchange ends with the record {a, b}; the stale request is answered
    (it adds a name), and the final ACK is silent. -/
theorem delta_stale_sub_kept :
    (shouldRespondDelta (staleTraceS3 true) staleAckWithSub).responded = true ∧
    (shouldRespondDelta (shouldRespondDelta (staleTraceS3 true) staleAckWithSub).state ackN2).responded = false ∧
    namesOf (shouldRespondDelta
      (shouldRespondDelta (staleTraceS3 true) staleAckWithSub).state ackN2).state .eds = some ["a", "b"] := by
  decide

end IstioModel.C04
