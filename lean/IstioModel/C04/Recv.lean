/-!
C04 - the receive side of an xDS stream: `xds.Receive` (pkg/xds/server.go) and
`(*DiscoveryServer).receiveDelta` (pilot/pkg/xds/delta.go), the same loop twice.

The first request of a stream must carry the node; a workload health probe may precede it and is
skipped without counting as the first request.  `req.Node.Id` is a field access through a pointer:
with a nil `Node` it is a nil dereference that would kill the receive goroutine (it has no recover)
and with it the process - the explicit result `crash`.  The code guards it (`req.Node == nil ||`);
`recvG false` is the code without that guard.

`initConnection` -> `initProxyMetadata` -> `ParseServiceNodeWithMetadata` validates the node id
(`type~ip~id~domain`): four parts, an application node type, a usable IP address.
-/
namespace IstioModel.C04

/-- The node of a request, by what the validation looks at. -/
inductive NodeK
  | nil        -- no Node message at all
  | noid       -- Node with an empty id
  | few        -- id with fewer than four `~` separated parts
  | badtype    -- four parts, unknown node type
  | noip       -- no valid IP address in id or metadata
  | ok
  deriving DecidableEq, Repr

/-- Type URL classes. -/
inductive TyK
  | health     -- istio.v1.HealthInformation
  | debug      -- istio.io/debug/syncz
  | debugx     -- istio.io/debug/<unknown>
  | unknown3   -- group/version/kind shaped, unknown to the config store
  | unknown    -- any other unknown type URL
  | empty      -- ""
  | cds
  | eds
  deriving DecidableEq, Repr

structure FReq where
  ty   : TyK
  node : NodeK
  nack : Bool := false      -- the request carries `error_detail` (the receive loop does not read it)
  deriving DecidableEq, Repr

inductive RecvErr
  | none | missingNode | badNode | stream
  deriving DecidableEq, Repr

/-- What the receive loop did: indices of the requests handed on, the error it reported, whether the
    connection's proxy was initialised. -/
structure RecvOut where
  fwd  : List Nat
  err  : RecvErr
  init : Bool
  /-- The receive side closes the `initialized` channel in its deferred block WHATEVER happened - also when it
      refuses the stream: the event loop waits on that channel before it starts, a refused stream would hang. -/
  released : Bool := true
  deriving DecidableEq, Repr

inductive RecvRes
  | crash
  | done (o : RecvOut)
  deriving DecidableEq, Repr

/-- `req.Node == nil || req.Node.Id == ""` (guarded) resp. `req.Node.Id == ""` (unguarded: nil dereference). -/
def missingNode (guard : Bool) : NodeK → Option Bool
  | .nil => if guard then some true else none
  | .noid => some true
  | _ => some false

/-- `ParseServiceNodeWithMetadata` accepts the id. -/
def NodeK.parses : NodeK → Bool
  | .ok => true
  | _ => false

def RecvRes.cons (i : Nat) : RecvRes → RecvRes
  | .crash => .crash
  | .done o => .done { o with fwd := i :: o.fwd }

theorem RecvRes.cons_ne_crash (i : Nat) (r : RecvRes) (h : r ≠ .crash) : RecvRes.cons i r ≠ .crash := by
  cases r with
  | crash => exact absurd rfl h
  | done o => simp [RecvRes.cons]

/-- The receive loop; `first` = no real request has been seen yet, `i` = index of the next request.
    The script ends with the stream's EOF (a clean termination: no error). -/
def recvG (guard : Bool) (first : Bool) (i : Nat) : List FReq → RecvRes
  | [] => .done { fwd := [], err := .none, init := !first }
  | r :: rs =>
    if first then
      if r.ty = .health then recvG guard true (i + 1) rs
      else
        match missingNode guard r.node with
        | none => .crash
        | some true => .done { fwd := [], err := .missingNode, init := false }
        | some false =>
          if r.node.parses then RecvRes.cons i (recvG guard false (i + 1) rs)
          else .done { fwd := [], err := .badNode, init := false }
    else RecvRes.cons i (recvG guard false (i + 1) rs)

/-- The code in /repo. -/
def recv (reqs : List FReq) : RecvRes := recvG true true 0 reqs

/-- The script ends with an unexpected transport error instead of a clean EOF (`endErr`): the receive loop reports
    it - unless it had already refused the stream. -/
def recvE (endErr : Bool) (reqs : List FReq) : RecvRes :=
  match recv reqs with
  | .crash => .crash
  | .done o => if endErr && o.err = .none then .done { o with err := .stream } else .done o

/-- What `processRequest` / `processDeltaRequest` does with a forwarded request that has an empty
    nonce and no names, on a server with the production generators: (responses sent, the type is watched
    afterwards, an error ends the stream).  `auth`: the client is authenticated (mTLS identity of the proxy's
    namespace); otherwise it is a plaintext client.
    * health: handed to the workload-entry health controller, never answered, never watched;
    * debug: answered by the debug generators WITHOUT creating a watch and without recording a nonce (the
      `DebugType` guards of `Send` / `sendDelta`) when the client is authenticated - refused otherwise;
    * unknown / empty type URL: `ShouldRespond` treats every unknown type as a wildcard type, a watch is
      created, the default ("api") generator refuses the client;
    * CDS: answered; EDS without names: an unsubscribe in SotW, an empty (nothing to send) watch in delta. -/
def procClass (delta auth : Bool) : TyK → Nat × Bool × Bool
  | .health => (0, false, false)
  | .debug | .debugx => if auth then (1, false, false) else (0, false, true)
  | .unknown3 | .unknown | .empty => (0, true, true)
  | .cds => (1, true, false)
  | .eds => (0, delta, false)

/-- `nack`: the request carries `error_detail`.  A rejection for a type that is watched on the stream is recorded and
    not answered; for an unwatched type it is the first request (handled like the request without `error_detail`);
    health and debug requests are handled before the classification and do not read it.
    In delta a second request for a type that is already watched, with an empty nonce and no subscription change, is
    a spontaneous request that changes nothing: it is not answered (SotW: an empty nonce is a new subscription and is
    answered again). -/
def procStep (delta auth : Bool) (watched : List TyK) (t : TyK) (nack : Bool) : Nat × Bool × Bool :=
  if (t = .health ∨ t = .debug ∨ t = .debugx) then procClass delta auth t
  else if watched.contains t && (delta || nack) then (0, true, false)
  else procClass delta auth t

/-- The forwarded requests handled in order; `watched` = the classes that have a watch so far. -/
def procSeq (delta auth : Bool) (watched : List TyK) : List (TyK × Bool) → List (TyK × Nat × Bool × Bool)
  | [] => []
  | (t, nack) :: ts =>
    let c := procStep delta auth watched t nack
    (t, c) :: procSeq delta auth (if c.2.1 then t :: watched else watched) ts

end IstioModel.C04
