/-
`#audit_module M` prints, for every theorem declared in module `M`, one line
`AUDIT <name> : <sorted axiom list>`; the check driver counts these lines as proof
obligations and rejects any axiom outside {propext, Classical.choice, Quot.sound}.
-/
import Lean
open Lean Elab Command

namespace IstioModel.Audit

syntax (name := auditModule) "#audit_module " ident : command

@[command_elab auditModule] def elabAuditModule : CommandElab := fun stx => do
  let modName := stx[1].getId
  let env ← getEnv
  let some idx := env.getModuleIdx? modName
    | throwError "module {modName} is not imported"
  let mut names : Array Name := #[]
  for (n, ci) in env.constants.map₁.toList do
    if env.getModuleIdxFor? n == some idx then
      match ci with
      | .thmInfo _ =>
        -- only theorems written in the source file: auto-generated equation lemmas
        -- (`f.eq_1`, `f.eq_def`, ...) have no declaration range
        let last := match n with
          | .str _ s => s
          | _ => ""
        let auto := last.startsWith "eq_" || last.startsWith "match_" || last.startsWith "proof_"
        if !n.isInternal && !(n.toString.splitOn "._").length > 1 && !auto
            && (← liftCoreM <| Lean.findDeclarationRanges? n).isSome then
          names := names.push n
      | _ => pure ()
  let sorted := names.qsort (fun a b => a.toString < b.toString)
  for n in sorted do
    let axs ← liftCoreM <| Lean.collectAxioms n
    let axsS := (axs.map (·.toString)).qsort (· < ·)
    logInfo m!"AUDIT {n} : {axsS.toList}"
  logInfo m!"AUDIT-TOTAL {modName} {sorted.size}"

end IstioModel.Audit
