/-
Line protocol shared by the Go harness (`harness/internal/wire`) and the Lean drivers.

One operation per line, tokens separated by single spaces.  A token never contains a space:
strings are escaped (`enc`): the empty string is `~`, every byte outside `[A-Za-z0-9_./:*@=+-]`
is `%XX` (two upper-case hex digits of the UTF-8 byte).  Lists are comma separated, the empty
list is `-`.  The driver answers every input line with exactly one output line.
-/
namespace IstioModel.Wire

def hexDigit (n : Nat) : Char :=
  if n < 10 then Char.ofNat (48 + n) else Char.ofNat (55 + n)

def hexVal (c : Char) : Option Nat :=
  if '0' ≤ c ∧ c ≤ '9' then some (c.toNat - 48)
  else if 'A' ≤ c ∧ c ≤ 'F' then some (c.toNat - 55)
  else if 'a' ≤ c ∧ c ≤ 'f' then some (c.toNat - 87)
  else none

def safeChar (c : Char) : Bool :=
  c.isAlphanum || c == '_' || c == '.' || c == '/' || c == ':' || c == '*' || c == '@' ||
  c == '=' || c == '+' || c == '-'

/-- Escape a string into one token (ASCII only is produced by the harness; other characters are
    escaped byte-wise through their UTF-8 encoding). -/
def enc (s : String) : String :=
  if s.isEmpty then "~" else
  String.ofList <| s.toUTF8.toList.flatMap fun b =>
    let c := Char.ofNat b.toNat
    if b.toNat < 128 && safeChar c then [c]
    else ['%', hexDigit (b.toNat / 16), hexDigit (b.toNat % 16)]

def decBytes : List Char → List UInt8
  | [] => []
  | '%' :: a :: b :: rest =>
    match hexVal a, hexVal b with
    | some x, some y => UInt8.ofNat (x * 16 + y) :: decBytes rest
    | _, _ => 37 :: decBytes (a :: b :: rest)
  | c :: rest => UInt8.ofNat c.toNat :: decBytes rest

/-- Inverse of `enc`. -/
def dec (t : String) : String :=
  if t == "~" then "" else
  match String.fromUTF8? (ByteArray.mk (decBytes t.toList).toArray) with
  | some s => s
  | none => t

/-- Decode a comma separated list token (`-` is the empty list). -/
def decList (t : String) : List String :=
  if t == "-" then [] else (t.splitOn ",").map dec

def encList (l : List String) : String :=
  if l.isEmpty then "-" else ",".intercalate (l.map enc)

def words (line : String) : List String :=
  (line.trimAscii.toString.splitOn " ").filter (· ≠ "")

def boolTok (b : Bool) : String := if b then "1" else "0"
def tokBool (t : String) : Bool := t == "1" || t == "true"

/-- Generic read-eval-print loop: `step` maps a state and the tokens of one line to a new state
    and one output line. -/
partial def loop {σ : Type} (h : IO.FS.Stream) (out : IO.FS.Stream)
    (step : σ → List String → σ × String) (s : σ) : IO Unit := do
  let line ← h.getLine
  if line.isEmpty then
    out.flush
    return ()
  let (s', o) := step s (words line)
  out.putStrLn o
  loop h out step s'

def run {σ : Type} (init : σ) (step : σ → List String → σ × String) : IO Unit := do
  let i ← IO.getStdin
  let o ← IO.getStdout
  loop i o step init

end IstioModel.Wire
