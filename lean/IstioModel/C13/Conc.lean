import IstioModel.C13.Model

/-!
C13 - the endpoint index as a concurrent object, at lock-region granularity.

`UpdateServiceEndpoints` (non-empty report) is three regions:
  R1  `ShardsForService` under `e.mu.RLock`            (hit: pointer, created = false; miss: go to R2)
  R2  slow path of `GetOrCreateEndpointShard` under `e.mu.Lock` (look up again, create and link if
      absent; returns created = true in both cases, as coded)
      -- gap: no lock held (`verifGate("update:after-lookup")`) --
  W   under `ep.Lock`: diff, shard replace, service accounts, cache clear, push type.
`DeleteServiceShard` (and the empty report), `DeleteShard`, `PruneShard` are one region each (they
hold `e.mu.Lock` throughout; the per-entry `epShards.Lock` sections of the loops commute with write
regions on other entries).

Pointers.  An `*EndpointShards` is only ever linked under the key it was created for, so it is
named by `(key, generation)`: `gen k` counts the objects created for `k`, `linked k` says whether
the newest one is in `shardsBySvc`.  Every older generation, and the newest one after an unlink,
is an orphan: reachable only by goroutines that looked it up earlier.

`fixed = false` is the pinned tree (8d5216c): W writes to whatever it looked up, orphan or not
(finding F4).  `fixed = true` is the repaired code: `deleteServiceInner` marks the object it unlinks
(`unlinked`, under `ep.Lock`), W checks the mark after `ep.Lock()` and starts over when it is set
(keeping `pushType = FullPush` if an earlier round created the entry).
In the model the mark of object `(k, g)` is the derived predicate `Heap.dead k g`.
-/
namespace IstioModel.C13

/-- All `EndpointShards` objects ever allocated, and which of them the index links. -/
structure Heap where
  obj    : Key → Nat → ShardSet := fun _ _ => {}
  gen    : Key → Nat := fun _ => 0
  linked : Key → Bool := fun _ => false

/-- What `ShardsForService` / `Shardz` see. -/
def Heap.index (h : Heap) : Index := ⟨fun k => if h.linked k then some (h.obj k (h.gen k)) else none⟩

/-- The object `(k, g)` is not (or no longer) the one linked in the index. -/
def Heap.dead (h : Heap) (k : Key) (g : Nat) : Bool := !(h.linked k && g == h.gen k)

def Heap.setObj (h : Heap) (k : Key) (g : Nat) (ss : ShardSet) : Heap :=
  { h with obj := fun k' g' => if k' = k ∧ g' = g then ss else h.obj k' g' }

/-- Creation in `GetOrCreateEndpointShard` (called when `k` is not linked). -/
def Heap.create (h : Heap) (k : Key) : Heap :=
  { obj := fun k' g' => if k' = k ∧ g' = h.gen k + 1 then ShardSet.empty else h.obj k' g',
    gen := fun k' => if k' = k then h.gen k + 1 else h.gen k',
    linked := fun k' => if k' = k then true else h.linked k' }

/-- `ss` with the shard erased (the `delete(epShards.Shards, shard)` of `deleteServiceInner`). -/
def eraseShard (ss : ShardSet) (sk : ShardKey) : ShardSet := { ss with shards := aerase ss.shards sk }

/-- `deleteServiceInner` on the linked object of `k`: erase the shard; unlink when nothing is left
    and keys are not preserved. -/
def Heap.deleteInner (h : Heap) (sk : ShardKey) (k : Key) (preserveKeys : Bool) : Heap :=
  if h.linked k then
    { obj := fun k' g' => if k' = k ∧ g' = h.gen k then eraseShard (h.obj k (h.gen k)) sk else h.obj k' g',
      gen := h.gen,
      linked := fun k' =>
        if k' = k then !(!preserveKeys && (eraseShard (h.obj k (h.gen k)) sk).shards.isEmpty) else h.linked k' }
  else h

/-- `DeleteShard` / `PruneShard`: `deleteServiceInner(sk, k, false)` for every linked entry not in
    `skip`. Orphans are not touched. -/
def Heap.deleteShard (h : Heap) (sk : ShardKey) (skip : Key → Bool) : Heap :=
  { obj := fun k g => if h.linked k && !skip k && g == h.gen k then eraseShard (h.obj k g) sk else h.obj k g,
    gen := h.gen,
    linked := fun k => h.linked k && (skip k || !(eraseShard (h.obj k (h.gen k)) sk).shards.isEmpty) }

/-- Program counter of a goroutine executing one operation. -/
inductive PC
  | start (full : Bool)                -- `full`: pushType is already FullPush (a retry after a creation)
  | missed
  | looked (g : Nat) (full : Bool)     -- holds a pointer; `full`: created, now or before a retry
  | done (push : PushType)
  deriving DecidableEq, Repr, Inhabited

def PC.isDone : PC → Bool
  | .done _ => true
  | _ => false

structure Thread where
  op : Op
  pc : PC := .start false
  deriving DecidableEq, Repr, Inhabited

/-- Result of one lock region: new heap, new program counter, and whether this region was the
    operation's last one (its commit point). -/
structure TRes where
  heap   : Heap
  pc     : PC
  commit : Bool := false

/-- One lock region of thread `t`. -/
def tstep (fixed : Bool) (h : Heap) (t : Thread) : TRes :=
  match t.pc with
  | .done p => { heap := h, pc := .done p }
  | .start full =>
    match t.op with
    | .update sk k eps =>
      if eps.isEmpty then
        { heap := h.deleteInner sk k true, pc := .done .incremental, commit := true }
      else if h.linked k then { heap := h, pc := .looked (h.gen k) full }
      else { heap := h, pc := .missed }
    | .deleteSvc sk k p => { heap := h.deleteInner sk k p, pc := .done .incremental, commit := true }
    | .deleteShard sk => { heap := h.deleteShard sk (fun _ => false), pc := .done .incremental, commit := true }
    | .prune sk keep =>
      { heap := h.deleteShard sk (fun k => decide (k ∈ keep)), pc := .done .incremental, commit := true }
  | .missed =>
    match t.op with
    | .update _ k _ =>
      if h.linked k then { heap := h, pc := .looked (h.gen k) true }
      else { heap := h.create k, pc := .looked (h.gen k + 1) true }
    | _ => { heap := h, pc := .missed }
  | .looked g full =>
    match t.op with
    | .update sk k eps =>
      if fixed && h.dead k g then { heap := h, pc := .start full }
      else
        { heap := h.setObj k g (writeSS (h.obj k g) sk eps),
          pc := .done (writePush (h.obj k g) sk eps full), commit := true }
    | _ => { heap := h, pc := .looked g full }

/-- A configuration: heap, one thread per operation, and (ghost) the commit order: the operations,
    and the indices of their threads, in the order of their commit regions. -/
structure Cfg where
  heap    : Heap := {}
  threads : List Thread := []
  log     : List Op := []
  ilog    : List Nat := []

/-- Thread `i` runs its next lock region. -/
def cstep (fixed : Bool) (c : Cfg) (i : Nat) : Cfg :=
  match c.threads[i]? with
  | none => c
  | some t =>
    let r := tstep fixed c.heap t
    { heap := r.heap, threads := c.threads.set i { t with pc := r.pc },
      log := if r.commit then c.log ++ [t.op] else c.log,
      ilog := if r.commit then c.ilog ++ [i] else c.ilog }

def initCfg (ops : List Op) : Cfg := { threads := ops.map (fun o => { op := o }) }

/-- Run a schedule (a sequence of thread indices). -/
def crun (fixed : Bool) (c : Cfg) (sched : List Nat) : Cfg := sched.foldl (cstep fixed) c

def Cfg.allDone (c : Cfg) : Bool := c.threads.all (fun t => t.pc.isDone)

/-- Is thread `t` about to write to an orphan. -/
def Thread.orphanWrite (h : Heap) (t : Thread) : Bool :=
  match t.pc, t.op with
  | .looked g _, .update _ k _ => h.dead k g
  | _, _ => false

/-- No write region of the schedule lands on an orphaned `EndpointShards`: no unlinking delete fell
    between an update's lookup and its write. -/
def orphanFree (c : Cfg) : List Nat → Bool
  | [] => true
  | i :: rest =>
    (match c.threads[i]? with
     | some t => !t.orphanWrite c.heap
     | none => true) && orphanFree (cstep false c i) rest

end IstioModel.C13
