import IstioModel.C13.Cla
import IstioModel.C13.Theorems

/-!
# C13 - property theorems, part 3: membership of the ClusterLoadAssignment

"... the endpoints it is given are exactly the endpoints last reported by each registry for that
service and port that match the subset labels and are healthy (or explicitly allowed unhealthy),
discoverable from and visible to that proxy, grouped by locality with consistent weights."

The model is `Cla.lean` (`BuildClusterLoadAssignment` in the configuration stated there).
-/
namespace IstioModel.C13

/-! ## The port / address / subset stage -/

theorem stage1_some (b : Builder) (l : List Ep) (h : ∀ e ∈ l, portFilter b e ≠ none) :
    stage1 b l = some (l.filter (fun e => portFilter b e == some true)) := by
  induction l with
  | nil => rfl
  | cons e t ih =>
    have ht := ih (fun x hx => h x (List.mem_cons_of_mem _ hx))
    have he := h e List.mem_cons_self
    unfold stage1
    rw [ht]
    cases hp : portFilter b e with
    | none => exact absurd hp he
    | some keep => cases keep <;> simp [hp]

theorem stage1_none (b : Builder) (l : List Ep) (e : Ep) (he : e ∈ l) (hp : portFilter b e = none) :
    stage1 b l = none := by
  induction l with
  | nil => cases he
  | cons a t ih =>
    unfold stage1
    rcases List.mem_cons.mp he with rfl | ht
    · rw [hp]
    · rw [ih ht]
      cases portFilter b a <;> rfl

/-- The only panic of the stage: an endpoint on the cluster's port without any address. -/
theorem portFilter_none_iff (b : Builder) (e : Ep) :
    portFilter b e = none ↔ b.portName = e.port ∧ e.addrs = [] := by
  unfold portFilter
  by_cases hp : b.portName = e.port
  · cases ha : e.addrs with
    | nil => simp [hp]
    | cons a t =>
      simp only [hp, ne_eq, not_true_eq_false, if_false]
      split <;> simp
  · simp [hp]

/-! ## Locality grouping -/

theorem insertSorted_perm (x : String) (l : List String) : (insertSorted x l).Perm (x :: l) := by
  induction l with
  | nil => exact List.Perm.refl _
  | cons y t ih =>
    unfold insertSorted
    split
    · exact List.Perm.refl _
    · exact (List.Perm.cons y ih).trans (List.Perm.swap x y t)

theorem mem_localities (eps : List Ep) (l : String) : l ∈ localities eps ↔ ∃ e ∈ eps, e.loc = l := by
  induction eps with
  | nil => simp [localities]
  | cons e t ih =>
    simp only [localities]
    split
    · next hc =>
      rw [ih]
      constructor
      · rintro ⟨x, hx, rfl⟩; exact ⟨x, List.mem_cons_of_mem _ hx, rfl⟩
      · rintro ⟨x, hx, rfl⟩
        rcases List.mem_cons.mp hx with rfl | hx
        · exact ih.mp (by simpa using hc)
        · exact ⟨x, hx, rfl⟩
    · rw [(insertSorted_perm e.loc (localities t)).mem_iff, List.mem_cons, ih]
      constructor
      · rintro (rfl | ⟨x, hx, rfl⟩)
        · exact ⟨e, List.mem_cons_self, rfl⟩
        · exact ⟨x, List.mem_cons_of_mem _ hx, rfl⟩
      · rintro ⟨x, hx, rfl⟩
        rcases List.mem_cons.mp hx with rfl | hx
        · exact Or.inl rfl
        · exact Or.inr ⟨x, hx, rfl⟩

/-- Each locality label occurs once. -/
theorem localities_nodup (eps : List Ep) : (localities eps).Nodup := by
  induction eps with
  | nil => exact List.nodup_nil
  | cons e t ih =>
    simp only [localities]
    split
    · exact ih
    · next hc =>
      rw [(insertSorted_perm e.loc (localities t)).nodup_iff, List.nodup_cons]
      exact ⟨by simpa using hc, ih⟩

theorem flatMap_congr' {α β : Type} (l : List α) (f g : α → List β) (h : ∀ a ∈ l, f a = g a) :
    l.flatMap f = l.flatMap g := by
  induction l with
  | nil => rfl
  | cons a t ih =>
    rw [List.flatMap_cons, List.flatMap_cons, h a List.mem_cons_self,
      ih (fun x hx => h x (List.mem_cons_of_mem _ hx))]

/-- Splitting a list by a duplicate-free list of labels that covers it loses and duplicates
    nothing. -/
theorem partition_perm (L : List String) (eps : List Ep) (hn : L.Nodup) (hc : ∀ e ∈ eps, e.loc ∈ L) :
    (L.flatMap fun l => eps.filter (fun e => e.loc == l)).Perm eps := by
  induction L generalizing eps with
  | nil =>
    cases eps with
    | nil => exact List.Perm.refl _
    | cons e t => exact absurd (hc e List.mem_cons_self) (by simp)
  | cons l L' ih =>
    rw [List.nodup_cons] at hn
    rw [List.flatMap_cons]
    have hrest : (L'.flatMap fun l' => eps.filter (fun e => e.loc == l')) =
        (L'.flatMap fun l' => (eps.filter (fun e => !(e.loc == l))).filter (fun e => e.loc == l')) := by
      apply flatMap_congr'
      intro l' hl'
      rw [List.filter_filter]
      apply List.filter_congr
      intro e _
      by_cases h : e.loc = l'
      · have : ¬ l' = l := by rintro rfl; exact hn.1 hl'
        simp [h, this]
      · simp [h]
    rw [hrest]
    have hcov : ∀ e ∈ eps.filter (fun e => !(e.loc == l)), e.loc ∈ L' := by
      intro e he
      simp only [List.mem_filter, Bool.not_eq_true', beq_eq_false_iff_ne, ne_eq] at he
      rcases List.mem_cons.mp (hc e he.1) with h | h
      · exact absurd h he.2
      · exact h
    exact (List.Perm.append_left _ (ih _ hn.2 hcov)).trans (List.filter_append_perm _ eps)

theorem flatMap_groupByLocality (eps : List Ep) :
    (groupByLocality eps).flatMap (·.eps) = (localities eps).flatMap fun l => eps.filter (fun e => e.loc == l) := by
  simp [groupByLocality, List.flatMap_map]

/-- **Grouping loses and duplicates nothing**: the endpoints of all groups together are a
    permutation of the grouped list. -/
theorem groupByLocality_perm (eps : List Ep) : ((groupByLocality eps).flatMap (·.eps)).Perm eps := by
  rw [flatMap_groupByLocality]
  exact partition_perm _ eps (localities_nodup eps) (fun e he => (mem_localities eps e.loc).mpr ⟨e, he, rfl⟩)

/-- **Grouped by locality**: one group per locality label, no empty group, and every endpoint of a
    group carries the group's label. -/
theorem grouped_by_locality (eps : List Ep) :
    ((groupByLocality eps).map (·.loc)).Nodup ∧
    ∀ g ∈ groupByLocality eps, g.eps ≠ [] ∧ ∀ e ∈ g.eps, e.loc = g.loc := by
  constructor
  · have : (groupByLocality eps).map (·.loc) = localities eps := by
      simp [groupByLocality, Function.comp_def]
    rw [this]; exact localities_nodup eps
  · intro g hg
    simp only [groupByLocality, List.mem_map] at hg
    obtain ⟨l, hl, rfl⟩ := hg
    constructor
    · obtain ⟨e, he, hel⟩ := (mem_localities eps l).mp hl
      intro hnil
      have : e ∈ eps.filter (fun e => e.loc == l) := by simp [he, hel]
      simp only at hnil
      rw [hnil] at this; cases this
    · intro e he
      simp only [List.mem_filter, beq_iff_eq] at he
      exact he.2

/-! ## Weights -/

theorem lbWeight_pos (e : Ep) : 1 ≤ lbWeight e := by
  unfold lbWeight; split <;> omega

theorem foldl_addU32 (l : List Ep) (acc : Nat) (hacc : acc ≤ maxU32) (hw : ∀ e ∈ l, e.weight ≤ maxU32) :
    l.foldl (fun w e => addU32 w (lbWeight e)) acc = min (acc + (l.map lbWeight).sum) maxU32 := by
  induction l generalizing acc with
  | nil => simp [Nat.min_eq_left hacc]
  | cons e t ih =>
    have hwe : lbWeight e ≤ maxU32 := by
      have := hw e List.mem_cons_self
      unfold lbWeight; split
      · exact this
      · simp [maxU32]
    have hstep : addU32 acc (lbWeight e) = min (acc + lbWeight e) maxU32 := by
      unfold addU32
      split
      · next h => rw [Nat.min_eq_right]; omega
      · next h => rw [Nat.min_eq_left]; omega
    simp only [List.foldl_cons, List.map_cons, List.sum_cons]
    rw [ih _ (by rw [hstep]; exact Nat.min_le_right _ _) (fun x hx => hw x (List.mem_cons_of_mem _ hx)), hstep]
    simp only [Nat.min_def]
    split <;> split <;> split <;> omega

/-- **weights_consistent**: every endpoint weight is at least 1 and the locality weight is the sum
    of its endpoints' weights, saturating at the largest uint32. -/
theorem weights_consistent (eps : List Ep) (hw : ∀ e ∈ eps, e.weight ≤ maxU32) :
    ∀ g ∈ groupByLocality eps,
      g.weight = min ((g.eps.map lbWeight).sum) maxU32 ∧ ∀ e ∈ g.eps, 1 ≤ lbWeight e := by
  intro g hg
  simp only [groupByLocality, List.mem_map] at hg
  obtain ⟨l, _, rfl⟩ := hg
  refine ⟨?_, fun e _ => lbWeight_pos e⟩
  simp only
  rw [foldl_addU32 _ 0 (Nat.zero_le _) (fun e he => hw e (List.mem_filter.mp he).1)]
  simp

/-! ## Membership -/

/-- All endpoints of the registries' shards that `snapshotShards` reads. -/
def readEndpoints (b : Builder) (ss : ShardSet) : List Ep :=
  (ss.shards.filter (fun kv => shardRead b kv.1)).flatMap (·.2)

theorem insertShard_perm (x : ShardKey × List Ep) (l : List (ShardKey × List Ep)) :
    (insertShard x l).Perm (x :: l) := by
  induction l with
  | nil => exact List.Perm.refl _
  | cons y t ih =>
    unfold insertShard
    split
    · exact List.Perm.refl _
    · exact (List.Perm.cons y ih).trans (List.Perm.swap x y t)

theorem sortShards_perm (l : List (ShardKey × List Ep)) : (sortShards l).Perm l := by
  induction l with
  | nil => exact List.Perm.refl _
  | cons x t ih => exact (insertShard_perm x _).trans (List.Perm.cons x ih)

theorem snapshot_perm (b : Builder) (ss : ShardSet) : (snapshot b ss).Perm (readEndpoints b ss) := by
  unfold snapshot readEndpoints
  exact List.Perm.flatMap_right _ (List.Perm.filter _ (sortShards_perm _))

/-- **The builder does not crash** when every endpoint on the cluster's port has an address
    (which all registries guarantee; the address itself may be the empty string). -/
theorem buildCLA_never_crashes (b : Builder) (ss : Option ShardSet)
    (h : ∀ s, ss = some s → ∀ e ∈ readEndpoints b s, e.port = b.portName → e.addrs ≠ []) :
    buildCLA b ss ≠ none := by
  unfold buildCLA
  rw [stage1_some]
  · simp
  · intro e he hn
    obtain ⟨hp, ha⟩ := (portFilter_none_iff b e).mp hn
    cases ss with
    | none => simp at he
    | some s =>
      simp only [Option.map_some, Option.getD_some] at he
      exact h s rfl e ((snapshot_perm b s).mem_iff.mp he) hp.symm ha

/-- **membership_exact.** For a service with an entry in the index, the ClusterLoadAssignment
    contains - each exactly once (as a permutation) - the endpoints last reported by the registries
    whose shards are read that satisfy `member`: cluster's port, usable address, subset labels,
    healthy or allowed unhealthy, not terminating, draining only with persistent sessions,
    discoverable from and visible to the proxy, inside the proxy's cluster / node where the service
    is cluster- / node-local. -/
theorem membership_exact (b : Builder) (ss : ShardSet)
    (h : ∀ e ∈ readEndpoints b ss, e.port = b.portName → e.addrs ≠ []) :
    ∃ gs, buildCLA b (some ss) = some gs ∧
      (gs.flatMap (·.eps)).Perm ((readEndpoints b ss).filter (member b)) := by
  have hs : ∀ e ∈ snapshot b ss, portFilter b e ≠ none := by
    intro e he hn
    obtain ⟨hp, ha⟩ := (portFilter_none_iff b e).mp hn
    exact h e ((snapshot_perm b ss).mem_iff.mp he) hp.symm ha
  refine ⟨_, by simp only [buildCLA, Option.map_some, Option.getD_some]; rw [stage1_some b _ hs], ?_⟩
  refine (groupByLocality_perm _).trans ?_
  rw [List.filter_filter]
  have : (fun a => filterIstio b a && (portFilter b a == some true)) = member b := by
    funext a; simp [member, Bool.and_comm]
  rw [this]
  exact List.Perm.filter _ (snapshot_perm b ss)

/-- A service without an entry in the index has no endpoints. -/
theorem membership_no_entry (b : Builder) : buildCLA b none = some [] := by
  simp [buildCLA, stage1, groupByLocality, localities]

/-- `filterIstioEndpoint` is the conjunction of its clauses. -/
theorem filterIstio_eq (b : Builder) (e : Ep) :
    filterIstio b e =
      (!(b.nodeLocal && e.node != b.proxyNode) && visible b e &&
       !(b.clusterLocal && b.proxyCluster != e.cluster) && discoverable b e && !e.addrs.isEmpty &&
       !(!b.unhealthyOk && e.health == unHealthy) && !(e.health == 4) && !(draining e && !b.persistent)) := by
  unfold filterIstio
  split
  · next h => simp [h]
  · next h1 =>
    split
    · next h => simp at h; simp [h]
    · next h2 =>
      split
      · next h => simp [h]
      · next h3 =>
        split
        · next h => simp at h; simp [h]
        · next h4 =>
          split
          · next h => simp [h]
          · next h5 =>
            split
            · next h => simp [h]
            · next h6 =>
              split
              · next h => simp [h]
              · next h7 =>
                split
                · next h => simp [h]
                · next h8 =>
                  simp only [Bool.not_eq_true] at h1 h2 h3 h4 h5 h6 h7 h8
                  simp only [Bool.not_eq_false'] at h2 h4
                  rw [h1, h2, h3, h4, h5, h6, h7, h8]; rfl

/-- What `member` says, clause by clause. -/
theorem member_iff (b : Builder) (e : Ep) :
    member b e = true ↔
      portFilter b e = some true ∧
      (b.nodeLocal = true → e.node = b.proxyNode) ∧
      visible b e = true ∧
      (b.clusterLocal = true → b.proxyCluster = e.cluster) ∧
      discoverable b e = true ∧
      e.addrs ≠ [] ∧
      (e.health = unHealthy → b.unhealthyOk = true) ∧
      e.health ≠ 4 ∧
      (draining e = true → b.persistent = true) := by
  unfold member
  rw [filterIstio_eq]
  simp only [Bool.and_eq_true, beq_iff_eq, Bool.and_eq_false_iff, bne_eq_false_iff_eq,
    List.isEmpty_eq_false_iff, ne_eq, beq_eq_false_iff_ne, Bool.not_eq_eq_eq_not,
    Bool.not_true, and_assoc]
  constructor
  · rintro ⟨h0, h1, h2, h3, h4, h5, h6, h7, h8⟩
    refine ⟨h0, ?_, h2, ?_, h4, h5, ?_, h7, ?_⟩
    · intro hn; rcases h1 with h | h
      · rw [h] at hn; cases hn
      · exact h
    · intro hn; rcases h3 with h | h
      · rw [h] at hn; cases hn
      · exact h
    · intro hn; rcases h6 with h | h
      · exact h
      · exact absurd hn h
    · intro hn; rcases h8 with h | h
      · rw [h] at hn; cases hn
      · exact h
  · rintro ⟨h0, h1, h2, h3, h4, h5, h6, h7, h8⟩
    refine ⟨h0, ?_, h2, ?_, h4, h5, ?_, h7, ?_⟩
    · cases hb : b.nodeLocal
      · exact Or.inl rfl
      · exact Or.inr (h1 hb)
    · cases hb : b.clusterLocal
      · exact Or.inl rfl
      · exact Or.inr (h3 hb)
    · by_cases hh : e.health = unHealthy
      · exact Or.inl (h6 hh)
      · exact Or.inr hh
    · cases hb : draining e
      · exact Or.inl rfl
      · exact Or.inr (h8 hb)

/-- **The membership clause of the property, written from its text** (not from the builder's code):
    "the endpoints ... for that service and port that match the subset labels and are healthy (or
    explicitly allowed unhealthy), discoverable from and visible to that proxy". -/
def memberSpec (b : Builder) (e : Ep) : Prop :=
  -- for that port
  e.port = b.portName ∧
  -- with a first address that is empty (the endpoint was reported without one: it is a member as reported; only in
  -- multi-network meshes can a gateway stand in for it), a unix socket (port 0), or a well-formed IP (not a host name)
  (∃ a rest, e.addrs = a :: rest ∧ (a = "" ∨ e.eport = 0 ∨ validIP a = true)) ∧
  -- matching the subset labels
  (∀ kv ∈ b.subset, e.labels.lookup kv.1 = some kv.2) ∧
  -- healthy, or unhealthy where that is allowed; never terminating; draining only for
  -- persistent-session services
  (e.health = unHealthy → b.unhealthyOk = true) ∧
  e.health ≠ 4 ∧
  ((e.health = 3 ∨ ∃ v, e.labels.lookup drainingLabel = some v ∧ v ≠ "") → b.persistent = true) ∧
  -- discoverable from the proxy
  (e.disc = 2 → e.cluster = "" ∨ b.proxyCluster = "" ∨ e.cluster = b.proxyCluster) ∧
  -- visible to the proxy (its requested network view)
  (∀ nets, b.view = some nets → e.net = "" ∨ e.net ∈ nets) ∧
  -- inside the proxy's cluster / on its node for cluster-local / node-local services
  (b.clusterLocal = true → b.proxyCluster = e.cluster) ∧
  (b.nodeLocal = true → e.node = b.proxyNode)

theorem exists_cons_iff {a0 : String} {t : List String} {P : String → Prop} :
    (∃ a rest, a0 :: t = a :: rest ∧ P a) ↔ P a0 := by
  constructor
  · rintro ⟨a, rest, h, hp⟩; cases h; exact hp
  · intro h; exact ⟨a0, t, rfl, h⟩

theorem portFilter_true_iff (b : Builder) (e : Ep) :
    portFilter b e = some true ↔
      e.port = b.portName ∧
      (∃ a rest, e.addrs = a :: rest ∧ (a = "" ∨ e.eport = 0 ∨ validIP a = true)) ∧
      (∀ kv ∈ b.subset, e.labels.lookup kv.1 = some kv.2) := by
  unfold portFilter
  by_cases hp : b.portName = e.port
  · cases ha : e.addrs with
    | nil => simp [hp]
    | cons a t =>
      rw [exists_cons_iff]
      simp only [hp, ne_eq, not_true_eq_false, if_false, true_and]
      by_cases h1 : a = ""
      · subst h1
        simp [subsetOf]
      · by_cases h2 : e.eport = 0
        · simp [h1, h2, subsetOf]
        · cases hv : validIP a
          · simp [h1, h2]
          · simp [h1, h2, subsetOf]
  · have : ¬ e.port = b.portName := fun h => hp h.symm
    simp [hp, this]

theorem visible_iff (b : Builder) (e : Ep) :
    visible b e = true ↔ ∀ nets, b.view = some nets → e.net = "" ∨ e.net ∈ nets := by
  unfold visible
  cases hv : b.view with
  | none => simp
  | some nets =>
    simp only [Bool.or_eq_true, List.contains_iff_mem, beq_iff_eq, Option.some.injEq, forall_eq']
    exact Or.comm

theorem discoverable_iff (b : Builder) (e : Ep) :
    discoverable b e = true ↔ (e.disc = 2 → e.cluster = "" ∨ b.proxyCluster = "" ∨ e.cluster = b.proxyCluster) := by
  unfold discoverable sameOrEmpty
  by_cases hd : e.disc = 2 <;> simp [hd, or_assoc]

theorem draining_iff (e : Ep) :
    draining e = true ↔ (e.health = 3 ∨ ∃ v, e.labels.lookup drainingLabel = some v ∧ v ≠ "") := by
  unfold draining
  cases hl : e.labels.lookup drainingLabel with
  | none => simp
  | some v => simp

/-- **`member` is the property's membership clause**: the predicate the builder implements
    (`portFilter` and `filterIstioEndpoint`) is equivalent to `memberSpec`. -/
theorem member_eq_spec (b : Builder) (e : Ep) : member b e = true ↔ memberSpec b e := by
  rw [member_iff, portFilter_true_iff, visible_iff, discoverable_iff, draining_iff]
  unfold memberSpec
  constructor
  · rintro ⟨⟨h1, h2, h3⟩, h4, h5, h6, h7, _, h9, h10, h11⟩
    exact ⟨h1, h2, h3, h9, h10, h11, h7, h5, h6, h4⟩
  · rintro ⟨h1, h2, h3, h9, h10, h11, h7, h5, h6, h4⟩
    refine ⟨⟨h1, h2, h3⟩, h4, h5, h6, h7, ?_, h9, h10, h11⟩
    obtain ⟨a, rest, ha, _⟩ := h2
    rw [ha]; simp

/-- `membership_exact` in terms of the specification. -/
theorem membership_exact_spec (b : Builder) (ss : ShardSet)
    (h : ∀ e ∈ readEndpoints b ss, e.port = b.portName → e.addrs ≠ []) :
    ∃ gs, buildCLA b (some ss) = some gs ∧
      (∀ e, e ∈ gs.flatMap (·.eps) ↔ e ∈ readEndpoints b ss ∧ memberSpec b e) ∧
      (∀ e, (gs.flatMap (·.eps)).count e = ((readEndpoints b ss).filter (member b)).count e) := by
  obtain ⟨gs, hgs, hperm⟩ := membership_exact b ss h
  refine ⟨gs, hgs, ?_, fun e => hperm.count_eq e⟩
  intro e
  rw [hperm.mem_iff, List.mem_filter, member_eq_spec]

/-- Bridge to `pushType_sound`: an endpoint the builder serves is one the index considers worth a
    push (`pushable`), provided the builder's "unhealthy endpoints allowed" agrees with the
    endpoint's `SendUnhealthyEndpoints` flag (both are derived from the service by the registries).
    Hence a `NoPush` update (every added endpoint is not pushable, `noPush_served_unchanged`) adds
    nothing to any ClusterLoadAssignment. -/
theorem member_pushable (b : Builder) (e : Ep) (hm : member b e = true)
    (hc : b.unhealthyOk = true → e.health = unHealthy → e.sendUnh = true) : pushable e = true := by
  have h := ((member_iff b e).mp hm).2.2.2.2.2.2.1
  unfold pushable
  by_cases hh : e.health = unHealthy
  · simp [hc (h hh) hh]
  · simp [hh]

/-- Composition with part 1: what a proxy is served for `(service, namespace)` after any sequential
    history is determined by the abstract map, i.e. by the registries' latest reports. If two index
    states have the same shard list for the service, the ClusterLoadAssignments are equal. -/
theorem cla_depends_on_shards_only (b : Builder) (s1 s2 : ShardSet) (h : s1.shards = s2.shards) :
    buildCLA b (some s1) = buildCLA b (some s2) := by
  simp [buildCLA, snapshot, h]

/-! ## Non-vacuity -/

def bEx : Builder := { portName := "http", subset := [("version", "v1")], proxyCluster := "c1" }
def epV1 : Ep := { ep1 with labels := [("app", "a"), ("version", "v1")], loc := "r1/z1/s1", eport := 8080 }
def epV2 : Ep := { ep2 with labels := [("app", "a"), ("version", "v2")], loc := "r1/z2/s1", eport := 8080 }

/-- A two-registry shard set, queried for subset v1: exactly the v1 endpoint is served. -/
example : (buildCLA bEx (some { shards := [(skA, [epV1]), (skB, [epV2, { epV1 with addrs := ["10.0.0.9"], health := 2 }])] })).map
    (fun gs => gs.map (fun g => (g.loc, g.eps.map (·.addrs), g.weight))) =
    some [("r1/z1/s1", [["10.0.0.1"]], 1)] := by decide

end IstioModel.C13
