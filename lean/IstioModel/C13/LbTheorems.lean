import IstioModel.C13.Lb
import IstioModel.C13.NetTheorems

/-!
C13 - locality-weighted distribution (`localityLbSetting.distribute`): what it does to membership
and to the locality weights.

* `distribute_no_rule`        no rule names the proxy's locality: the assignment is untouched;
* `distribute_groups`         the localities and their order never change;
* `distribute_endpoints`      a locality keeps exactly its endpoints if a target of the rule names it,
                              and loses all of them otherwise (`served_under_distribute`: what is served
                              is what the network filter serves, restricted to the named localities);
* `distribute_weight`, `ceilDiv_spec`  a named locality gets the least integer not below
                              weight x percentage / sum of the weights of the localities the target names;
* `claimedBy_order_independent`, `applyDistribute_order_independent`  when the targets of the rule do not
                              overlap, the order in which they are visited (a Go map) does not matter.
-/
namespace IstioModel.C13

/-- Is the locality named by a target of the rule? -/
def namedBy (r : Distribute) (g : OutGroup) : Bool :=
  r.to.any (fun pw => locMatch (splitLoc g.loc) pw.1)

theorem claimedBy_isSome (r : Distribute) (g : OutGroup) :
    (claimedBy r g).isSome = namedBy r g := by
  rw [Bool.eq_iff_iff]
  simp [claimedBy, namedBy, List.find?_isSome, List.any_eq_true]

/-- The claiming target is a target of the rule that matches the locality. -/
theorem claimedBy_spec (r : Distribute) (g : OutGroup) (pw : String × Nat)
    (h : claimedBy r g = some pw) : pw ∈ r.to ∧ locMatch (splitLoc g.loc) pw.1 = true := by
  exact ⟨List.mem_of_find?_eq_some h, by simpa using List.find?_some h⟩

theorem distribute_no_rule (ploc : Loc) (rules : List Distribute) (gs : List OutGroup)
    (h : ∀ r ∈ rules, locMatch ploc r.src = false) : applyDistribute ploc rules gs = gs := by
  have : rules.find? (fun r => locMatch ploc r.src) = none := by
    rw [List.find?_eq_none]; intro r hr; simp [h r hr]
  simp [applyDistribute, this]

/-- The rule that is applied: the first one whose source matches the proxy's locality. -/
theorem distribute_rule (ploc : Loc) (rules : List Distribute) (gs : List OutGroup) (r : Distribute)
    (h : rules.find? (fun r => locMatch ploc r.src) = some r) :
    applyDistribute ploc rules gs = gs.map (distributeGroup r gs) := by
  simp [applyDistribute, h]

theorem distributeGroup_loc (r : Distribute) (gs : List OutGroup) (g : OutGroup) :
    (distributeGroup r gs g).loc = g.loc := by
  cases h : claimedBy r g with
  | none => simp [distributeGroup, h]
  | some pw => simp only [distributeGroup, h]; split <;> rfl

/-- **Endpoints under a rule**: kept as they are in a named locality, removed in every other one. -/
theorem distribute_endpoints (r : Distribute) (gs : List OutGroup) (g : OutGroup) :
    (distributeGroup r gs g).eps = if namedBy r g then g.eps else [] := by
  rw [← claimedBy_isSome]
  cases h : claimedBy r g with
  | none => simp [distributeGroup, h]
  | some pw => simp only [distributeGroup, h, Option.isSome_some, if_true]; split <;> rfl

theorem distribute_groups (ploc : Loc) (rules : List Distribute) (gs : List OutGroup) :
    (applyDistribute ploc rules gs).map (·.loc) = gs.map (·.loc) := by
  unfold applyDistribute
  split
  · rfl
  · simp [List.map_map, Function.comp_def, distributeGroup_loc]

/-- **Weight under a rule**: a named locality whose target has a positive percentage gets
    `ceil(weight x percentage / total)`, `total` the sum over the localities the same target claims. -/
theorem distribute_weight (r : Distribute) (gs : List OutGroup) (g : OutGroup) (pw : String × Nat)
    (h : claimedBy r g = some pw) (hw : pw.2 ≠ 0) (ht : totalFor r gs pw.1 ≠ 0) :
    (distributeGroup r gs g).weight = ceilDiv (origWeight g * pw.2) (totalFor r gs pw.1) := by
  have ho : origWeight g ≠ 0 := by unfold origWeight; split <;> omega
  have hp : origWeight g * pw.2 ≠ 0 := Nat.mul_ne_zero ho hw
  unfold distributeGroup
  simp [h, ht, hp]

theorem le_sum_of_mem : ∀ (l : List Nat) (a : Nat), a ∈ l → a ≤ l.sum
  | [], _, h => by cases h
  | x :: xs, a, h => by
    rw [List.sum_cons]
    rcases List.mem_cons.mp h with rfl | h'
    · omega
    · have := le_sum_of_mem xs a h'; omega

/-- A claimed locality contributes to its target's total: the total is not 0. -/
theorem totalFor_pos (r : Distribute) (gs : List OutGroup) (g : OutGroup) (pw : String × Nat)
    (hg : g ∈ gs) (h : claimedBy r g = some pw) : totalFor r gs pw.1 ≠ 0 := by
  have ho : origWeight g ≠ 0 := by unfold origWeight; split <;> omega
  have hm : g ∈ gs.filter (fun g => (claimedBy r g).map (·.1) == some pw.1) := by
    simp [List.mem_filter, hg, h]
  have : origWeight g ≤ totalFor r gs pw.1 := by
    unfold totalFor
    exact le_sum_of_mem _ _ (List.mem_map_of_mem (f := origWeight) hm)
  omega

/-- `ceilDiv a b` is the least integer `q` with `a ≤ q * b`. -/
theorem ceilDiv_spec (a b : Nat) (hb : 0 < b) :
    a ≤ ceilDiv a b * b ∧ ∀ q, a ≤ q * b → ceilDiv a b ≤ q := by
  unfold ceilDiv
  constructor
  · have := Nat.div_add_mod (a + b - 1) b
    have hm := Nat.mod_lt (a + b - 1) hb
    rw [Nat.mul_comm] at this
    omega
  · intro q hq
    have h1 : a + b - 1 < (q + 1) * b := by rw [Nat.add_mul, Nat.one_mul]; omega
    exact Nat.le_of_lt_succ ((Nat.div_lt_iff_lt_mul hb).mpr h1)

/-- **What is served under distribute**: an endpoint is in the assignment iff the network filter
    serves it in a locality that the applied rule names (or no rule applies to the proxy). -/
theorem served_under_distribute (ploc : Loc) (rules : List Distribute) (gs : List OutGroup) (le : LbEp) :
    le ∈ (applyDistribute ploc rules gs).flatMap (·.eps) ↔
      ∃ g ∈ gs, le ∈ g.eps ∧
        match rules.find? (fun r => locMatch ploc r.src) with
        | none => True
        | some r => namedBy r g = true := by
  cases h : rules.find? (fun r => locMatch ploc r.src) with
  | none => simp [applyDistribute, h, List.mem_flatMap]
  | some r =>
    simp only [applyDistribute, h, List.mem_flatMap, List.mem_map]
    constructor
    · rintro ⟨_, ⟨g, hg, rfl⟩, hle⟩
      rw [distribute_endpoints] at hle
      by_cases hn : namedBy r g = true
      · exact ⟨g, hg, by simpa [hn] using hle, hn⟩
      · simp [hn] at hle
    · rintro ⟨g, hg, hle, hn⟩
      exact ⟨_, ⟨g, hg, rfl⟩, by rw [distribute_endpoints]; simpa [hn] using hle⟩

/-! ### The order of the targets (a Go map) does not matter when they do not overlap -/

/-- The targets of the rule do not overlap on this locality: at most one of them matches it. -/
def Disjoint (r : Distribute) (g : OutGroup) : Prop :=
  (r.to.filter (fun pw => locMatch (splitLoc g.loc) pw.1)).length ≤ 1

theorem claimedBy_order_independent (r : Distribute) (to' : List (String × Nat)) (g : OutGroup)
    (hp : to'.Perm r.to) (hd : Disjoint r g) :
    claimedBy { r with to := to' } g = claimedBy r g := by
  unfold claimedBy
  rw [← List.head?_filter, ← List.head?_filter]
  have hperm := hp.filter (fun pw => locMatch (splitLoc g.loc) pw.1)
  unfold Disjoint at hd
  dsimp only at hperm ⊢
  generalize r.to.filter (fun pw => locMatch (splitLoc g.loc) pw.1) = l1 at hperm hd ⊢
  generalize to'.filter (fun pw => locMatch (splitLoc g.loc) pw.1) = l2 at hperm ⊢
  match l1, hperm, hd with
  | [], hperm, _ => rw [List.perm_nil.mp hperm]
  | [a], hperm, _ => rw [List.perm_singleton.mp hperm]
  | _ :: _ :: _, _, hd => simp at hd

theorem applyDistribute_order_independent (r : Distribute) (to' : List (String × Nat)) (gs : List OutGroup)
    (hp : to'.Perm r.to) (hd : ∀ g ∈ gs, Disjoint r g) :
    gs.map (distributeGroup { r with to := to' } gs) = gs.map (distributeGroup r gs) := by
  have hc : ∀ g ∈ gs, claimedBy { r with to := to' } g = claimedBy r g :=
    fun g hg => claimedBy_order_independent r to' g hp (hd g hg)
  have ht : ∀ pat, totalFor { r with to := to' } gs pat = totalFor r gs pat := by
    intro pat
    unfold totalFor
    congr 2
    apply List.filter_congr
    intro g hg
    rw [hc g hg]
  apply List.map_congr_left
  intro g hg
  unfold distributeGroup
  rw [hc g hg]
  split
  · rfl
  · dsimp only; rw [ht]

/-! ### A worked example (the harness world: rule `r1/z1/* -> r1/z1/* 70, r1/z2/* 30`) -/

def exRule : Distribute := { src := "r1/z1/*", to := [("r1/z1/*", 70), ("r1/z2/*", 30)] }

def exGroups : List OutGroup :=
  [{ loc := "r1/z1/s1", weight := 3, eps := [{ host := "10.0.0.1", port := 80, health := 1, weight := 3 }] },
   { loc := "r1/z1/s2", weight := 1, eps := [{ host := "10.0.0.2", port := 80, health := 1, weight := 1 }] },
   { loc := "r1/z2/s1", weight := 200000000, eps := [{ host := "10.0.0.3", port := 80, health := 1, weight := 200000000 }] },
   { loc := "r2/z1/s1", weight := 5, eps := [{ host := "10.0.0.4", port := 80, health := 1, weight := 5 }] }]

/-- Sub-zones share their zone's 70% in proportion 3:1 (rounded up), the other zone gets its 30% however
    large its own weight is, the region no target names keeps its group but loses the endpoints. -/
theorem distribute_example :
    (applyDistribute (splitLoc "r1/z1/s1") [exRule] exGroups).map (fun g => (g.loc, g.weight, g.eps.length)) =
      [("r1/z1/s1", 53, 1), ("r1/z1/s2", 18, 1), ("r1/z2/s1", 30, 1), ("r2/z1/s1", 5, 0)] := by
  decide

end IstioModel.C13
