import IstioModel.C13.Conc
import IstioModel.C13.Theorems
namespace IstioModel.C13

/-!
# C13 - property theorems, part 2: the endpoint index as a concurrent object

"Concurrent updates from different registries, service deletions and cluster removals are applied
as if in some sequential order: no registry's latest report is lost and nothing from a removed
registry or deleted service remains."

The model is `Conc.lean` (lock regions of `UpdateServiceEndpoints`, single-region deletes, any
number of goroutines, any schedule).  `Linearizable fixed` is the full statement: the final index is
the sequential execution of the operations **in their commit order** (`Cfg.log`), which is a
permutation of the operations and respects real time (`commit_order_respects_real_time`: an
operation that completed before another took its first step precedes it).  It is proved for the
repaired code (`index_linearizable`), refuted for the pinned code by a 2-operation, 4-region schedule
(`lost_update_witness_unfixed`, finding F4; `lost_update_no_sequential_order`: no order at all explains
that run) and proved for the pinned code on the schedules in which no write region lands on an
orphan (`index_linearizable_partial_unfixed`).
-/

/-! ## Heap regions are the sequential operations on the linked objects -/

theorem deleteInner_apply (s : Index) (sk : ShardKey) (k k' : Key) (p : Bool) :
    deleteInner s sk k p k' = if k' = k then (s k).bind (fun ss => delSS ss sk p) else s k' := by
  unfold deleteInner
  cases hs : s k with
  | none => by_cases h : k' = k <;> simp [h, hs]
  | some ss => simp [Index.set]

theorem heap_deleteInner_gen (h : Heap) (sk : ShardKey) (k : Key) (p : Bool) :
    (h.deleteInner sk k p).gen = h.gen := by
  simp only [Heap.deleteInner]
  split <;> rfl

theorem heap_index_deleteInner (h : Heap) (sk : ShardKey) (k : Key) (p : Bool) :
    (h.deleteInner sk k p).index = deleteInner h.index sk k p := by
  apply Index.ext; intro k'
  rw [deleteInner_apply]
  by_cases hl : h.linked k = true
  · by_cases hk : k' = k
    · subst hk
      simp only [Heap.deleteInner, Heap.index, hl, if_true, eraseShard, delSS, Option.bind_some, and_self]
      generalize (!p && (aerase (h.obj k' (h.gen k')).shards sk).isEmpty) = c
      cases c <;> simp
    · simp [Heap.deleteInner, Heap.index, hl, hk]
  · by_cases hk : k' = k
    · subst hk; simp [Heap.deleteInner, Heap.index, hl]
    · simp [Heap.deleteInner, hl, hk]

theorem heap_deleteShard_gen (h : Heap) (sk : ShardKey) (skip : Key → Bool) :
    (h.deleteShard sk skip).gen = h.gen := rfl

theorem heap_index_deleteShard (h : Heap) (sk : ShardKey) (skip : Key → Bool) (k : Key) :
    (h.deleteShard sk skip).index k =
      if skip k then h.index k else (h.index k).bind (fun ss => delSS ss sk false) := by
  by_cases hl : h.linked k = true <;> by_cases hs : skip k = true <;>
    by_cases hc : (aerase (h.obj k (h.gen k)).shards sk).isEmpty = true <;>
    simp_all [Heap.deleteShard, Heap.index, eraseShard, delSS]

theorem heap_index_setObj_live (h : Heap) (k : Key) (ss : ShardSet) (hl : h.linked k = true) :
    (h.setObj k (h.gen k) ss).index = h.index.set k (some ss) := by
  apply Index.ext; intro k'
  simp only [Heap.setObj, Heap.index, Index.set]
  by_cases hk : k' = k
  · subst hk; simp [hl]
  · simp [hk]

theorem heap_index_create (h : Heap) (k : Key) (hl : h.linked k = false) :
    (h.create k).index = h.index.set k (some ShardSet.empty) := by
  apply Index.ext; intro k'
  simp only [Heap.create, Heap.index, Index.set]
  by_cases hk : k' = k
  · subst hk; simp
  · simp [hk]

/-! ## The simulation relation -/

/-- Thread `t` holds a pointer to object `(k, g)` and has not written yet. -/
def Thread.pendingAt (t : Thread) (k : Key) (g : Nat) : Prop :=
  ∃ sk eps full, t.op = .update sk k eps ∧ t.pc = .looked g full

/-- Some thread holds a pointer to `(k, g)`. -/
def Wit (ts : List Thread) (k : Key) (g : Nat) : Prop :=
  ∃ (j : Nat) (tj : Thread), ts[j]? = some tj ∧ tj.pendingAt k g

/-- The concurrent heap and the sequential index `S` (the committed operations executed one at a
    time) agree, except that a service entry created by an update that has not written yet is
    present-and-empty in the heap and absent in `S`. -/
def Sim (h : Heap) (ts : List Thread) (S : Index) : Prop :=
  ∀ k, h.index k = S k ∨ (h.index k = some ShardSet.empty ∧ S k = none ∧ Wit ts k (h.gen k))

/-- Program counters `missed` / `looked` only occur in non-empty updates. -/
def Thread.wf (t : Thread) : Prop :=
  match t.pc with
  | .missed | .looked _ _ => ∃ sk k eps, t.op = .update sk k eps ∧ eps ≠ []
  | _ => True

theorem wit_set_of_not {ts : List Thread} {k : Key} {g i : Nat} {t t' : Thread}
    (hw : Wit ts k g) (hi : ts[i]? = some t) (hn : ¬ t.pendingAt k g) : Wit (ts.set i t') k g := by
  obtain ⟨j, tj, hj, hp⟩ := hw
  refine ⟨j, tj, ?_, hp⟩
  by_cases hij : i = j
  · subst hij
    rw [hi] at hj
    cases hj
    exact absurd hp hn
  · rw [List.getElem?_set_ne hij]; exact hj

theorem wit_set_self {ts : List Thread} {k : Key} {g i : Nat} {t t' : Thread}
    (hi : ts[i]? = some t) (hp : t'.pendingAt k g) : Wit (ts.set i t') k g := by
  refine ⟨i, t', ?_, hp⟩
  have : i < ts.length := by
    rcases Nat.lt_or_ge i ts.length with h | h
    · exact h
    · rw [List.getElem?_eq_none h] at hi; cases hi
  rw [List.getElem?_set_self this]

/-- Frame rule: a step of thread `i` that does not hold a pointer the relation depends on, and that
    leaves every key but `k` alone, preserves the relation if it holds at `k` afterwards. -/
theorem sim_frame {h h' : Heap} {ts : List Thread} {S S' : Index} {i : Nat} {t t' : Thread} (k : Key)
    (hsim : Sim h ts S) (hi : ts[i]? = some t)
    (hidx : ∀ k', k' ≠ k → h'.index k' = h.index k') (hgen : ∀ k', k' ≠ k → h'.gen k' = h.gen k')
    (hS : ∀ k', k' ≠ k → S' k' = S k')
    (hnp : ∀ k', k' ≠ k → ¬ t.pendingAt k' (h.gen k'))
    (hk : h'.index k = S' k ∨ (h'.index k = some ShardSet.empty ∧ S' k = none ∧ Wit (ts.set i t') k (h'.gen k))) :
    Sim h' (ts.set i t') S' := by
  intro k'
  by_cases hkk : k' = k
  · subst hkk; exact hk
  · rw [hidx k' hkk, hS k' hkk, hgen k' hkk]
    rcases hsim k' with hl | ⟨h1, h2, hw⟩
    · exact Or.inl hl
    · exact Or.inr ⟨h1, h2, wit_set_of_not hw hi (hnp k' hkk)⟩

/-- Steps that change neither the heap nor `S` preserve the relation when the stepping thread is
    not a witness of any phantom entry. -/
theorem sim_same {h : Heap} {ts : List Thread} {S : Index} {i : Nat} {t t' : Thread}
    (hsim : Sim h ts S) (hi : ts[i]? = some t)
    (hnp : ∀ k, h.index k = some ShardSet.empty → ¬ t.pendingAt k (h.gen k)) :
    Sim h (ts.set i t') S := by
  intro k
  rcases hsim k with hl | ⟨h1, h2, hw⟩
  · exact Or.inl hl
  · exact Or.inr ⟨h1, h2, wit_set_of_not hw hi (hnp k h1)⟩

theorem eraseShard_empty (sk : ShardKey) : eraseShard ShardSet.empty sk = ShardSet.empty := rfl

/-- The per-key effect of a delete region on the relation. -/
theorem rel_del {a b : Option ShardSet} (sk : ShardKey) (p : Bool) {W : Prop}
    (h : a = b ∨ (a = some ShardSet.empty ∧ b = none ∧ W)) :
    (a.bind fun ss => delSS ss sk p) = (b.bind fun ss => delSS ss sk p) ∨
      ((a.bind fun ss => delSS ss sk p) = some ShardSet.empty ∧ (b.bind fun ss => delSS ss sk p) = none ∧ W) := by
  rcases h with rfl | ⟨rfl, rfl, hw⟩
  · exact Or.inl rfl
  · cases p
    · left; simp [delSS, ShardSet.empty, aerase]
    · right; exact ⟨by simp [delSS, ShardSet.empty, aerase], rfl, hw⟩

theorem not_pending_of_pc {t : Thread} (h : ∀ g f, t.pc ≠ .looked g f) (k : Key) (g : Nat) : ¬ t.pendingAt k g := by
  rintro ⟨_, _, f, _, hpc⟩
  exact h g f hpc

/-- A `deleteServiceInner` region (service delete or empty report) preserves the relation. -/
theorem sim_deleteInner {h : Heap} {ts : List Thread} {S : Index} {i : Nat} {t t' : Thread}
    (sk : ShardKey) (k : Key) (p : Bool)
    (hsim : Sim h ts S) (hi : ts[i]? = some t) (hnp : ∀ k g, ¬ t.pendingAt k g) :
    Sim (h.deleteInner sk k p) (ts.set i t') (deleteInner S sk k p) := by
  refine sim_frame k hsim hi ?_ ?_ ?_ (fun k' _ => hnp k' _) ?_
  · intro k' hk; rw [heap_index_deleteInner, deleteInner_apply]; simp [hk]
  · intro k' _; rw [heap_deleteInner_gen]
  · intro k' hk; rw [deleteInner_apply]; simp [hk]
  · rw [heap_index_deleteInner, deleteInner_apply, deleteInner_apply, heap_deleteInner_gen]
    simp only [if_true]
    apply rel_del
    rcases hsim k with hl | ⟨h1, h2, hw⟩
    · exact Or.inl hl
    · exact Or.inr ⟨h1, h2, wit_set_of_not hw hi (hnp k _)⟩

/-- A `DeleteShard` / `PruneShard` region preserves the relation (`skip` = the keep set). -/
theorem sim_deleteShard {h : Heap} {ts : List Thread} {S : Index} {i : Nat} {t t' : Thread}
    (sk : ShardKey) (skip : Key → Bool)
    (hsim : Sim h ts S) (hi : ts[i]? = some t) (hnp : ∀ k g, ¬ t.pendingAt k g) :
    Sim (h.deleteShard sk skip) (ts.set i t')
      ⟨fun k => if skip k then S k else (S k).bind (fun ss => delSS ss sk false)⟩ := by
  intro k
  rw [heap_index_deleteShard, heap_deleteShard_gen]
  have hk : h.index k = S k ∨ (h.index k = some ShardSet.empty ∧ S k = none ∧ Wit (ts.set i t') k (h.gen k)) := by
    rcases hsim k with hl | ⟨h1, h2, hw⟩
    · exact Or.inl hl
    · exact Or.inr ⟨h1, h2, wit_set_of_not hw hi (hnp k _)⟩
  by_cases hs : skip k = true
  · simp only [hs, if_true]; exact hk
  · simp only [hs]; exact rel_del sk false hk

/-- The write region on a live object is the sequential update. -/
theorem sim_write {h : Heap} {ts : List Thread} {S : Index} {i : Nat} {t t' : Thread}
    (sk : ShardKey) (k : Key) (eps : List Ep) (hne : eps ≠ [])
    (hsim : Sim h ts S) (hi : ts[i]? = some t) (hl : h.linked k = true)
    (honly : ∀ k' g, k' ≠ k → ¬ t.pendingAt k' g) :
    Sim (h.setObj k (h.gen k) (writeSS (h.obj k (h.gen k)) sk eps)) (ts.set i t')
      (step S (.update sk k eps)) := by
  have hS : step S (.update sk k eps) = S.set k (some (writeSS ((S k).getD ShardSet.empty) sk eps)) := by
    simp only [step, apply]; exact (update_nonempty S sk k eps hne).1
  refine sim_frame k hsim hi ?_ ?_ ?_ (fun k' hk => honly k' _ hk) ?_
  · intro k' hk; rw [heap_index_setObj_live h k _ hl]; simp [Index.set, hk]
  · intro k' _; rfl
  · intro k' hk; rw [hS]; simp [Index.set, hk]
  · left
    rw [heap_index_setObj_live h k _ hl, hS]
    simp only [Index.set_same]
    have hix : h.index k = some (h.obj k (h.gen k)) := by simp [Heap.index, hl]
    rcases hsim k with he | ⟨h1, h2, _⟩
    · rw [← he, hix]; rfl
    · rw [hix] at h1
      have h3 : h.obj k (h.gen k) = ShardSet.empty := Option.some.inj h1
      rw [h2, h3]; rfl

theorem step_deleteShard (S : Index) (sk : ShardKey) :
    step S (.deleteShard sk) = ⟨fun k => if (fun _ => false) k = true then S k else (S k).bind (fun ss => delSS ss sk false)⟩ := by
  apply Index.ext; intro k; simp [step, apply, deleteShard_st]

theorem step_prune (S : Index) (sk : ShardKey) (keep : List Key) :
    step S (.prune sk keep) =
      ⟨fun k => if (fun k => decide (k ∈ keep)) k = true then S k else (S k).bind (fun ss => delSS ss sk false)⟩ := by
  apply Index.ext; intro k; simp [step, apply, pruneShard_st]

theorem step_update_empty (S : Index) (sk : ShardKey) (k : Key) :
    step S (.update sk k []) = deleteInner S sk k true := by
  simp only [step, apply]; exact (update_empty S sk k).1

/-- **One lock region of the repaired code preserves the simulation relation** (and
    well-formedness): regions that are not a commit point leave the sequential state alone, a commit
    region corresponds to executing the whole operation sequentially at that moment. -/
theorem sim_tstep {h : Heap} {ts : List Thread} {S : Index} {i : Nat} {t : Thread}
    (hsim : Sim h ts S) (hwf : t.wf) (hi : ts[i]? = some t) :
    Sim (tstep true h t).heap (ts.set i { t with pc := (tstep true h t).pc })
        (if (tstep true h t).commit then step S t.op else S) ∧
    ({ t with pc := (tstep true h t).pc } : Thread).wf := by
  obtain ⟨op, pc⟩ := t
  cases pc with
  | done p =>
    simp only [tstep]
    exact ⟨sim_same hsim hi (fun k _ => not_pending_of_pc (by simp) k _), trivial⟩
  | start full =>
    have hnp : ∀ k g, ¬ (Thread.mk op (.start full)).pendingAt k g := fun k g => not_pending_of_pc (by simp) k g
    cases op with
    | update sk k eps =>
      by_cases he : eps = []
      · subst he
        simp only [tstep, List.isEmpty_nil, if_true, step_update_empty]
        exact ⟨sim_deleteInner sk k true hsim hi hnp, trivial⟩
      · have he' : eps.isEmpty = false := by cases eps <;> simp_all
        by_cases hl : h.linked k = true
        · simp only [tstep, he', hl, if_true, Bool.false_eq_true, if_false]
          exact ⟨sim_same hsim hi (fun k _ => hnp k _), ⟨sk, k, eps, rfl, he⟩⟩
        · simp only [tstep, he', hl, Bool.false_eq_true, if_false]
          exact ⟨sim_same hsim hi (fun k _ => hnp k _), ⟨sk, k, eps, rfl, he⟩⟩
    | deleteSvc sk k p =>
      simp only [tstep, if_true]
      exact ⟨sim_deleteInner sk k p hsim hi hnp, trivial⟩
    | deleteShard sk =>
      simp only [tstep, if_true, step_deleteShard]
      exact ⟨sim_deleteShard sk _ hsim hi hnp, trivial⟩
    | prune sk keep =>
      simp only [tstep, if_true, step_prune]
      exact ⟨sim_deleteShard sk _ hsim hi hnp, trivial⟩
  | missed =>
    have hnp : ∀ k g, ¬ (Thread.mk op .missed).pendingAt k g := fun k g => not_pending_of_pc (by simp) k g
    obtain ⟨sk, k, eps, hop, hne⟩ := hwf
    simp only at hop
    subst hop
    by_cases hl : h.linked k = true
    · simp only [tstep, hl, if_true, Bool.false_eq_true, if_false]
      exact ⟨sim_same hsim hi (fun k _ => hnp k _), ⟨sk, k, eps, rfl, hne⟩⟩
    · have hl' : h.linked k = false := by simpa using hl
      simp only [tstep, hl', Bool.false_eq_true, if_false]
      refine ⟨?_, ⟨sk, k, eps, rfl, hne⟩⟩
      refine sim_frame k hsim hi ?_ ?_ (fun _ _ => rfl) (fun k' _ => hnp k' _) ?_
      · intro k' hk; rw [heap_index_create h k hl']; simp [Index.set, hk]
      · intro k' hk; simp [Heap.create, hk]
      · right
        have hnone : h.index k = none := by simp [Heap.index, hl']
        refine ⟨by rw [heap_index_create h k hl']; simp, ?_, ?_⟩
        · rcases hsim k with he | ⟨h1, _, _⟩
          · rw [← he, hnone]
          · rw [hnone] at h1; cases h1
        · apply wit_set_self hi
          exact ⟨sk, eps, true, rfl, by simp [Heap.create]⟩
  | looked g full =>
    obtain ⟨sk, k, eps, hop, hne⟩ := hwf
    simp only at hop
    subst hop
    have honly : ∀ k' g', k' ≠ k → ¬ (Thread.mk (.update sk k eps) (.looked g full)).pendingAt k' g' := by
      rintro k' g' hk ⟨_, _, _, hop, _⟩
      simp only [Op.update.injEq] at hop
      exact hk hop.2.1.symm
    by_cases hd : h.dead k g = true
    · simp only [tstep, hd, Bool.true_and, if_true, Bool.false_eq_true, if_false]
      refine ⟨sim_same hsim hi ?_, trivial⟩
      intro k' hix
      by_cases hk : k' = k
      · subst hk
        rintro ⟨_, _, _, _, hpc⟩
        simp only [PC.looked.injEq] at hpc
        have hlk : h.linked k' = true := by
          simp only [Heap.index] at hix
          by_cases hh : h.linked k' = true
          · exact hh
          · simp [hh] at hix
        simp [Heap.dead, hlk, hpc.1] at hd
      · exact honly k' _ hk
    · have hd' : h.dead k g = false := by simpa using hd
      simp only [Heap.dead, Bool.not_eq_false', Bool.and_eq_true, beq_iff_eq] at hd'
      obtain ⟨hl, hg⟩ := hd'
      subst hg
      have hd2 : h.dead k (h.gen k) = false := by simp [Heap.dead, hl]
      simp only [tstep, hd2, Bool.and_false, Bool.false_eq_true, if_false, if_true]
      exact ⟨sim_write sk k eps hne hsim hi hl honly, trivial⟩

/-! ## Every operation commits exactly once -/

/-- The operations of the threads that have not committed yet. -/
def pendingOps (ts : List Thread) : List Op := (ts.filter (fun t => !t.pc.isDone)).map (·.op)

theorem tstep_commit (fixed : Bool) (h : Heap) (t : Thread) :
    (tstep fixed h t).commit = (!t.pc.isDone && (tstep fixed h t).pc.isDone) := by
  obtain ⟨op, pc⟩ := t
  cases pc with
  | done p => simp [tstep, PC.isDone]
  | start full =>
    cases op with
    | update sk k eps =>
      simp only [tstep]
      split
      · simp [PC.isDone]
      · split <;> simp [PC.isDone]
    | deleteSvc sk k p => simp [tstep, PC.isDone]
    | deleteShard sk => simp [tstep, PC.isDone]
    | prune sk keep => simp [tstep, PC.isDone]
  | missed =>
    cases op with
    | update sk k eps => simp only [tstep]; split <;> simp [PC.isDone]
    | deleteSvc sk k p => simp [tstep, PC.isDone]
    | deleteShard sk => simp [tstep, PC.isDone]
    | prune sk keep => simp [tstep, PC.isDone]
  | looked g full =>
    cases op with
    | update sk k eps => simp only [tstep]; split <;> simp [PC.isDone]
    | deleteSvc sk k p => simp [tstep, PC.isDone]
    | deleteShard sk => simp [tstep, PC.isDone]
    | prune sk keep => simp [tstep, PC.isDone]

theorem tstep_done_stays (fixed : Bool) (h : Heap) (t : Thread) (hd : t.pc.isDone = true) :
    (tstep fixed h t).pc.isDone = true := by
  obtain ⟨op, pc⟩ := t
  cases pc <;> simp_all [tstep, PC.isDone]

theorem pendingOps_set_same {ts : List Thread} {i : Nat} {t t' : Thread} (hi : ts[i]? = some t)
    (hop : t'.op = t.op) (hd : t'.pc.isDone = t.pc.isDone) : pendingOps (ts.set i t') = pendingOps ts := by
  induction ts generalizing i with
  | nil => simp at hi
  | cons a l ih =>
    cases i with
    | zero =>
      simp only [List.getElem?_cons_zero, Option.some.injEq] at hi
      subst hi
      simp only [List.set_cons_zero, pendingOps, List.filter_cons, hd]
      split <;> simp [hop]
    | succ n =>
      simp only [List.getElem?_cons_succ] at hi
      have := ih hi
      simp only [pendingOps] at this
      simp only [List.set_cons_succ, pendingOps, List.filter_cons]
      split <;> simp [this]

theorem pendingOps_set_done {ts : List Thread} {i : Nat} {t t' : Thread} (hi : ts[i]? = some t)
    (h1 : t.pc.isDone = false) (h2 : t'.pc.isDone = true) :
    (t.op :: pendingOps (ts.set i t')).Perm (pendingOps ts) := by
  induction ts generalizing i with
  | nil => simp at hi
  | cons a l ih =>
    cases i with
    | zero =>
      simp only [List.getElem?_cons_zero, Option.some.injEq] at hi
      subst hi
      simp [pendingOps, h1, h2]
    | succ n =>
      simp only [List.getElem?_cons_succ] at hi
      have := ih hi
      simp only [pendingOps] at this
      simp only [List.set_cons_succ, pendingOps, List.filter_cons]
      split
      · simp only [List.map_cons]
        exact (List.Perm.swap _ _ _).trans (List.Perm.cons _ this)
      · exact this

/-! ## Invariant of whole runs -/

/-- The invariant of a run of the repaired code from `initCfg ops`. -/
structure Inv (ops : List Op) (c : Cfg) : Prop where
  sim  : Sim c.heap c.threads (run Index.empty c.log)
  wf   : ∀ (i : Nat) (t : Thread), c.threads[i]? = some t → t.wf
  perm : (c.log ++ pendingOps c.threads).Perm ops

theorem inv_init (ops : List Op) : Inv ops (initCfg ops) := by
  refine ⟨?_, ?_, ?_⟩
  · intro k; left; rfl
  · intro i t hi
    simp only [initCfg, List.getElem?_map] at hi
    cases hj : ops[i]? with
    | none => simp [hj] at hi
    | some o =>
      simp only [hj, Option.map_some, Option.some.injEq] at hi
      subst hi; trivial
  · have : pendingOps (initCfg ops).threads = ops := by
      simp only [initCfg, pendingOps]
      induction ops with
      | nil => rfl
      | cons o l ih =>
        simp only [List.map_cons, List.filter_cons, PC.isDone, Bool.not_false, if_true]
        exact congrArg (o :: ·) ih
    rw [this]; simp [initCfg]

theorem inv_cstep {ops : List Op} {c : Cfg} (hinv : Inv ops c) (i : Nat) : Inv ops (cstep true c i) := by
  unfold cstep
  cases hi : c.threads[i]? with
  | none => exact hinv
  | some t =>
    simp only
    have hwf := hinv.wf i t hi
    obtain ⟨hs, hw⟩ := sim_tstep hinv.sim hwf hi
    refine ⟨?_, ?_, ?_⟩
    · by_cases hc : (tstep true c.heap t).commit = true
      · simp only [hc, if_true] at hs ⊢
        simpa [run, List.foldl_append] using hs
      · simp only [hc, Bool.false_eq_true, if_false] at hs ⊢
        exact hs
    · intro j tj hj
      by_cases hij : i = j
      · subst hij
        have hlt : i < c.threads.length := by
          rcases Nat.lt_or_ge i c.threads.length with h | h
          · exact h
          · rw [List.getElem?_eq_none h] at hi; cases hi
        rw [List.getElem?_set_self hlt] at hj
        cases hj; exact hw
      · rw [List.getElem?_set_ne hij] at hj; exact hinv.wf j tj hj
    · have hcm := tstep_commit true c.heap t
      by_cases hd : t.pc.isDone = true
      · have hd2 := tstep_done_stays true c.heap t hd
        have hc : (tstep true c.heap t).commit = false := by rw [hcm]; simp [hd]
        simp only [hc, Bool.false_eq_true, if_false]
        rw [pendingOps_set_same (t' := { op := t.op, pc := (tstep true c.heap t).pc }) hi rfl (by simp [hd, hd2])]
        exact hinv.perm
      · have hd' : t.pc.isDone = false := by simpa using hd
        by_cases hd2 : (tstep true c.heap t).pc.isDone = true
        · have hc : (tstep true c.heap t).commit = true := by rw [hcm]; simp [hd', hd2]
          simp only [hc, if_true]
          have hp := pendingOps_set_done (t' := { t with pc := (tstep true c.heap t).pc }) hi hd' hd2
          refine List.Perm.trans ?_ hinv.perm
          rw [List.append_assoc]
          exact List.Perm.append_left _ (by simpa using hp)
        · have hd2' : (tstep true c.heap t).pc.isDone = false := by simpa using hd2
          have hc : (tstep true c.heap t).commit = false := by rw [hcm]; simp [hd2']
          simp only [hc, Bool.false_eq_true, if_false]
          rw [pendingOps_set_same (t' := { op := t.op, pc := (tstep true c.heap t).pc }) hi rfl (by simp [hd', hd2'])]
          exact hinv.perm

theorem inv_crun {ops : List Op} (sched : List Nat) {c : Cfg} (hinv : Inv ops c) :
    Inv ops (crun true c sched) := by
  induction sched generalizing c with
  | nil => exact hinv
  | cons i rest ih => exact ih (inv_cstep hinv i)

theorem pendingOps_of_allDone {c : Cfg} (hd : c.allDone = true) : pendingOps c.threads = [] := by
  simp only [Cfg.allDone, List.all_eq_true] at hd
  simp only [pendingOps, List.map_eq_nil_iff, List.filter_eq_nil_iff]
  intro t ht
  simp [hd t ht]

theorem no_wit_of_allDone {c : Cfg} (hd : c.allDone = true) (k : Key) (g : Nat) : ¬ Wit c.threads k g := by
  rintro ⟨j, tj, hj, _, _, f, _, hpc⟩
  simp only [Cfg.allDone, List.all_eq_true] at hd
  have := hd tj (List.mem_of_getElem? hj)
  rw [hpc] at this
  simp [PC.isDone] at this

/-! ## The commit order respects real time -/

/-- The commit-order invariant (both code variants): the thread-index log has no duplicates, holds
    exactly the threads that are done, and the operation log is its image. -/
structure LogInv (ops : List Op) (c : Cfg) : Prop where
  opsEq : c.threads.map (·.op) = ops
  nodup : c.ilog.Nodup
  done  : ∀ i : Nat, i ∈ c.ilog ↔ ∃ t : Thread, c.threads[i]? = some t ∧ t.pc.isDone = true
  image : c.log = c.ilog.filterMap (fun i => ops[i]?)

theorem loginv_init (ops : List Op) : LogInv ops (initCfg ops) := by
  refine ⟨by simp [initCfg, Function.comp_def], List.nodup_nil, ?_, rfl⟩
  intro i
  simp only [initCfg, List.not_mem_nil, false_iff, List.getElem?_map]
  rintro ⟨t, ht, hd⟩
  cases ho : ops[i]? with
  | none => simp [ho] at ht
  | some o => simp only [ho, Option.map_some, Option.some.injEq] at ht; subst ht; simp [PC.isDone] at hd

theorem loginv_cstep (fixed : Bool) {ops : List Op} {c : Cfg} (h : LogInv ops c) (i : Nat) :
    LogInv ops (cstep fixed c i) := by
  unfold cstep
  cases hi : c.threads[i]? with
  | none => exact h
  | some t =>
    simp only
    have hlt : i < c.threads.length := by
      rcases Nat.lt_or_ge i c.threads.length with hh | hh
      · exact hh
      · rw [List.getElem?_eq_none hh] at hi; cases hi
    have hop : ops[i]? = some t.op := by
      rw [← h.opsEq, List.getElem?_map, hi]; rfl
    have hcm := tstep_commit fixed c.heap t
    refine ⟨?_, ?_, ?_, ?_⟩
    · rw [← h.opsEq]
      apply List.ext_getElem?
      intro j
      by_cases hij : i = j
      · subst hij; rw [List.getElem?_map, List.getElem?_set_self hlt, List.getElem?_map, hi]; rfl
      · rw [List.getElem?_map, List.getElem?_set_ne hij, List.getElem?_map]
    · by_cases hc : (tstep fixed c.heap t).commit = true
      · simp only [hc, if_true]
        rw [List.nodup_append]
        refine ⟨h.nodup, by simp, ?_⟩
        intro a ha b hb
        simp only [List.mem_singleton] at hb
        subst hb
        rintro rfl
        obtain ⟨t', ht', hd'⟩ := (h.done a).mp ha
        rw [hi] at ht'; cases ht'
        rw [hcm] at hc; simp [hd'] at hc
      · simp only [hc, Bool.false_eq_true, if_false]; exact h.nodup
    · intro j
      by_cases hij : i = j
      · subst hij
        rw [List.getElem?_set_self hlt]
        by_cases hc : (tstep fixed c.heap t).commit = true
        · simp only [hc, if_true, List.mem_append, List.mem_singleton, or_true, true_iff]
          rw [hcm] at hc
          simp only [Bool.and_eq_true] at hc
          exact ⟨_, rfl, hc.2⟩
        · simp only [hc, Bool.false_eq_true, if_false]
          rw [h.done i]
          constructor
          · rintro ⟨t', ht', hd'⟩
            rw [hi] at ht'
            have ht'' : t = t' := Option.some.inj ht'
            subst ht''
            exact ⟨_, rfl, tstep_done_stays fixed c.heap t hd'⟩
          · rintro ⟨t', ht', hd'⟩
            simp only [Option.some.injEq] at ht'
            subst ht'
            simp only at hd'
            refine ⟨t, hi, ?_⟩
            rw [hcm] at hc
            cases hdd : t.pc.isDone
            · simp [hdd, hd'] at hc
            · rfl
      · rw [List.getElem?_set_ne hij]
        by_cases hc : (tstep fixed c.heap t).commit = true
        · simp only [hc, if_true, List.mem_append, List.mem_singleton]
          rw [h.done j]
          constructor
          · rintro (hx | hx)
            · exact hx
            · exact absurd hx.symm hij
          · exact Or.inl
        · simp only [hc, Bool.false_eq_true, if_false]; exact h.done j
    · by_cases hc : (tstep fixed c.heap t).commit = true
      · simp only [hc, if_true, h.image, List.filterMap_append, List.filterMap_cons, hop,
          List.filterMap_nil]
      · simp only [hc, Bool.false_eq_true, if_false]; exact h.image

theorem loginv_crun (fixed : Bool) {ops : List Op} (sched : List Nat) {c : Cfg} (h : LogInv ops c) :
    LogInv ops (crun fixed c sched) := by
  induction sched generalizing c with
  | nil => exact h
  | cons i rest ih => exact ih (loginv_cstep fixed h i)

theorem crun_append (fixed : Bool) (c : Cfg) (s1 s2 : List Nat) :
    crun fixed c (s1 ++ s2) = crun fixed (crun fixed c s1) s2 := by
  simp [crun, List.foldl_append]

/-- The commit log only grows. -/
theorem ilog_prefix (fixed : Bool) (sched : List Nat) (c : Cfg) :
    ∃ tail, (crun fixed c sched).ilog = c.ilog ++ tail := by
  induction sched generalizing c with
  | nil => exact ⟨[], by simp [crun]⟩
  | cons i rest ih =>
    obtain ⟨tail, ht⟩ := ih (cstep fixed c i)
    have hstep : ∃ t1, (cstep fixed c i).ilog = c.ilog ++ t1 := by
      unfold cstep
      cases c.threads[i]? with
      | none => exact ⟨[], by simp⟩
      | some t =>
        simp only
        split
        · exact ⟨[i], rfl⟩
        · exact ⟨[], by simp⟩
    obtain ⟨t1, h1⟩ := hstep
    refine ⟨t1 ++ tail, ?_⟩
    simp only [crun, List.foldl_cons] at ht ⊢
    rw [ht, h1, List.append_assoc]

/-- A thread that is not scheduled does not move. -/
theorem thread_untouched (fixed : Bool) (sched : List Nat) (c : Cfg) (b : Nat) (hb : b ∉ sched) :
    (crun fixed c sched).threads[b]? = c.threads[b]? := by
  induction sched generalizing c with
  | nil => rfl
  | cons i rest ih =>
    simp only [List.mem_cons, not_or] at hb
    simp only [crun, List.foldl_cons] at ih ⊢
    rw [ih _ hb.2]
    unfold cstep
    cases c.threads[i]? with
    | none => rfl
    | some t => simp only; rw [List.getElem?_set_ne (fun e => hb.1 e.symm)]

/-- **The commit order respects real time.** If operation `a` has completed after the schedule
    prefix `s1` and operation `b` has not taken a step in `s1`, then in the commit order of any
    continuation `a` comes before `b`: the final thread log is the log after `s1` - which contains
    `a` and not `b` - followed by the later commits, and it has no duplicates. -/
theorem commit_order_respects_real_time (fixed : Bool) (ops : List Op) (s1 s2 : List Nat) (a b : Nat)
    (hdone : ∃ t, (crun fixed (initCfg ops) s1).threads[a]? = some t ∧ t.pc.isDone = true)
    (hb : b ∉ s1) :
    ∃ tail, (crun fixed (initCfg ops) (s1 ++ s2)).ilog = (crun fixed (initCfg ops) s1).ilog ++ tail ∧
      a ∈ (crun fixed (initCfg ops) s1).ilog ∧ b ∉ (crun fixed (initCfg ops) s1).ilog ∧
      (crun fixed (initCfg ops) (s1 ++ s2)).ilog.Nodup ∧
      (crun fixed (initCfg ops) (s1 ++ s2)).log =
        (crun fixed (initCfg ops) (s1 ++ s2)).ilog.filterMap (fun i => ops[i]?) := by
  have h1 := loginv_crun fixed s1 (loginv_init ops)
  have h2 := loginv_crun fixed (s1 ++ s2) (loginv_init ops)
  obtain ⟨tail, ht⟩ := ilog_prefix fixed s2 (crun fixed (initCfg ops) s1)
  refine ⟨tail, by rw [crun_append]; exact ht, (h1.done a).mpr hdone, ?_, h2.nodup, h2.image⟩
  intro hbin
  obtain ⟨t, ht', hd⟩ := (h1.done b).mp hbin
  rw [thread_untouched fixed s1 _ b hb] at ht'
  simp only [initCfg, List.getElem?_map] at ht'
  cases ho : ops[b]? with
  | none => simp [ho] at ht'
  | some o => simp only [ho, Option.map_some, Option.some.injEq] at ht'; subst ht'; simp [PC.isDone] at hd

/-! ## The statement and the theorems -/

/-- **The concurrent clause of the property (full statement).** Whatever the operations, however
    many goroutines and whatever the interleaving of their lock regions, once all operations have
    finished the index is the result of executing them one at a time **in their commit order**
    (`Cfg.log`: each operation is placed at its last lock region, a point between its first and its
    last step), and that order is a permutation of the operations.  By
    `commit_order_respects_real_time` it orders an operation that completed before another started
    first, so "latest report" means latest in real time for non-overlapping operations. -/
def Linearizable (fixed : Bool) : Prop :=
  ∀ (ops : List Op) (sched : List Nat), (crun fixed (initCfg ops) sched).allDone = true →
    (crun fixed (initCfg ops) sched).log.Perm ops ∧
    (crun fixed (initCfg ops) sched).heap.index = run Index.empty (crun fixed (initCfg ops) sched).log

/-- **index_linearizable** (repaired code, commit 16f5918): the full statement holds. -/
theorem index_linearizable : Linearizable true := by
  intro ops sched hd
  have hinv := inv_crun sched (inv_init ops)
  refine ⟨?_, ?_⟩
  · have := hinv.perm
    rw [pendingOps_of_allDone hd, List.append_nil] at this
    exact this
  · apply Index.ext
    intro k
    rcases hinv.sim k with hl | ⟨_, _, hw⟩
    · exact hl
    · exact absurd hw (no_wit_of_allDone hd k _)

/-- **Every intermediate read is consistent** (repaired code): at any point of any schedule, what
    `ShardsForService(svc, ns).Shards[sk]` returns is what the sequential execution of the operations
    committed so far would return. -/
theorem reads_linearizable (ops : List Op) (sched : List Nat) :
    view (crun true (initCfg ops) sched).heap.index = view (run Index.empty (crun true (initCfg ops) sched).log) := by
  have hinv := inv_crun sched (inv_init ops)
  funext k sk
  rcases hinv.sim k with hl | ⟨h1, h2, _⟩
  · simp [view, hl]
  · simp [view, h1, h2, ShardSet.empty, alookup]

/-! ## The pinned code: witness (finding F4) and partial result -/

theorem foldl_specStep_cell (post : List Op) (m : AMap) (sk : ShardKey) (k : Key) (eps : List Ep)
    (hne : eps ≠ []) (hpost : ∀ o ∈ post, o = Op.update sk k eps ∨ o.touches k sk = false)
    (hm : m k sk = some eps) : post.foldl specStep m k sk = some eps := by
  induction post generalizing m with
  | nil => exact hm
  | cons o t ih =>
    simp only [List.foldl_cons]
    apply ih _ (fun o' ho' => hpost o' (List.mem_cons_of_mem _ ho'))
    rcases hpost o List.mem_cons_self with rfl | hnt
    · have : eps.isEmpty = false := by cases eps <;> simp_all
      simp [specStep, this]
    · rw [specStep_untouched m o k sk hnt]; exact hm

/-- **Sequentially, an uncontended report is never lost**: if a registry's non-empty report for a
    service is among the operations and no other operation touches that (service, registry) cell,
    then after executing the operations one at a time in *any* order the cell holds the report. -/
theorem any_order_keeps_report (ops order : List Op) (sk : ShardKey) (k : Key) (eps : List Ep)
    (hperm : order.Perm ops) (hne : eps ≠ []) (hin : Op.update sk k eps ∈ ops)
    (hothers : ∀ o ∈ ops, o = Op.update sk k eps ∨ o.touches k sk = false) :
    view (run Index.empty order) k sk = some eps := by
  have hmem : Op.update sk k eps ∈ order := hperm.mem_iff.mpr hin
  obtain ⟨pre, post, rfl⟩ := List.append_of_mem hmem
  rw [run_refines, List.foldl_append, List.foldl_cons]
  apply foldl_specStep_cell post _ sk k eps hne
  · intro o ho
    exact hothers o (hperm.mem_iff.mp (List.mem_append_right _ (List.mem_cons_of_mem _ ho)))
  · have : eps.isEmpty = false := by cases eps <;> simp_all
    simp [specStep, this]

/-- The witness: registry c2 reports `ep2` for a new service while a `DeleteServiceShard` for registry
    c1 of the same service runs between the update's creation of the entry and its write. -/
def witnessOps : List Op := [.update skB kA [ep2], .deleteSvc skA kA false]
/-- lookup misses ; create + link ; delete finds the entry empty and unlinks it ; write (orphan). -/
def witnessSched : List Nat := [0, 0, 1, 0]

/-- **lost_update_witness (finding F4, pinned tree 8d5216c).** The full statement is false for the
    code before the fix: in the 4-region schedule above both operations finish, every sequential
    order of the two leaves registry c2's report in the index, and the concurrent run loses it. -/
theorem lost_update_witness_unfixed : ¬ Linearizable false := by
  intro hlin
  obtain ⟨hperm, heq⟩ := hlin witnessOps witnessSched (by decide)
  have hseq : view (run Index.empty (crun false (initCfg witnessOps) witnessSched).log) kA skB = some [ep2] :=
    any_order_keeps_report witnessOps _ skB kA [ep2] hperm (by simp) (by simp [witnessOps]) (by decide)
  have hconc : view (crun false (initCfg witnessOps) witnessSched).heap.index kA skB = none := by decide
  rw [heq, hseq] at hconc
  cases hconc

/-- ... and not only the commit order fails: **no** sequential order of the two operations gives
    the index that the pinned code ends with. -/
theorem lost_update_no_sequential_order (order : List Op) (hperm : order.Perm witnessOps) :
    (crun false (initCfg witnessOps) witnessSched).heap.index ≠ run Index.empty order := by
  intro heq
  have hseq : view (run Index.empty order) kA skB = some [ep2] :=
    any_order_keeps_report witnessOps order skB kA [ep2] hperm (by simp) (by simp [witnessOps]) (by decide)
  have hconc : view (crun false (initCfg witnessOps) witnessSched).heap.index kA skB = none := by decide
  rw [heq, hseq] at hconc
  cases hconc

/-- The same schedule on the repaired code: the write region finds the mark, the update starts
    over, and the report is in the index. -/
theorem witness_repaired :
    view (crun true (initCfg witnessOps) (witnessSched ++ [0, 0, 0])).heap.index kA skB = some [ep2] ∧
    (crun true (initCfg witnessOps) (witnessSched ++ [0, 0, 0])).allDone = true := by
  decide

/-- The three-operation witness of DESIGN.md: the service exists with registry c1's endpoints,
    registry c2's update looks the entry up, the service delete for c1 unlinks it, c2 writes. -/
def witnessOps3 : List Op := [.update skA kA [ep1], .update skB kA [ep2], .deleteSvc skA kA false]
def witnessSched3 : List Nat := [0, 0, 0, 1, 2, 1]

theorem lost_update_witness3_unfixed :
    (crun false (initCfg witnessOps3) witnessSched3).allDone = true ∧
    view (crun false (initCfg witnessOps3) witnessSched3).heap.index kA skB = none ∧
    ∀ order : List Op, order.Perm witnessOps3 → view (run Index.empty order) kA skB = some [ep2] := by
  refine ⟨by decide, by decide, ?_⟩
  intro order hperm
  exact any_order_keeps_report witnessOps3 order skB kA [ep2] hperm (by simp) (by simp [witnessOps3]) (by decide)

theorem tstep_false_eq_true (h : Heap) (t : Thread) (hn : t.orphanWrite h = false) :
    tstep false h t = tstep true h t := by
  obtain ⟨op, pc⟩ := t
  cases pc with
  | looked g full =>
    cases op with
    | update sk k eps =>
      simp only [Thread.orphanWrite] at hn
      simp [tstep, hn]
    | deleteSvc sk k p => rfl
    | deleteShard sk => rfl
    | prune sk keep => rfl
  | start full => rfl
  | missed => rfl
  | done p => rfl

theorem crun_false_eq_true (sched : List Nat) (c : Cfg) (hfree : orphanFree c sched = true) :
    crun false c sched = crun true c sched := by
  induction sched generalizing c with
  | nil => rfl
  | cons i rest ih =>
    simp only [orphanFree, Bool.and_eq_true] at hfree
    have hstep : cstep false c i = cstep true c i := by
      unfold cstep
      cases hi : c.threads[i]? with
      | none => rfl
      | some t =>
        have : t.orphanWrite c.heap = false := by simpa [hi] using hfree.1
        simp only [tstep_false_eq_true c.heap t this]
    simp only [crun, List.foldl_cons] at ih ⊢
    rw [← hstep]
    exact ih _ hfree.2

/-- **index_linearizable_partial (pinned code).** Before the fix the statement holds exactly for the
    schedules in which no write region lands on an orphaned shard set (`orphanFree`: no unlinking
    delete falls between an update's lookup and its write). -/
theorem index_linearizable_partial_unfixed (ops : List Op) (sched : List Nat)
    (hfree : orphanFree (initCfg ops) sched = true)
    (hd : (crun false (initCfg ops) sched).allDone = true) :
    (crun false (initCfg ops) sched).log.Perm ops ∧
    (crun false (initCfg ops) sched).heap.index = run Index.empty (crun false (initCfg ops) sched).log := by
  rw [crun_false_eq_true sched _ hfree] at hd ⊢
  exact index_linearizable ops sched hd

/-- Non-vacuity: a schedule with two concurrent updates of one new service and a service delete in
    which nothing is orphaned; the partial theorem applies to it. -/
example : orphanFree (initCfg witnessOps3) [0, 1, 0, 1, 0, 1, 2] = true ∧
    (crun false (initCfg witnessOps3) [0, 1, 0, 1, 0, 1, 2]).allDone = true := by decide

/-- ... and the witness schedule is (of course) not orphan-free. -/
example : orphanFree (initCfg witnessOps) witnessSched = false := by decide

end IstioModel.C13
