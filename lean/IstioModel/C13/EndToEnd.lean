import IstioModel.C13.ClaTheorems
import IstioModel.C13.ConcTheorems
import IstioModel.C13.NetTheorems
import IstioModel.C13.LbTheorems
import IstioModel.C13.Svc

/-!
# C13 - the parts composed

`served_endpoints_exact`: after any sequential history of index operations, the endpoints in the
ClusterLoadAssignment of a cluster are exactly the members (`member`: port, subset, health,
discoverability, visibility, ...) of the *latest* report of every registry whose shard is read.
`served_endpoints_exact_concurrent`: the same for the repaired code after any complete concurrent
run, with "latest" taken in the commit order (`Cfg.log`).
-/
namespace IstioModel.C13

/-! ## Shard keys inside one `EndpointShards` are distinct -/

def keysOf {ν : Type} (l : List (ShardKey × ν)) : List ShardKey := l.map (·.1)

theorem keysOf_aset {ν : Type} (l : List (ShardKey × ν)) (k : ShardKey) (v : ν) :
    keysOf (aset l k v) = if k ∈ keysOf l then keysOf l else keysOf l ++ [k] := by
  induction l with
  | nil => simp [aset, keysOf]
  | cons kv t ih =>
    unfold aset
    by_cases h : kv.1 = k
    · simp [h, keysOf]
    · have h' : ¬ k = kv.1 := fun e => h e.symm
      simp only [h, if_false, keysOf, List.map_cons, List.mem_cons, h', false_or] at ih ⊢
      rw [ih]
      split
      · next hm => simp [hm]
      · next hm => simp [hm]

theorem keysOf_aerase {ν : Type} (l : List (ShardKey × ν)) (k : ShardKey) :
    keysOf (aerase l k) = (keysOf l).filter (fun x => x ≠ k) := by
  induction l with
  | nil => rfl
  | cons kv t ih =>
    unfold aerase
    by_cases h : kv.1 = k
    · simp only [h, if_true, ih]
      simp [keysOf, h]
    · simp only [h, if_false]
      simp only [keysOf, List.map_cons, List.filter_cons] at ih ⊢
      simp [h, ih]

theorem nodup_aset {ν : Type} (l : List (ShardKey × ν)) (k : ShardKey) (v : ν) (h : (keysOf l).Nodup) :
    (keysOf (aset l k v)).Nodup := by
  rw [keysOf_aset]
  split
  · exact h
  · next hk =>
    rw [List.nodup_append]
    exact ⟨h, by simp, by intro a ha b hb; simp at hb; subst hb; rintro rfl; exact hk ha⟩

theorem nodup_aerase {ν : Type} (l : List (ShardKey × ν)) (k : ShardKey) (h : (keysOf l).Nodup) :
    (keysOf (aerase l k)).Nodup := by
  rw [keysOf_aerase]; exact h.filter _

theorem mem_iff_alookup {ν : Type} (l : List (ShardKey × ν)) (h : (keysOf l).Nodup) (k : ShardKey) (v : ν) :
    (k, v) ∈ l ↔ alookup l k = some v := by
  induction l with
  | nil => simp [alookup]
  | cons kv t ih =>
    simp only [keysOf, List.map_cons, List.nodup_cons] at h
    unfold alookup
    by_cases hk : kv.1 = k
    · simp only [hk, if_true, Option.some.injEq, List.mem_cons]
      constructor
      · rintro (heq | hmem)
        · rw [← heq]
        · exact absurd (List.mem_map.mpr ⟨(k, v), hmem, rfl⟩) (hk ▸ h.1)
      · intro hv; left; rw [← hv, ← hk]
    · simp only [hk, if_false, List.mem_cons]
      rw [← ih h.2]
      constructor
      · rintro (heq | hmem)
        · rw [← heq] at hk; exact absurd rfl hk
        · exact hmem
      · exact Or.inr

/-- Every entry of the index has distinct shard keys. -/
def WFIndex (s : Index) : Prop := ∀ k ss, s k = some ss → (keysOf ss.shards).Nodup

theorem wf_delSS (ss ss' : ShardSet) (sk : ShardKey) (p : Bool) (h : (keysOf ss.shards).Nodup)
    (hd : delSS ss sk p = some ss') : (keysOf ss'.shards).Nodup := by
  simp only [delSS] at hd
  split at hd
  · cases hd
  · cases hd; exact nodup_aerase _ _ h

theorem wf_step (s : Index) (op : Op) (h : WFIndex s) : WFIndex (step s op) := by
  intro k' ss' hs'
  cases op with
  | update sk k eps =>
    by_cases he : eps = []
    · subst he
      rw [step_update_empty, deleteInner_apply] at hs'
      by_cases hk : k' = k
      · subst hk
        simp only [if_true] at hs'
        cases hsk : s k' with
        | none => simp [hsk] at hs'
        | some ss => simp only [hsk, Option.bind_some] at hs'; exact wf_delSS ss ss' sk true (h k' ss hsk) hs'
      · simp only [hk, if_false] at hs'; exact h k' ss' hs'
    · have hst : step s (.update sk k eps) = s.set k (some (writeSS ((s k).getD ShardSet.empty) sk eps)) := by
        simp only [step, apply]; exact (update_nonempty s sk k eps he).1
      rw [hst] at hs'
      by_cases hk : k' = k
      · subst hk
        simp only [Index.set_same, Option.some.injEq] at hs'
        subst hs'
        rw [writeSS_shards]
        apply nodup_aset
        cases hsk : s k' with
        | none => simp [ShardSet.empty, keysOf]
        | some ss => simpa using h k' ss hsk
      · rw [Index.set_other _ _ _ _ hk] at hs'; exact h k' ss' hs'
  | deleteSvc sk k p =>
    simp only [step, apply, deleteServiceShard] at hs'
    rw [deleteInner_apply] at hs'
    by_cases hk : k' = k
    · subst hk
      simp only [if_true] at hs'
      cases hsk : s k' with
      | none => simp [hsk] at hs'
      | some ss => simp only [hsk, Option.bind_some] at hs'; exact wf_delSS ss ss' sk p (h k' ss hsk) hs'
    · simp only [hk, if_false] at hs'; exact h k' ss' hs'
  | deleteShard sk =>
    simp only [step, apply, deleteShard_st] at hs'
    cases hsk : s k' with
    | none => simp [hsk] at hs'
    | some ss => simp only [hsk, Option.bind_some] at hs'; exact wf_delSS ss ss' sk false (h k' ss hsk) hs'
  | prune sk keep =>
    simp only [step, apply, pruneShard_st] at hs'
    by_cases hk : k' ∈ keep
    · simp only [hk, if_true] at hs'; exact h k' ss' hs'
    · simp only [hk, if_false] at hs'
      cases hsk : s k' with
      | none => simp [hsk] at hs'
      | some ss => simp only [hsk, Option.bind_some] at hs'; exact wf_delSS ss ss' sk false (h k' ss hsk) hs'

theorem wf_run (ops : List Op) (s : Index) (h : WFIndex s) : WFIndex (run s ops) := by
  induction ops generalizing s with
  | nil => exact h
  | cons op t ih => exact ih (step s op) (wf_step s op h)

theorem wf_empty : WFIndex Index.empty := by
  intro k ss h; cases h

/-! ## End to end -/

/-- The registries' latest reports after a history: the abstract map of part 1. -/
def latestReports (ops : List Op) : AMap := ops.foldl specStep (fun _ _ => none)

/-- **served_endpoints_exact (sequential histories).** After any history of index operations, an
    endpoint is in the ClusterLoadAssignment built for a cluster of service `k` iff it is in the
    latest report of some registry whose shard the builder reads and satisfies the membership
    predicate (port, usable address, subset labels, health rule, discoverability, network view,
    cluster- / node-locality). -/
theorem served_endpoints_exact (ops : List Op) (b : Builder) (k : Key) (gs : List Group)
    (h : buildCLA b (run Index.empty ops k) = some gs) (e : Ep) :
    e ∈ gs.flatMap (·.eps) ↔
      ∃ sk eps, latestReports ops k sk = some eps ∧ shardRead b sk = true ∧ e ∈ eps ∧ member b e = true := by
  have hview : ∀ sk, view (run Index.empty ops) k sk = latestReports ops k sk := by
    intro sk; rw [run_refines]; rfl
  cases hs : run Index.empty ops k with
  | none =>
    rw [hs, membership_no_entry] at h
    cases h
    constructor
    · intro he; simp at he
    · rintro ⟨sk, eps, hl, _, _, _⟩
      rw [← hview, view, hs] at hl; cases hl
  | some ss =>
    rw [hs] at h
    have hwf : (keysOf ss.shards).Nodup := wf_run ops _ wf_empty k ss hs
    -- the CLA, whatever it is, came from the two stages
    unfold buildCLA at h
    simp only [Option.map_some, Option.getD_some] at h
    cases h1 : stage1 b (snapshot b ss) with
    | none => simp [h1] at h
    | some l =>
      simp only [h1, Option.some.injEq] at h
      subst h
      have hl : l = (snapshot b ss).filter (fun e => portFilter b e == some true) := by
        have hno : ∀ x ∈ snapshot b ss, portFilter b x ≠ none := by
          intro x hx hn
          rw [stage1_none b _ x hx hn] at h1; cases h1
        rw [stage1_some b _ hno] at h1
        exact (Option.some.inj h1).symm
      rw [(groupByLocality_perm _).mem_iff, hl, List.filter_filter, List.mem_filter,
        (snapshot_perm b ss).mem_iff]
      simp only [readEndpoints, List.mem_flatMap, List.mem_filter]
      constructor
      · rintro ⟨⟨⟨sk, eps⟩, ⟨hmem, hread⟩, he⟩, hm⟩
        refine ⟨sk, eps, ?_, hread, he, ?_⟩
        · rw [← hview, view, hs]; exact (mem_iff_alookup _ hwf sk eps).mp hmem
        · simpa [member, Bool.and_comm] using hm
      · rintro ⟨sk, eps, hlr, hread, he, hm⟩
        refine ⟨⟨(sk, eps), ⟨?_, hread⟩, he⟩, ?_⟩
        · rw [← hview, view, hs] at hlr; exact (mem_iff_alookup _ hwf sk eps).mpr hlr
        · simpa [member, Bool.and_comm] using hm

/-- **served_endpoints_exact (concurrent runs of the repaired code).** After any complete
    concurrent run, the same holds with the latest reports taken in the **commit order** of the
    operations (`Cfg.log`), which is a permutation of the operations and respects real time
    (`commit_order_respects_real_time`). -/
theorem served_endpoints_exact_concurrent (ops : List Op) (sched : List Nat) (b : Builder) (k : Key)
    (gs : List Group) (hd : (crun true (initCfg ops) sched).allDone = true)
    (h : buildCLA b ((crun true (initCfg ops) sched).heap.index k) = some gs) :
    (crun true (initCfg ops) sched).log.Perm ops ∧
    ∀ e : Ep, e ∈ gs.flatMap (·.eps) ↔
        ∃ sk eps, latestReports (crun true (initCfg ops) sched).log k sk = some eps ∧
          shardRead b sk = true ∧ e ∈ eps ∧ member b e = true := by
  obtain ⟨hperm, heq⟩ := index_linearizable ops sched hd
  rw [heq] at h
  exact ⟨hperm, fun e => served_endpoints_exact _ b k gs h e⟩

/-! ## Multi-network meshes: what is served vs the latest reports -/

/-- `e` is a member (for this builder) of some registry's latest report for service `k`. -/
def LatestMember (ops : List Op) (b : Builder) (k : Key) (e : Ep) : Prop :=
  ∃ sk eps, latestReports ops k sk = some eps ∧ shardRead b sk = true ∧ e ∈ eps ∧ member b e = true

theorem buildCLA_groups (b : Builder) (x : Option ShardSet) (gs : List Group) (h : buildCLA b x = some gs) :
    ∃ l, gs = groupByLocality l := by
  unfold buildCLA at h
  split at h
  · cases h
  · next l _ => exact ⟨_, (Option.some.inj h).symm⟩

/-- **served_endpoints_exact for `serveCLA` (multi-network meshes).** After any history, what a proxy
    is served for a cluster of service `k` when network gateways are configured: the locality groups
    are those of the members of the latest reports (`LatestMember`), each passed through the
    network filter; an endpoint is served iff it is the own address of a member the proxy reaches
    directly (`route = direct`, see `routeSpec`), or the endpoint of a gateway that some member **of
    that locality** is routed through, with the saturating sum of those members' shares as weight. -/
theorem served_endpoints_exact_net (ops : List Op) (b : Builder) (all : List Gw) (k : Key)
    (ogs : List OutGroup) (hne : all ≠ []) (hall : all.Nodup)
    (h : serveCLA b all (run Index.empty ops k) = some ogs) :
    ∃ gs, buildCLA b (run Index.empty ops k) = some gs ∧ ogs = gs.map (filterGroup b all) ∧
      (∀ e, e ∈ gs.flatMap (·.eps) ↔ LatestMember ops b k e) ∧
      (∀ g ∈ gs, ∀ e ∈ g.eps, e.loc = g.loc) ∧
      ∀ le, le ∈ ogs.flatMap (·.eps) ↔
        (∃ e, LatestMember ops b k e ∧ route b all e = .direct le) ∨
        (∃ gw g, g ∈ gs ∧ (∃ e ∈ g.eps, routedVia b all gw e) ∧
          le = gwEndpoint gw (min ((g.eps.map (shareOf b all gw)).sum) maxU32)) := by
  unfold serveCLA at h
  cases hb : buildCLA b (run Index.empty ops k) with
  | none => simp [hb] at h
  | some gs =>
    have hemp : all.isEmpty = false := by cases all <;> simp_all
    simp only [hb, Option.map_some, Option.some.injEq, networkFilter, hemp, Bool.false_eq_true, if_false] at h
    subst h
    have hmem : ∀ e, e ∈ gs.flatMap (·.eps) ↔ LatestMember ops b k e :=
      fun e => served_endpoints_exact ops b k gs hb e
    obtain ⟨l, hl⟩ := buildCLA_groups b _ gs hb
    have hloc : ∀ g ∈ gs, ∀ e ∈ g.eps, e.loc = g.loc := by
      intro g hg e he
      rw [hl] at hg
      exact ((grouped_by_locality l).2 g hg).2 e he
    refine ⟨gs, rfl, rfl, hmem, hloc, ?_⟩
    intro le
    simp only [List.mem_flatMap, List.mem_map]
    constructor
    · rintro ⟨og, ⟨g, hg, rfl⟩, hle⟩
      rcases (filterGroup_endpoints b all g le).mp hle with ⟨e, he, hr⟩ | ⟨gw, hvia, rfl⟩
      · left
        exact ⟨e, (hmem e).mp (List.mem_flatMap.mpr ⟨g, hg, he⟩), hr⟩
      · right
        refine ⟨gw, g, hg, hvia, ?_⟩
        rw [gateway_weight_per_locality b all hall]
    · rintro (⟨e, hlm, hr⟩ | ⟨gw, g, hg, hvia, rfl⟩)
      · obtain ⟨g, hg, he⟩ := List.mem_flatMap.mp ((hmem e).mpr hlm)
        exact ⟨_, ⟨g, hg, rfl⟩, (filterGroup_endpoints b all g le).mpr (Or.inl ⟨e, he, hr⟩)⟩
      · refine ⟨_, ⟨g, hg, rfl⟩, (filterGroup_endpoints b all g _).mpr (Or.inr ⟨gw, hvia, ?_⟩)⟩
        rw [gateway_weight_per_locality b all hall]

/-- **One served locality, exactly** (the per-locality form of the last clause above; `ogs` is
    `gs.map (filterGroup b all)`, so this is the out-group OF `g`): its endpoints are the own
    addresses of the members of `g` the proxy reaches directly, plus one endpoint per gateway that a
    member of `g` is routed through, weighted with the saturating sum of the shares of the members of `g`. -/
theorem served_group_exact_net (b : Builder) (all : List Gw) (hall : all.Nodup) (g : Group) (le : LbEp) :
    le ∈ (filterGroup b all g).eps ↔
      (∃ e ∈ g.eps, route b all e = .direct le) ∨
      (∃ gw, (∃ e ∈ g.eps, routedVia b all gw e) ∧
        le = gwEndpoint gw (min ((g.eps.map (shareOf b all gw)).sum) maxU32)) := by
  rw [filterGroup_endpoints]
  simp only [gateway_weight_per_locality b all hall]

/-! ## Locality-weighted distribution on top -/

/-- **served_endpoints_exact with a `distribute` rule.**  After any history, what the proxy is served
    when the service's DestinationRule distributes traffic by locality: the localities (and their
    order) are those of `serveCLA` - characterised by `served_endpoints_exact` /
    `served_endpoints_exact_net` -, and an endpoint is served iff `serveCLA` serves it in a locality that
    a target of the applied rule names (every locality, if no rule names the proxy's own locality).
    So under `distribute` the assignment is NOT all members of the subset: the members in localities
    the rule does not name are left out on purpose. -/
theorem served_endpoints_exact_lb (ops : List Op) (b : Builder) (all : List Gw) (k : Key) (ploc : Loc)
    (rules : List Distribute) (lgs : List OutGroup)
    (h : serveLB b all ploc rules (run Index.empty ops k) = some lgs) :
    ∃ ogs, serveCLA b all (run Index.empty ops k) = some ogs ∧
      lgs.map (·.loc) = ogs.map (·.loc) ∧
      ∀ le, le ∈ lgs.flatMap (·.eps) ↔
        ∃ og ∈ ogs, le ∈ og.eps ∧
          match rules.find? (fun r => locMatch ploc r.src) with
          | none => True
          | some r => namedBy r og = true := by
  unfold serveLB at h
  cases hs : serveCLA b all (run Index.empty ops k) with
  | none => simp [hs] at h
  | some ogs =>
    simp only [hs, Option.map_some, Option.some.injEq] at h
    subst h
    exact ⟨ogs, rfl, distribute_groups ploc rules ogs, served_under_distribute ploc rules ogs⟩

/-! ## The CDS-time snapshot of a service's endpoints -/

/-- **service_endpoints_exact.** `PushContext.ServiceEndpointsByPort` of a PushContext initialised
    after any history (through `EndpointShards.CopyEndpoints`) returns exactly the endpoints of the
    registries' latest reports that belong to the service port - by their legacy port key if they
    have one, else by port name - and carry the labels. -/
theorem service_endpoints_exact (ops : List Op) (k : Key) (portMap : List (String × Nat)) (port : Nat)
    (labels : List (String × String)) (e : Ep) :
    e ∈ serviceEndpointsByPort (run Index.empty ops k) portMap port labels ↔
      ∃ sk eps, latestReports ops k sk = some eps ∧ e ∈ eps ∧ portOf portMap e = some port ∧
        subsetOf labels e.labels = true := by
  have hview : ∀ sk, view (run Index.empty ops) k sk = latestReports ops k sk := by
    intro sk; rw [run_refines]; rfl
  cases hs : run Index.empty ops k with
  | none =>
    constructor
    · intro he; simp [serviceEndpointsByPort] at he
    · rintro ⟨sk, eps, hl, _⟩
      rw [← hview, view, hs] at hl; cases hl
  | some ss =>
    have hwf : (keysOf ss.shards).Nodup := wf_run ops _ wf_empty k ss hs
    simp only [serviceEndpointsByPort, copyEndpoints, Option.map_some, Option.getD_some, List.mem_filter,
      List.mem_flatMap, beq_iff_eq]
    constructor
    · rintro ⟨⟨⟨⟨sk, eps⟩, hmem, he⟩, hp⟩, hl⟩
      refine ⟨sk, eps, ?_, he, hp, hl⟩
      rw [← hview, view, hs]; exact (mem_iff_alookup _ hwf sk eps).mp hmem
    · rintro ⟨sk, eps, hlr, he, hp, hl⟩
      rw [← hview, view, hs] at hlr
      exact ⟨⟨⟨(sk, eps), (mem_iff_alookup _ hwf sk eps).mpr hlr, he⟩, hp⟩, hl⟩

end IstioModel.C13
