import IstioModel.Common.Wire
import IstioModel.C13.Model
import IstioModel.C13.Conc
import IstioModel.C13.Cla
import IstioModel.C13.Net
import IstioModel.C13.Lb
import IstioModel.C13.Svc

/-! Line-protocol driver for C13 (stream `index`). See harness/c13. -/
namespace IstioModel.C13
open IstioModel.Wire

/-! ### Token syntax
    endpoint  = 19 fields joined by `|` (each `enc`-escaped; lists inside a field use `,` and `&`/`^`)
    endpoints = endpoints joined by `;`, `-` for none
    shard key = provider `|` cluster ;  key = svc `|` ns ; key list joined by `;` -/

def decNat (t : String) : Nat := t.toNat?.getD 0

def decLabels (t : String) : List (String × String) :=
  if t == "-" then [] else
  (t.splitOn "&").map fun kv =>
    match kv.splitOn "^" with
    | [k, v] => (dec k, dec v)
    | _ => (dec kv, "")

def encLabels (l : List (String × String)) : String :=
  if l.isEmpty then "-" else "&".intercalate (l.map fun kv => enc kv.1 ++ "^" ++ enc kv.2)

def decEp (t : String) : Option Ep :=
  match t.splitOn "|" with
  | [ns, wl, addrs, port, eport, legacy, sa, net, loc, cluster, weight, tls, host, sub, health,
     sendUnh, node, labels, disc] =>
    some { ns := dec ns, wl := dec wl, addrs := decList addrs, port := dec port, eport := decNat eport,
           legacy := decNat legacy, sa := dec sa, net := dec net, loc := dec loc, cluster := dec cluster,
           weight := decNat weight, tls := dec tls, host := dec host, sub := dec sub,
           health := decNat health, sendUnh := tokBool sendUnh, node := dec node,
           labels := decLabels labels, disc := decNat disc }
  | _ => none

def encEp (e : Ep) : String :=
  "|".intercalate [enc e.ns, enc e.wl, encList e.addrs, enc e.port, toString e.eport, toString e.legacy,
    enc e.sa, enc e.net, enc e.loc, enc e.cluster, toString e.weight, enc e.tls, enc e.host, enc e.sub,
    toString e.health, boolTok e.sendUnh, enc e.node, encLabels e.labels, toString e.disc]

def decEps (t : String) : Option (List Ep) :=
  if t == "-" then some [] else (t.splitOn ";").mapM decEp

def encEps (l : List Ep) : String :=
  if l.isEmpty then "-" else ";".intercalate (l.map encEp)

def decPair (t : String) : Option (String × String) :=
  match t.splitOn "|" with
  | [a, b] => some (dec a, dec b)
  | _ => none

def encPair (p : String × String) : String := enc p.1 ++ "|" ++ enc p.2

def decPairs (t : String) : Option (List (String × String)) :=
  if t == "-" then some [] else (t.splitOn ";").mapM decPair

def pairLe (a b : String × String) : Bool := a.1 < b.1 || (a.1 == b.1 && !(b.2 < a.2))

def sortPairs (l : List (String × String)) : List (String × String) :=
  let s := l.mergeSort pairLe
  s.foldr (fun x acc => match acc with
    | y :: _ => if x = y then acc else x :: acc
    | [] => [x]) []

def sortStrs (l : List String) : List String :=
  let s := l.mergeSort (fun a b => !(b < a))
  s.foldr (fun x acc => match acc with
    | y :: _ => if x = y then acc else x :: acc
    | [] => [x]) []

def PushType.tok : PushType → String
  | .noPush => "NoPush" | .incremental => "Incremental" | .full => "Full"

def showSS (k : Key) (ss : ShardSet) : String :=
  let keys := sortPairs (ss.shards.map (·.1))
  let shards := keys.map fun sk => encPair sk ++ "=[" ++ encEps ((alookup ss.shards sk).getD []) ++ "]"
  encPair k ++ "{sas=" ++ encList (sortStrs ss.sas) ++ " " ++ (if shards.isEmpty then "-" else ",".intercalate shards) ++ "}"

def showIndex (keys : List Key) (s : Index) : String :=
  let parts := (sortPairs keys).filterMap fun k => (s k).map (showSS k)
  if parts.isEmpty then "empty" else " ".intercalate parts

def showClears (keys : List Key) (c : Key → Nat) : String :=
  let parts := (sortPairs keys).filterMap fun k =>
    if c k = 0 then none else some (encPair k ++ "*" ++ toString (c k))
  if parts.isEmpty then "-" else ",".intercalate parts

/-- One operation of a `sched` case with its interval (line numbers of first and last region). -/
structure HistOp where
  id    : Nat
  op    : Op
  start : Nat
  fin   : Nat := 0
  done  : Bool := false

/-- Driver state: the index and the keys ever named by an update (a superset of its domain) for
    stream `index`; the concurrent configuration, thread names and intervals for stream `sched`. -/
structure DState where
  idx   : Index := Index.empty
  keys  : List Key := []
  fixed : Bool := true
  cfg   : Cfg := {}
  names : List (String × Nat) := []
  hist  : List HistOp := []
  line  : Nat := 0
  lost  : Nat := 0
  /-- A `DeleteShard` / `PruneShard` goroutine parked inside its loop: name, operation, number of
      thread index, unlinks still to come (it parks before each). -/
  inflight : Option (String × Nat × Nat) := none
  /-- Updates begun while it was parked (they wait for the index lock), in order. -/
  waiting  : List (String × Nat) := []
  /-- Unlinks of a delete goroutine that finishes inside an `end` line (counted before the updates that
      run afterwards can link the same keys again). -/
  uCarry   : Nat := 0

def showRes (keys : List Key) (r : Res) (withPush : Bool) : String :=
  (if withPush then r.push.tok else "-") ++ " clears=" ++ showClears keys r.clears ++ " all=" ++
    boolTok r.clearAll ++ " | " ++ showIndex keys r.st

def decOp (toks : List String) : Option Op :=
  match toks with
  | ["upd", sk, k, eps] => do
    let sk ← decPair sk; let k ← decPair k; let eps ← decEps eps
    pure (.update sk k eps)
  -- the cache-only entry point (`EDSCacheUpdate`, alone or with `SvcUpdate`): the same index operation
  | ["updc", sk, k, eps] => do
    let sk ← decPair sk; let k ← decPair k; let eps ← decEps eps
    pure (.update sk k eps)
  | ["upds", sk, k, eps] => do
    let sk ← decPair sk; let k ← decPair k; let eps ← decEps eps
    pure (.update sk k eps)
  | ["delsvc", sk, k, p] => do
    let sk ← decPair sk; let k ← decPair k
    pure (.deleteSvc sk k (tokBool p))
  | ["delshard", sk] => do
    let sk ← decPair sk
    pure (.deleteShard sk)
  | ["prune", sk, keep] => do
    let sk ← decPair sk; let keep ← decPairs keep
    pure (.prune sk keep)
  | _ => none

def Op.newKeys : Op → List Key
  | .update _ k _ => [k]
  | _ => []

def Op.isUpdate : Op → Bool
  | .update .. => true
  | _ => false

def addKeys (op : Op) (keys : List Key) : List Key :=
  let keys := op.newKeys ++ keys
  if keys.length > 64 then sortPairs keys else keys

def stepIndex (d : DState) (toks : List String) : DState × String :=
  match decOp toks with
  | none => (d, "bad-op")
  | some op =>
    let r := apply d.idx op
    let keys := addKeys op d.keys
    ({ d with idx := r.st, keys := keys }, showRes keys r op.isUpdate)

/-! ### Stream `sched`: scripted interleavings of lock regions -/

def pcOf (c : Cfg) (i : Nat) : PC := (c.threads[i]?.map (·.pc)).getD (.start false)

/-- Number of entries unlinked between two heaps (`verifGate("delete:before-unlink")` calls). -/
def unlinks (keys : List Key) (a b : Heap) : Nat :=
  ((sortPairs keys).filter fun k => a.linked k && !b.linked k).length

/-- Let thread `i` run to its next gate (`lookup:after-miss`, `update:after-lookup`) or to
    completion: one lock region, plus the new lookup when that region was a retry. -/
def advance (fixed : Bool) (c : Cfg) (i : Nat) : Cfg :=
  let c := cstep fixed c i
  match pcOf c i with
  | .start _ => cstep fixed c i
  | _ => c

def parkTok (c : Cfg) (i : Nat) (retry : Bool) : String :=
  match pcOf c i with
  | .missed => if retry then "parked retry miss" else "parked miss"
  | _ => if retry then "parked retry" else "parked"

/-- All linear extensions of the interval order, as final index strings compared with `target`. -/
def linSearch (keys : List Key) (target : String) : Nat → List HistOp → Index → Bool
  | 0, _, s => showIndex keys s == target
  | fuel + 1, rem, s =>
    if rem.isEmpty then showIndex keys s == target
    else rem.any fun r =>
      rem.all (fun r' => r'.id == r.id || !(r'.fin < r.start)) &&
        linSearch keys target fuel (rem.filter (fun r' => r'.id != r.id)) (step s r.op)

def schedOut (d : DState) (before : Heap) (head : String) : String :=
  head ++ " u=" ++ toString (unlinks d.keys before d.cfg.heap) ++ " | " ++ showIndex d.keys d.cfg.heap.index

def finishHist (d : DState) (i : Nat) : DState :=
  { d with hist := d.hist.map fun h => if h.id == i then { h with fin := d.line, done := true } else h }

/-- `step T`: the next lock region (slow-path lookup, or the write region, or the retry of the
    repaired code followed by a new lookup). -/
def stepThread (d : DState) (i : Nat) : DState × String :=
  let before := d.cfg.heap
  match d.cfg.threads[i]? with
  | none => (d, schedOut d before "idle")
  | some t =>
    match t.pc with
    | .done _ => (d, schedOut d before "idle")
    | _ =>
      let orphan := t.orphanWrite d.cfg.heap
      let wasLooked := match t.pc with
        | .looked .. => true
        | _ => false
      let c := advance d.fixed d.cfg i
      match pcOf c i with
      | .done p =>
        let d := finishHist { d with cfg := c, lost := d.lost + (if orphan then 1 else 0) } i
        (d, schedOut d before ("done " ++ (if orphan then "orphan" else p.tok)))
      | _ =>
        let d := { d with cfg := c }
        (d, schedOut d before (parkTok c i wasLooked))

def forceFinish (d : DState) : Nat → List Nat → DState
  | _, [] => d
  | 0, _ => d
  | fuel + 1, i :: rest =>
    match pcOf d.cfg i with
    | .done _ => forceFinish d fuel rest
    | _ => forceFinish (stepThread d i).1 fuel (i :: rest)

/-- The delete goroutine finishes: the operation takes effect (one region), then the updates that
    waited for the index lock run to their first gate, in order. -/
def finishDelete (d : DState) (i : Nat) : DState × String :=
  let before := d.cfg.heap
  let c := advance d.fixed d.cfg i
  -- the unlink events of the delete itself, counted before the waiting updates can link the same keys again
  let n := unlinks d.keys before c.heap
  let d := finishHist { d with cfg := c, inflight := none } i
  let (d, toks) := d.waiting.foldl (fun (acc : DState × List String) (w : String × Nat) =>
    let d := acc.1
    let c := advance d.fixed d.cfg w.2
    let d := { d with cfg := c }
    match pcOf c w.2 with
    | .done p => (finishHist d w.2, acc.2 ++ [w.1 ++ ":done-" ++ p.tok])
    | .missed => (d, acc.2 ++ [w.1 ++ ":parked-miss"])
    | _ => (d, acc.2 ++ [w.1 ++ ":parked"])) (d, [])
  let d := { d with waiting := [] }
  (d, "done -" ++ (if toks.isEmpty then "" else " " ++ ",".intercalate toks) ++ " u=" ++ toString n ++ " | " ++
      showIndex d.keys d.cfg.heap.index)

/-- `dbegin`: the delete goroutine parks before each unlink; without any it runs through. -/
def dbegin (d : DState) (name : String) (op? : Option Op) : DState × String :=
  match op? with
  | none => (d, "bad-op")
  | some op =>
    if (d.names.lookup name).isSome then (d, "bad-op") else
    let i := d.cfg.threads.length
    let c := { d.cfg with threads := d.cfg.threads ++ [{ op := op }] }
    let n := unlinks d.keys d.cfg.heap (advance d.fixed c i).heap
    let d := { d with cfg := c, names := (name, i) :: d.names,
                      hist := d.hist ++ [{ id := i, op := op, start := d.line }] }
    if n = 0 then finishDelete d i else ({ d with inflight := some (name, i, n) }, "dparked")

def stepSched (d : DState) (toks : List String) : DState × String :=
  let d := { d with line := d.line + 1 }
  let before := d.cfg.heap
  match d.inflight, toks with
  | some (name, i, remaining), ["step", n] =>
    if n != name then
      -- an update parked in the slow path of its lookup (before the index write lock): released while the
      -- delete holds the index lock, it waits for it
      match d.names.lookup n with
      | none => (d, "bad-op")
      | some j =>
        match pcOf d.cfg j with
        | .missed =>
          if d.waiting.any (fun w => w.2 == j) then (d, "bad-op")
          else ({ d with waiting := d.waiting ++ [(n, j)] }, "blocked")
        | _ => (d, "bad-op")
    else if remaining > 1 then ({ d with inflight := some (name, i, remaining - 1) }, "dparked")
    else finishDelete d i
  | some _, ["begin", name, sk, k, eps] =>
    match decOp ["upd", sk, k, eps] with
    | none => (d, "bad-op")
    | some op =>
      if (d.names.lookup name).isSome then (d, "bad-op") else
      let i := d.cfg.threads.length
      let c := { d.cfg with threads := d.cfg.threads ++ [{ op := op }] }
      ({ d with cfg := c, keys := addKeys op d.keys, names := (name, i) :: d.names,
                hist := d.hist ++ [{ id := i, op := op, start := d.line }],
                waiting := d.waiting ++ [(name, i)] }, "blocked")
  | some (_, i, _), ["end"] =>
    let n := unlinks d.keys before (advance d.fixed d.cfg i).heap
    let d := (finishDelete d i).1
    stepSchedFree { d with uCarry := n } d.cfg.heap toks
  | some _, _ => (d, "bad-op")
  | none, _ => stepSchedFree d before toks
where stepSchedFree (d : DState) (before : Heap) (toks : List String) : DState × String :=
  match toks with
  | ["dbegin", name, "delshard", sk] => dbegin d name (decOp ["delshard", sk])
  | ["dbegin", name, "prune", sk, keep] => dbegin d name (decOp ["prune", sk, keep])
  -- `DeleteServiceShard` in a goroutine of its own (parks only if it unlinks the service's entry)
  | ["dbegin", name, "delsvc", sk, k, p] => dbegin d name (decOp ["delsvc", sk, k, p])
  | ["begin", name, sk, k, eps] =>
    match decOp ["upd", sk, k, eps] with
    | none => (d, "bad-op")
    | some op =>
      if (d.names.lookup name).isSome then (d, "bad-op") else
      let i := d.cfg.threads.length
      let c := { d.cfg with threads := d.cfg.threads ++ [{ op := op }] }
      let c := advance d.fixed c i
      let d := { d with cfg := c, keys := addKeys op d.keys, names := (name, i) :: d.names,
                        hist := d.hist ++ [{ id := i, op := op, start := d.line }] }
      match pcOf c i with
      | .done p => let d := finishHist d i; (d, schedOut d before ("done " ++ p.tok))
      | _ => (d, schedOut d before (parkTok c i false))
  | ["step", name] =>
    match d.names.lookup name with
    | none => (d, schedOut d before "idle")
    | some i => stepThread d i
  | ["end"] =>
    let n := d.cfg.threads.length
    let d := forceFinish d (6 * n + 6) (List.range n)
    let target := showIndex d.keys d.cfg.heap.index
    let lin := linSearch d.keys target d.hist.length d.hist Index.empty
    (d, "lin=" ++ boolTok lin ++ " lost=" ++ toString d.lost ++ " u=" ++
        toString (d.uCarry + unlinks d.keys before d.cfg.heap) ++ " | " ++ target)
  | _ =>
    match decOp toks with
    | none => (d, "bad-op")
    | some op =>
      -- an operation executed start to end by the scheduling goroutine itself
      let i := d.cfg.threads.length
      let c := { d.cfg with threads := d.cfg.threads ++ [{ op := op }] }
      let c := (List.range 4).foldl (fun c _ => match pcOf c i with
        | .done _ => c
        | _ => advance d.fixed c i) c
      let d := { d with cfg := c, keys := addKeys op d.keys,
                        hist := d.hist ++ [{ id := i, op := op, start := d.line, fin := d.line, done := true }] }
      let head := match pcOf c i with
        | .done p => if op.isUpdate then p.tok else "-"
        | _ => "stuck"
      (d, schedOut d before head)

/-! ### Stream `cla`: index operations (through the DiscoveryServer entry points) plus pushes -/

def showLbEp (e : LbEp) : String :=
  let addr := if e.pipe then "pipe:" ++ enc e.host else enc e.host ++ ":" ++ toString e.port
  addr ++ "/h" ++ toString e.health ++ "/w" ++ toString e.weight ++ "/t" ++ boolTok e.mtls

/-- Endpoints inside a locality are printed sorted: their order carries no meaning (a report that
    only reorders endpoints is `NoPush`, so the served order may be an older one). -/
def showGroup (g : OutGroup) : String :=
  enc g.loc ++ "{w=" ++ toString g.weight ++ ";p=0;" ++
    ",".intercalate ((g.eps.map showLbEp).mergeSort (fun a b => !(b < a))) ++ "}"

def showCLA : Option (List OutGroup) → String
  | none => "crash"
  | some [] => "cla -"
  | some gs => "cla " ++ " ".intercalate (gs.map showGroup)

def decGw (t : String) : Option Gw :=
  match t.splitOn "|" with
  | [n, c, a, p] => some { net := dec n, cluster := dec c, addr := dec a, port := decNat p }
  | _ => none

def decGws (t : String) : List Gw :=
  if t == "-" then [] else (t.splitOn ";").filterMap decGw

def decDist (t : String) : List Distribute :=
  if t == "-" then [] else
  (t.splitOn ";").filterMap fun r =>
    match r.splitOn ">" with
    | [src, dsts] =>
      let tos : List (String × Nat) := (dsts.splitOn "&").filterMap fun pw =>
        match pw.splitOn "^" with
        | [p, w] => some (dec p, decNat w)
        | _ => none
      some { src := dec src, to := tos }
    | _ => none

/-- One watched cluster of a `push` line:
    `svc|ns|port|subset|portName|subsetLabels|clusterLocal|nodeLocal|unhealthyOk|persistent[|proxyLocality|distribute]`
    (the first four fields name the real cluster; `portName = !` = the service has no such port). -/
def claOfQuery (d : DState) (proxy : Builder) (gws : List Gw) (q : String) : String :=
  let go (svc ns portName sub cl nl uok pers ploc dist : String) : String :=
    if portName == "!" then "cla -" else
    let b : Builder := { proxy with
      portName := dec portName, subset := decLabels sub, clusterLocal := tokBool cl,
      nodeLocal := tokBool nl, unhealthyOk := tokBool uok, persistent := tokBool pers }
    showCLA (serveLB b gws (splitLoc (dec ploc)) (decDist dist) (d.idx (dec svc, dec ns)))
  match q.splitOn "|" with
  | [svc, ns, _, _, portName, sub, cl, nl, uok, pers] => go svc ns portName sub cl nl uok pers "~" "-"
  -- ... plus the proxy's locality and the `distribute` rules of the service's DestinationRule
  | [svc, ns, _, _, portName, sub, cl, nl, uok, pers, ploc, dist] => go svc ns portName sub cl nl uok pers ploc dist
  | _ => "bad-query"

def decPortMap (t : String) : List (String × Nat) :=
  (decLabels t).map fun kv => (kv.1, decNat kv.2)

/-- `push <proxy> <mode> <view> <proxyCluster> <proxyNode> <proxyNetwork> <ipmode> <mtlsOff> <gateways>
    <query>...`: what the proxy holds for every watched cluster after the push - by the property, the
    assignment of the current index.  `drset` / `paset` lines change the configuration on the real
    side only; what they amount to is in the tokens of the following push lines. -/
def stepCla (d : DState) (toks : List String) : DState × String :=
  match toks with
  | "push" :: _ :: _ :: view :: pc :: pn :: pnet :: ipmode :: moff :: gws :: qs =>
    let proxy : Builder := {
      view := if view == "-" then none else some (decList view),
      proxyCluster := dec pc, proxyNode := dec pn, proxyNetwork := dec pnet,
      proxyV4 := ipmode.toList.contains '4', proxyV6 := ipmode.toList.contains '6',
      mtlsOff := tokBool moff }
    let g := decGws gws
    let outs := qs.map (claOfQuery d proxy g)
    -- a panic while building any watched cluster aborts the whole push
    if outs.contains "crash" then (d, "crash") else (d, "served " ++ " || ".intercalate outs)
  | ["drset", _, _] => (d, "ok")
  | ["paset", _] => (d, "ok")
  | ["noise"] => (d, "ok")
  | ["svcidx", svc, ns, port, labels, pm] =>
    let eps := serviceEndpointsByPort (d.idx (dec svc, dec ns)) (decPortMap pm) (decNat port) (decLabels labels)
    let toks := (eps.map encEp).mergeSort (fun a b => !(b < a))
    (d, "eps " ++ (if toks.isEmpty then "-" else ";".intercalate toks))
  | _ =>
    match decOp toks with
    | none => (d, "bad-op")
    | some op =>
      let r := apply d.idx op
      let keys := addKeys op d.keys
      -- `EDSCacheUpdate` returns nothing: no push type to compare
      let head := if toks.head? == some "updc" || toks.head? == some "upds" then "Cache"
                  else if op.isUpdate then r.push.tok else "-"
      ({ d with idx := r.st, keys := keys }, head ++ " | " ++ showIndex keys r.st)

/-- `case <n> <stream> [unfixed]`: stream `sched` runs the concurrent model (of the repaired code
    unless the case says `unfixed`), stream `cla` adds membership queries to the index operations. -/
structure Top where
  stream : String := "index"
  d      : DState := {}

def stepD (t : Top) (toks : List String) : Top × String :=
  match toks with
  | "case" :: _ :: "sched" :: rest => ({ stream := "sched", d := { fixed := !rest.contains "unfixed" } }, "ok")
  | "case" :: _ :: "cla" :: _ => ({ stream := "cla" }, "ok")
  | "case" :: _ => ({}, "ok")
  | _ =>
    let (d, o) := if t.stream == "sched" then stepSched t.d toks
                  else if t.stream == "cla" then stepCla t.d toks else stepIndex t.d toks
    ({ t with d := d }, o)

end IstioModel.C13
