import IstioModel.Common.Wire
import IstioModel.C13.Model

/-! Line-protocol driver for C13 (stream `index`). See harness/c13. -/
namespace IstioModel.C13
open IstioModel.Wire

/-! ### Token syntax
    endpoint  = 19 fields joined by `|` (each `enc`-escaped; lists inside a field use `,` and `&`/`^`)
    endpoints = endpoints joined by `;`, `-` for none
    shard key = provider `|` cluster ;  key = svc `|` ns ; key list joined by `;` -/

def decNat (t : String) : Nat := t.toNat?.getD 0

def decLabels (t : String) : List (String × String) :=
  if t == "-" then [] else
  (t.splitOn "&").map fun kv =>
    match kv.splitOn "^" with
    | [k, v] => (dec k, dec v)
    | _ => (dec kv, "")

def encLabels (l : List (String × String)) : String :=
  if l.isEmpty then "-" else "&".intercalate (l.map fun kv => enc kv.1 ++ "^" ++ enc kv.2)

def decEp (t : String) : Option Ep :=
  match t.splitOn "|" with
  | [ns, wl, addrs, port, eport, legacy, sa, net, loc, cluster, weight, tls, host, sub, health,
     sendUnh, node, labels, disc] =>
    some { ns := dec ns, wl := dec wl, addrs := decList addrs, port := dec port, eport := decNat eport,
           legacy := decNat legacy, sa := dec sa, net := dec net, loc := dec loc, cluster := dec cluster,
           weight := decNat weight, tls := dec tls, host := dec host, sub := dec sub,
           health := decNat health, sendUnh := tokBool sendUnh, node := dec node,
           labels := decLabels labels, disc := decNat disc }
  | _ => none

def encEp (e : Ep) : String :=
  "|".intercalate [enc e.ns, enc e.wl, encList e.addrs, enc e.port, toString e.eport, toString e.legacy,
    enc e.sa, enc e.net, enc e.loc, enc e.cluster, toString e.weight, enc e.tls, enc e.host, enc e.sub,
    toString e.health, boolTok e.sendUnh, enc e.node, encLabels e.labels, toString e.disc]

def decEps (t : String) : Option (List Ep) :=
  if t == "-" then some [] else (t.splitOn ";").mapM decEp

def encEps (l : List Ep) : String :=
  if l.isEmpty then "-" else ";".intercalate (l.map encEp)

def decPair (t : String) : Option (String × String) :=
  match t.splitOn "|" with
  | [a, b] => some (dec a, dec b)
  | _ => none

def encPair (p : String × String) : String := enc p.1 ++ "|" ++ enc p.2

def decPairs (t : String) : Option (List (String × String)) :=
  if t == "-" then some [] else (t.splitOn ";").mapM decPair

def pairLe (a b : String × String) : Bool := a.1 < b.1 || (a.1 == b.1 && !(b.2 < a.2))

def sortPairs (l : List (String × String)) : List (String × String) :=
  let s := l.mergeSort pairLe
  s.foldr (fun x acc => match acc with
    | y :: _ => if x = y then acc else x :: acc
    | [] => [x]) []

def sortStrs (l : List String) : List String :=
  let s := l.mergeSort (fun a b => !(b < a))
  s.foldr (fun x acc => match acc with
    | y :: _ => if x = y then acc else x :: acc
    | [] => [x]) []

def PushType.tok : PushType → String
  | .noPush => "NoPush" | .incremental => "Incremental" | .full => "Full"

def showSS (k : Key) (ss : ShardSet) : String :=
  let keys := sortPairs (ss.shards.map (·.1))
  let shards := keys.map fun sk => encPair sk ++ "=[" ++ encEps ((alookup ss.shards sk).getD []) ++ "]"
  encPair k ++ "{sas=" ++ encList (sortStrs ss.sas) ++ " " ++ (if shards.isEmpty then "-" else ",".intercalate shards) ++ "}"

def showIndex (keys : List Key) (s : Index) : String :=
  let parts := (sortPairs keys).filterMap fun k => (s k).map (showSS k)
  if parts.isEmpty then "empty" else " ".intercalate parts

def showClears (keys : List Key) (c : Key → Nat) : String :=
  let parts := (sortPairs keys).filterMap fun k =>
    if c k = 0 then none else some (encPair k ++ "*" ++ toString (c k))
  if parts.isEmpty then "-" else ",".intercalate parts

/-- Driver state: the index and the keys ever named by an update (a superset of its domain). -/
structure DState where
  idx  : Index := Index.empty
  keys : List Key := []

def showRes (keys : List Key) (r : Res) (withPush : Bool) : String :=
  (if withPush then r.push.tok else "-") ++ " clears=" ++ showClears keys r.clears ++ " all=" ++
    boolTok r.clearAll ++ " | " ++ showIndex keys r.st

def decOp (toks : List String) : Option Op :=
  match toks with
  | ["upd", sk, k, eps] => do
    let sk ← decPair sk; let k ← decPair k; let eps ← decEps eps
    pure (.update sk k eps)
  | ["delsvc", sk, k, p] => do
    let sk ← decPair sk; let k ← decPair k
    pure (.deleteSvc sk k (tokBool p))
  | ["delshard", sk] => do
    let sk ← decPair sk
    pure (.deleteShard sk)
  | ["prune", sk, keep] => do
    let sk ← decPair sk; let keep ← decPairs keep
    pure (.prune sk keep)
  | _ => none

def Op.newKeys : Op → List Key
  | .update _ k _ => [k]
  | _ => []

def Op.isUpdate : Op → Bool
  | .update .. => true
  | _ => false

def stepIndex (d : DState) (toks : List String) : DState × String :=
  match decOp toks with
  | none => (d, "bad-op")
  | some op =>
    let r := apply d.idx op
    let keys := op.newKeys ++ d.keys
    let keys := if keys.length > 64 then sortPairs keys else keys
    ({ d with idx := r.st, keys := keys }, showRes keys r op.isUpdate)

def stepD (d : DState) (toks : List String) : DState × String :=
  match toks with
  | "case" :: _ => ({}, "ok")
  | _ => stepIndex d toks

end IstioModel.C13
