import IstioModel.C13.Model

/-!
# C13 - property theorems, part 1: the endpoint index as a sequential object

"... the endpoints it is given are exactly the endpoints last reported by each registry for that
service ... no registry's latest report is lost and nothing from a removed registry or deleted
service remains."

Every theorem quantifies over all index states, shard keys, services and endpoint lists.
-/
namespace IstioModel.C13

/-! ## Association lists -/

theorem alookup_aset {ν : Type} (l : List (ShardKey × ν)) (k k' : ShardKey) (v : ν) :
    alookup (aset l k v) k' = if k' = k then some v else alookup l k' := by
  induction l with
  | nil =>
    by_cases h : k' = k
    · simp [aset, alookup, h]
    · have : ¬ k = k' := fun e => h e.symm
      simp [aset, alookup, h, this]
  | cons kv t ih =>
    unfold aset
    by_cases h1 : kv.1 = k
    · by_cases h : k' = k
      · simp [h1, alookup, h]
      · have : ¬ k = k' := fun e => h e.symm
        have h2 : ¬ kv.1 = k' := by rw [h1]; exact this
        simp [h1, alookup, h, this]
    · by_cases h : k' = k
      · subst h
        simp [h1, alookup, ih]
      · simp only [h1, if_false, alookup, ih, h]

theorem alookup_aerase {ν : Type} (l : List (ShardKey × ν)) (k k' : ShardKey) :
    alookup (aerase l k) k' = if k' = k then none else alookup l k' := by
  induction l with
  | nil => simp [aerase, alookup]
  | cons kv t ih =>
    unfold aerase
    by_cases h1 : kv.1 = k
    · by_cases h : k' = k
      · subst h
        simpa [h1] using ih
      · have h2 : ¬ kv.1 = k' := by rw [h1]; exact fun e => h e.symm
        simp only [h1, if_true, ih, h, if_false]
        simp [alookup, h2]
    · by_cases h : k' = k
      · subst h
        simp [h1, alookup, ih]
      · simp only [h1, if_false, alookup, ih, h]

theorem alookup_of_isEmpty {ν : Type} (l : List (ShardKey × ν)) (h : l.isEmpty = true) (k : ShardKey) :
    alookup l k = none := by
  cases l with
  | nil => rfl
  | cons a t => simp at h

theorem isEmpty_of_alookup_none {ν : Type} (l : List (ShardKey × ν)) (h : ∀ k, alookup l k = none) :
    l.isEmpty = true := by
  cases l with
  | nil => rfl
  | cons a t =>
    have := h a.1
    simp [alookup] at this

/-! ## One region at a time -/

@[simp] theorem saUpdate_shards (ss : ShardSet) : (saUpdate ss).shards = ss.shards := by
  unfold saUpdate; split <;> rfl

@[simp] theorem writeSS_shards (ss : ShardSet) (sk : ShardKey) (eps : List Ep) :
    (writeSS ss sk eps).shards = aset ss.shards sk eps := by
  simp [writeSS]

/-- The write region stores exactly the incoming list under the shard key and nothing else. -/
theorem alookup_writeSS (ss : ShardSet) (sk sk' : ShardKey) (eps : List Ep) :
    alookup (writeSS ss sk eps).shards sk' = if sk' = sk then some eps else alookup ss.shards sk' := by
  rw [writeSS_shards, alookup_aset]

/-- The delete region removes exactly the shard key (unlinked or not). -/
theorem view_delSS (ss : ShardSet) (sk sk' : ShardKey) (p : Bool) :
    (delSS ss sk p).bind (fun x => alookup x.shards sk') =
      if sk' = sk then none else alookup ss.shards sk' := by
  unfold delSS
  by_cases hc : (!p && (aerase ss.shards sk).isEmpty) = true
  · simp only [hc, if_true, Option.bind_none]
    simp only [Bool.and_eq_true] at hc
    have := alookup_of_isEmpty _ hc.2 sk'
    rw [alookup_aerase] at this
    exact this.symm
  · simp [hc, alookup_aerase]

@[simp] theorem Index.set_same (s : Index) (k : Key) (v : Option ShardSet) : (s.set k v) k = v := by
  simp [Index.set]

theorem Index.set_other (s : Index) (k k' : Key) (v : Option ShardSet) (h : k' ≠ k) :
    (s.set k v) k' = s k' := by
  simp [Index.set, h]

theorem view_set (s : Index) (k k' : Key) (v : Option ShardSet) (sk' : ShardKey) :
    view (s.set k v) k' sk' = if k' = k then v.bind (fun x => alookup x.shards sk') else view s k' sk' := by
  unfold view Index.set
  by_cases h : k' = k <;> simp [h]

theorem view_deleteInner (s : Index) (sk sk' : ShardKey) (k k' : Key) (p : Bool) :
    view (deleteInner s sk k p) k' sk' = if k' = k ∧ sk' = sk then none else view s k' sk' := by
  unfold deleteInner
  cases hs : s k with
  | none =>
    by_cases h : k' = k ∧ sk' = sk
    · simp [h, view, hs]
    · simp [h]
  | some ss =>
    simp only [view_set, view_delSS]
    by_cases h1 : k' = k
    · subst h1
      by_cases h2 : sk' = sk
      · simp [h2]
      · simp [h2, view, hs]
    · simp [h1]

/-! ## Closed forms of `UpdateServiceEndpoints` -/

theorem update_empty (s : Index) (sk : ShardKey) (k : Key) :
    (updateServiceEndpoints s sk k []).st = deleteInner s sk k true ∧
    (updateServiceEndpoints s sk k []).push = .incremental ∧
    (updateServiceEndpoints s sk k []).clears = clearOnce k (if (s k).isSome then 1 else 0) ∧
    (updateServiceEndpoints s sk k []).clearAll = false := by
  simp [updateServiceEndpoints, deleteServiceShard]

theorem update_nonempty (s : Index) (sk : ShardKey) (k : Key) (eps : List Ep) (h : eps ≠ []) :
    (updateServiceEndpoints s sk k eps).st = s.set k (some (writeSS ((s k).getD ShardSet.empty) sk eps)) ∧
    (updateServiceEndpoints s sk k eps).push = writePush ((s k).getD ShardSet.empty) sk eps (s k).isNone ∧
    (updateServiceEndpoints s sk k eps).clears = clearOnce k (if (s k).isSome then 1 else 2) ∧
    (updateServiceEndpoints s sk k eps).clearAll = false := by
  have : eps.isEmpty = false := by cases eps <;> simp_all
  unfold updateServiceEndpoints
  cases hs : s k <;> simp [this]

theorem deleteShard_st (s : Index) (sk : ShardKey) (k : Key) :
    (deleteShard s sk).st k = (s k).bind (fun ss => delSS ss sk false) := rfl

theorem pruneShard_st (s : Index) (sk : ShardKey) (keep : List Key) (k : Key) :
    (pruneShard s sk keep).st k = if k ∈ keep then s k else (s k).bind (fun ss => delSS ss sk false) := rfl

theorem view_getD_empty (s : Index) (k : Key) (sk : ShardKey) :
    alookup ((s k).getD ShardSet.empty).shards sk = view s k sk := by
  unfold view
  cases s k <;> simp [ShardSet.empty, alookup]

/-! ## Refinement of the abstract map (`index_sequential_spec`) -/

/-- **index_sequential_spec.** Every operation of the index refines the abstract map
    `(service, namespace, shard key) → endpoints`: an update stores exactly the registry's report
    (an empty report removes the shard), `DeleteServiceShard` removes the cell, `DeleteShard`
    removes the registry everywhere, `PruneShard` removes it outside `keep`; nothing else moves. -/
theorem index_sequential_spec (s : Index) (op : Op) : view (step s op) = specStep (view s) op := by
  funext k' sk'
  cases op with
  | update sk k eps =>
    simp only [step, apply, specStep]
    by_cases he : eps = []
    · subst he
      simp [(update_empty s sk k).1, view_deleteInner]
    · have he' : eps.isEmpty = false := by cases eps <;> simp_all
      rw [(update_nonempty s sk k eps he).1, view_set]
      simp only [Option.bind_some, alookup_writeSS, view_getD_empty, he']
      by_cases h1 : k' = k
      · subst h1
        by_cases h2 : sk' = sk <;> simp [h2]
      · simp [h1]
  | deleteSvc sk k p =>
    simp only [step, apply, deleteServiceShard, specStep, view_deleteInner]
  | deleteShard sk =>
    simp only [step, apply, specStep, view, deleteShard_st]
    cases hs : s k' with
    | none => simp
    | some ss => simp only [Option.bind_some]; exact view_delSS ss sk sk' false
  | prune sk keep =>
    simp only [step, apply, specStep, view, pruneShard_st]
    by_cases hk : k' ∈ keep
    · simp [hk]
    · simp only [hk, if_false, not_false_eq_true, and_true]
      cases hs : s k' with
      | none => simp
      | some ss =>
        simp only [Option.bind_some]
        exact view_delSS ss sk sk' false

/-- The refinement lifted to whole histories. -/
theorem run_refines (ops : List Op) (s : Index) : view (run s ops) = ops.foldl specStep (view s) := by
  induction ops generalizing s with
  | nil => rfl
  | cons op t ih =>
    simp only [run, List.foldl_cons] at *
    rw [ih (step s op), index_sequential_spec]

theorem specStep_untouched (m : AMap) (op : Op) (k : Key) (sk : ShardKey)
    (h : op.touches k sk = false) : specStep m op k sk = m k sk := by
  cases op with
  | update sk' k' eps =>
    simp only [Op.touches, Bool.and_eq_false_iff, decide_eq_false_iff_not] at h
    have : ¬ (k = k' ∧ sk = sk') := fun ⟨a, b⟩ => h.elim (fun x => x a.symm) (fun x => x b.symm)
    simp [specStep, this]
  | deleteSvc sk' k' p =>
    simp only [Op.touches, Bool.and_eq_false_iff, decide_eq_false_iff_not] at h
    have : ¬ (k = k' ∧ sk = sk') := fun ⟨a, b⟩ => h.elim (fun x => x a.symm) (fun x => x b.symm)
    simp [specStep, this]
  | deleteShard sk' =>
    simp only [Op.touches, decide_eq_false_iff_not] at h
    have : ¬ sk = sk' := fun a => h a.symm
    simp [specStep, this]
  | prune sk' keep =>
    simp only [Op.touches, Bool.and_eq_false_iff, decide_eq_false_iff_not, Bool.not_eq_false',
      decide_eq_true_eq] at h
    simp only [specStep]
    split
    · next hc => exact h.elim (fun x => (x hc.1.symm).elim) (fun x => (hc.2 x).elim)
    · rfl

theorem foldl_specStep_untouched (post : List Op) (m : AMap) (k : Key) (sk : ShardKey)
    (h : ∀ op ∈ post, op.touches k sk = false) : post.foldl specStep m k sk = m k sk := by
  induction post generalizing m with
  | nil => rfl
  | cons op t ih =>
    simp only [List.foldl_cons]
    rw [ih (specStep m op) (fun o ho => h o (List.mem_cons_of_mem _ ho))]
    exact specStep_untouched m op k sk (h op List.mem_cons_self)

/-- **No registry's latest report is lost (sequential histories).** After any history, the cell
    `(service, namespace, registry)` holds exactly the last non-empty report of that registry for
    that service, provided no later operation removed it. -/
theorem latest_report_kept (s : Index) (pre post : List Op) (sk : ShardKey) (k : Key) (eps : List Ep)
    (hne : eps ≠ []) (hpost : ∀ op ∈ post, op.touches k sk = false) :
    view (run s (pre ++ [Op.update sk k eps] ++ post)) k sk = some eps := by
  rw [run_refines, List.foldl_append, List.foldl_append, foldl_specStep_untouched _ _ _ _ hpost]
  have : eps.isEmpty = false := by cases eps <;> simp_all
  simp [specStep, this]

/-- What it means for an operation to remove the cell `(k, sk)`. -/
def Op.removes (op : Op) (k : Key) (sk : ShardKey) : Bool :=
  match op with
  | .update sk' k' eps => k' = k && sk' = sk && eps.isEmpty
  | .deleteSvc sk' k' _ => k' = k && sk' = sk
  | .deleteShard sk' => sk' = sk
  | .prune sk' keep => sk' = sk && !decide (k ∈ keep)

theorem specStep_removes (m : AMap) (op : Op) (k : Key) (sk : ShardKey) (h : op.removes k sk = true) :
    specStep m op k sk = none := by
  cases op with
  | update sk' k' eps =>
    simp only [Op.removes, Bool.and_eq_true, decide_eq_true_eq] at h
    simp [specStep, h.1.1.symm, h.1.2.symm, h.2]
  | deleteSvc sk' k' p =>
    simp only [Op.removes, Bool.and_eq_true, decide_eq_true_eq] at h
    simp [specStep, h.1.symm, h.2.symm]
  | deleteShard sk' =>
    simp only [Op.removes, decide_eq_true_eq] at h
    simp [specStep, h.symm]
  | prune sk' keep =>
    simp only [Op.removes, Bool.and_eq_true, decide_eq_true_eq, Bool.not_eq_true',
      decide_eq_false_iff_not] at h
    simp [specStep, h.1.symm, h.2]

/-- **Nothing from a removed registry or deleted service remains (sequential histories).** Once an
    operation removed the cell - empty report, service delete, registry removal, prune - it stays
    empty until the registry reports again. -/
theorem removed_stays_removed (s : Index) (pre post : List Op) (op : Op) (sk : ShardKey) (k : Key)
    (hrem : op.removes k sk = true) (hpost : ∀ o ∈ post, o.touches k sk = false) :
    view (run s (pre ++ [op] ++ post)) k sk = none := by
  rw [run_refines, List.foldl_append, List.foldl_append, foldl_specStep_untouched _ _ _ _ hpost]
  simp only [List.foldl_cons, List.foldl_nil]
  exact specStep_removes _ op k sk hrem

/-! ## Presence of the service key and residue -/

/-- A non-empty report makes the service present; an empty one never creates or drops the key. -/
theorem present_update (s : Index) (sk : ShardKey) (k k' : Key) (eps : List Ep) :
    present (step s (.update sk k eps)) k' = (present s k' || (k' = k && !eps.isEmpty)) := by
  simp only [step, apply, updateServiceEndpoints, present]
  by_cases he : eps.isEmpty = true
  · simp only [he, if_true, deleteServiceShard, deleteInner]
    cases hs : s k with
    | none => simp
    | some ss =>
      by_cases h : k' = k
      · subst h; simp [delSS, hs]
      · simp [Index.set_other _ _ _ _ h]
  · simp only [he]
    cases hs : s k with
    | none =>
      by_cases h : k' = k
      · subst h; simp
      · simp [Index.set_other _ _ _ _ h, h]
    | some ss =>
      by_cases h : k' = k
      · subst h; simp
      · simp [Index.set_other _ _ _ _ h, h]

/-- **no_residue (service delete).** After `DeleteServiceShard(sk, svc, ns, false)` the registry's
    shard is gone, and if no other registry has endpoints for the service the whole entry
    (shards and service accounts) is unlinked. -/
theorem no_residue_deleteSvc (s : Index) (sk : ShardKey) (k : Key) :
    view (step s (.deleteSvc sk k false)) k sk = none ∧
    ((∀ sk', sk' ≠ sk → view s k sk' = none) → step s (.deleteSvc sk k false) k = none) := by
  constructor
  · rw [index_sequential_spec]; simp [specStep]
  · intro h
    simp only [step, apply, deleteServiceShard, deleteInner]
    cases hs : s k with
    | none => simp [hs]
    | some ss =>
      simp only [Index.set_same, delSS]
      have : (aerase ss.shards sk).isEmpty = true := by
        apply isEmpty_of_alookup_none
        intro sk'
        rw [alookup_aerase]
        by_cases h2 : sk' = sk
        · simp [h2]
        · simp only [h2, if_false]
          have := h sk' h2
          simpa [view, hs] using this
      simp [this]

/-- An entry that survives a non-preserving delete still has a shard: no empty leftovers. -/
theorem delSS_nonempty (ss ss' : ShardSet) (sk : ShardKey) (h : delSS ss sk false = some ss') :
    ss'.shards ≠ [] := by
  unfold delSS at h
  by_cases hc : (aerase ss.shards sk).isEmpty = true
  · simp [hc] at h
  · simp only [hc, Bool.not_false, Bool.and_false, Bool.false_eq_true, if_false, Option.some.injEq] at h
    subst h
    intro hn
    simp only at hn
    simp [hn] at hc

/-- **no_residue (registry removal).** After `DeleteShard(sk)` no service has a shard of that
    registry, every surviving entry still has some shard, and every surviving endpoint was
    reported by another registry. -/
theorem no_residue_deleteShard (s : Index) (sk : ShardKey) :
    (∀ k, view (step s (.deleteShard sk)) k sk = none) ∧
    (∀ k ss', step s (.deleteShard sk) k = some ss' → ss'.shards ≠ []) ∧
    (∀ k sk' eps, view (step s (.deleteShard sk)) k sk' = some eps → sk' ≠ sk ∧ view s k sk' = some eps) := by
  refine ⟨?_, ?_, ?_⟩
  · intro k; rw [index_sequential_spec]; simp [specStep]
  · intro k ss' h
    simp only [step, apply, deleteShard_st] at h
    cases hs : s k with
    | none => simp [hs] at h
    | some ss =>
      simp only [hs, Option.bind_some] at h
      exact delSS_nonempty ss ss' sk h
  · intro k sk' eps h
    rw [index_sequential_spec] at h
    simp only [specStep] at h
    by_cases h2 : sk' = sk
    · simp [h2] at h
    · simp only [h2, if_false] at h
      exact ⟨h2, h⟩

/-- **no_residue (prune).** After `PruneShard(sk, keep)` no service outside `keep` has a shard of
    that registry; services in `keep` are untouched. -/
theorem no_residue_prune (s : Index) (sk : ShardKey) (keep : List Key) :
    (∀ k, k ∉ keep → view (step s (.prune sk keep)) k sk = none) ∧
    (∀ k, k ∈ keep → step s (.prune sk keep) k = s k) ∧
    (∀ k ss', k ∉ keep → step s (.prune sk keep) k = some ss' → ss'.shards ≠ []) := by
  refine ⟨?_, ?_, ?_⟩
  · intro k hk; rw [index_sequential_spec]; simp [specStep, hk]
  · intro k hk; simp [step, apply, pruneShard_st, hk]
  · intro k ss' hk h
    simp only [step, apply, pruneShard_st, hk, if_false] at h
    cases hs : s k with
    | none => simp [hs] at h
    | some ss =>
      simp only [hs, Option.bind_some] at h
      exact delSS_nonempty ss ss' sk h

/-- An empty report keeps the service key (`preserveKeys`): the entry stays, without the shard. -/
theorem empty_report_preserves_key (s : Index) (sk : ShardKey) (k : Key) (ss : ShardSet) (h : s k = some ss) :
    step s (.update sk k []) k = some { ss with shards := aerase ss.shards sk } ∧
    (apply s (.update sk k [])).push = .incremental := by
  simp [step, apply, updateServiceEndpoints, deleteServiceShard, deleteInner, h, delSS]

/-! ## The cache is invalidated whenever an entry changes -/

/-- Every operation that changes the entry of a service calls `cache.Clear` for that service (or
    `ClearAll`). -/
theorem change_clears_cache (s : Index) (op : Op) (k : Key) (h : (apply s op).st k ≠ s k) :
    (apply s op).clears k > 0 ∨ (apply s op).clearAll = true := by
  cases op with
  | update sk k0 eps =>
    left
    simp only [apply, updateServiceEndpoints] at *
    by_cases he : eps.isEmpty = true
    · simp only [he, if_true, deleteServiceShard, deleteInner, clearOnce] at *
      cases hs : s k0 with
      | none => simp [hs] at h
      | some ss =>
        by_cases hk : k = k0
        · subst hk; simp
        · simp [hs, Index.set_other _ _ _ _ hk] at h
    · simp only [he] at *
      cases hs : s k0 with
      | none =>
        by_cases hk : k = k0
        · subst hk; simp [clearOnce]
        · simp [hs, Index.set_other _ _ _ _ hk] at h
      | some ss =>
        by_cases hk : k = k0
        · subst hk; simp [clearOnce]
        · simp [hs, Index.set_other _ _ _ _ hk] at h
  | deleteSvc sk k0 p =>
    left
    simp only [apply, deleteServiceShard, deleteInner, clearOnce] at *
    cases hs : s k0 with
    | none => simp [hs] at h
    | some ss =>
      by_cases hk : k = k0
      · subst hk; simp
      · simp [hs, Index.set_other _ _ _ _ hk] at h
  | deleteShard sk => right; rfl
  | prune sk keep =>
    left
    simp only [apply, pruneShard_st] at h
    simp only [apply, pruneShard]
    by_cases hk : k ∈ keep
    · simp [hk] at h
    · simp only [hk, if_false] at *
      cases hs : s k with
      | none => simp [hs] at h
      | some ss => simp

/-! ## Push type -/

theorem scanIncoming_eq (old : List Ep) (b : Bool) (inc : List Ep) :
    scanIncoming old b inc = (b || inc.any (fun nie =>
      match findLast old (epKey nie) with
      | some oie => !epEquals oie nie
      | none => pushable nie)) := by
  induction inc generalizing b with
  | nil => simp [scanIncoming]
  | cons nie t ih =>
    unfold scanIncoming
    cases hf : findLast old (epKey nie) with
    | none => simp only [ih, List.any_cons, hf, Bool.or_assoc]
    | some oie => simp only [ih, List.any_cons, hf, Bool.or_assoc]

theorem findLast_some {old : List Ep} {k : String} {x : Ep} (h : findLast old k = some x) :
    x ∈ old ∧ epKey x = k := by
  induction old with
  | nil => simp [findLast] at h
  | cons e t ih =>
    unfold findLast at h
    cases hf : findLast t k with
    | some y =>
      simp only [hf, Option.some.injEq] at h
      subst h
      exact ⟨List.mem_cons_of_mem _ (ih hf).1, (ih hf).2⟩
    | none =>
      simp only [hf] at h
      by_cases hk : epKey e = k
      · simp only [hk, if_true, Option.some.injEq] at h
        subst h
        exact ⟨List.mem_cons_self, hk⟩
      · simp [hk] at h

theorem findLast_none {old : List Ep} {k : String} (h : findLast old k = none) :
    ∀ e ∈ old, epKey e ≠ k := by
  induction old with
  | nil => simp
  | cons e t ih =>
    unfold findLast at h
    cases hf : findLast t k with
    | some y => simp [hf] at h
    | none =>
      simp only [hf] at h
      by_cases hk : epKey e = k
      · simp [hk] at h
      · intro x hx
        rcases List.mem_cons.mp hx with rfl | hx
        · exact hk
        · exact ih hf x hx

/-- With distinct keys, `omap[key(e)]` is `e` itself. -/
theorem findLast_of_nodup {old : List Ep} (hn : (old.map epKey).Nodup) {e : Ep} (he : e ∈ old) :
    findLast old (epKey e) = some e := by
  induction old with
  | nil => cases he
  | cons a t ih =>
    simp only [List.map_cons, List.nodup_cons] at hn
    unfold findLast
    rcases List.mem_cons.mp he with rfl | ht
    · cases hf : findLast t (epKey e) with
      | some y =>
        have := findLast_some hf
        exact absurd (List.mem_map.mpr ⟨y, this.1, this.2⟩) hn.1
      | none => simp
    · rw [ih hn.2 ht]

theorem hasKey_iff (l : List Ep) (k : String) : hasKey l k = true ↔ ∃ e ∈ l, epKey e = k := by
  simp [hasKey]

/-- Closed form of "no push needed" for an existing shard. -/
theorem requiresPush_false_iff (old inc : List Ep) :
    requiresPush (some old) inc = false ↔
      (∀ nie ∈ inc, match findLast old (epKey nie) with
        | some oie => epEquals oie nie = true
        | none => pushable nie = false) ∧
      (∀ oie ∈ old, ∃ e ∈ inc, epKey e = epKey oie) := by
  unfold requiresPush
  simp only [scanIncoming_eq, Bool.false_or]
  constructor
  · intro h
    split at h
    · cases h
    · next hnp =>
      simp only [Bool.not_eq_true, List.any_eq_false] at hnp
      refine ⟨?_, ?_⟩
      · intro nie hin
        have := hnp nie hin
        cases hf : findLast old (epKey nie) with
        | none => simpa [hf] using this
        | some oie => simpa [hf] using this
      · intro oie ho
        simp only [anyRemoved, List.any_eq_false] at h
        have := h oie ho
        simp only [Bool.not_eq_true'] at this
        simpa using (hasKey_iff inc (epKey oie)).mp (by simpa using this)
  · intro ⟨h1, h2⟩
    have hnp : (inc.any fun nie => match findLast old (epKey nie) with
        | some oie => !epEquals oie nie
        | none => pushable nie) = false := by
      rw [List.any_eq_false]
      intro nie hin
      have := h1 nie hin
      cases hf : findLast old (epKey nie) with
      | none => simpa [hf] using this
      | some oie => simpa [hf] using this
    simp only [hnp, Bool.false_eq_true, if_false, anyRemoved, List.any_eq_false]
    intro oie ho
    have := (hasKey_iff inc (epKey oie)).mpr (h2 oie ho)
    simp [this]

/-- `writePush = NoPush` unfolds to: not created, no push needed, service accounts unchanged. -/
theorem writePush_noPush_iff (ss : ShardSet) (sk : ShardKey) (eps : List Ep) (created : Bool) :
    writePush ss sk eps created = .noPush ↔
      created = false ∧ requiresPush (alookup ss.shards sk) eps = false ∧
      saChanged { ss with shards := aset ss.shards sk eps } = false := by
  unfold writePush
  cases created <;> cases requiresPush (alookup ss.shards sk) eps <;>
    cases saChanged { ss with shards := aset ss.shards sk eps } <;> simp

/-- **pushType_sound.** `UpdateServiceEndpoints` returns `NoPush` only if the service and the
    registry's shard existed, every reported endpoint is either stored already with equal attributes
    (`Equals`) or is a new endpoint that is unhealthy without `SendUnhealthyEndpoints`, no stored key
    was dropped, and the service's set of service accounts is unchanged.  With distinct endpoint
    keys in the stored shard, every stored endpoint is reported again unchanged. -/
theorem pushType_sound (s : Index) (sk : ShardKey) (k : Key) (eps : List Ep)
    (h : (apply s (.update sk k eps)).push = .noPush) :
    ∃ ss old, s k = some ss ∧ alookup ss.shards sk = some old ∧ eps ≠ [] ∧
      (∀ e ∈ eps, (∃ o ∈ old, epKey o = epKey e ∧ epEquals o e = true) ∨
                  (pushable e = false ∧ ∀ o ∈ old, epKey o ≠ epKey e)) ∧
      (∀ o ∈ old, ∃ e ∈ eps, epKey e = epKey o) ∧
      ((old.map epKey).Nodup → ∀ o ∈ old, ∃ e ∈ eps, epEquals o e = true) ∧
      setEq ss.sas (saUnion (aset ss.shards sk eps)) = true := by
  simp only [apply] at h
  by_cases hne : eps = []
  · subst hne
    rw [(update_empty s sk k).2.1] at h
    cases h
  · rw [(update_nonempty s sk k eps hne).2.1] at h
    obtain ⟨hcr, hreq, hsa⟩ := (writePush_noPush_iff _ _ _ _).mp h
    cases hs : s k with
    | none => simp [hs] at hcr
    | some ss =>
      simp only [hs, Option.getD_some] at hreq hsa
      cases hold : alookup ss.shards sk with
      | none => simp [hold, requiresPush] at hreq
      | some old =>
        rw [hold] at hreq
        obtain ⟨h1, h2⟩ := (requiresPush_false_iff old eps).mp hreq
        refine ⟨ss, old, rfl, hold, hne, ?_, h2, ?_, ?_⟩
        · intro e hin
          have := h1 e hin
          cases hf : findLast old (epKey e) with
          | none =>
            right
            simp only [hf] at this
            exact ⟨this, findLast_none hf⟩
          | some o =>
            left
            simp only [hf] at this
            exact ⟨o, (findLast_some hf).1, (findLast_some hf).2, this⟩
        · intro hn o ho
          obtain ⟨e, hin, hk⟩ := h2 o ho
          have := h1 e hin
          rw [hk, findLast_of_nodup hn ho] at this
          exact ⟨e, hin, this⟩
        · simpa [saChanged] using hsa

/-- The endpoints of a report a push would deliver: everything except unhealthy endpoints that are
    not marked `SendUnhealthyEndpoints`. -/
def served (l : List Ep) : List Ep := l.filter pushable

theorem pushable_of_equals {a b : Ep} (h : epEquals a b = true) : pushable a = pushable b := by
  simp only [epEquals, Bool.and_eq_true, beq_iff_eq] at h
  simp [pushable, h.1.1.1.1.1.2, h.1.1.1.1.2]

/-- **NoPush leaves the served membership unchanged**: with distinct keys in the stored shard, the
    pushable endpoints before and after the update are the same up to `Equals`. -/
theorem noPush_served_unchanged (s : Index) (sk : ShardKey) (k : Key) (eps : List Ep)
    (h : (apply s (.update sk k eps)).push = .noPush) :
    ∃ old, view s k sk = some old ∧
      ((old.map epKey).Nodup →
        (∀ e ∈ served eps, ∃ o ∈ served old, epEquals o e = true) ∧
        (∀ o ∈ served old, ∃ e ∈ served eps, epEquals o e = true)) := by
  obtain ⟨ss, old, hs, hold, _, h1, _, h3, _⟩ := pushType_sound s sk k eps h
  refine ⟨old, by simp [view, hs, hold], ?_⟩
  intro hn
  constructor
  · intro e he
    simp only [served, List.mem_filter] at he
    rcases h1 e he.1 with ⟨o, ho, _, heq⟩ | ⟨hp, _⟩
    · exact ⟨o, by simp [served, ho, pushable_of_equals heq, he.2], heq⟩
    · rw [hp] at he; exact absurd he.2 (by simp)
  · intro o ho
    simp only [served, List.mem_filter] at ho
    obtain ⟨e, he, heq⟩ := h3 hn o ho.1
    exact ⟨e, by simp [served, he, ← pushable_of_equals heq, ho.2], heq⟩

/-- In a list with distinct keys, the key determines the element. -/
theorem eq_of_key_eq {α β : Type} (f : α → β) :
    ∀ (l : List α), (l.map f).Nodup → ∀ a ∈ l, ∀ b ∈ l, f a = f b → a = b
  | [], _, a, ha, _, _, _ => by cases ha
  | x :: xs, hn, a, ha, b, hb, hab => by
    rw [List.map_cons, List.nodup_cons] at hn
    rcases List.mem_cons.mp ha with rfl | ha'
    · rcases List.mem_cons.mp hb with rfl | hb'
      · rfl
      · exact absurd (hab ▸ List.mem_map_of_mem (f := f) hb') hn.1
    · rcases List.mem_cons.mp hb with rfl | hb'
      · exact absurd (hab ▸ List.mem_map_of_mem (f := f) ha') hn.1
      · exact eq_of_key_eq f xs hn.2 a ha' b hb' hab

/-- **NoPush keeps the served endpoints, multiplicities included.**  Assumption
    `distinct-keys-per-report`: the stored shard AND the report carry distinct endpoint keys (what the
    registries produce).  Then the pushable endpoints before and after the update are the same
    multiset up to `Equals`: their key lists are permutations of each other and endpoints with the
    same key are `Equals`.  Without the hypothesis on the report the statement is false
    (`noPush_dup_report_witness`). -/
theorem noPush_served_exact (s : Index) (sk : ShardKey) (k : Key) (eps : List Ep)
    (h : (apply s (.update sk k eps)).push = .noPush) :
    ∃ old, view s k sk = some old ∧
      ((old.map epKey).Nodup → (eps.map epKey).Nodup →
        ((served eps).map epKey).Perm ((served old).map epKey) ∧
        (∀ e ∈ served eps, ∀ o ∈ served old, epKey o = epKey e → epEquals o e = true)) := by
  obtain ⟨ss, old, hs, hold, _, h1, h2, _, _⟩ := pushType_sound s sk k eps h
  refine ⟨old, by simp [view, hs, hold], ?_⟩
  intro hno hne
  have pair : ∀ e ∈ eps, ∀ o ∈ old, epKey o = epKey e → epEquals o e = true := by
    intro e he o ho hk
    rcases h1 e he with ⟨o', ho', hk', heq⟩ | ⟨_, hnone⟩
    · have : o' = o := eq_of_key_eq epKey old hno o' ho' o ho (hk'.trans hk.symm)
      exact this ▸ heq
    · exact absurd hk (hnone o ho)
  constructor
  · have n1 : ((served eps).map epKey).Nodup :=
      hne.sublist ((List.filter_sublist (l := eps)).map epKey)
    have n2 : ((served old).map epKey).Nodup :=
      hno.sublist ((List.filter_sublist (l := old)).map epKey)
    refine (List.perm_ext_iff_of_nodup n1 n2).mpr ?_
    intro x
    simp only [served, List.mem_map, List.mem_filter]
    constructor
    · rintro ⟨e, ⟨he, hp⟩, rfl⟩
      rcases h1 e he with ⟨o, ho, hk, heq⟩ | ⟨hnp, _⟩
      · exact ⟨o, ⟨ho, by rw [pushable_of_equals heq]; exact hp⟩, hk⟩
      · rw [hp] at hnp; cases hnp
    · rintro ⟨o, ⟨ho, hp⟩, rfl⟩
      obtain ⟨e, he, hk⟩ := h2 o ho
      have heq := pair e he o ho hk.symm
      exact ⟨e, ⟨he, by rw [← pushable_of_equals heq]; exact hp⟩, hk⟩
  · intro e he o ho hk
    simp only [served, List.mem_filter] at he ho
    exact pair e he.1 o ho.1 hk

/-- A report that drops a stored endpoint key is never `NoPush`. -/
theorem removal_forces_push (s : Index) (sk : ShardKey) (k : Key) (eps old : List Ep) (o : Ep)
    (hold : view s k sk = some old) (ho : o ∈ old) (hgone : ∀ e ∈ eps, epKey e ≠ epKey o) :
    (apply s (.update sk k eps)).push ≠ .noPush := by
  intro h
  obtain ⟨ss, old', hs, hold', _, _, h2, _, _⟩ := pushType_sound s sk k eps h
  simp only [view, hs, Option.bind_some, hold', Option.some.injEq] at hold
  subst hold
  obtain ⟨e, he, hk⟩ := h2 o ho
  exact hgone e he hk

/-- A new endpoint that is healthy (or marked `SendUnhealthyEndpoints`) is never `NoPush`. -/
theorem new_pushable_forces_push (s : Index) (sk : ShardKey) (k : Key) (eps old : List Ep) (e : Ep)
    (hold : view s k sk = some old) (he : e ∈ eps) (hp : pushable e = true)
    (hnew : ∀ o ∈ old, epKey o ≠ epKey e) :
    (apply s (.update sk k eps)).push ≠ .noPush := by
  intro h
  obtain ⟨ss, old', hs, hold', _, h1, _, _, _⟩ := pushType_sound s sk k eps h
  simp only [view, hs, Option.bind_some, hold', Option.some.injEq] at hold
  subst hold
  rcases h1 e he with ⟨o, ho, hk, _⟩ | ⟨hnp, _⟩
  · exact hnew o ho hk
  · rw [hp] at hnp; cases hnp

/-- A stored endpoint (distinct keys) reported with a changed attribute is never `NoPush`. -/
theorem change_forces_push (s : Index) (sk : ShardKey) (k : Key) (eps old : List Ep) (o : Ep)
    (hold : view s k sk = some old) (hn : (old.map epKey).Nodup) (ho : o ∈ old)
    (hch : ∀ e ∈ eps, epEquals o e = false) :
    (apply s (.update sk k eps)).push ≠ .noPush := by
  intro h
  obtain ⟨ss, old', hs, hold', _, _, _, h3, _⟩ := pushType_sound s sk k eps h
  simp only [view, hs, Option.bind_some, hold', Option.some.injEq] at hold
  subst hold
  obtain ⟨e, he, heq⟩ := h3 hn o ho
  rw [hch e he] at heq; cases heq

/-- The first non-empty report for a service returns `FullPush`. -/
theorem new_service_full (s : Index) (sk : ShardKey) (k : Key) (eps : List Ep)
    (hne : eps ≠ []) (hs : s k = none) : (apply s (.update sk k eps)).push = .full := by
  simp only [apply]
  rw [(update_nonempty s sk k eps hne).2.1, hs]
  unfold writePush
  simp only [Option.isNone_none, if_true]
  split <;> rfl

/-- **Service-account change ⇒ FullPush.** If the set of service accounts of the service's
    endpoints after the write differs from the recorded one, the update returns `FullPush`. -/
theorem sa_change_forces_full (s : Index) (sk : ShardKey) (k : Key) (eps : List Ep) (ss : ShardSet)
    (hne : eps ≠ []) (hs : s k = some ss)
    (hsa : setEq ss.sas (saUnion (aset ss.shards sk eps)) = false) :
    (apply s (.update sk k eps)).push = .full := by
  simp only [apply]
  rw [(update_nonempty s sk k eps hne).2.1, hs]
  unfold writePush
  simp [saChanged, hsa]

theorem setEq_refl (a : List String) : setEq a a = true := by
  simp [setEq]

/-- After a non-empty report the recorded service accounts are exactly (as a set) those of the
    service's current endpoints. -/
theorem sa_exact_after_update (s : Index) (sk : ShardKey) (k : Key) (eps : List Ep) (hne : eps ≠ []) :
    ∃ ss', step s (.update sk k eps) k = some ss' ∧ setEq ss'.sas (saUnion ss'.shards) = true := by
  have key : ∀ ss : ShardSet, setEq (writeSS ss sk eps).sas (saUnion (writeSS ss sk eps).shards) = true := by
    intro ss
    unfold writeSS saUpdate
    by_cases hc : saChanged { ss with shards := aset ss.shards sk eps } = true
    · simp [hc, setEq_refl]
    · simp only [hc]
      simpa [saChanged] using hc
  refine ⟨writeSS ((s k).getD ShardSet.empty) sk eps, ?_, key _⟩
  simp only [step, apply]
  rw [(update_nonempty s sk k eps hne).1]
  simp

/-! ## `Equals` on address lists -/

theorem consume_perm (pool l : List String) (h : consume pool l = true) :
    ∃ rest, pool.Perm (l ++ rest) := by
  induction l generalizing pool with
  | nil => exact ⟨pool, List.Perm.refl _⟩
  | cons c t ih =>
    simp only [consume, Bool.and_eq_true, List.contains_iff_mem] at h
    obtain ⟨rest, hr⟩ := ih _ h.2
    exact ⟨rest, (List.perm_cons_erase h.1).trans (List.Perm.cons c hr)⟩

/-- The repaired `slices.EqualUnordered` is equality up to order: the two address lists are
    permutations of each other (same elements with the same multiplicities). -/
theorem equalUnordered_perm (a b : List String) (h : equalUnordered a b = true) : a.Perm b := by
  simp only [equalUnordered, Bool.and_eq_true, beq_iff_eq] at h
  obtain ⟨rest, hr⟩ := consume_perm a b h.2
  have hl := hr.length_eq
  rw [List.length_append, h.1] at hl
  have : rest = [] := by
    cases rest with
    | nil => rfl
    | cons x t => simp at hl
  subst this
  simpa using hr

/-- Finding (pinned tree, fixed by 8c9910a): the old `EqualUnordered` called address lists with
    different multiplicities equal, so `Equals` - and with it `NoPush` - missed such a change. -/
theorem equalUnordered_pinned_witness :
    equalUnorderedPinned ["10.0.0.1", "10.0.1.1"] ["10.0.0.1", "10.0.0.1"] = true ∧
    equalUnordered ["10.0.0.1", "10.0.1.1"] ["10.0.0.1", "10.0.0.1"] = false := by
  decide

/-! ## Non-vacuity and corner witnesses -/

def ep1 : Ep := { ns := "ns1", wl := "w1", addrs := ["10.0.0.1"], port := "http", sa := "sa1", health := 1 }
def ep2 : Ep := { ns := "ns1", wl := "w1", addrs := ["10.0.0.2"], port := "http", sa := "sa1", health := 1 }
def ep3u : Ep := { ns := "ns1", wl := "w1", addrs := ["10.0.0.3"], port := "http", sa := "sa1", health := 2 }
def kA : Key := ("a.com", "ns1")
def skA : ShardKey := ("Kubernetes", "c1")
def skB : ShardKey := ("Kubernetes", "c2")

/-- `NoPush` is reachable: re-reporting the stored endpoints plus a new unhealthy one. -/
example : (apply (run Index.empty [.update skA kA [ep1, ep2]]) (.update skA kA [ep2, ep1, ep3u])).push = .noPush := by
  decide

/-- ... and the hypotheses of `pushType_sound`'s last clause hold there (distinct keys). -/
example : (([ep1, ep2] : List Ep).map epKey).Nodup := by decide

/-- Corner (duplicate endpoint keys inside one shard, which the registries do not produce): `omap`
    keeps the last endpoint per key, so dropping the first of two same-key endpoints is `NoPush`
    although an endpoint left the shard. The distinct-keys hypothesis above is needed. -/
theorem noPush_dupkey_witness :
    (apply (run Index.empty [.update skA kA [{ ep1 with weight := 7 }, ep1]]) (.update skA kA [ep1])).push = .noPush := by
  decide

/-- Corner (the same endpoint twice in one report, which the registries do not produce): the report
    `[ep1, ep1]` over the stored `[ep1]` is `NoPush` - the comparison is per key - although a proxy
    would now be served two endpoints instead of one.  `noPush_served_exact` needs distinct keys in
    the report as well. -/
theorem noPush_dup_report_witness :
    (apply (run Index.empty [.update skA kA [ep1]]) (.update skA kA [ep1, ep1])).push = .noPush ∧
    (served [ep1, ep1]).length = 2 ∧ (served [ep1]).length = 1 := by
  decide

/-- Observation: `deleteServiceInner` does not recompute `ServiceAccounts`; after a registry is
    removed, the accounts of its endpoints stay recorded until the next non-empty report. -/
theorem sa_stale_after_delete_witness :
    ((step (run Index.empty [.update skA kA [ep1], .update skB kA [{ ep2 with sa := "sa2" }]])
        (.deleteShard skB)) kA).map (·.sas) = some ["sa1", "sa2"] := by
  decide

end IstioModel.C13
