import IstioModel.C13.Cla

/-!
C13 - executable model of Split Horizon EDS: `EndpointsByNetworkFilter`
(pilot/pkg/xds/endpoints/ep_filters.go) for a sidecar proxy with ambient multi-network off, on top of
the locality groups of `Cla.lean`; `selectNetworkGateways`, `filterGatewaysByIPFamily`,
`scaleEndpointLBWeight`, `splitWeightAmongGateways`, `refreshWeight`;
pilot/pkg/model/network.go `NetworkGateways.update` (indexes, lcm), `SortGateways`.

Assumed by the harness world: gateway addresses are IP addresses (IPv6 iff the text contains ':'),
no DestinationRule TLS settings; a PeerAuthentication is either absent or disables mTLS for the whole
namespace (`Builder.mtlsOff`), so an endpoint "has mTLS enabled" iff its `TLSMode` is `istio` and
mTLS is not disabled.
-/
namespace IstioModel.C13

/-- `model.NetworkGateway` (fields read here). -/
structure Gw where
  net     : String
  cluster : String
  addr    : String
  port    : Nat
  deriving DecidableEq, Repr, Inhabited

/-- An `endpoint.LbEndpoint` as far as the check observes it. -/
structure LbEp where
  host   : String
  port   : Nat
  pipe   : Bool := false
  health : Nat
  weight : Nat
  mtls   : Bool := false   -- transport-socket metadata `tlsMode: istio`
  deriving DecidableEq, Repr, Inhabited

/-- A `LocalityLbEndpoints` after the network filter. -/
structure OutGroup where
  loc    : String
  eps    : List LbEp
  weight : Nat
  deriving Repr

def two32 : Nat := 4294967296

/-- `mtlsChecker.checkMtlsEnabled` in the assumed configuration (no DestinationRule TLS settings):
    the endpoint has a sidecar (`TLSMode = istio`) and no PeerAuthentication disables mTLS for it. -/
def mtlsOn (b : Builder) (e : Ep) : Bool := e.tls == "istio" && !b.mtlsOff

/-- `buildEnvoyLbEndpoint`: address, health (draining label), weight, mTLS metadata. -/
def lbOf (b : Builder) (e : Ep) : LbEp :=
  { host := e.addrs.headD "", port := e.eport, pipe := e.eport = 0,
    health := if (e.labels.lookup drainingLabel).getD "" != "" then 3 else e.health,
    weight := lbWeight e, mtls := mtlsOn b e }

def Group.toOut (b : Builder) (g : Group) : OutGroup :=
  { loc := g.loc, eps := g.eps.map (lbOf b), weight := g.weight }

/-- `SortGateways`: by address, then port. -/
def gwLe (a b : Gw) : Bool := a.addr < b.addr || (a.addr == b.addr && a.port ≤ b.port)

def insertGw (x : Gw) : List Gw → List Gw
  | [] => [x]
  | y :: t => if gwLe x y then x :: y :: t else y :: insertGw x t

def sortGws : List Gw → List Gw
  | [] => []
  | x :: t => insertGw x (sortGws t)

def dedupStr : List String → List String
  | [] => []
  | x :: t => let r := dedupStr t; if r.contains x then r else x :: r

def dedupPair : List (String × String) → List (String × String)
  | [] => []
  | x :: t => let r := dedupPair t; if r.contains x then r else x :: r

/-- `NetworkGateways.lcm`: least common multiple of the sizes of the per-network and
    per-network-and-cluster gateway lists. -/
def scaleFactor (gws : List Gw) : Nat :=
  let byNet := (dedupStr (gws.map (·.net))).map fun n => (gws.filter (fun g => g.net == n)).length
  let byNC := (dedupPair (gws.map fun g => (g.net, g.cluster))).map fun nc =>
    (gws.filter (fun g => g.net == nc.1 && g.cluster == nc.2)).length
  (byNet ++ byNC).foldl Nat.lcm 1

/-- `selectNetworkGateways` for a sidecar: gateways of the network and cluster, else of the network;
    gateways without an mTLS port are skipped. -/
def selectGws (all : List Gw) (net cluster : String) : List Gw :=
  let nc := sortGws (all.filter fun g => g.net == net && g.cluster == cluster)
  let l := if nc.isEmpty then sortGws (all.filter fun g => g.net == net) else nc
  l.filter fun g => g.port != 0

/-- The address family after `netip.Addr.Unmap`: an IPv4-mapped IPv6 address (`::ffff:a.b.c.d`)
    counts as IPv4. Gateway addresses are IP addresses here (IPv6 iff the text has a ':'). -/
def isV6 (addr : String) : Bool :=
  addr.toList.contains ':' && !(addr.startsWith "::ffff:" && addr.toList.contains '.')

/-- `filterGatewaysByIPFamily`. -/
def reachableGws (b : Builder) (gws : List Gw) : List Gw :=
  if (!b.proxyV4 && !b.proxyV6) || (b.proxyV4 && b.proxyV6) then gws
  else gws.filter fun g => (!isV6 g.addr && b.proxyV4) || (isV6 g.addr && b.proxyV6)

/-- `scaleEndpointLBWeight` (the endpoint weight is at least 1 here). -/
def scaleW (w scale : Nat) : Nat := if w < maxU32 / scale then w * scale else maxU32

/-- `gatewayWeights[gateway] += share` on the pinned tree: plain uint32 addition, which wraps. -/
def addSharePinned (acc : List (Gw × Nat)) (g : Gw) (s : Nat) : List (Gw × Nat) :=
  match acc with
  | [] => [(g, s % two32)]
  | (g', w) :: t => if g' = g then (g, (w + s) % two32) :: t else (g', w) :: addSharePinned t g s

/-- `gatewayWeights[gateway], _ = addUint32(gatewayWeights[gateway], share)` (repaired: saturating). -/
def addShare (acc : List (Gw × Nat)) (g : Gw) (s : Nat) : List (Gw × Nat) :=
  match acc with
  | [] => [(g, addU32 0 s)]
  | (g', w) :: t => if g' = g then (g, addU32 w s) :: t else (g', w) :: addShare t g s

/-- `splitWeightAmongGateways`. -/
def splitWeight (acc : List (Gw × Nat)) (gws : List Gw) (share : Nat) : List (Gw × Nat) :=
  gws.foldl (fun a g => addShare a g share) acc

/-- How one endpoint of a locality is treated. -/
inductive Route
  | direct (e : LbEp)          -- reachable without a gateway: kept, with the scaled weight
  | via (gws : List Gw) (share : Nat)   -- replaced by its network's gateways, each getting `share`
  | dropped
  deriving Repr

/-- The per-endpoint decision of `EndpointsByNetworkFilter`. -/
def route (b : Builder) (all : List Gw) (e : Ep) : Route :=
  if !visible b e then .dropped else
  let gws := selectGws all e.net e.cluster
  let reach := reachableGws b gws
  let w := scaleW (lbWeight e) (let s := scaleFactor all; if s = 0 then 1 else s)
  let forceGateway := b.proxyNetwork == "" && e.net != "" && !gws.isEmpty
  if !forceGateway && (sameOrEmpty e.net b.proxyNetwork || gws.isEmpty) then
    let le := lbOf b e
    if le.pipe || le.host != "" then .direct { le with weight := w } else .dropped
  else if reach.isEmpty then .dropped
  else if !mtlsOn b e then .dropped
  else .via reach (w / reach.length)

def directOf : Route → List LbEp
  | .direct e => [e]
  | _ => []

/-- One endpoint's contribution to the gateway weights of its locality. -/
def netStep (b : Builder) (all : List Gw) (acc : List (Gw × Nat)) (e : Ep) : List (Gw × Nat) :=
  match route b all e with
  | .via gws share => splitWeight acc gws share
  | _ => acc

/-- The gateway weights of one locality: the fold over its endpoints, starting from an empty map
    **for every locality**. -/
def gwWeights (b : Builder) (all : List Gw) (eps : List Ep) : List (Gw × Nat) :=
  eps.foldl (netStep b all) []

def gwEndpoint (gw : Gw) (w : Nat) : LbEp :=
  { host := gw.addr, port := gw.port, health := 0, weight := if w = 0 then 1 else w, mtls := true }

/-- `refreshWeight` (repaired): the saturating sum of the endpoints' weights (`addUint32`), as in
    `generate`; absent (0) when the locality became empty. -/
def refreshWeight (eps : List LbEp) : Nat := eps.foldl (fun w e => addU32 w e.weight) 0

/-- `refreshWeight` on the pinned tree: plain uint32 `+=`, which wraps. -/
def refreshWeightPinned (eps : List LbEp) : Nat := (eps.map (·.weight)).sum % two32

/-- One locality through the filter: directly reachable members, then one endpoint per gateway used
    (sorted), `refreshWeight`. -/
def filterGroup (b : Builder) (all : List Gw) (g : Group) : OutGroup :=
  let direct := g.eps.flatMap fun e => directOf (route b all e)
  let ws := gwWeights b all g.eps
  let gwEps := (sortGws (ws.map (·.1))).map fun gw => gwEndpoint gw ((ws.lookup gw).getD 0)
  let eps := direct ++ gwEps
  { loc := g.loc, eps := eps, weight := refreshWeight eps }

/-- `EndpointsByNetworkFilter`: the identity unless network gateways are configured. -/
def networkFilter (b : Builder) (all : List Gw) (gs : List Group) : List OutGroup :=
  if all.isEmpty then gs.map (Group.toOut b) else gs.map (filterGroup b all)

/-- What the proxy is served for the cluster. -/
def serveCLA (b : Builder) (all : List Gw) (ss : Option ShardSet) : Option (List OutGroup) :=
  (buildCLA b ss).map (networkFilter b all)

end IstioModel.C13
