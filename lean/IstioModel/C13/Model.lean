/-
C13 - executable model of the endpoint index (sequential semantics).

Go sources modelled (istio/istio, pilot/pkg/model):
  endpointshards.go   EndpointIndex: UpdateServiceEndpoints, GetOrCreateEndpointShard,
                      DeleteServiceShard, deleteServiceInner, DeleteShard, PruneShard,
                      endpointUpdateRequiresPush, updateShardServiceAccount, clearCacheForService
  service.go          IstioEndpoint.Key, IstioEndpoint.Equals, FirstAddressOrNil
  pkg/slices          EqualUnordered

Conventions.  `shardsBySvc map[svc]map[ns]*EndpointShards` is the function `Index` from the pair
`(svc, ns)` to `Option ShardSet` (the inner map is never left empty by the code: the harness prints
the two levels, so a deviation would be seen).  `EndpointShards.Shards` is an association list with
first-match lookup, replace-in-place insertion and erase-all deletion; `ServiceAccounts` is a list
read as a set.  Calls on the `XdsCache` are an output (`clears`, `clearAll`).  Labels are an
association list printed in key order by the harness, so `maps.Equal` is list equality.
-/
namespace IstioModel.C13

/-- `model.IstioEndpoint` - every field read by `Key`, `Equals`, the index and the EDS filters. -/
structure Ep where
  ns      : String := ""          -- Namespace
  wl      : String := ""          -- WorkloadName
  addrs   : List String := []     -- Addresses
  port    : String := ""          -- ServicePortName
  eport   : Nat := 0              -- EndpointPort
  legacy  : Nat := 0              -- LegacyClusterPortKey
  sa      : String := ""          -- ServiceAccount
  net     : String := ""          -- Network
  loc     : String := ""          -- Locality.Label
  cluster : String := ""          -- Locality.ClusterID
  weight  : Nat := 0              -- LbWeight
  tls     : String := ""          -- TLSMode
  host    : String := ""          -- HostName
  sub     : String := ""          -- SubDomain
  health  : Nat := 0              -- HealthStatus (1 Healthy, 2 UnHealthy, 3 Draining, 4 Terminating)
  sendUnh : Bool := false         -- SendUnhealthyEndpoints
  node    : String := ""          -- NodeName
  labels  : List (String × String) := []
  disc    : Nat := 0              -- DiscoverabilityPolicy (0 nil, 1 AlwaysDiscoverable, 2 DiscoverableFromSameCluster)
  deriving DecidableEq, Repr, Inhabited

/-- `model.UnHealthy`. -/
def unHealthy : Nat := 2

/-- `IstioEndpoint.Key`: namespace/workload/first address/port name. -/
def epKey (e : Ep) : String :=
  e.ns ++ "/" ++ e.wl ++ "/" ++ e.addrs.headD "" ++ "/" ++ e.port

/-- `slices.EqualUnordered` on the pinned tree (8d5216c): equal length and every element of the second
    in the first - containment, not equality, when elements repeat. -/
def equalUnorderedPinned (a b : List String) : Bool :=
  a.length == b.length && b.all (fun x => a.contains x)

/-- The loop of the repaired `slices.EqualUnordered` (fix 8c9910a): every element of the second
    slice uses up one occurrence in the first. -/
def consume (pool : List String) : List String → Bool
  | [] => true
  | c :: t => pool.contains c && consume (pool.erase c) t

/-- `slices.EqualUnordered` (repaired): equal length and the occurrences match. -/
def equalUnordered (a b : List String) : Bool :=
  a.length == b.length && consume a b

/-- `IstioEndpoint.Equals`. -/
def epEquals (a b : Ep) : Bool :=
  a.port == b.port && a.legacy == b.legacy && a.sa == b.sa && a.net == b.net &&
  a.loc == b.loc && a.cluster == b.cluster && a.eport == b.eport && a.weight == b.weight &&
  a.tls == b.tls && a.ns == b.ns && a.wl == b.wl && a.host == b.host && a.sub == b.sub &&
  a.health == b.health && a.sendUnh == b.sendUnh && a.node == b.node &&
  equalUnordered a.addrs b.addrs && a.labels == b.labels && a.disc == b.disc

/-- The test `nie.HealthStatus != UnHealthy || nie.SendUnhealthyEndpoints` of
    `endpointUpdateRequiresPush`: a new endpoint of this kind is worth a push. -/
def pushable (e : Ep) : Bool := e.health != unHealthy || e.sendUnh

/-- `omap[key]`: the map is filled front to back, so the last old endpoint with the key wins. -/
def findLast (old : List Ep) (k : String) : Option Ep :=
  match old with
  | [] => none
  | e :: t =>
    match findLast t k with
    | some x => some x
    | none => if epKey e = k then some e else none

/-- `_, f := nmap[key]`. -/
def hasKey (l : List Ep) (k : String) : Bool := l.any (fun e => epKey e == k)

/-- The loop over the incoming endpoints of `endpointUpdateRequiresPush` (the `needPush` flag). -/
def scanIncoming (old : List Ep) (needPush : Bool) : List Ep → Bool
  | [] => needPush
  | nie :: t =>
    match findLast old (epKey nie) with
    | some oie => scanIncoming old (needPush || !epEquals oie nie) t
    | none => scanIncoming old (needPush || pushable nie) t

/-- The removal loop: some old key is no longer reported. -/
def anyRemoved (old incoming : List Ep) : Bool := old.any (fun oie => !hasKey incoming (epKey oie))

/-- `endpointUpdateRequiresPush` (second result; the first result is the incoming slice itself in
    both branches: every `nie` is appended in order). `old = none` is the nil slice of a missing
    shard. -/
def requiresPush (old : Option (List Ep)) (incoming : List Ep) : Bool :=
  match old with
  | none => true
  | some o =>
    let np := scanIncoming o false incoming
    if np then true else anyRemoved o incoming

/-! ### Shard sets -/

/-- `ShardKey{Cluster, Provider}` as the pair (provider, cluster) - the order of `Keys()`. -/
abbrev ShardKey := String × String
/-- (hostname, namespace). -/
abbrev Key := String × String

def alookup {ν : Type} (l : List (ShardKey × ν)) (k : ShardKey) : Option ν :=
  match l with
  | [] => none
  | kv :: t => if kv.1 = k then some kv.2 else alookup t k

/-- `m[k] = v`: replace the first binding or append. -/
def aset {ν : Type} (l : List (ShardKey × ν)) (k : ShardKey) (v : ν) : List (ShardKey × ν) :=
  match l with
  | [] => [(k, v)]
  | kv :: t => if kv.1 = k then (k, v) :: t else kv :: aset t k v

/-- `delete(m, k)`. -/
def aerase {ν : Type} (l : List (ShardKey × ν)) (k : ShardKey) : List (ShardKey × ν) :=
  match l with
  | [] => []
  | kv :: t => if kv.1 = k then aerase t k else kv :: aerase t k

/-- `EndpointShards`. -/
structure ShardSet where
  shards : List (ShardKey × List Ep) := []
  sas    : List String := []
  deriving DecidableEq, Repr, Inhabited

/-- The fresh `EndpointShards` of `GetOrCreateEndpointShard`. -/
def ShardSet.empty : ShardSet := {}

/-- The non-empty service accounts of every endpoint of every shard. -/
def saUnion (shards : List (ShardKey × List Ep)) : List String :=
  shards.flatMap (fun kv => (kv.2.filter (fun e => e.sa ≠ "")).map (fun e => e.sa))

/-- `sets.Equals` on lists read as sets. -/
def setEq (a b : List String) : Bool := a.all (fun x => b.contains x) && b.all (fun x => a.contains x)

/-- `updateShardServiceAccount`: did the set change. -/
def saChanged (ss : ShardSet) : Bool := !setEq ss.sas (saUnion ss.shards)

/-- `updateShardServiceAccount`: the new `EndpointShards`. -/
def saUpdate (ss : ShardSet) : ShardSet :=
  if saChanged ss then { ss with sas := saUnion ss.shards } else ss

/-- `PushType`. -/
inductive PushType
  | noPush | incremental | full
  deriving DecidableEq, Repr, Inhabited

/-- The region of `UpdateServiceEndpoints` under `ep.Lock()`: the shard set after the write. -/
def writeSS (ss : ShardSet) (sk : ShardKey) (eps : List Ep) : ShardSet :=
  saUpdate { ss with shards := aset ss.shards sk eps }

/-- The region of `UpdateServiceEndpoints` under `ep.Lock()`: the returned push type.
    `created` is the second result of `GetOrCreateEndpointShard`. -/
def writePush (ss : ShardSet) (sk : ShardKey) (eps : List Ep) (created : Bool) : PushType :=
  let needPush := requiresPush (alookup ss.shards sk) eps
  let p1 : PushType := if created then .full else if needPush then .incremental else .noPush
  if saChanged { ss with shards := aset ss.shards sk eps } then .full else p1

/-- The shard-set part of `deleteServiceInner`: `none` = unlinked from the index. -/
def delSS (ss : ShardSet) (sk : ShardKey) (preserveKeys : Bool) : Option ShardSet :=
  let ss' : ShardSet := { ss with shards := aerase ss.shards sk }
  if !preserveKeys && ss'.shards.isEmpty then none else some ss'

/-! ### The index -/

/-- `EndpointIndex.shardsBySvc`. (A structure around the function, not a bare function type: compiled
    code evaluates the body of an operation once, when the new index is built.) -/
structure Index where
  get : Key → Option ShardSet

instance : CoeFun Index (fun _ => Key → Option ShardSet) := ⟨Index.get⟩

theorem Index.ext {a b : Index} (h : ∀ k, a k = b k) : a = b := by
  cases a; cases b; congr; funext k; exact h k

def Index.empty : Index := ⟨fun _ => none⟩

def Index.set (s : Index) (k : Key) (v : Option ShardSet) : Index :=
  ⟨fun k' => if k' = k then v else s k'⟩

/-- Result of an operation: new index, returned `PushType` (updates only), number of
    `cache.Clear({ServiceEntry svc/ns})` calls per key, and whether `cache.ClearAll()` ran. -/
structure Res where
  st       : Index
  push     : PushType := .incremental
  clears   : Key → Nat := fun _ => 0
  clearAll : Bool := false

def clearOnce (k : Key) (n : Nat) : Key → Nat := fun k' => if k' = k then n else 0

/-- `deleteServiceInner` (under the index lock). -/
def deleteInner (s : Index) (sk : ShardKey) (k : Key) (preserveKeys : Bool) : Index :=
  match s k with
  | none => s
  | some ss => s.set k (delSS ss sk preserveKeys)

/-- `DeleteServiceShard`. -/
def deleteServiceShard (s : Index) (sk : ShardKey) (k : Key) (preserveKeys : Bool) : Res :=
  { st := deleteInner s sk k preserveKeys, clears := clearOnce k (if (s k).isSome then 1 else 0) }

/-- `UpdateServiceEndpoints`. -/
def updateServiceEndpoints (s : Index) (sk : ShardKey) (k : Key) (eps : List Ep) : Res :=
  if eps.isEmpty then
    { deleteServiceShard s sk k true with push := .incremental }
  else
    match s k with
    | some ss =>
      { st := s.set k (some (writeSS ss sk eps)), push := writePush ss sk eps false,
        clears := clearOnce k 1 }
    | none =>
      { st := s.set k (some (writeSS ShardSet.empty sk eps)), push := writePush ShardSet.empty sk eps true,
        clears := clearOnce k 2 }

/-- `DeleteShard`: `deleteServiceInner(shardKey, svc, ns, false)` for every entry, then `ClearAll`. -/
def deleteShard (s : Index) (sk : ShardKey) : Res :=
  { st := ⟨fun k => (s k).bind (fun ss => delSS ss sk false)⟩,
    clears := fun k => if (s k).isSome then 1 else 0,
    clearAll := true }

/-- `PruneShard`: as `DeleteShard` for the entries not in `keep`, without `ClearAll`. -/
def pruneShard (s : Index) (sk : ShardKey) (keep : List Key) : Res :=
  { st := ⟨fun k => if k ∈ keep then s k else (s k).bind (fun ss => delSS ss sk false)⟩,
    clears := fun k => if k ∈ keep then 0 else if (s k).isSome then 1 else 0 }

/-- The operations of the index (the entry points used by the registries through `XDSUpdater`). -/
inductive Op
  | update (sk : ShardKey) (k : Key) (eps : List Ep)
  | deleteSvc (sk : ShardKey) (k : Key) (preserveKeys : Bool)
  | deleteShard (sk : ShardKey)
  | prune (sk : ShardKey) (keep : List Key)
  deriving DecidableEq, Repr, Inhabited

def apply (s : Index) : Op → Res
  | .update sk k eps => updateServiceEndpoints s sk k eps
  | .deleteSvc sk k p => deleteServiceShard s sk k p
  | .deleteShard sk => deleteShard s sk
  | .prune sk keep => pruneShard s sk keep

def step (s : Index) (op : Op) : Index := (apply s op).st

/-- A sequential history. -/
def run (s : Index) (ops : List Op) : Index := ops.foldl step s

/-! ### Abstract view: (service, namespace, shard) → endpoints -/

/-- `ShardsForService(svc, ns).Shards[sk]`. -/
def view (s : Index) (k : Key) (sk : ShardKey) : Option (List Ep) :=
  (s k).bind (fun ss => alookup ss.shards sk)

/-- The key `(svc, ns)` is present in the index (`ShardsForService` finds it). -/
def present (s : Index) (k : Key) : Bool := (s k).isSome

/-- The abstract map the index is supposed to implement. -/
abbrev AMap := Key → ShardKey → Option (List Ep)

/-- Specification of one operation on the abstract map: an update replaces the registry's report
    (an empty report removes it), deletions remove. -/
def specStep (m : AMap) : Op → AMap
  | .update sk k eps => fun k' sk' =>
      if k' = k ∧ sk' = sk then (if eps.isEmpty then none else some eps) else m k' sk'
  | .deleteSvc sk k _ => fun k' sk' => if k' = k ∧ sk' = sk then none else m k' sk'
  | .deleteShard sk => fun k' sk' => if sk' = sk then none else m k' sk'
  | .prune sk keep => fun k' sk' => if sk' = sk ∧ k' ∉ keep then none else m k' sk'

/-- Does the operation write the cell `(k, sk)` of the abstract map. -/
def Op.touches (op : Op) (k : Key) (sk : ShardKey) : Bool :=
  match op with
  | .update sk' k' _ => k' = k && sk' = sk
  | .deleteSvc sk' k' _ => k' = k && sk' = sk
  | .deleteShard sk' => sk' = sk
  | .prune sk' keep => sk' = sk && !decide (k ∈ keep)

end IstioModel.C13
