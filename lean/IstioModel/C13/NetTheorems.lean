import IstioModel.C13.Net
import IstioModel.C13.ClaTheorems

/-!
# C13 - Split Horizon EDS: gateway endpoints per locality

`EndpointsByNetworkFilter` replaces the members of a locality that live on a remote network by the
network's gateways.  The theorems say what the statement's "grouped by locality with consistent
weights" means there: the gateway endpoints of a locality stand for the remote members **of that
locality** and nothing else.
-/
namespace IstioModel.C13

/-- The weight recorded for a gateway (0 if absent), as Go's `gatewayWeights[gw]` reads it. -/
def gwVal (acc : List (Gw × Nat)) (g : Gw) : Nat := (acc.lookup g).getD 0

theorem gwVal_addShare (acc : List (Gw × Nat)) (g g' : Gw) (s : Nat) :
    gwVal (addShare acc g s) g' = if g' = g then addU32 (gwVal acc g) s else gwVal acc g' := by
  induction acc with
  | nil =>
    by_cases h : g' = g
    · subst h; simp [addShare, gwVal, List.lookup]
    · have : (g' == g) = false := by simpa using h
      simp [addShare, gwVal, List.lookup, h, this]
  | cons kv t ih =>
    obtain ⟨k, w⟩ := kv
    unfold addShare
    by_cases hk : k = g
    · subst hk
      by_cases h : g' = k
      · subst h; simp [gwVal, List.lookup]
      · have : (g' == k) = false := by simpa using h
        simp [gwVal, List.lookup, h, this]
    · simp only [hk, if_false]
      by_cases h : g' = k
      · subst h
        have : ¬ g' = g := hk
        simp [gwVal, List.lookup, this]
      · have hb : (g' == k) = false := by simpa using h
        have hb2 : (g == k) = false := by simpa using fun e : g = k => hk e.symm
        simp only [gwVal, List.lookup, hb, hb2] at ih ⊢
        exact ih

theorem keys_addShare (acc : List (Gw × Nat)) (g g' : Gw) (s : Nat) :
    g' ∈ (addShare acc g s).map (·.1) ↔ g' = g ∨ g' ∈ acc.map (·.1) := by
  induction acc with
  | nil => simp [addShare]
  | cons kv t ih =>
    obtain ⟨k, w⟩ := kv
    unfold addShare
    by_cases hk : k = g
    · subst hk; simp
    · simp only [hk, if_false, List.map_cons, List.mem_cons, ih]
      constructor
      · rintro (h | h | h)
        · exact Or.inr (Or.inl h)
        · exact Or.inl h
        · exact Or.inr (Or.inr h)
      · rintro (h | h | h)
        · exact Or.inr (Or.inl h)
        · exact Or.inl h
        · exact Or.inr (Or.inr h)

theorem gwVal_splitWeight (gws : List Gw) (hn : gws.Nodup) (acc : List (Gw × Nat)) (g : Gw) (s : Nat) :
    gwVal (splitWeight acc gws s) g = if g ∈ gws then addU32 (gwVal acc g) s else gwVal acc g := by
  induction gws generalizing acc with
  | nil => simp [splitWeight]
  | cons x t ih =>
    rw [List.nodup_cons] at hn
    simp only [splitWeight, List.foldl_cons] at ih ⊢
    rw [ih hn.2, gwVal_addShare]
    by_cases hx : g = x
    · subst hx; simp [hn.1]
    · simp [hx]

theorem keys_splitWeight (gws : List Gw) (acc : List (Gw × Nat)) (g : Gw) (s : Nat) :
    g ∈ (splitWeight acc gws s).map (·.1) ↔ g ∈ gws ∨ g ∈ acc.map (·.1) := by
  induction gws generalizing acc with
  | nil => simp [splitWeight]
  | cons x t ih =>
    simp only [splitWeight, List.foldl_cons] at ih ⊢
    rw [ih, keys_addShare]
    simp only [List.mem_cons]
    constructor
    · rintro (h | h | h)
      · exact Or.inl (Or.inr h)
      · exact Or.inl (Or.inl h)
      · exact Or.inr h
    · rintro ((h | h) | h)
      · exact Or.inr (Or.inl h)
      · exact Or.inl h
      · exact Or.inr (Or.inr h)

/-- The share of its weight that endpoint `e` sends through gateway `g` (0 if it is reached
    directly, dropped, or routed through other gateways). -/
def shareOf (b : Builder) (all : List Gw) (g : Gw) (e : Ep) : Nat :=
  match route b all e with
  | .via gws share => if g ∈ gws then share else 0
  | _ => 0

/-- `e` is a remote member routed through gateway `g`. -/
def routedVia (b : Builder) (all : List Gw) (g : Gw) (e : Ep) : Prop :=
  ∃ gws share, route b all e = .via gws share ∧ g ∈ gws

theorem insertGw_perm (x : Gw) (l : List Gw) : (insertGw x l).Perm (x :: l) := by
  induction l with
  | nil => exact List.Perm.refl _
  | cons y t ih =>
    unfold insertGw
    split
    · exact List.Perm.refl _
    · exact (List.Perm.cons y ih).trans (List.Perm.swap x y t)

theorem sortGws_perm (l : List Gw) : (sortGws l).Perm l := by
  induction l with
  | nil => exact List.Perm.refl _
  | cons x t ih => exact (insertGw_perm x _).trans (List.Perm.cons x ih)

/-- The gateways an endpoint is routed through are distinct when the configured gateways are. -/
theorem via_nodup (b : Builder) (all : List Gw) (hall : all.Nodup) (e : Ep) (gws : List Gw) (share : Nat)
    (h : route b all e = .via gws share) : gws.Nodup := by
  have hsel : (selectGws all e.net e.cluster).Nodup := by
    unfold selectGws
    apply List.Nodup.sublist List.filter_sublist
    split
    · exact (sortGws_perm _).nodup_iff.mpr (hall.sublist List.filter_sublist)
    · exact (sortGws_perm _).nodup_iff.mpr (hall.sublist List.filter_sublist)
  have hreach : (reachableGws b (selectGws all e.net e.cluster)).Nodup := by
    unfold reachableGws
    split
    · exact hsel
    · exact hsel.sublist List.filter_sublist
  unfold route at h
  split at h
  · cases h
  · simp only at h
    split at h
    · split at h <;> cases h
    · split at h
      · cases h
      · split at h
        · cases h
        · cases h; exact hreach

theorem addU32_eq_min (l r : Nat) (hr : r ≤ maxU32) : addU32 l r = min (l + r) maxU32 := by
  unfold addU32
  split
  · next h => rw [Nat.min_eq_right]; omega
  · next h => rw [Nat.min_eq_left]; omega

theorem scaleW_le (w scale : Nat) (hs : 0 < scale) : scaleW w scale ≤ maxU32 := by
  unfold scaleW
  split
  · next h =>
    have := Nat.mul_lt_mul_of_lt_of_le h (Nat.le_refl scale) hs
    have h2 : maxU32 / scale * scale ≤ maxU32 := Nat.div_mul_le_self _ _
    omega
  · exact Nat.le_refl _

/-- A share sent through a gateway is a uint32. -/
theorem via_share_le (b : Builder) (all : List Gw) (e : Ep) (gws : List Gw) (share : Nat)
    (h : route b all e = .via gws share) : share ≤ maxU32 := by
  have hs : 0 < (let s := scaleFactor all; if s = 0 then 1 else s) := by
    simp only; split <;> omega
  have hw := scaleW_le (lbWeight e) _ hs
  unfold route at h
  split at h
  · cases h
  · simp only at h
    split at h
    · split at h <;> cases h
    · split at h
      · cases h
      · split at h
        · cases h
        · cases h
          exact Nat.le_trans (Nat.div_le_self _ _) hw

theorem shareOf_le (b : Builder) (all : List Gw) (g : Gw) (e : Ep) : shareOf b all g e ≤ maxU32 := by
  unfold shareOf
  cases hr : route b all e with
  | direct le => simp
  | dropped => simp
  | via gws share =>
    simp only
    split
    · exact via_share_le b all e gws share hr
    · exact Nat.zero_le _

/-- Fold invariant behind `gateway_weight_per_locality`. -/
theorem gwVal_fold (b : Builder) (all : List Gw) (hall : all.Nodup) (g : Gw) (eps : List Ep)
    (acc : List (Gw × Nat)) (hacc : gwVal acc g ≤ maxU32) :
    gwVal (eps.foldl (netStep b all) acc) g = min (gwVal acc g + (eps.map (shareOf b all g)).sum) maxU32 := by
  induction eps generalizing acc with
  | nil => simp [Nat.min_eq_left hacc]
  | cons e t ih =>
    simp only [List.foldl_cons, List.map_cons, List.sum_cons]
    have hsh := shareOf_le b all g e
    have hstep : gwVal (netStep b all acc e) g = min (gwVal acc g + shareOf b all g e) maxU32 := by
      unfold netStep shareOf
      cases hr : route b all e with
      | direct le => simp [Nat.min_eq_left hacc]
      | dropped => simp [Nat.min_eq_left hacc]
      | via gws share =>
        simp only
        rw [gwVal_splitWeight gws (via_nodup b all hall e gws share hr)]
        by_cases hg : g ∈ gws
        · simp only [hg, if_true]
          exact addU32_eq_min _ _ (via_share_le b all e gws share hr)
        · simp [hg, Nat.min_eq_left hacc]
    rw [ih _ (by rw [hstep]; exact Nat.min_le_right _ _), hstep]
    simp only [Nat.min_def]
    split <;> split <;> split <;> omega

theorem keys_fold (b : Builder) (all : List Gw) (g : Gw) (eps : List Ep) (acc : List (Gw × Nat)) :
    g ∈ (eps.foldl (netStep b all) acc).map (·.1) ↔ g ∈ acc.map (·.1) ∨ ∃ e ∈ eps, routedVia b all g e := by
  induction eps generalizing acc with
  | nil => simp
  | cons e t ih =>
    simp only [List.foldl_cons, List.mem_cons, exists_eq_or_imp]
    rw [ih]
    unfold netStep
    cases hr : route b all e with
    | direct le => simp [routedVia, hr]
    | dropped => simp [routedVia, hr]
    | via gws share =>
      simp only [keys_splitWeight, routedVia, hr, Route.via.injEq]
      constructor
      · rintro ((h | h) | h)
        · exact Or.inr (Or.inl ⟨gws, share, ⟨rfl, rfl⟩, h⟩)
        · exact Or.inl h
        · exact Or.inr (Or.inr h)
      · rintro (h | ⟨_, _, ⟨rfl, rfl⟩, h⟩ | h)
        · exact Or.inl (Or.inr h)
        · exact Or.inl (Or.inl h)
        · exact Or.inr h

/-- **gateway_weight_per_locality.** In one locality, the weight accumulated for a gateway is the
    sum (saturating at the largest uint32) of the shares of that locality's remote members routed
    through it - members of other localities contribute nothing. -/
theorem gateway_weight_per_locality (b : Builder) (all : List Gw) (hall : all.Nodup) (eps : List Ep) (g : Gw) :
    gwVal (gwWeights b all eps) g = min ((eps.map (shareOf b all g)).sum) maxU32 := by
  have := gwVal_fold b all hall g eps [] (by simp [gwVal])
  simpa [gwWeights, gwVal] using this

/-- **no_phantom_gateway.** A gateway has an entry in a locality only if some member of that
    locality is routed through it. -/
theorem no_phantom_gateway (b : Builder) (all : List Gw) (eps : List Ep) (g : Gw) :
    g ∈ (gwWeights b all eps).map (·.1) ↔ ∃ e ∈ eps, routedVia b all g e := by
  have := keys_fold b all g eps []
  simpa [gwWeights] using this

/-- The endpoints of a filtered locality: its directly reachable members (scaled weight), then one
    endpoint per gateway that some member of the locality is routed through. -/
theorem filterGroup_endpoints (b : Builder) (all : List Gw) (g : Group) (le : LbEp) :
    le ∈ (filterGroup b all g).eps ↔
      (∃ e ∈ g.eps, route b all e = .direct le) ∨
      (∃ gw, (∃ e ∈ g.eps, routedVia b all gw e) ∧
        le = gwEndpoint gw (gwVal (gwWeights b all g.eps) gw)) := by
  simp only [filterGroup, List.mem_append, List.mem_flatMap, List.mem_map,
    (sortGws_perm _).mem_iff]
  constructor
  · rintro (⟨e, he, hd⟩ | ⟨gw, hgw, rfl⟩)
    · left
      refine ⟨e, he, ?_⟩
      cases hr : route b all e with
      | direct x => simp only [hr, directOf, List.mem_singleton] at hd; rw [hd]
      | via _ _ => simp [hr, directOf] at hd
      | dropped => simp [hr, directOf] at hd
    · right
      exact ⟨gw, (no_phantom_gateway b all g.eps gw).mp (List.mem_map.mpr hgw), rfl⟩
  · rintro (⟨e, he, hr⟩ | ⟨gw, hgw, rfl⟩)
    · left; exact ⟨e, he, by simp [hr, directOf]⟩
    · right; exact ⟨gw, List.mem_map.mp ((no_phantom_gateway b all g.eps gw).mpr hgw), rfl⟩

/-- Without configured gateways the filter changes nothing (single-network meshes). -/
theorem networkFilter_single (b : Builder) (gs : List Group) :
    networkFilter b [] gs = gs.map (Group.toOut b) := by
  simp [networkFilter]

theorem refreshWeight_eq (eps : List LbEp) (acc : Nat) (hacc : acc ≤ maxU32) (hw : ∀ e ∈ eps, e.weight ≤ maxU32) :
    eps.foldl (fun w e => addU32 w e.weight) acc = min (acc + (eps.map (·.weight)).sum) maxU32 := by
  induction eps generalizing acc with
  | nil => simp [Nat.min_eq_left hacc]
  | cons e t ih =>
    have he := hw e List.mem_cons_self
    simp only [List.foldl_cons, List.map_cons, List.sum_cons]
    rw [ih _ (by rw [addU32_eq_min _ _ he]; exact Nat.min_le_right _ _) (fun x hx => hw x (List.mem_cons_of_mem _ hx)),
      addU32_eq_min _ _ he]
    simp only [Nat.min_def]
    split <;> split <;> split <;> omega

/-- Every locality of the input survives, in order (possibly empty), and its weight is the sum of
    its endpoints' weights, saturating at the largest uint32 (repaired `refreshWeight`; the pinned
    code wrapped around: `weight_wrap_pinned_witness`). -/
theorem networkFilter_groups (b : Builder) (all : List Gw) (hne : all ≠ []) (gs : List Group) :
    (networkFilter b all gs).map (·.loc) = gs.map (·.loc) ∧
    ∀ og ∈ networkFilter b all gs, (∀ e ∈ og.eps, e.weight ≤ maxU32) →
      og.weight = min ((og.eps.map (·.weight)).sum) maxU32 := by
  have : all.isEmpty = false := by cases all <;> simp_all
  constructor
  · simp [networkFilter, this, filterGroup, Function.comp_def]
  · intro og hog hw
    simp only [networkFilter, this, Bool.false_eq_true, if_false, List.mem_map] at hog
    obtain ⟨g, _, rfl⟩ := hog
    have := refreshWeight_eq (filterGroup b all g).eps 0 (Nat.zero_le _) hw
    simpa [filterGroup, refreshWeight] using this

/-- Finding (pinned tree, fixed by ace8a3e): `refreshWeight` summed with a plain uint32 `+=`; a locality
    with endpoint weights 4294967295 and 6 got the locality weight 5. -/
theorem weight_wrap_pinned_witness :
    refreshWeightPinned [{ host := "a", port := 1, health := 1, weight := 4294967295 },
                         { host := "b", port := 1, health := 1, weight := 6 }] = 5 ∧
    refreshWeight [{ host := "a", port := 1, health := 1, weight := 4294967295 },
                   { host := "b", port := 1, health := 1, weight := 6 }] = 4294967295 := by
  decide

/-! ## What "direct / through a gateway / not served" means, from the statement's text -/

/-- The gateways a sidecar may use for an endpoint of network `net` in cluster `cl`: gateways of
    that network with an mTLS port; those in the endpoint's own cluster if the network has any
    gateway there, otherwise all of the network. -/
theorem selectGws_spec (all : List Gw) (net cl : String) (g : Gw) :
    g ∈ selectGws all net cl ↔
      g ∈ all ∧ g.net = net ∧ g.port ≠ 0 ∧
      (g.cluster = cl ∨ ¬ ∃ g' ∈ all, g'.net = net ∧ g'.cluster = cl) := by
  unfold selectGws
  simp only [List.mem_filter, bne_iff_ne, ne_eq]
  by_cases hnc : (sortGws (all.filter fun g => g.net == net && g.cluster == cl)).isEmpty = true
  · have hnone : ¬ ∃ g' ∈ all, g'.net = net ∧ g'.cluster = cl := by
      rintro ⟨g', hg', h1, h2⟩
      have : g' ∈ sortGws (all.filter fun g => g.net == net && g.cluster == cl) :=
        (sortGws_perm _).mem_iff.mpr (by simp [hg', h1, h2])
      rw [List.isEmpty_iff.mp hnc] at this; cases this
    simp only [hnc, if_true, (sortGws_perm _).mem_iff, List.mem_filter, beq_iff_eq]
    constructor
    · rintro ⟨⟨h1, h2⟩, h3⟩; exact ⟨h1, h2, h3, Or.inr hnone⟩
    · rintro ⟨h1, h2, h3, _⟩; exact ⟨⟨h1, h2⟩, h3⟩
  · simp only [hnc, Bool.false_eq_true, if_false, (sortGws_perm _).mem_iff, List.mem_filter,
      Bool.and_eq_true, beq_iff_eq]
    have hsome : ∃ g' ∈ all, g'.net = net ∧ g'.cluster = cl := by
      cases hl : sortGws (all.filter fun g => g.net == net && g.cluster == cl) with
      | nil => simp [hl] at hnc
      | cons x t =>
        have : x ∈ sortGws (all.filter fun g => g.net == net && g.cluster == cl) := by rw [hl]; exact List.mem_cons_self
        have := (sortGws_perm _).mem_iff.mp this
        simp only [List.mem_filter, Bool.and_eq_true, beq_iff_eq] at this
        exact ⟨x, this.1, this.2.1, this.2.2⟩
    constructor
    · rintro ⟨⟨h1, h2, h3⟩, h4⟩; exact ⟨h1, h2, h4, Or.inl h3⟩
    · rintro ⟨h1, h2, h3, h4 | h4⟩
      · exact ⟨⟨h1, h2, h4⟩, h3⟩
      · exact absurd hsome h4

/-- The gateways a proxy can reach: all of them if its IP family is unknown or it is dual stack,
    otherwise those of its own family (an IPv4-mapped IPv6 address is IPv4). -/
theorem reachableGws_spec (b : Builder) (gws : List Gw) (g : Gw) :
    g ∈ reachableGws b gws ↔
      g ∈ gws ∧ (b.proxyV4 = b.proxyV6 ∨ (isV6 g.addr = false ∧ b.proxyV4 = true) ∨ (isV6 g.addr = true ∧ b.proxyV6 = true)) := by
  unfold reachableGws
  cases h4 : b.proxyV4 <;> cases h6 : b.proxyV6 <;> simp [List.mem_filter]

/-- Same or unknown network (`Proxy.InNetwork`). -/
def sameNetwork (b : Builder) (e : Ep) : Prop := e.net = "" ∨ b.proxyNetwork = "" ∨ e.net = b.proxyNetwork

/-- The endpoint has to be reached through a gateway: its network has a usable gateway, and it is on
    another network - or the proxy does not know its own network while the endpoint's is known. -/
def remote (b : Builder) (all : List Gw) (e : Ep) : Prop :=
  selectGws all e.net e.cluster ≠ [] ∧ (¬ sameNetwork b e ∨ (b.proxyNetwork = "" ∧ e.net ≠ ""))

/-- The scaled weight of an endpoint. -/
def scaledWeight (all : List Gw) (e : Ep) : Nat :=
  scaleW (lbWeight e) (let s := scaleFactor all; if s = 0 then 1 else s)

/-- **routeSpec - written from the statement's text, not from the filter's code.**
    * an endpoint the proxy may not see is not served;
    * an endpoint on the same (or an unknown) network, or whose network has no gateway, is served
      with its **own address** (scaled weight); only an endpoint that was reported without any
      address (empty host, not a unix socket) cannot be, and is left out;
    * a remote endpoint is **never** served with its own address: with mTLS and a gateway the proxy
      can reach, its weight is split evenly among the reachable gateways of its network; otherwise
      it is not served. -/
def routeSpec (b : Builder) (all : List Gw) (e : Ep) (r : Route) : Prop :=
  (visible b e = false → r = .dropped) ∧
  (visible b e = true → ¬ remote b all e →
    (((lbOf b e).pipe = true ∨ (lbOf b e).host ≠ "") → r = .direct { lbOf b e with weight := scaledWeight all e }) ∧
    (¬ ((lbOf b e).pipe = true ∨ (lbOf b e).host ≠ "") → r = .dropped)) ∧
  (visible b e = true → remote b all e →
    (∀ le, r ≠ .direct le) ∧
    ((mtlsOn b e = true ∧ reachableGws b (selectGws all e.net e.cluster) ≠ []) →
      r = .via (reachableGws b (selectGws all e.net e.cluster))
               (scaledWeight all e / (reachableGws b (selectGws all e.net e.cluster)).length)) ∧
    (¬ (mtlsOn b e = true ∧ reachableGws b (selectGws all e.net e.cluster) ≠ []) → r = .dropped))

theorem remote_iff (b : Builder) (all : List Gw) (e : Ep) :
    remote b all e ↔
      ¬ ((!(b.proxyNetwork == "" && e.net != "" && !(selectGws all e.net e.cluster).isEmpty) &&
          (sameOrEmpty e.net b.proxyNetwork || (selectGws all e.net e.cluster).isEmpty)) = true) := by
  unfold remote sameNetwork sameOrEmpty
  cases hg : selectGws all e.net e.cluster with
  | nil => simp
  | cons x t =>
    by_cases h1 : e.net = "" <;> by_cases h2 : b.proxyNetwork = "" <;> by_cases h3 : e.net = b.proxyNetwork <;>
      simp_all

/-- **`route` is `routeSpec`**: the filter's per-endpoint decision satisfies the specification ... -/
theorem route_satisfies_spec (b : Builder) (all : List Gw) (e : Ep) : routeSpec b all e (route b all e) := by
  unfold routeSpec
  refine ⟨?_, ?_, ?_⟩
  · intro hv; simp [route, hv]
  · intro hv hnr
    have hc := (not_congr (remote_iff b all e)).mp hnr
    simp only [Decidable.not_not] at hc
    constructor
    · intro hd
      simp only [route, hv, Bool.not_true, Bool.false_eq_true, if_false, hc, if_true, scaledWeight]
      rcases hd with hd | hd
      · simp [hd]
      · simp [hd]
    · intro hd
      simp only [route, hv, Bool.not_true, Bool.false_eq_true, if_false, hc, if_true]
      have h1 : (lbOf b e).pipe = false := by
        cases h : (lbOf b e).pipe
        · rfl
        · exact absurd (Or.inl h) hd
      have h2 : (lbOf b e).host = "" := by
        by_cases h : (lbOf b e).host = ""
        · exact h
        · exact absurd (Or.inr h) hd
      simp [h1, h2]
  · intro hv hr
    have hc := (remote_iff b all e).mp hr
    have hc' : (!(b.proxyNetwork == "" && e.net != "" && !(selectGws all e.net e.cluster).isEmpty) &&
          (sameOrEmpty e.net b.proxyNetwork || (selectGws all e.net e.cluster).isEmpty)) = false := by
      simpa using hc
    refine ⟨?_, ?_, ?_⟩
    · intro le
      simp only [route, hv, Bool.not_true, Bool.false_eq_true, if_false, hc']
      split
      · simp
      · split <;> simp
    · rintro ⟨hm, hre⟩
      have hre' : (reachableGws b (selectGws all e.net e.cluster)).isEmpty = false := by
        cases h : reachableGws b (selectGws all e.net e.cluster) <;> simp_all
      simp only [route, hv, Bool.not_true, Bool.false_eq_true, if_false, hc', hre', hm, scaledWeight]
    · intro hn
      simp only [route, hv, Bool.not_true, Bool.false_eq_true, if_false, hc']
      by_cases hre : (reachableGws b (selectGws all e.net e.cluster)).isEmpty = true
      · simp [hre]
      · have hre' : reachableGws b (selectGws all e.net e.cluster) ≠ [] := by
          intro h; simp [h] at hre
        have hm : mtlsOn b e = false := by
          cases hm : mtlsOn b e
          · rfl
          · exact absurd ⟨hm, hre'⟩ hn
        simp [hre, hm]

/-- ... and the specification determines the decision: `route b all e` is the only `r` with
    `routeSpec b all e r`. -/
theorem routeSpec_unique (b : Builder) (all : List Gw) (e : Ep) (r : Route) (h : routeSpec b all e r) :
    r = route b all e := by
  have h0 := route_satisfies_spec b all e
  obtain ⟨a1, a2, a3⟩ := h
  obtain ⟨b1, b2, b3⟩ := h0
  cases hv : visible b e
  · rw [a1 hv, b1 hv]
  · by_cases hr : remote b all e
    · by_cases hc : mtlsOn b e = true ∧ reachableGws b (selectGws all e.net e.cluster) ≠ []
      · rw [(a3 hv hr).2.1 hc, (b3 hv hr).2.1 hc]
      · rw [(a3 hv hr).2.2 hc, (b3 hv hr).2.2 hc]
    · by_cases hc : (lbOf b e).pipe = true ∨ (lbOf b e).host ≠ ""
      · rw [(a2 hv hr).1 hc, (b2 hv hr).1 hc]
      · rw [(a2 hv hr).2 hc, (b2 hv hr).2 hc]

end IstioModel.C13
