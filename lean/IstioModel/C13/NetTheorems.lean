import IstioModel.C13.Net
import IstioModel.C13.ClaTheorems

/-!
# C13 - Split Horizon EDS: gateway endpoints per locality

`EndpointsByNetworkFilter` replaces the members of a locality that live on a remote network by the
network's gateways.  The theorems say what the statement's "grouped by locality with consistent
weights" means there: the gateway endpoints of a locality stand for the remote members **of that
locality** and nothing else.
-/
namespace IstioModel.C13

/-- The weight recorded for a gateway (0 if absent), as Go's `gatewayWeights[gw]` reads it. -/
def gwVal (acc : List (Gw × Nat)) (g : Gw) : Nat := (acc.lookup g).getD 0

theorem gwVal_addShare (acc : List (Gw × Nat)) (g g' : Gw) (s : Nat) :
    gwVal (addShare acc g s) g' = if g' = g then (gwVal acc g + s) % two32 else gwVal acc g' := by
  induction acc with
  | nil =>
    by_cases h : g' = g
    · subst h; simp [addShare, gwVal, List.lookup]
    · have : (g' == g) = false := by simpa using h
      simp [addShare, gwVal, List.lookup, h, this]
  | cons kv t ih =>
    obtain ⟨k, w⟩ := kv
    unfold addShare
    by_cases hk : k = g
    · subst hk
      by_cases h : g' = k
      · subst h; simp [gwVal, List.lookup]
      · have : (g' == k) = false := by simpa using h
        simp [gwVal, List.lookup, h, this]
    · simp only [hk, if_false]
      by_cases h : g' = k
      · subst h
        have : ¬ g' = g := hk
        simp [gwVal, List.lookup, this]
      · have hb : (g' == k) = false := by simpa using h
        have hb2 : (g == k) = false := by simpa using fun e : g = k => hk e.symm
        simp only [gwVal, List.lookup, hb, hb2] at ih ⊢
        exact ih

theorem keys_addShare (acc : List (Gw × Nat)) (g g' : Gw) (s : Nat) :
    g' ∈ (addShare acc g s).map (·.1) ↔ g' = g ∨ g' ∈ acc.map (·.1) := by
  induction acc with
  | nil => simp [addShare]
  | cons kv t ih =>
    obtain ⟨k, w⟩ := kv
    unfold addShare
    by_cases hk : k = g
    · subst hk; simp
    · simp only [hk, if_false, List.map_cons, List.mem_cons, ih]
      constructor
      · rintro (h | h | h)
        · exact Or.inr (Or.inl h)
        · exact Or.inl h
        · exact Or.inr (Or.inr h)
      · rintro (h | h | h)
        · exact Or.inr (Or.inl h)
        · exact Or.inl h
        · exact Or.inr (Or.inr h)

theorem gwVal_splitWeight (gws : List Gw) (hn : gws.Nodup) (acc : List (Gw × Nat)) (g : Gw) (s : Nat) :
    gwVal (splitWeight acc gws s) g = if g ∈ gws then (gwVal acc g + s) % two32 else gwVal acc g := by
  induction gws generalizing acc with
  | nil => simp [splitWeight]
  | cons x t ih =>
    rw [List.nodup_cons] at hn
    simp only [splitWeight, List.foldl_cons] at ih ⊢
    rw [ih hn.2, gwVal_addShare]
    by_cases hx : g = x
    · subst hx; simp [hn.1]
    · simp [hx]

theorem keys_splitWeight (gws : List Gw) (acc : List (Gw × Nat)) (g : Gw) (s : Nat) :
    g ∈ (splitWeight acc gws s).map (·.1) ↔ g ∈ gws ∨ g ∈ acc.map (·.1) := by
  induction gws generalizing acc with
  | nil => simp [splitWeight]
  | cons x t ih =>
    simp only [splitWeight, List.foldl_cons] at ih ⊢
    rw [ih, keys_addShare]
    simp only [List.mem_cons]
    constructor
    · rintro (h | h | h)
      · exact Or.inl (Or.inr h)
      · exact Or.inl (Or.inl h)
      · exact Or.inr h
    · rintro ((h | h) | h)
      · exact Or.inr (Or.inl h)
      · exact Or.inl h
      · exact Or.inr (Or.inr h)

/-- The share of its weight that endpoint `e` sends through gateway `g` (0 if it is reached
    directly, dropped, or routed through other gateways). -/
def shareOf (b : Builder) (all : List Gw) (g : Gw) (e : Ep) : Nat :=
  match route b all e with
  | .via gws share => if g ∈ gws then share else 0
  | _ => 0

/-- `e` is a remote member routed through gateway `g`. -/
def routedVia (b : Builder) (all : List Gw) (g : Gw) (e : Ep) : Prop :=
  ∃ gws share, route b all e = .via gws share ∧ g ∈ gws

theorem insertGw_perm (x : Gw) (l : List Gw) : (insertGw x l).Perm (x :: l) := by
  induction l with
  | nil => exact List.Perm.refl _
  | cons y t ih =>
    unfold insertGw
    split
    · exact List.Perm.refl _
    · exact (List.Perm.cons y ih).trans (List.Perm.swap x y t)

theorem sortGws_perm (l : List Gw) : (sortGws l).Perm l := by
  induction l with
  | nil => exact List.Perm.refl _
  | cons x t ih => exact (insertGw_perm x _).trans (List.Perm.cons x ih)

/-- The gateways an endpoint is routed through are distinct when the configured gateways are. -/
theorem via_nodup (b : Builder) (all : List Gw) (hall : all.Nodup) (e : Ep) (gws : List Gw) (share : Nat)
    (h : route b all e = .via gws share) : gws.Nodup := by
  have hsel : (selectGws all e.net e.cluster).Nodup := by
    unfold selectGws
    apply List.Nodup.sublist List.filter_sublist
    split
    · exact (sortGws_perm _).nodup_iff.mpr (hall.sublist List.filter_sublist)
    · exact (sortGws_perm _).nodup_iff.mpr (hall.sublist List.filter_sublist)
  have hreach : (reachableGws b (selectGws all e.net e.cluster)).Nodup := by
    unfold reachableGws
    split
    · exact hsel
    · exact hsel.sublist List.filter_sublist
  unfold route at h
  split at h
  · cases h
  · simp only at h
    split at h
    · split at h <;> cases h
    · split at h
      · cases h
      · split at h
        · cases h
        · cases h; exact hreach

/-- Fold invariant behind `gateway_weight_per_locality`. -/
theorem gwVal_fold (b : Builder) (all : List Gw) (hall : all.Nodup) (g : Gw) (eps : List Ep)
    (acc : List (Gw × Nat)) :
    gwVal (eps.foldl (netStep b all) acc) g % two32 = (gwVal acc g + (eps.map (shareOf b all g)).sum) % two32 := by
  induction eps generalizing acc with
  | nil => simp
  | cons e t ih =>
    simp only [List.foldl_cons, List.map_cons, List.sum_cons]
    rw [ih]
    unfold netStep
    cases hr : route b all e with
    | direct le => simp [shareOf, hr]
    | dropped => simp [shareOf, hr]
    | via gws share =>
      simp only [shareOf, hr]
      rw [gwVal_splitWeight gws (via_nodup b all hall e gws share hr)]
      by_cases hg : g ∈ gws
      · simp only [hg, if_true]
        rw [Nat.add_mod, Nat.mod_mod, ← Nat.add_mod, Nat.add_assoc]
      · simp [hg]

theorem keys_fold (b : Builder) (all : List Gw) (g : Gw) (eps : List Ep) (acc : List (Gw × Nat)) :
    g ∈ (eps.foldl (netStep b all) acc).map (·.1) ↔ g ∈ acc.map (·.1) ∨ ∃ e ∈ eps, routedVia b all g e := by
  induction eps generalizing acc with
  | nil => simp
  | cons e t ih =>
    simp only [List.foldl_cons, List.mem_cons, exists_eq_or_imp]
    rw [ih]
    unfold netStep
    cases hr : route b all e with
    | direct le => simp [routedVia, hr]
    | dropped => simp [routedVia, hr]
    | via gws share =>
      simp only [keys_splitWeight, routedVia, hr, Route.via.injEq]
      constructor
      · rintro ((h | h) | h)
        · exact Or.inr (Or.inl ⟨gws, share, ⟨rfl, rfl⟩, h⟩)
        · exact Or.inl h
        · exact Or.inr (Or.inr h)
      · rintro (h | ⟨_, _, ⟨rfl, rfl⟩, h⟩ | h)
        · exact Or.inl (Or.inr h)
        · exact Or.inl (Or.inl h)
        · exact Or.inr h

/-- **gateway_weight_per_locality.** In one locality, the weight accumulated for a gateway is the
    (uint32) sum of the shares of that locality's remote members routed through it - members of
    other localities contribute nothing. -/
theorem gateway_weight_per_locality (b : Builder) (all : List Gw) (hall : all.Nodup) (eps : List Ep) (g : Gw) :
    gwVal (gwWeights b all eps) g % two32 = (eps.map (shareOf b all g)).sum % two32 := by
  have := gwVal_fold b all hall g eps []
  simpa [gwWeights, gwVal] using this

/-- **no_phantom_gateway.** A gateway has an entry in a locality only if some member of that
    locality is routed through it. -/
theorem no_phantom_gateway (b : Builder) (all : List Gw) (eps : List Ep) (g : Gw) :
    g ∈ (gwWeights b all eps).map (·.1) ↔ ∃ e ∈ eps, routedVia b all g e := by
  have := keys_fold b all g eps []
  simpa [gwWeights] using this

/-- The endpoints of a filtered locality: its directly reachable members (scaled weight), then one
    endpoint per gateway that some member of the locality is routed through. -/
theorem filterGroup_endpoints (b : Builder) (all : List Gw) (g : Group) (le : LbEp) :
    le ∈ (filterGroup b all g).eps ↔
      (∃ e ∈ g.eps, route b all e = .direct le) ∨
      (∃ gw, (∃ e ∈ g.eps, routedVia b all gw e) ∧
        le = gwEndpoint gw (gwVal (gwWeights b all g.eps) gw)) := by
  simp only [filterGroup, List.mem_append, List.mem_flatMap, List.mem_map,
    (sortGws_perm _).mem_iff]
  constructor
  · rintro (⟨e, he, hd⟩ | ⟨gw, hgw, rfl⟩)
    · left
      refine ⟨e, he, ?_⟩
      cases hr : route b all e with
      | direct x => simp only [hr, directOf, List.mem_singleton] at hd; rw [hd]
      | via _ _ => simp [hr, directOf] at hd
      | dropped => simp [hr, directOf] at hd
    · right
      exact ⟨gw, (no_phantom_gateway b all g.eps gw).mp (List.mem_map.mpr hgw), rfl⟩
  · rintro (⟨e, he, hr⟩ | ⟨gw, hgw, rfl⟩)
    · left; exact ⟨e, he, by simp [hr, directOf]⟩
    · right; exact ⟨gw, List.mem_map.mp ((no_phantom_gateway b all g.eps gw).mpr hgw), rfl⟩

/-- Without configured gateways the filter changes nothing (single-network meshes). -/
theorem networkFilter_single (b : Builder) (gs : List Group) :
    networkFilter b [] gs = gs.map Group.toOut := by
  simp [networkFilter]

/-- Every locality of the input survives, in order (possibly empty), with the uint32 sum of its
    endpoints' weights. -/
theorem networkFilter_groups (b : Builder) (all : List Gw) (hne : all ≠ []) (gs : List Group) :
    (networkFilter b all gs).map (·.loc) = gs.map (·.loc) ∧
    ∀ og ∈ networkFilter b all gs, og.weight = (og.eps.map (·.weight)).sum % two32 := by
  have : all.isEmpty = false := by cases all <;> simp_all
  constructor
  · simp [networkFilter, this, filterGroup, Function.comp_def]
  · intro og hog
    simp only [networkFilter, this, Bool.false_eq_true, if_false, List.mem_map] at hog
    obtain ⟨g, _, rfl⟩ := hog
    rfl

end IstioModel.C13
