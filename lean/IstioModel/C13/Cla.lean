import IstioModel.C13.Model

/-!
C13 - executable model of EDS membership: from one service's `EndpointShards` to the
`ClusterLoadAssignment` a proxy is given.

Go sources modelled (pilot/pkg/xds/endpoints/endpoint_builder.go):
  BuildClusterLoadAssignment (port / address / subset filter), snapshotShards (shard keys in sorted
  order, cluster-local shards), generate (filterIstioEndpoint, locality grouping, locality weight),
  filterIstioEndpoint, buildEnvoyLbEndpoint (health status, weight, address), addUint32;
  pilot/pkg/model: ProxyView.IsVisible, Proxy.InCluster, IstioEndpoint.IsDiscoverableFromProxy,
  GetLoadBalancingWeight; pkg/config/labels Instance.SubsetOf.

Configuration assumed (what the harness sets up): a sidecar proxy, no network gateways
(`IsMultiNetworkEnabled() = false`, so `EndpointsByNetworkFilter` is the identity), ambient
multi-network off, no waypoint / self-discovery / inference-pool cluster, no HBONE tunnel labels,
no locality load-balancing distribute / failover (priorities stay 0).
-/
namespace IstioModel.C13

/-- What `NewEndpointBuilder` derives from the cluster name, the service, the DestinationRule, the
    mesh config and the proxy, as far as membership reads it. -/
structure Builder where
  portName     : String := ""                      -- name of the cluster's service port
  subset       : List (String × String) := []      -- labels of the DestinationRule subset (nil = [])
  view         : Option (List String) := none      -- proxy.Metadata.RequestedNetworkView (none = all)
  proxyCluster : String := ""                      -- proxy.Metadata.ClusterID
  clusterLocal : Bool := false                     -- push.IsClusterLocal(service)
  nodeLocal    : Bool := false                     -- service.Attributes.NodeLocal
  proxyNode    : String := ""                      -- proxy.GetNodeName()
  unhealthyOk  : Bool := false                     -- supportsUnhealthyEndpoints(service, dr, port, subset)
  persistent   : Bool := false                     -- service carries the persistent-session label
  proxyNetwork : String := ""                      -- proxy.Metadata.Network            (Net.lean)
  proxyV4      : Bool := true                      -- proxy.SupportsIPv4()              (Net.lean)
  proxyV6      : Bool := false                     -- proxy.SupportsIPv6()              (Net.lean)
  mtlsOff      : Bool := false                     -- a PeerAuthentication disables mTLS for the endpoints (Net.lean)
  deriving Repr, Inhabited

/-- `labels.Instance.SubsetOf`: every subset label is on the endpoint with the same value. -/
def subsetOf (sub labels : List (String × String)) : Bool :=
  sub.all (fun kv => labels.lookup kv.1 == some kv.2)

/-- `netutil.IsValidIPAddress`, abstracted: the harness only uses well-formed IP addresses or names
    containing a letter that is not a hexadecimal digit. -/
def validIP (s : String) : Bool :=
  !s.isEmpty && s.toList.all (fun c => c.isDigit || c == '.' || c == ':' ||
    ('a' ≤ c && c ≤ 'f') || ('A' ≤ c && c ≤ 'F'))

/-- The `FilterInPlace` predicate of `BuildClusterLoadAssignment`. `none` is the index-out-of-range
    panic of `ep.Addresses[0]` on an endpoint without addresses. -/
def portFilter (b : Builder) (e : Ep) : Option Bool :=
  if b.portName ≠ e.port then some false
  else match e.addrs with
    | [] => none
    | a :: _ =>
      if a ≠ "" && e.eport ≠ 0 && !validIP a then some false
      else some (subsetOf b.subset e.labels)

/-- `ProxyView.IsVisible`. -/
def visible (b : Builder) (e : Ep) : Bool :=
  match b.view with
  | none => true
  | some nets => nets.contains e.net || e.net == ""

/-- `identifier.IsSameOrEmpty`. -/
def sameOrEmpty (a b : String) : Bool := a == "" || b == "" || a == b

/-- `IstioEndpoint.IsDiscoverableFromProxy`. -/
def discoverable (b : Builder) (e : Ep) : Bool :=
  if e.disc = 2 then sameOrEmpty e.cluster b.proxyCluster else true

/-- `features.DrainingLabel`. -/
def drainingLabel : String := "istio.io/draining"

/-- The endpoint is draining: status `Draining` or the draining label is set. -/
def draining (e : Ep) : Bool := e.health == 3 || (e.labels.lookup drainingLabel).getD "" != ""

/-- `filterIstioEndpoint` (the clauses that are live in the assumed configuration, in order). -/
def filterIstio (b : Builder) (e : Ep) : Bool :=
  if b.nodeLocal && e.node != b.proxyNode then false
  else if !visible b e then false
  else if b.clusterLocal && b.proxyCluster != e.cluster then false
  else if !discoverable b e then false
  else if e.addrs.isEmpty then false
  else if !b.unhealthyOk && e.health == unHealthy then false
  else if e.health == 4 then false
  else if draining e && !b.persistent then false
  else true

/-- Order of `EndpointShards.Keys()`: provider, then cluster. -/
def skLe (a b : ShardKey) : Bool := a.1 < b.1 || (a.1 == b.1 && !(b.2 < a.2))

/-- Is the shard of registry `sk` read at all (`snapshotShards`): shards of other clusters are
    skipped for cluster-local and node-local services. The shard key's cluster is `sk.2`. -/
def shardRead (b : Builder) (sk : ShardKey) : Bool :=
  !(sk.2 != b.proxyCluster && (b.clusterLocal || b.nodeLocal))

def insertShard (x : ShardKey × List Ep) : List (ShardKey × List Ep) → List (ShardKey × List Ep)
  | [] => [x]
  | y :: t => if skLe x.1 y.1 then x :: y :: t else y :: insertShard x t

/-- The shards in the order of `Keys()` (shard keys are distinct, so stability is irrelevant). -/
def sortShards : List (ShardKey × List Ep) → List (ShardKey × List Ep)
  | [] => []
  | x :: t => insertShard x (sortShards t)

/-- `snapshotShards`: the endpoints of the shards that are read, in sorted shard-key order. -/
def snapshot (b : Builder) (ss : ShardSet) : List Ep :=
  ((sortShards ss.shards).filter (fun kv => shardRead b kv.1)).flatMap (·.2)

/-- `IstioEndpoint.GetLoadBalancingWeight`. -/
def lbWeight (e : Ep) : Nat := if e.weight > 0 then e.weight else 1

def maxU32 : Nat := 4294967295

/-- `addUint32`: saturating. -/
def addU32 (l r : Nat) : Nat := if maxU32 - r < l then maxU32 else l + r

/-- Insert a label into a sorted list. -/
def insertSorted (x : String) : List String → List String
  | [] => [x]
  | y :: t => if x < y then x :: y :: t else y :: insertSorted x t

/-- The distinct locality labels in `sort.Strings` order (the keys of `localityEpMap`). -/
def localities : List Ep → List String
  | [] => []
  | e :: t => let r := localities t; if r.contains e.loc then r else insertSorted e.loc r

/-- One `LocalityLbEndpoints`. -/
structure Group where
  loc    : String
  eps    : List Ep
  weight : Nat
  deriving Repr

/-- `generate`, after filtering: one group per locality label, each with its endpoints in input
    order and the saturating sum of their weights. -/
def groupByLocality (eps : List Ep) : List Group :=
  (localities eps).map fun l =>
    let g := eps.filter (fun e => e.loc == l)
    { loc := l, eps := g, weight := g.foldl (fun w e => addU32 w (lbWeight e)) 0 }

/-- The port / address / subset stage; `none` = panic. -/
def stage1 (b : Builder) : List Ep → Option (List Ep)
  | [] => some []
  | e :: t =>
    match portFilter b e, stage1 b t with
    | some keep, some r => some (if keep then e :: r else r)
    | _, _ => none

/-- `BuildClusterLoadAssignment` for a found service and port: the locality groups, or `none` if
    it panics. `ss = none`: the service has no entry in the index (`findShards` returns nil). -/
def buildCLA (b : Builder) (ss : Option ShardSet) : Option (List Group) :=
  match stage1 b ((ss.map (snapshot b)).getD []) with
  | none => none
  | some l => some (groupByLocality (l.filter (filterIstio b)))

/-- The membership predicate of the property: the endpoint matches the cluster's port and subset,
    has a usable address, and is healthy (or allowed unhealthy), discoverable from and visible to
    the proxy. -/
def member (b : Builder) (e : Ep) : Bool :=
  portFilter b e == some true && filterIstio b e

end IstioModel.C13
