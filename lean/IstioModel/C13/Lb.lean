import IstioModel.C13.Net

/-!
C13 - executable model of locality-weighted load balancing on a ClusterLoadAssignment:
pilot/pkg/networking/core/loadbalancer/loadbalancer.go `ApplyLocalityLoadBalancer` for a
DestinationRule `localityLbSetting.distribute` (`applyLocalityWeights`), with
pilot/pkg/networking/util `LocalityMatch` and pilot/pkg/serviceregistry/util/label `SplitLocalityLabel`.

Not modelled: `failover` / `failoverPriority` (priorities), zone-aware load balancing,
`TrafficDistribution`.  Assumed by the harness world: the `to` patterns of one rule do not overlap
(Go iterates that map in random order; with disjoint patterns the order does not matter).  The
arithmetic is that of the repaired code (sum in uint64, product in float64: no wrap-around).
-/
namespace IstioModel.C13

/-- `core.Locality`. -/
structure Loc where
  region : String := ""
  zone   : String := ""
  sub    : String := ""
  deriving DecidableEq, Repr, Inhabited

/-- `strings.Split(s, "/")` on the characters (structural, so that examples can be decided). -/
def splitSlash : List Char → List (List Char)
  | [] => [[]]
  | c :: cs =>
    match splitSlash cs with
    | [] => [[c]]
    | p :: ps => if c = '/' then [] :: p :: ps else (c :: p) :: ps

/-- `SplitLocalityLabel` (`ConvertLocality`): the first three `/`-separated items. -/
def splitLoc (s : String) : Loc :=
  match (splitSlash s.toList).map String.ofList with
  | [] => {}
  | [a] => { region := a }
  | [a, b] => { region := a, zone := b }
  | a :: b :: c :: _ => { region := a, zone := b, sub := c }

/-- `util.LocalityMatch`. -/
def locMatch (l : Loc) (rule : String) : Bool :=
  let r := splitLoc rule
  (r.region == "*" || l.region == r.region) &&
  (r.zone == "*" || r.zone == "" || l.zone == r.zone) &&
  (r.sub == "*" || r.sub == "" || l.sub == r.sub)

/-- `LocalityLoadBalancerSetting_Distribute`. -/
structure Distribute where
  src : String                    -- `from`
  to  : List (String × Nat)
  deriving Repr, Inhabited

/-- `math.Ceil(float64(a) / float64(b))` for uint32 `a`, `b > 0`. -/
def ceilDiv (a b : Nat) : Nat := (a + b - 1) / b

/-- The `to` entry that claims a locality group (the first one matching it). -/
def claimedBy (r : Distribute) (g : OutGroup) : Option (String × Nat) :=
  r.to.find? (fun pw => locMatch (splitLoc g.loc) pw.1)

/-- The weight a group enters the computation with: its own, or 1 when it has none (a group the
    network filter left without endpoints carries no weight; it still counts, with 1). -/
def origWeight (g : OutGroup) : Nat := if g.weight = 0 then 1 else g.weight

/-- `totalWeight` of a `to` entry: the sum of the weights of the groups it claims. -/
def totalFor (r : Distribute) (gs : List OutGroup) (pat : String) : Nat :=
  ((gs.filter (fun g => (claimedBy r g).map (·.1) == some pat)).map origWeight).sum

/-- One locality group under the rule: a group no `to` entry claims loses its endpoints; a claimed
    group gets the weight `ceil(weight * entryWeight / totalWeight)`. -/
def distributeGroup (r : Distribute) (gs : List OutGroup) (g : OutGroup) : OutGroup :=
  match claimedBy r g with
  | none => { g with eps := [] }
  | some pw =>
    let total := totalFor r gs pw.1
    let prod := origWeight g * pw.2
    if total = 0 || prod = 0 then g else { g with weight := ceilDiv prod total }

/-- `applyLocalityWeights`: the first rule whose `from` matches the proxy's locality is applied. -/
def applyDistribute (ploc : Loc) (rules : List Distribute) (gs : List OutGroup) : List OutGroup :=
  match rules.find? (fun r => locMatch ploc r.src) with
  | none => gs
  | some r => gs.map (distributeGroup r gs)

/-- What the proxy is served for the cluster, locality load balancing included.  (With an empty
    assignment `BuildClusterLoadAssignment` returns before the load balancer.) -/
def serveLB (b : Builder) (all : List Gw) (ploc : Loc) (rules : List Distribute) (ss : Option ShardSet) :
    Option (List OutGroup) :=
  (serveCLA b all ss).map (applyDistribute ploc rules)

end IstioModel.C13
