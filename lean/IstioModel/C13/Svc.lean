import IstioModel.C13.Cla

/-!
C13 - the snapshot of a service's endpoints inside a PushContext (used at CDS time: DNS clusters,
`EndpointBuilder.FromServiceEndpoints` / `IstioEndpoints`).

Go sources modelled:
  pilot/pkg/model/endpointshards.go  `EndpointShards.CopyEndpoints` (grouping by service port number,
                                     `LegacyClusterPortKey` takes precedence over the port name)
  pilot/pkg/model/push_context.go    `initServiceRegistry` (`ServiceIndex.instancesByPort`),
                                     `ServiceEndpointsByPort` (subset labels)
The shards are iterated in Go map order; the result is read as a multiset (the driver sorts it).
-/
namespace IstioModel.C13

/-- The service port number an endpoint belongs to (`CopyEndpoints`): the legacy port key if it is set
    and is a port of the service, else the number of the port with the endpoint's port name. -/
def portOf (portMap : List (String × Nat)) (e : Ep) : Option Nat :=
  if e.legacy ≠ 0 then
    (if (portMap.map (·.2)).contains e.legacy then some e.legacy else none)
  else portMap.lookup e.port

/-- `CopyEndpoints(portMap, ports)[port]`. -/
def copyEndpoints (ss : ShardSet) (portMap : List (String × Nat)) (port : Nat) : List Ep :=
  (ss.shards.flatMap (·.2)).filter (fun e => portOf portMap e == some port)

/-- `PushContext.ServiceEndpointsByPort(svc, port, labels)` of a PushContext initialised from the
    index state (`ss` = the service's entry, `none` if it has none). -/
def serviceEndpointsByPort (ss : Option ShardSet) (portMap : List (String × Nat)) (port : Nat)
    (labels : List (String × String)) : List Ep :=
  ((ss.map (copyEndpoints · portMap port)).getD []).filter (fun e => subsetOf labels e.labels)

end IstioModel.C13
