import IstioModel.Generated.C13LockFacts

/-!
C13 - the lock discipline the concurrent model assumes, as regenerated source-level facts (T-gen,
`harness/c13 table lockfacts`, go/ast over the checked tree; the extractor's rules are in
harness/c13/facts.go).

The concurrent model (Conc.lean) runs lock REGIONS atomically: lookups under the index read lock,
creation / deletion / DeleteShard / PruneShard under the index write lock, the write region of an
update under the shard set's own lock, the `unlinked` mark set with both held.  A scripted schedule
runs one goroutine at a time and cannot see whether the code really takes those locks (a delete
under `RLock()` behaves the same there).  These theorems state it about the source:

* every WRITE to `EndpointIndex.shardsBySvc` (outer or inner map) is made under `mu.Lock()`,
  every read under `mu.Lock()` or `mu.RLock()`;
* every WRITE to `EndpointShards.Shards / ServiceAccounts / unlinked` is made with the shard set's own
  lock held for writing (or on an object built in the same function), every read with at least its
  read lock;
* `unlinked` is set with BOTH the index write lock and the shard set's write lock held;
* the sites the model's regions stand for exist (a refactoring that moves them breaks the tie instead of
  passing vacuously).

A tree in which a fact changes makes `decide` fail: the obligation is open and the check reports the
broken tie; the race-detector stress of the harness then searches for the interleaving.
-/
namespace IstioModel.C13
open IstioModel.Generated.C13

abbrev LockFact := String × String × String × String × String × String × String

def fnOf (f : LockFact) : String := f.2.1
def kindOf (f : LockFact) : String := f.2.2.1
def fieldOf (f : LockFact) : String := f.2.2.2.1
def idxOf (f : LockFact) : String := f.2.2.2.2.2.1
def ownOf (f : LockFact) : String := f.2.2.2.2.2.2

/-- the source files could be parsed -/
theorem lock_facts_extracted : lockFacts.all (fun f => fnOf f != "parse-error") = true ∧ lockFacts.length ≥ 20 := by
  decide

/-- every write to the two-level map of the index happens under the index WRITE lock -/
theorem index_writes_under_write_lock :
    lockFacts.all (fun f => !(fieldOf f == "shardsBySvc" && kindOf f == "write") || idxOf f == "W") = true := by decide

/-- every read of it under the index lock (read or write) -/
theorem index_reads_under_lock :
    lockFacts.all (fun f => !(fieldOf f == "shardsBySvc" && kindOf f == "read") || idxOf f == "W" || idxOf f == "R") = true := by
  decide

/-- every write to a shard set's `Shards`, `ServiceAccounts`, `unlinked` happens with its own lock held for
    writing, or on an object the function has just built -/
theorem shard_writes_under_write_lock :
    lockFacts.all (fun f => !(fieldOf f != "shardsBySvc" && kindOf f == "write") || ownOf f == "W" || ownOf f == "fresh") = true := by
  decide

/-- every read of them with at least the read lock -/
theorem shard_reads_under_lock :
    lockFacts.all (fun f => !(fieldOf f != "shardsBySvc" && kindOf f == "read") ||
      ownOf f == "W" || ownOf f == "R" || ownOf f == "fresh") = true := by
  decide

/-- the `unlinked` mark is set with both locks held for writing (the delete region of the model sets `dead`
    and unlinks in one step) -/
theorem unlinked_set_under_both_locks :
    lockFacts.all (fun f => !(fieldOf f == "unlinked" && kindOf f == "write") || (idxOf f == "W" && ownOf f == "W")) = true := by
  decide

/-- the sites the regions of the model stand for: (function, kind, field) -/
def requiredLockSites : List (String × String × String) :=
  [ ("EndpointIndex.ShardsForService", "read", "shardsBySvc"),            -- R1: lookup
    ("EndpointIndex.GetOrCreateEndpointShard", "write", "shardsBySvc"),   -- R2: create + link
    ("EndpointIndex.UpdateServiceEndpoints", "write", "Shards"),          -- W: the write region
    ("EndpointIndex.UpdateServiceEndpoints", "read", "unlinked"),         -- W: the retry test of the repaired code
    ("updateShardServiceAccount", "write", "ServiceAccounts"),            -- W: service accounts
    ("EndpointIndex.deleteServiceInner", "write", "Shards"),              -- delete region
    ("EndpointIndex.deleteServiceInner", "write", "shardsBySvc"),         -- ... unlink
    ("EndpointIndex.deleteServiceInner", "write", "unlinked"),            -- ... mark
    ("EndpointIndex.DeleteShard", "read", "shardsBySvc"),
    ("EndpointIndex.PruneShard", "read", "shardsBySvc"),
    ("EndpointShards.CopyEndpoints", "read", "Shards"),                   -- CDS-time snapshot
    ("EndpointShards.Keys", "read", "Shards"),
    ("EndpointBuilder.snapshotShards", "read", "Shards"),                 -- the builder's read region
    ("PushContext.initServiceRegistry", "read", "ServiceAccounts") ]

theorem lock_sites_present :
    requiredLockSites.all (fun s => lockFacts.any (fun f => fnOf f == s.1 && kindOf f == s.2.1 && fieldOf f == s.2.2)) = true := by
  decide

/-- the delete entry points run `deleteServiceInner` under the index write lock: its accesses carry the
    weakest lock over all its call sites -/
theorem delete_region_under_index_write_lock :
    lockFacts.all (fun f => fnOf f != "EndpointIndex.deleteServiceInner" || idxOf f == "W") = true := by decide

end IstioModel.C13
