import IstioModel.C15.PodEvents

/-!
# C15 - `recomputeServiceForPod`: a label edit on a cached pod rebuilds the slices of the services
that select it

`rebuildService` is a run of slice handlers without the intermediate index pushes; `refreshIndex`
pushes once at the end (only when there is something to push).
-/
namespace IstioModel.C15

/-- equal except for the index -/
structure SameButIndex (c d : Ctl) : Prop where
  svcs : c.svcs = d.svcs
  slices : c.slices = d.slices
  pods : c.pods = d.pods
  nodes : c.nodes = d.nodes
  smap : c.smap = d.smap
  cache : c.cache = d.cache
  byIP : c.byIP = d.byIP
  ipBy : c.ipBy = d.ipBy
  resync : c.resync = d.resync

theorem SameButIndex.refl (c : Ctl) : SameButIndex c c := ⟨rfl, rfl, rfl, rfl, rfl, rfl, rfl, rfl, rfl⟩

theorem rebuildSlice_sim (c d : Ctl) (sl : Slice) (h : SameButIndex c d) :
    SameButIndex (rebuildSlice c sl.host sl) (sliceUpsert d none sl) := by
  have hbc : buildSlice c.pods c.nodes c.byIP (alookup sl.host c.smap) sl =
      buildSlice d.pods d.nodes d.byIP (alookup sl.host d.smap) sl := by
    rw [h.pods, h.nodes, h.byIP, h.smap]
  cases hb : buildSlice d.pods d.nodes d.byIP (alookup sl.host d.smap) sl with
  | none =>
    rw [sliceUpsert_none d none sl hb]
    have : rebuildSlice c sl.host sl = c := by
      unfold rebuildSlice; rw [hbc, hb]
    rw [this]
    exact ⟨h.svcs, h.slices, h.pods, h.nodes, h.smap, h.cache, h.byIP, h.ipBy, h.resync⟩
  | some eps =>
    rw [sliceUpsert_some d none sl eps hb]
    have : rebuildSlice c sl.host sl =
        { c with cache := cacheUpdate c.cache sl.host sl.name eps,
                 resync := (parkedAddrs c.pods sl).foldl (fun m a => setInsert m a sl.key) c.resync } := by
      unfold rebuildSlice; rw [hbc, hb]
    rw [this]
    refine ⟨h.svcs, h.slices, h.pods, h.nodes, h.smap, ?_, h.byIP, h.ipBy, ?_⟩
    · show cacheUpdate c.cache sl.host sl.name eps = cacheUpdate d.cache sl.host sl.name eps
      rw [h.cache]
    · show (parkedAddrs c.pods sl).foldl _ c.resync = (parkedAddrs d.pods sl).foldl _ (sliceResync0 d none sl)
      rw [h.resync, h.pods]
      rfl

theorem rebuild_fold_sim (sls : List Slice) (host : String) (c d : Ctl) (h : SameButIndex c d)
    (hh : ∀ sl ∈ sls, sl.host = host) :
    SameButIndex (sls.foldl (fun s sl => rebuildSlice s host sl) c) (sls.foldl (fun s sl => sliceUpsert s none sl) d) := by
  induction sls generalizing c d with
  | nil => exact h
  | cons sl r ih =>
    simp only [List.foldl_cons]
    apply ih
    · rw [← hh sl (by simp)]
      exact rebuildSlice_sim c d sl h
    · exact fun x hx => hh x (List.mem_cons_of_mem _ hx)

/-- a run of slice handlers over slices of the store: each one leaves the exemption set -/
theorem upserts_inv (sls : List Slice) (c : Ctl) (P : Slice → Prop) (hinv : InvExcept c P) (hwf : WF c)
    (hsub : ∀ sl ∈ sls, sl ∈ c.slices) :
    InvExcept (sls.foldl (fun s sl => sliceUpsert s none sl) c) (fun x => P x ∧ x ∉ sls) ∧
    (sls.foldl (fun s sl => sliceUpsert s none sl) c).slices = c.slices ∧
    (sls.foldl (fun s sl => sliceUpsert s none sl) c).svcs = c.svcs ∧
    (sls.foldl (fun s sl => sliceUpsert s none sl) c).pods = c.pods ∧
    (sls.foldl (fun s sl => sliceUpsert s none sl) c).nodes = c.nodes ∧
    (sls.foldl (fun s sl => sliceUpsert s none sl) c).byIP = c.byIP ∧
    (sls.foldl (fun s sl => sliceUpsert s none sl) c).smap = c.smap := by
  induction sls generalizing c P with
  | nil => exact ⟨hinv.mono (fun x _ hp => ⟨hp, by simp⟩), rfl, rfl, rfl, rfl, rfl, rfl⟩
  | cons sl r ih =>
    simp only [List.foldl_cons]
    have hsl : sl ∈ c.slices := hsub sl (by simp)
    have hst := sliceUpsert_stores c none sl
    have h1 := sliceUpsert_inv c P none sl hinv hwf hsl
    have hwf1 : WF (sliceUpsert c none sl) := hwf.of_stores hst.1 hst.2.1 hst.2.2.1
    have := ih (sliceUpsert c none sl) _ h1 hwf1 (by
      intro x hx
      rw [hst.1]
      exact hsub x (List.mem_cons_of_mem _ hx))
    refine ⟨this.1.mono ?_, this.2.1.trans hst.1, this.2.2.1.trans hst.2.1, this.2.2.2.1.trans hst.2.2.1,
      this.2.2.2.2.1.trans hst.2.2.2.1, this.2.2.2.2.2.1.trans hst.2.2.2.2.1, this.2.2.2.2.2.2.trans hst.2.2.2.2.2.1⟩
    intro x _ hp
    refine ⟨hp.1.1, ?_⟩
    intro hm
    cases List.mem_cons.mp hm with
    | inl h => exact hp.1.2 h
    | inr h => exact hp.2 h

/-! ### emptiness of `endpointSliceCache.get` -/

theorem dedupEps_nil (l : List IEp) (h : dedupEps [] l = []) : l = [] := by
  cases l with
  | nil => rfl
  | cons x r => simp [dedupEps] at h

theorem cacheGet_ne_nil_of_entry (c : SliceCache) (h n : String) (eps : List IEp)
    (he : cacheEntry c h n = some eps) (hne : eps ≠ []) : cacheGet c h ≠ [] := by
  intro hg
  unfold cacheGet at hg
  have hl := dedupEps_nil _ hg
  unfold cacheEntry at he
  cases hc : alookup h c with
  | none => rw [hc] at he; cases he
  | some per =>
    rw [hc] at he hl
    simp only [Option.bind] at he
    simp only [Option.getD] at hl
    have hm := mem_of_alookup per n eps he
    cases eps with
    | nil => exact hne rfl
    | cons e r =>
      have : e ∈ (sortKeys per).flatMap (·.2) :=
        List.mem_flatMap.mpr ⟨(n, e :: r), (mem_sortKeys _ _).mpr hm, by simp⟩
      rw [hl] at this
      cases this

theorem cacheGet_ne_nil_entry' (c : SliceCache) (h : String) (hn : ∀ per, alookup h c = some per → NodupKeys per)
    (hne : cacheGet c h ≠ []) : ∃ n eps, cacheEntry c h n = some eps ∧ eps ≠ [] := by
  unfold cacheGet at hne
  cases hc : alookup h c with
  | none => rw [hc] at hne; simp [dedupEps, sortKeys] at hne
  | some per =>
    rw [hc] at hne
    simp only [Option.getD] at hne
    have : (sortKeys per).flatMap (·.2) ≠ [] := fun h0 => hne (by rw [h0]; rfl)
    cases hf : (sortKeys per).flatMap (·.2) with
    | nil => exact absurd hf this
    | cons e r =>
      have he : e ∈ (sortKeys per).flatMap (·.2) := by rw [hf]; simp
      obtain ⟨ne, hne1, hee⟩ := List.mem_flatMap.mp he
      obtain ⟨n, eps⟩ := ne
      have hne1' := (mem_sortKeys _ _).mp hne1
      refine ⟨n, eps, ?_, ?_⟩
      · simp [cacheEntry, hc, alookup_of_mem_nodupKeys per n eps (hn per hc) hne1']
      · intro h0
        simp only [h0] at hee
        cases hee

/-! ### index and cache of other hostnames are untouched by a run of slice handlers -/

theorem upserts_other (sls : List Slice) (host h : String) (c : Ctl) (hh : ∀ sl ∈ sls, sl.host = host) (hne : h ≠ host) :
    alookup h (sls.foldl (fun s sl => sliceUpsert s none sl) c).index = alookup h c.index ∧
    alookup h (sls.foldl (fun s sl => sliceUpsert s none sl) c).cache = alookup h c.cache := by
  induction sls generalizing c with
  | nil => exact ⟨rfl, rfl⟩
  | cons sl r ih =>
    simp only [List.foldl_cons]
    have hslh : sl.host = host := hh sl (by simp)
    have := ih (sliceUpsert c none sl) (fun x hx => hh x (List.mem_cons_of_mem _ hx))
    rw [this.1, this.2]
    have hne' : h ≠ sl.host := by rw [hslh]; exact hne
    cases hb : buildSlice c.pods c.nodes c.byIP (alookup sl.host c.smap) sl with
    | none =>
      rw [sliceUpsert_none c none sl hb]
      exact ⟨idxUpdate_other _ _ _ _ _ hne', rfl⟩
    | some eps =>
      rw [sliceUpsert_some c none sl eps hb]
      exact ⟨idxUpdate_other _ _ _ _ _ hne', alookup_cacheUpdate_other _ _ _ _ _ hne'⟩

theorem rebuildSlice_index (c : Ctl) (host : String) (sl : Slice) : (rebuildSlice c host sl).index = c.index := by
  unfold rebuildSlice
  split <;> rfl

theorem rebuildService_index (c : Ctl) (sv : Svc) : (rebuildService c sv).index = c.index := by
  unfold rebuildService
  generalize svcSlices c sv = sls
  induction sls generalizing c with
  | nil => rfl
  | cons sl r ih =>
    simp only [List.foldl_cons]
    rw [ih, rebuildSlice_index]

/-! ### one service of `recomputeServiceForPod` -/

/-- `buildEndpointsForService(conv, updateCache = true)` followed by the conditional
    `EDSCacheUpdate`: every slice of the service leaves the exemption set, the index of the hostname
    is consistent again.  `hP`: an exempt (stale) slice of the service builds to at least one endpoint
    (the index is not written when there is nothing to push). -/
theorem recomputeService_inv (c : Ctl) (P : Slice → Prop) (sv : Svc)
    (hinv : InvExcept c P) (hwf : WF c) (hsv : sv ∈ c.svcs)
    (hP : ∀ x ∈ c.slices, P x → x.ns = sv.ns → x.svc = sv.name → Servable x →
      ∃ e, e ∈ (buildSlice c.pods c.nodes c.byIP (some sv) x).getD []) :
    InvExcept (refreshIndex (rebuildService c sv) sv) (fun x => P x ∧ ¬ (x.ns = sv.ns ∧ x.svc = sv.name)) := by
  have hmem : ∀ x, x ∈ svcSlices c sv ↔ x ∈ c.slices ∧ x.ns = sv.ns ∧ x.svc = sv.name := by
    intro x; unfold svcSlices; simp [List.mem_filter]
  have hhost : ∀ sl ∈ svcSlices c sv, sl.host = sv.host := by
    intro sl hsl
    have := (hmem sl).mp hsl
    simp [Slice.host, Svc.host, this.2.1, this.2.2]
  have hsub : ∀ sl ∈ svcSlices c sv, sl ∈ c.slices := fun sl hsl => ((hmem sl).mp hsl).1
  obtain ⟨hd, hdsl, hdsv, hdpods, hdnodes, hdbyip, hdsmap⟩ := upserts_inv (svcSlices c sv) c P hinv hwf hsub
  have hsim : SameButIndex (rebuildService c sv) ((svcSlices c sv).foldl (fun s sl => sliceUpsert s none sl) c) :=
    rebuild_fold_sim (svcSlices c sv) sv.host c c (SameButIndex.refl c) hhost
  generalize hdd : (svcSlices c sv).foldl (fun s sl => sliceUpsert s none sl) c = d at hd hdsl hdsv hdpods hdnodes hdbyip hdsmap hsim
  generalize hrr : rebuildService c sv = r at hsim
  have hf := refreshIndex_fields r sv
  have hsmapsv : alookup sv.host c.smap = some sv := hinv.smapSome sv hsv (fun h => h)
  -- slices of the hostname are slices of the service
  have hofhost : ∀ x ∈ c.slices, x.host = sv.host → x ∈ svcSlices c sv := by
    intro x hx hh
    have := hwf.sliceSvc x hx sv hsv hh
    exact (hmem x).mpr ⟨hx, this.1, this.2⟩
  have hexempt : ∀ x ∈ c.slices, ¬ (P x ∧ ¬ (x.ns = sv.ns ∧ x.svc = sv.name)) → ¬ (P x ∧ x ∉ svcSlices c sv) := by
    intro x hx hn hp
    apply hn
    refine ⟨hp.1, ?_⟩
    intro hm
    exact hp.2 ((hmem x).mpr ⟨hx, hm.1, hm.2⟩)
  refine ⟨?_, ?_, ?_, ?_, ?_, ?_, ?_⟩
  · intro x hx hs hnp
    rw [hf.1, hsim.slices, hdsl] at hx
    have := hd.fresh x (by rw [hdsl]; exact hx) hs (hexempt x hx hnp)
    unfold EntryOK at this ⊢
    rw [hf.2.2.2.2.2.2.1, hf.2.2.1, hf.2.2.2.1, hf.2.2.2.2.1, hf.2.2.2.2.2.1,
      hsim.cache, hsim.pods, hsim.nodes, hsim.byIP, hsim.smap]
    exact this
  · intro h n eps he
    rw [hf.2.2.2.2.2.2.1, hsim.cache] at he
    rw [hf.1, hsim.slices]
    exact hd.noForeign h n eps he
  · intro x hx hnp a ha
    rw [hf.1, hsim.slices, hdsl] at hx
    rw [hf.2.2.1, hsim.pods] at ha
    rw [hf.2.2.2.2.2.2.2.1, hsim.resync]
    exact hd.parked x (by rw [hdsl]; exact hx) (hexempt x hx hnp) a ha
  · intro s hs
    rw [hf.2.1, hsim.svcs] at hs
    rw [hf.2.2.2.2.2.1, hsim.smap]
    exact hd.smapSome s hs
  · intro h s hl
    rw [hf.2.2.2.2.2.1, hsim.smap] at hl
    rw [hf.2.1, hsim.svcs]
    exact hd.smapOnly h s hl
  · intro h
    have hridx : r.index = c.index := by rw [← hrr]; exact rebuildService_index c sv
    by_cases hh : h = sv.host
    · subst hh
      by_cases he : (cachedEndpoints r sv).isEmpty = true
      · -- nothing pushed
        have hfr : refreshIndex r sv = r := by unfold refreshIndex; simp only [he, if_true]
        rw [hfr]
        have hgr : svcSlices c sv ≠ [] → cacheGet r.cache sv.host = [] := by
          intro hne
          unfold cachedEndpoints at he
          have hs2 : svcSlices r sv = svcSlices c sv := by unfold svcSlices; rw [hsim.slices, hdsl]
          rw [hs2] at he
          have : (svcSlices c sv).isEmpty = false := by
            cases hsl : svcSlices c sv with
            | nil => exact absurd hsl hne
            | cons _ _ => rfl
          rw [this] at he
          simp only [Bool.false_eq_true, if_false] at he
          exact List.isEmpty_iff.mp he
        by_cases hnil : svcSlices c sv = []
        · -- no slice: nothing was rebuilt
          have hrc : r = c := by rw [← hrr]; unfold rebuildService; rw [hnil]; rfl
          rw [hrc]
          exact hinv.index sv.host
        · have hg := hgr hnil
          -- the rebuilt cache is empty for the hostname, so the old one was
          have hgc : cacheGet c.cache sv.host = [] := by
            apply Classical.byContradiction
            intro hne
            obtain ⟨n, eps, hent, hepsne⟩ := cacheGet_ne_nil_entry' c.cache sv.host (hinv.nodup sv.host) hne
            obtain ⟨x, hx, hxs, hxh, hxn⟩ := hinv.noForeign sv.host n eps hent
            have hxsl := hofhost x hx hxh
            have hxd : x ∈ d.slices := by rw [hdsl]; exact hx
            have hfresh := hd.fresh x hxd hxs (fun hp => hp.2 hxsl)
            unfold EntryOK at hfresh
            rw [← hsim.cache, ← hsim.pods, ← hsim.nodes, ← hsim.byIP, ← hsim.smap] at hfresh
            -- the rebuilt entry of x is non-empty
            have hrp : r.pods = c.pods := by rw [hsim.pods, hdpods]
            have hrn : r.nodes = c.nodes := by rw [hsim.nodes, hdnodes]
            have hrb : r.byIP = c.byIP := by rw [hsim.byIP, hdbyip]
            have hrs : r.smap = c.smap := by rw [hsim.smap, hdsmap]
            rw [hrp, hrn, hrb, hrs, hxh, hsmapsv] at hfresh
            have hnonempty : ∃ e, e ∈ (buildSlice c.pods c.nodes c.byIP (some sv) x).getD [] := by
              cases Classical.em (P x) with
              | inl hp =>
                have hxm := (hmem x).mp hxsl
                exact hP x hx hp hxm.2.1 hxm.2.2 hxs
              | inr hnp =>
                have hfc := hinv.fresh x hx hxs hnp
                unfold EntryOK at hfc
                rw [hxh, hxn, hent, hsmapsv] at hfc
                rw [← hfc]
                cases eps with
                | nil => exact absurd rfl hepsne
                | cons e t => exact ⟨e, by simp⟩
            obtain ⟨e, hee⟩ := hnonempty
            cases hb : buildSlice c.pods c.nodes c.byIP (some sv) x with
            | none => rw [hb] at hee; cases hee
            | some beps =>
              rw [hb] at hfresh hee
              simp only [Option.getD] at hee
              have hbne : beps ≠ [] := by intro h0; rw [h0] at hee; cases hee
              exact cacheGet_ne_nil_of_entry r.cache sv.host x.name beps hfresh hbne hg
          unfold IdxOK
          rw [hridx]
          have hci := hinv.index sv.host
          unfold IdxOK at hci
          cases hl : alookup sv.host c.index with
          | none => simp only []; right; exact hg
          | some e =>
            rw [hl] at hci
            simp only []
            rw [hg]
            rw [hgc] at hci
            exact ⟨hci.1, fun h0 => absurd rfl h0⟩
      · have hce : cachedEndpoints r sv = cacheGet r.cache sv.host := by
          unfold cachedEndpoints at he ⊢
          split
          · rename_i h1; simp [h1] at he
          · rfl
        have : refreshIndex r sv = { r with index := idxUpdate r.index sv.host sv.ns (cacheGet r.cache sv.host) } := by
          unfold refreshIndex
          rw [hce] at he
          simp only [hce, he]
          rfl
        rw [this]
        exact idxOK_pushed r _ sv.host sv.ns rfl
    · have hoth := upserts_other (svcSlices c sv) sv.host h c hhost hh
      rw [hdd] at hoth
      apply idxOK_unchanged c _ h _ _ _ (hinv.index h)
      · have : alookup h (refreshIndex r sv).index = alookup h r.index := by
          unfold refreshIndex
          simp only []
          split
          · rfl
          · exact idxUpdate_other _ _ _ _ _ hh
        rw [this, hridx]
      · rw [hf.2.2.2.2.2.2.1, hsim.cache, hoth.2]
      · rw [hf.2.2.2.2.2.1, hsim.smap, hdsmap]
  · intro h per hl
    rw [hf.2.2.2.2.2.2.1, hsim.cache] at hl
    exact hd.nodup h per hl

theorem recomputeService_stores (c : Ctl) (sv : Svc) :
    (refreshIndex (rebuildService c sv) sv).slices = c.slices ∧ (refreshIndex (rebuildService c sv) sv).svcs = c.svcs ∧
    (refreshIndex (rebuildService c sv) sv).pods = c.pods ∧ (refreshIndex (rebuildService c sv) sv).nodes = c.nodes ∧
    (refreshIndex (rebuildService c sv) sv).byIP = c.byIP ∧ (refreshIndex (rebuildService c sv) sv).smap = c.smap := by
  have hf := refreshIndex_fields (rebuildService c sv) sv
  have h : ∀ (l : List Slice) (c : Ctl), (l.foldl (fun s sl => rebuildSlice s sv.host sl) c).slices = c.slices ∧
      (l.foldl (fun s sl => rebuildSlice s sv.host sl) c).svcs = c.svcs ∧
      (l.foldl (fun s sl => rebuildSlice s sv.host sl) c).pods = c.pods ∧
      (l.foldl (fun s sl => rebuildSlice s sv.host sl) c).nodes = c.nodes ∧
      (l.foldl (fun s sl => rebuildSlice s sv.host sl) c).byIP = c.byIP ∧
      (l.foldl (fun s sl => rebuildSlice s sv.host sl) c).smap = c.smap := by
    intro l
    induction l with
    | nil => intro c; exact ⟨rfl, rfl, rfl, rfl, rfl, rfl⟩
    | cons sl t ih =>
      intro c
      simp only [List.foldl_cons]
      have h1 : (rebuildSlice c sv.host sl).slices = c.slices ∧ (rebuildSlice c sv.host sl).svcs = c.svcs ∧
          (rebuildSlice c sv.host sl).pods = c.pods ∧ (rebuildSlice c sv.host sl).nodes = c.nodes ∧
          (rebuildSlice c sv.host sl).byIP = c.byIP ∧ (rebuildSlice c sv.host sl).smap = c.smap := by
        unfold rebuildSlice
        split <;> exact ⟨rfl, rfl, rfl, rfl, rfl, rfl⟩
      have h2 := ih (rebuildSlice c sv.host sl)
      exact ⟨h2.1.trans h1.1, h2.2.1.trans h1.2.1, h2.2.2.1.trans h1.2.2.1, h2.2.2.2.1.trans h1.2.2.2.1,
        h2.2.2.2.2.1.trans h1.2.2.2.2.1, h2.2.2.2.2.2.trans h1.2.2.2.2.2⟩
  have hr := h (svcSlices c sv) c
  unfold rebuildService at hf ⊢
  exact ⟨hf.1.trans hr.1, hf.2.1.trans hr.2.1, hf.2.2.1.trans hr.2.2.1, hf.2.2.2.1.trans hr.2.2.2.1,
    hf.2.2.2.2.1.trans hr.2.2.2.2.1, hf.2.2.2.2.2.1.trans hr.2.2.2.2.2⟩

/-- the loop of `recomputeServiceForPod` over services that are all in `servicesMap` -/
def recomputeStep (acc : Ctl) (sv : Svc) : Ctl :=
  match alookup sv.host acc.smap with
  | none => acc
  | some conv => refreshIndex (rebuildService acc conv) conv

theorem recompute_eq (c : Ctl) (p : Pod) :
    recompute c p = (c.svcs.filter (fun sv => sv.ns = p.ns ∧ selMatch sv.sel p.labels)).foldl recomputeStep c := rfl

theorem recompute_fold_inv (l : List Svc) (c0 c : Ctl) (P Q : Slice → Prop)
    (hinv : InvExcept c Q) (hwf : WF c) (hQP : ∀ x, Q x → P x)
    (hst : c.slices = c0.slices ∧ c.svcs = c0.svcs ∧ c.pods = c0.pods ∧ c.nodes = c0.nodes ∧ c.byIP = c0.byIP ∧ c.smap = c0.smap)
    (hl : ∀ sv ∈ l, sv ∈ c0.svcs)
    (hP : ∀ sv ∈ l, ∀ x ∈ c0.slices, P x → x.ns = sv.ns → x.svc = sv.name → Servable x →
      ∃ e, e ∈ (buildSlice c0.pods c0.nodes c0.byIP (some sv) x).getD []) :
    InvExcept (l.foldl recomputeStep c) (fun x => Q x ∧ ¬ ∃ sv ∈ l, x.ns = sv.ns ∧ x.svc = sv.name) ∧
    (l.foldl recomputeStep c).slices = c0.slices := by
  induction l generalizing c Q with
  | nil => exact ⟨hinv.mono (fun x _ hq => ⟨hq, by simp⟩), hst.1⟩
  | cons sv t ih =>
    simp only [List.foldl_cons]
    have hsv0 : sv ∈ c0.svcs := hl sv (by simp)
    have hsv : sv ∈ c.svcs := by rw [hst.2.1]; exact hsv0
    have hlook : alookup sv.host c.smap = some sv := hinv.smapSome sv hsv (fun h => h)
    have hstep : recomputeStep c sv = refreshIndex (rebuildService c sv) sv := by
      unfold recomputeStep
      simp [hlook]
    rw [hstep]
    have h1 := recomputeService_inv c Q sv hinv hwf hsv (by
      intro x hx hq hns hsvc hs
      rw [hst.1] at hx
      rw [hst.2.2.1, hst.2.2.2.1, hst.2.2.2.2.1]
      exact hP sv (by simp) x hx (hQP x hq) hns hsvc hs)
    have hs1 := recomputeService_stores c sv
    have hwf1 : WF (refreshIndex (rebuildService c sv) sv) := hwf.of_stores hs1.1 hs1.2.1 hs1.2.2.1
    have := ih (refreshIndex (rebuildService c sv) sv) _ h1 hwf1 (fun x hq => hQP x hq.1)
      ⟨hs1.1.trans hst.1, hs1.2.1.trans hst.2.1, hs1.2.2.1.trans hst.2.2.1, hs1.2.2.2.1.trans hst.2.2.2.1,
        hs1.2.2.2.2.1.trans hst.2.2.2.2.1, hs1.2.2.2.2.2.trans hst.2.2.2.2.2⟩
      (fun s hs => hl s (List.mem_cons_of_mem _ hs))
      (fun s hs => hP s (List.mem_cons_of_mem _ hs))
    refine ⟨this.1.mono ?_, this.2⟩
    intro x _ hq
    refine ⟨hq.1.1, ?_⟩
    intro hex
    obtain ⟨s, hs, hsx⟩ := hex
    cases List.mem_cons.mp hs with
    | inl h => subst h; exact hq.1.2 hsx
    | inr h => exact hq.2 ⟨s, h, hsx⟩

/-! ### label edit on a cached pod -/

/-- the condition under which a label edit is repaired: the pod is ready and cached under its IP
    (so `addPod` takes the label-update branch), nothing waits in `needResync` under that IP, service
    account and node are unchanged, and every slice that refers to the pod has a port and belongs to
    a Service of the store whose selector matches the NEW labels (`getPodServices`); the pod had its IP
    before (implied by being cached, `PodCacheOK`). -/
def PodLabelGood (c : Ctl) (v : Pod) : Prop :=
  match findPod c.pods v.ns v.name with
  | none => False
  | some o =>
    labelsChanged (some o) v = true ∧ o.sa = v.sa ∧ o.node = v.node ∧ v.ip ≠ "" ∧
    (podShouldBeIn v && v.ready) = true ∧ setContains c.byIP v.ip v.key = true ∧ alookup v.ip c.resync = none ∧
    (∀ sl ∈ c.slices, (∃ ea ∈ sl.addrPairs, ea.1.target = some (v.ns, v.name)) →
      sl.ports ≠ [] ∧ ∃ sv ∈ c.svcs, sv.ns = v.ns ∧ selMatch sv.sel v.labels = true ∧ sl.ns = sv.ns ∧ sl.svc = sv.name) ∧
    o.ip ≠ "" ∧ workloadOf o = workloadOf v

theorem buildSlice_nonempty (pods : List Pod) (nodes : List Node) (byIP : List (String × List String))
    (svc : Option Svc) (x : Slice) (ea : Ep × String) (tns tn : String) (p : Pod)
    (hs : Servable x) (hea : ea ∈ x.addrPairs) (htg : ea.1.target = some (tns, tn))
    (hf : findPod pods tns tn = some p) (hports : x.ports ≠ []) :
    ∃ e, e ∈ (buildSlice pods nodes byIP svc x).getD [] := by
  unfold buildSlice
  have : ¬ (x.fqdn = true ∨ x.svc = "") := by
    intro h
    cases h with
    | inl h => rw [hs.1] at h; cases h
    | inr h => exact hs.2 h
  rw [if_neg this]
  simp only [Option.getD]
  cases hp : x.ports with
  | nil => exact absurd hp hports
  | cons pt t =>
    refine ⟨mkIEp nodes (some p) ea.2 pt (healthOf svc ea.1), ?_⟩
    rw [List.mem_flatMap]
    refine ⟨ea, hea, ?_⟩
    unfold buildAddr
    rw [htg]
    simp only [hf, hp]
    simp

/-- **Label edit.**  A label edit on a ready, cached pod: `recomputeServiceForPod` rebuilds the slices
    of every Service that selects the new labels, so the endpoints carry the new labels whatever was
    cached before. -/
theorem pod_label_edit_inv (c : Ctl) (v : Pod) (c' : Ctl) (hph : v.phase ≠ "F") (hstep : stepC c (.pod v) = some c')
    {P : Slice → Prop} (hinv : InvExcept c P)
    (hwf : WF { c with pods := upsertBy (fun x => x.ns = v.ns ∧ x.name = v.name) v c.pods })
    (hnc : NoCachedAddr c) (hgood : PodLabelGood c v)
    (hfree : ∀ x ∈ c.slices, P x → ∀ sv ∈ c.svcs, sv.ns = v.ns → selMatch sv.sel v.labels = true →
      ¬ (x.ns = sv.ns ∧ x.svc = sv.name)) : InvExcept c' P := by
  rw [stepC_pod c v hph] at hstep
  simp only [Option.some.injEq] at hstep
  subst hstep
  let c1 : Ctl := { c with pods := upsertBy (fun x => x.ns = v.ns ∧ x.name = v.name) v c.pods }
  have hfind : findPod c1.pods v.ns v.name = some v := by
    apply find_upsertBy
    simp
  have hother : ∀ tns tn, ¬ (tns = v.ns ∧ tn = v.name) → findPod c1.pods tns tn = findPod c.pods tns tn := by
    intro tns tn hne
    apply find_upsertBy_other
    · simp only [Bool.decide_and, Bool.and_eq_false_iff, decide_eq_false_iff_not]
      by_cases h1 : v.ns = tns
      · right; intro h2; exact hne ⟨h1.symm, h2.symm⟩
      · left; exact h1
    · intro x hx
      simp only [Bool.decide_and, Bool.and_eq_true, decide_eq_true_eq] at hx
      simp only [Bool.decide_and, Bool.and_eq_false_iff, decide_eq_false_iff_not]
      by_cases h1 : x.ns = tns
      · right; intro h2; exact hne ⟨(hx.1.symm.trans h1).symm, (hx.2.symm.trans h2).symm⟩
      · left; exact h1
  unfold PodLabelGood at hgood
  cases hfo : findPod c.pods v.ns v.name with
  | none => rw [hfo] at hgood; exact absurd hgood (fun h => h)
  | some o =>
    rw [hfo] at hgood
    obtain ⟨hch, hsa, hnode, hip, hok, hcached, hnowait, hsl, _, hwl⟩ := hgood
    -- the event is the label-update branch of addPod: recompute, no replay
    have hrun : runAll c1 [podEvOf c v] = recompute c1 v := by
      have hev : podEvOf c v = Ev.podUpd o v := by unfold podEvOf; rw [hfo]
      have htw : takeWaiting c1 v.ip = (c1, []) := by
        unfold takeWaiting
        show (match alookup v.ip c.resync with | none => (c1, []) | some keys => _) = _
        rw [hnowait]
      have hpe : podEvent c1 (some o) v .upd = (recompute c1 v, []) := by
        unfold podEvent
        simp only [hip, if_false, reduceCtorEq, htw, hok, Bool.not_true, Bool.false_eq_true, List.nil_append]
        unfold addPod
        have : setContains c1.byIP v.ip v.key = true := hcached
        rw [if_pos this, hch]
        simp
      rw [hev]
      have hid : idReplays c1 o v = [] := by
        unfold idReplays idChanged
        simp [hsa, hnode, hwl]
      simp [runAll, runEvents, handle, hfind, hpe, hid]
    show InvExcept (runAll c1 _) P
    rw [hrun, recompute_eq]
    -- before the recompute only the slices that refer to the pod are out of date
    let P0 : Slice → Prop := fun x => ∃ ea ∈ x.addrPairs, ea.1.target = some (v.ns, v.name)
    have h1 : InvExcept c1 (fun x => P x ∨ P0 x) := by
      refine ⟨?_, hinv.noForeign, ?_, hinv.smapSome, hinv.smapOnly, hinv.index, hinv.nodup⟩
      · intro x hx hs hnp
        have hfresh := hinv.fresh x hx hs (fun hp => hnp (Or.inl hp))
        unfold EntryOK at hfresh ⊢
        show cacheEntry c.cache x.host x.name = buildSlice c1.pods c.nodes c.byIP (alookup x.host c.smap) x
        rw [hfresh]
        apply buildSlice_congr
        · intro ea hea tns tn htg
          have hsame : ¬ (tns = v.ns ∧ tn = v.name) := by
            intro h
            exact hnp (Or.inr ⟨ea, hea, by rw [htg, h.1, h.2]⟩)
          rw [hother tns tn hsame]
        · intro ea hea htg
          rw [podByIP_empty _ _ _ _ (hnc x hx ea hea htg), podByIP_empty c1.pods _ _ _ (hnc x hx ea hea htg)]
      · intro x hx hnp a ha
        have ha' : a ∈ parkedAddrs c.pods x := by
          rw [parkedAddrs_congr c.pods c1.pods x]
          · exact ha
          · intro ea hea tns tn htg
            have hsame : ¬ (tns = v.ns ∧ tn = v.name) := by
              intro h
              exact hnp (Or.inr ⟨ea, hea, by rw [htg, h.1, h.2]⟩)
            rw [hother tns tn hsame]
        exact hinv.parked x hx (fun hp => hnp (Or.inl hp)) a ha'
    have h2 := recompute_fold_inv (c1.svcs.filter (fun sv => sv.ns = v.ns ∧ selMatch sv.sel v.labels)) c1 c1 (fun x => P x ∨ P0 x) (fun x => P x ∨ P0 x)
      h1 hwf (fun _ h => h) ⟨rfl, rfl, rfl, rfl, rfl, rfl⟩
      (fun sv hsv => (List.mem_filter.mp hsv).1)
      (by
        intro sv hsvl x hx hp hxns hxsvc hs
        cases hp with
        | inl hp =>
          have hm := List.mem_filter.mp hsvl
          simp only [Bool.decide_and, Bool.and_eq_true, decide_eq_true_eq] at hm
          exact absurd ⟨hxns, hxsvc⟩ (hfree x hx hp sv hm.1 hm.2.1 hm.2.2)
        | inr hp =>
        obtain ⟨ea, hea, htg⟩ := hp
        exact buildSlice_nonempty c1.pods c1.nodes c1.byIP (some sv) x ea v.ns v.name v hs hea htg hfind
          (hsl x hx ⟨ea, hea, htg⟩).1)
    apply h2.1.mono
    intro x hx hq
    rw [h2.2] at hx
    cases hq.1 with
    | inl hp => exact hp
    | inr hp0 =>
    exfalso
    obtain ⟨sv, hsv, hns, hsel, hxns, hxsvc⟩ := (hsl x hx hp0).2
    apply hq.2
    refine ⟨sv, ?_, hxns, hxsvc⟩
    rw [List.mem_filter]
    exact ⟨hsv, by simp [hns, hsel]⟩

end IstioModel.C15
