import IstioModel.C15.Theorems

/-!
# C15 - `derive`: the cold start as a pure function of the objects, and `Inv` implies it

`derive c h` reads only the stores of `c` (Services, EndpointSlices, Pods, Nodes).
-/
namespace IstioModel.C15

/-- the pod cache of a cold start: the ready pods that should be in endpoints, by IP -/
def deriveByIP (pods : List Pod) : List (String × List String) :=
  pods.foldl (fun m p => if podShouldBeIn p && p.ready then setInsert m p.ip p.key else m) []

/-- all endpoints the slices of a hostname build to -/
def deriveAll (c : Ctl) (h : String) (sv : Svc) : List IEp :=
  (c.slices.filter (fun sl => sl.host = h)).flatMap
    (fun sl => (buildSlice c.pods c.nodes (deriveByIP c.pods) (some sv) sl).getD [])

/-- **The spec (cold start).**  What the control plane derives for a hostname from the current
    objects alone: the Service, the endpoints of all its slices (first occurrence of an
    (address, port name) wins) and their service accounts. -/
def derive (c : Ctl) (h : String) : Option HostView :=
  (c.svcs.find? (fun sv => sv.host = h)).map fun sv =>
    let eps := dedupEps [] (deriveAll c h sv)
    { svc := sv, eps := eps, sas := sasOf eps }

/-- the key `endpointSliceCache.get` dedupes on -/
def epKey (e : IEp) : String := e.addr ++ "|" ++ e.portName

/-- no pod of the store has the address of an endpoint without targetRef -/
def NoPodAtUntargeted (c : Ctl) : Prop :=
  ∀ sl ∈ c.slices, ∀ ea ∈ sl.addrPairs, ea.1.target = none → ∀ p ∈ c.pods, p.ip ≠ ea.2

/-- endpoints of the hostname with the same (address, port name) are equal (no conflicting
    duplicates across or inside slices: `get` then does not depend on map iteration order) -/
def DistinctEps (c : Ctl) (h : String) (sv : Svc) : Prop :=
  ∀ e1 ∈ deriveAll c h sv, ∀ e2 ∈ deriveAll c h sv, epKey e1 = epKey e2 → e1 = e2

theorem mem_dedupEps (l : List IEp) (seen : List String) (e : IEp)
    (hd : ∀ e1 ∈ l, ∀ e2 ∈ l, epKey e1 = epKey e2 → e1 = e2) :
    e ∈ dedupEps seen l ↔ e ∈ l ∧ epKey e ∉ seen := by
  induction l generalizing seen with
  | nil => simp [dedupEps]
  | cons x r ih =>
    have hdr : ∀ e1 ∈ r, ∀ e2 ∈ r, epKey e1 = epKey e2 → e1 = e2 :=
      fun e1 h1 e2 h2 => hd e1 (List.mem_cons_of_mem _ h1) e2 (List.mem_cons_of_mem _ h2)
    unfold dedupEps
    simp only []
    by_cases hs : seen.contains (x.addr ++ "|" ++ x.portName) = true
    · rw [if_pos hs, ih seen hdr]
      have hxs : epKey x ∈ seen := by simpa [epKey] using hs
      constructor
      · intro h; exact ⟨List.mem_cons_of_mem _ h.1, h.2⟩
      · intro h
        refine ⟨?_, h.2⟩
        cases List.mem_cons.mp h.1 with
        | inl he => rw [he] at h; exact absurd hxs h.2
        | inr hr => exact hr
    · rw [if_neg hs]
      have hxs : epKey x ∉ seen := by simpa [epKey] using hs
      rw [List.mem_cons, ih _ hdr]
      constructor
      · intro h
        cases h with
        | inl he => subst he; exact ⟨by simp, hxs⟩
        | inr hr =>
          refine ⟨List.mem_cons_of_mem _ hr.1, ?_⟩
          intro hm
          exact hr.2 (List.mem_cons_of_mem _ hm)
      · intro h
        cases List.mem_cons.mp h.1 with
        | inl he => exact Or.inl he
        | inr hr =>
          by_cases hk : epKey e = epKey x
          · left; exact hd e h.1 x (by simp) hk
          · right
            refine ⟨hr, ?_⟩
            intro hm
            cases List.mem_cons.mp hm with
            | inl h1 => exact hk h1
            | inr h1 => exact h.2 h1

theorem alookup_setInsert_other (m : List (String × List String)) (k x a : String) (h : a ≠ k) :
    alookup a (setInsert m k x) = alookup a m := by
  unfold setInsert
  cases alookup k m with
  | none => simp only []; rw [alookup_aset_other _ _ _ _ h]
  | some l =>
    simp only []
    split
    · rfl
    · rw [alookup_aset_other _ _ _ _ h]

theorem deriveByIP_none (pods : List Pod) (a : String) (h : ∀ p ∈ pods, p.ip ≠ a) :
    alookup a (deriveByIP pods) = none := by
  unfold deriveByIP
  have : ∀ (m : List (String × List String)), alookup a m = none →
      alookup a (pods.foldl (fun m p => if podShouldBeIn p && p.ready then setInsert m p.ip p.key else m) m) = none := by
    induction pods with
    | nil => intro m hm; exact hm
    | cons p r ih =>
      intro m hm
      simp only [List.foldl_cons]
      apply ih (fun q hq => h q (List.mem_cons_of_mem _ hq))
      split
      · rw [alookup_setInsert_other _ _ _ _ (Ne.symm (h p (by simp)))]
        exact hm
      · exact hm
  exact this [] rfl

theorem mem_sasOf (l : List IEp) (a : String) : a ∈ sasOf l ↔ a ≠ "" ∧ ∃ e ∈ l, e.sa = a := by
  unfold sasOf
  rw [List.mem_eraseDups, List.mem_filter, List.mem_map]
  constructor
  · intro h
    obtain ⟨⟨e, he, hea⟩, hne⟩ := h
    exact ⟨by simpa using hne, e, he, hea⟩
  · intro h
    obtain ⟨hne, e, he, hea⟩ := h
    exact ⟨⟨e, he, hea⟩, by simpa using hne⟩

/-- agreement of two views of a hostname: same service, same endpoint set, and - when there are
    endpoints - the same service-account set -/
def ViewAgree (v d : Option HostView) : Prop :=
  match v, d with
  | some v, some d => v.svc = d.svc ∧ (∀ e, e ∈ v.eps ↔ e ∈ d.eps) ∧ (v.eps ≠ [] → ∀ a, a ∈ v.sas ↔ a ∈ d.sas)
  | none, none => True
  | _, _ => False

/-- **Inv implies the spec.**  A controller whose caches satisfy the invariant shows, for every
    hostname, exactly what `derive` computes from its current objects: the same Service, the same
    set of endpoints (addresses, ports, health, labels, locality, identity) and, for a service with
    endpoints, the same set of service accounts. -/
theorem view_eq_derive (c : Ctl) (h : String) (hinv : Inv c) (hwf : WF c)
    (hnc : NoCachedAddr c) (hnp : NoPodAtUntargeted c)
    (hdist : ∀ sv, DistinctEps c h sv) :
    ViewAgree (hostView c h) (derive c h) := by
  unfold ViewAgree hostView derive
  -- the service
  cases hsm : alookup h c.smap with
  | none =>
    cases hf : c.svcs.find? (fun sv => sv.host = h) with
    | none => simp
    | some sv' =>
      exfalso
      have hm : sv' ∈ c.svcs := List.mem_of_find?_eq_some hf
      have hh : sv'.host = h := by simpa using List.find?_some hf
      have := hinv.smapSome sv' hm
      rw [hh, hsm] at this
      cases this
  | some sv =>
    obtain ⟨hsv, hsvh⟩ := hinv.smapOnly h sv hsm
    have hf : c.svcs.find? (fun sv => sv.host = h) = some sv := by
      cases hf : c.svcs.find? (fun sv => sv.host = h) with
      | none =>
        have := List.find?_eq_none.mp hf sv hsv
        simp [hsvh] at this
      | some sv' =>
        have hm : sv' ∈ c.svcs := List.mem_of_find?_eq_some hf
        have hh : sv'.host = h := by simpa using List.find?_some hf
        rw [hwf.svcHostInj sv' hm sv hsv (hh.trans hsvh.symm)]
    rw [hf]
    simp only [Option.map]
    -- membership before deduplication
    have hM : ∀ e, e ∈ ((alookup h c.cache).getD []).flatMap (·.2) ↔ e ∈ deriveAll c h sv := by
      intro e
      have hbuild : ∀ sl ∈ c.slices, sl.host = h →
          buildSlice c.pods c.nodes c.byIP (alookup sl.host c.smap) sl =
            buildSlice c.pods c.nodes (deriveByIP c.pods) (some sv) sl := by
        intro sl hsl hh
        rw [hh, hsm]
        apply buildSlice_congr
        · intro _ _ _ _ _; rfl
        · intro ea hea htg
          rw [podByIP_none _ _ _ _ (hnc sl hsl ea hea htg),
            podByIP_none _ _ _ _ (deriveByIP_none _ _ (hnp sl hsl ea hea htg))]
      unfold deriveAll
      rw [List.mem_flatMap, List.mem_flatMap]
      constructor
      · intro hx
        obtain ⟨ne, hne, hee⟩ := hx
        obtain ⟨n, eps⟩ := ne
        cases hc : alookup h c.cache with
        | none => rw [hc] at hne; cases hne
        | some per =>
          rw [hc] at hne
          simp only [Option.getD] at hne
          have hl := alookup_of_mem_nodupKeys per n eps (hinv.nodup h per hc) hne
          have hent : cacheEntry c.cache h n = some eps := by simp [cacheEntry, hc, hl]
          obtain ⟨sl, hsl, hs, hsh, hsn⟩ := hinv.noForeign h n eps hent
          refine ⟨sl, by simp [List.mem_filter, hsl, hsh], ?_⟩
          have hfr := hinv.fresh sl hsl hs (fun hf => hf)
          unfold EntryOK at hfr
          rw [hsh, hsn, hent, ← hsh, hbuild sl hsl hsh] at hfr
          rw [← hfr]
          exact hee
      · intro hx
        obtain ⟨sl, hslf, hee⟩ := hx
        have hsl : sl ∈ c.slices := (List.mem_filter.mp hslf).1
        have hsh : sl.host = h := by simpa using (List.mem_filter.mp hslf).2
        cases hb : buildSlice c.pods c.nodes (deriveByIP c.pods) (some sv) sl with
        | none => rw [hb] at hee; cases hee
        | some eps =>
          rw [hb] at hee
          simp only [Option.getD] at hee
          have hs : Servable sl := by
            apply Classical.byContradiction
            intro hns
            rw [(buildSlice_none_iff _ _ _ _ _).mpr hns] at hb
            cases hb
          have hfr := hinv.fresh sl hsl hs (fun hf => hf)
          unfold EntryOK at hfr
          rw [hbuild sl hsl hsh, hb, hsh] at hfr
          unfold cacheEntry at hfr
          cases hc : alookup h c.cache with
          | none => rw [hc] at hfr; cases hfr
          | some per =>
            rw [hc] at hfr
            simp only [Option.bind] at hfr
            exact ⟨(sl.name, eps), by simpa [Option.getD] using mem_of_alookup per sl.name eps hfr, hee⟩
    have hdL : ∀ e1 ∈ ((alookup h c.cache).getD []).flatMap (·.2), ∀ e2 ∈ ((alookup h c.cache).getD []).flatMap (·.2),
        epKey e1 = epKey e2 → e1 = e2 :=
      fun e1 h1 e2 h2 hk => hdist sv e1 ((hM e1).mp h1) e2 ((hM e2).mp h2) hk
    have hget : ∀ e, e ∈ cacheGet c.cache h ↔ e ∈ dedupEps [] (deriveAll c h sv) := by
      intro e
      unfold cacheGet
      rw [mem_dedupEps _ [] e hdL, mem_dedupEps _ [] e (hdist sv), hM e]
    -- the index holds `get`
    have hidx := hinv.index h
    unfold IdxOK at hidx
    cases hix : alookup h c.index with
    | none =>
      rw [hix] at hidx
      simp only []
      have hg : cacheGet c.cache h = [] := by
        cases hidx with
        | inl h1 => rw [hsm] at h1; cases h1
        | inr h1 => exact h1
      refine ⟨trivial, ?_, fun hne => absurd rfl hne⟩
      intro e
      rw [← hget e, hg]
    | some ie =>
      rw [hix] at hidx
      simp only []
      refine ⟨trivial, ?_, ?_⟩
      · intro e
        rw [hidx.1]
        exact hget e
      · intro hne a
        rw [hidx.1] at hne
        rw [hidx.2 hne, mem_sasOf, mem_sasOf]
        constructor
        · intro hx
          obtain ⟨h1, e, he, hea⟩ := hx
          exact ⟨h1, e, (hget e).mp he, hea⟩
        · intro hx
          obtain ⟨h1, e, he, hea⟩ := hx
          exact ⟨h1, e, (hget e).mpr he, hea⟩

/-- **convergence_to_derive.**  Every good history, in every interleaving, ends in the state a cold
    start derives from the final objects: for every hostname the controller shows the Service, the
    endpoint set and (for a service with endpoints) the service-account set of `derive` applied to the
    final stores.  The side conditions on the final objects are decidable: faithful names (`WF`), no
    endpoint without targetRef at a pod's address, no conflicting duplicate endpoints. -/
theorem convergence_to_derive (ops : List Op) (h : String) (hgood : AllGood {} ops)
    (hwf : WF (run {} ops).c) (hnc : NoCachedAddr (run {} ops).c) (hnp : NoPodAtUntargeted (run {} ops).c)
    (hdist : ∀ sv, DistinctEps (run {} ops).c h sv) :
    ViewAgree (hostView (run {} ops).c h) (derive (run {} ops).c h) :=
  view_eq_derive _ h (convergence_any_order ops hgood) hwf hnc hnp hdist

end IstioModel.C15
