import IstioModel.C15.Theorems

/-!
# C15 - `derive`: the cold start as a pure function of the objects, and `Inv` implies it

`derive c h` reads only the stores of `c` (Services, EndpointSlices, Pods, Nodes).
-/
namespace IstioModel.C15

/-! ### sorting by key is canonical -/

theorem pairwise_insertKey {α : Type} (kv : String × α) (l : List (String × α))
    (h : l.Pairwise (fun a b => a.1 ≤ b.1)) : (insertKey kv l).Pairwise (fun a b => a.1 ≤ b.1) := by
  induction l with
  | nil => simp [insertKey]
  | cons x r ih =>
    rw [List.pairwise_cons] at h
    unfold insertKey
    split
    · rename_i hle
      rw [List.pairwise_cons]
      refine ⟨?_, List.pairwise_cons.mpr h⟩
      intro y hy
      cases List.mem_cons.mp hy with
      | inl hyx => rw [hyx]; exact hle
      | inr hyr => exact String.le_trans hle (h.1 y hyr)
    · rename_i hle
      rw [List.pairwise_cons]
      refine ⟨?_, ih h.2⟩
      intro y hy
      cases (mem_insertKey kv y r).mp hy with
      | inl hyk =>
        rw [hyk]
        cases String.le_total kv.1 x.1 with
        | inl h1 => exact absurd h1 hle
        | inr h1 => exact h1
      | inr hyr => exact h.1 y hyr

theorem pairwise_sortKeys {α : Type} (l : List (String × α)) : (sortKeys l).Pairwise (fun a b => a.1 ≤ b.1) := by
  unfold sortKeys
  induction l with
  | nil => simp
  | cons x r ih => exact pairwise_insertKey x _ ih

theorem perm_insertKey {α : Type} (kv : String × α) (l : List (String × α)) : (insertKey kv l).Perm (kv :: l) := by
  induction l with
  | nil => simp [insertKey]
  | cons x r ih =>
    unfold insertKey
    split
    · exact List.Perm.refl _
    · exact (List.Perm.cons x ih).trans (List.Perm.swap kv x r)

theorem perm_sortKeys {α : Type} (l : List (String × α)) : (sortKeys l).Perm l := by
  unfold sortKeys
  induction l with
  | nil => simp
  | cons x r ih => exact (perm_insertKey x _).trans (List.Perm.cons x ih)

theorem eq_of_key_nodupKeys {α : Type} (l : List (String × α)) (h : NodupKeys l) (a b : String × α)
    (ha : a ∈ l) (hb : b ∈ l) (hk : a.1 = b.1) : a = b := by
  have h1 := alookup_of_mem_nodupKeys l a.1 a.2 h ha
  have h2 := alookup_of_mem_nodupKeys l b.1 b.2 h hb
  rw [hk, h2] at h1
  have := Option.some.inj h1
  exact Prod.ext hk this.symm

theorem nodup_of_nodupKeys {α : Type} (l : List (String × α)) (h : NodupKeys l) : l.Nodup := by
  induction l with
  | nil => simp
  | cons x r ih =>
    rw [List.nodup_cons]
    refine ⟨?_, ih h.2⟩
    intro hx
    obtain ⟨v, hv⟩ := alookup_some_of_mem r x.1 x.2 hx
    rw [h.1] at hv
    cases hv

/-- two association lists without duplicate keys and with the same entries are equal once sorted -/
theorem sortKeys_congr {α : Type} (l1 l2 : List (String × α)) (h1 : NodupKeys l1) (h2 : NodupKeys l2)
    (hm : ∀ x, x ∈ l1 ↔ x ∈ l2) : sortKeys l1 = sortKeys l2 := by
  apply List.Perm.eq_of_pairwise (le := fun a b => a.1 ≤ b.1) _ (pairwise_sortKeys l1) (pairwise_sortKeys l2)
  · have hp : l1.Perm l2 := (List.perm_ext_iff_of_nodup (nodup_of_nodupKeys l1 h1) (nodup_of_nodupKeys l2 h2)).mpr hm
    exact ((perm_sortKeys l1).trans hp).trans (perm_sortKeys l2).symm
  · intro a b ha hb hab hba
    have ha1 : a ∈ l1 := (mem_sortKeys a l1).mp ha
    have hb1 : b ∈ l1 := (hm b).mpr ((mem_sortKeys b l2).mp hb)
    exact eq_of_key_nodupKeys l1 h1 a b ha1 hb1 (String.le_antisymm hab hba)

/-! ### the spec -/

/-- the pod cache of a cold start: the ready pods that should be in endpoints, by IP -/
def deriveByIP (pods : List Pod) : List (String × List String) :=
  pods.foldl (fun m p => if podShouldBeIn p && p.ready then setInsert m p.ip p.key else m) []

/-- per slice of the hostname (by slice name) the endpoints it builds to -/
def deriveEntries (c : Ctl) (h : String) (sv : Svc) : List (String × List IEp) :=
  (c.slices.filter (fun sl => sl.host = h ∧ Servable sl)).map
    (fun sl => (sl.name, (buildSlice c.pods c.nodes (deriveByIP c.pods) (some sv) sl).getD []))

/-- all endpoints the slices of a hostname build to, slices in NAME order -/
def deriveAll (c : Ctl) (h : String) (sv : Svc) : List IEp :=
  (sortKeys (deriveEntries c h sv)).flatMap (·.2)

/-- **The spec (cold start).**  What the control plane derives for a hostname from the current
    objects alone: the Service, the endpoints of all its slices (slices in name order, first
    occurrence of an (address, port name) wins - conflicting duplicates across slices included) and
    their service accounts. -/
def derive (c : Ctl) (h : String) : Option HostView :=
  (c.svcs.find? (fun sv => sv.host = h)).map fun sv =>
    let eps := dedupEps [] (deriveAll c h sv)
    { svc := sv, eps := eps, sas := sasOf eps }

/-- the key `endpointSliceCache.get` dedupes on -/
def epKey (e : IEp) : String := e.addr ++ "|" ++ e.portName

theorem nodupKeys_entries (l : List Slice) (f : Slice → List IEp) (hnd : l.Nodup)
    (hinj : ∀ a ∈ l, ∀ b ∈ l, a.name = b.name → a = b) : NodupKeys (l.map (fun sl => (sl.name, f sl))) := by
  induction l with
  | nil => trivial
  | cons a r ih =>
    rw [List.nodup_cons] at hnd
    simp only [List.map_cons]
    refine ⟨?_, ih hnd.2 (fun x hx y hy => hinj x (List.mem_cons_of_mem _ hx) y (List.mem_cons_of_mem _ hy))⟩
    cases hl : alookup a.name (r.map (fun sl => (sl.name, f sl))) with
    | none => rfl
    | some v =>
      exfalso
      have := mem_of_alookup _ _ _ hl
      obtain ⟨b, hb, hbe⟩ := List.mem_map.mp this
      simp only [Prod.mk.injEq] at hbe
      have : b = a := hinj b (List.mem_cons_of_mem _ hb) a (by simp) hbe.1
      rw [this] at hb
      exact hnd.1 hb

theorem nodupKeys_deriveEntries (c : Ctl) (h : String) (sv : Svc) (hwf : WF c) (hnd : c.slices.Nodup) :
    NodupKeys (deriveEntries c h sv) := by
  unfold deriveEntries
  apply nodupKeys_entries
  · exact hnd.sublist List.filter_sublist
  · intro a ha b hb hab
    have ha' := List.mem_filter.mp ha
    have hb' := List.mem_filter.mp hb
    simp only [Bool.decide_and, Bool.and_eq_true, decide_eq_true_eq] at ha' hb'
    exact hwf.sliceEntryInj a ha'.1 b hb'.1 (ha'.2.1.trans hb'.2.1.symm) hab

theorem alookup_setInsert_other (m : List (String × List String)) (k x a : String) (h : a ≠ k) :
    alookup a (setInsert m k x) = alookup a m := by
  unfold setInsert
  cases alookup k m with
  | none => simp only []; rw [alookup_aset_other _ _ _ _ h]
  | some l =>
    simp only []
    split
    · rfl
    · rw [alookup_aset_other _ _ _ _ h]

theorem deriveByIP_none (pods : List Pod) (a : String) (h : ∀ p ∈ pods, p.ip ≠ a) :
    alookup a (deriveByIP pods) = none := by
  unfold deriveByIP
  have : ∀ (m : List (String × List String)), alookup a m = none →
      alookup a (pods.foldl (fun m p => if podShouldBeIn p && p.ready then setInsert m p.ip p.key else m) m) = none := by
    induction pods with
    | nil => intro m hm; exact hm
    | cons p r ih =>
      intro m hm
      simp only [List.foldl_cons]
      apply ih (fun q hq => h q (List.mem_cons_of_mem _ hq))
      split
      · rw [alookup_setInsert_other _ _ _ _ (Ne.symm (h p (by simp)))]
        exact hm
      · exact hm
  exact this [] rfl

theorem mem_sasOf (l : List IEp) (a : String) : a ∈ sasOf l ↔ a ≠ "" ∧ ∃ e ∈ l, e.sa = a := by
  unfold sasOf
  rw [List.mem_eraseDups, List.mem_filter, List.mem_map]
  constructor
  · intro h
    obtain ⟨⟨e, he, hea⟩, hne⟩ := h
    exact ⟨by simpa using hne, e, he, hea⟩
  · intro h
    obtain ⟨hne, e, he, hea⟩ := h
    exact ⟨⟨e, he, hea⟩, by simpa using hne⟩

/-- agreement of two views of a hostname: same service, same endpoint list, and - when there are
    endpoints - the same service accounts (an emptied hostname keeps its last accounts in the index) -/
def ViewAgree (v d : Option HostView) : Prop :=
  match v, d with
  | some v, some d => v.svc = d.svc ∧ v.eps = d.eps ∧ (v.eps ≠ [] → v.sas = d.sas)
  | none, none => True
  | _, _ => False

/-- **Inv implies the spec.**  A controller whose caches satisfy the invariant shows, for every
    hostname, exactly what `derive` computes from its current objects: the same Service, the same
    list of endpoints (addresses, ports, health, labels, locality, identity; conflicting duplicates
    resolved the same way) and, for a service with endpoints, the same service accounts. -/
theorem view_eq_derive (c : Ctl) (h : String) (hinv : Inv c) (hwf : WF c)
    (hpc : PodCacheOK c) (hnp : NoPodAtUntargeted c) (hnd : c.slices.Nodup) :
    ViewAgree (hostView c h) (derive c h) := by
  have hnc := noCachedAddr_of_objects c hpc hnp
  unfold ViewAgree hostView derive
  -- the service
  cases hsm : alookup h c.smap with
  | none =>
    cases hf : c.svcs.find? (fun sv => sv.host = h) with
    | none => simp
    | some sv' =>
      exfalso
      have hm : sv' ∈ c.svcs := List.mem_of_find?_eq_some hf
      have hh : sv'.host = h := by simpa using List.find?_some hf
      have := hinv.smapSome sv' hm (fun hf => hf)
      rw [hh, hsm] at this
      cases this
  | some sv =>
    obtain ⟨hsv, hsvh⟩ := hinv.smapOnly h sv hsm
    have hf : c.svcs.find? (fun sv => sv.host = h) = some sv := by
      cases hf : c.svcs.find? (fun sv => sv.host = h) with
      | none =>
        have := List.find?_eq_none.mp hf sv hsv
        simp [hsvh] at this
      | some sv' =>
        have hm : sv' ∈ c.svcs := List.mem_of_find?_eq_some hf
        have hh : sv'.host = h := by simpa using List.find?_some hf
        rw [hwf.svcHostInj sv' hm sv hsv (hh.trans hsvh.symm)]
    rw [hf]
    simp only [Option.map]
    have hbuild : ∀ sl ∈ c.slices, sl.host = h →
        buildSlice c.pods c.nodes c.byIP (alookup sl.host c.smap) sl =
          buildSlice c.pods c.nodes (deriveByIP c.pods) (some sv) sl := by
      intro sl hsl hh
      rw [hh, hsm]
      apply buildSlice_congr
      · intro _ _ _ _ _; rfl
      · intro ea hea htg
        rw [podByIP_empty _ _ _ _ (hnc sl hsl ea hea htg),
          podByIP_none _ _ _ _ (deriveByIP_none _ _ (hnp sl hsl ea hea htg))]
    -- the cache of the hostname holds exactly the derived entries
    have hnk : NodupKeys ((alookup h c.cache).getD []) := by
      cases hc : alookup h c.cache with
      | none => trivial
      | some per => exact hinv.nodup h per hc
    have hM : ∀ x, x ∈ (alookup h c.cache).getD [] ↔ x ∈ deriveEntries c h sv := by
      intro x
      obtain ⟨n, eps⟩ := x
      unfold deriveEntries
      rw [List.mem_map]
      constructor
      · intro hne
        have hl := alookup_of_mem_nodupKeys _ n eps hnk hne
        have hent : cacheEntry c.cache h n = some eps := by
          unfold cacheEntry
          cases hc : alookup h c.cache with
          | none => rw [hc] at hne; cases hne
          | some per => rw [hc] at hl; simpa [Option.bind] using hl
        obtain ⟨sl, hsl, hs, hsh, hsn⟩ := hinv.noForeign h n eps hent
        refine ⟨sl, List.mem_filter.mpr ⟨hsl, by simp [hsh, hs]⟩, ?_⟩
        have hfr := hinv.fresh sl hsl hs (fun hf => hf)
        unfold EntryOK at hfr
        rw [hsh, hsn, hent, ← hsh, hbuild sl hsl hsh] at hfr
        rw [← hfr, hsn]
        rfl
      · intro hx
        obtain ⟨sl, hslf, hee⟩ := hx
        have hm := List.mem_filter.mp hslf
        simp only [Bool.decide_and, Bool.and_eq_true, decide_eq_true_eq] at hm
        obtain ⟨hsl, hsh, hs⟩ := hm
        simp only [Prod.mk.injEq] at hee
        have hfr := hinv.fresh sl hsl hs (fun hf => hf)
        unfold EntryOK at hfr
        rw [hbuild sl hsl hsh] at hfr
        cases hb : buildSlice c.pods c.nodes (deriveByIP c.pods) (some sv) sl with
        | none =>
          exact absurd hs ((buildSlice_none_iff _ _ _ _ _).mp hb)
        | some eps' =>
          rw [hb] at hfr hee
          simp only [Option.getD] at hee
          rw [hsh, hee.1, hee.2] at hfr
          unfold cacheEntry at hfr
          cases hc : alookup h c.cache with
          | none => rw [hc] at hfr; cases hfr
          | some per =>
            rw [hc] at hfr
            simp only [Option.bind] at hfr
            simpa [Option.getD] using mem_of_alookup per n eps hfr
    have hget : cacheGet c.cache h = dedupEps [] (deriveAll c h sv) := by
      unfold cacheGet deriveAll
      rw [sortKeys_congr _ _ hnk (nodupKeys_deriveEntries c h sv hwf hnd) hM]
    -- the index holds `get`
    have hidx := hinv.index h
    unfold IdxOK at hidx
    cases hix : alookup h c.index with
    | none =>
      rw [hix] at hidx
      simp only []
      have hg : cacheGet c.cache h = [] := by
        cases hidx with
        | inl h1 => rw [hsm] at h1; cases h1
        | inr h1 => exact h1
      refine ⟨trivial, ?_, fun hne => absurd rfl hne⟩
      rw [← hget, hg]
    | some ie =>
      rw [hix] at hidx
      simp only []
      refine ⟨trivial, ?_, ?_⟩
      · rw [hidx.1]
        exact hget
      · intro hne
        rw [hidx.1] at hne
        rw [hidx.2 hne, hget]

/-- **convergence_to_derive.**  Every good history, in every interleaving, after which no slice is
    stale or waiting (every pod delete was followed by the slice controller's rewrite of the slices that
    referred to the pod, every pod a slice refers to has got its IP), ends in the state a cold start derives from the final objects: for every hostname the
    controller shows the Service, the endpoint list and (for a service with endpoints) the service
    accounts of `derive` applied to the final stores.  The side conditions on the final objects are
    decidable: faithful names (`WF`), no endpoint without targetRef at a pod's address, no object
    twice in the slice store. -/
theorem convergence_to_derive (ops : List Op) (h : String) (hgood : AllGood {} [] [] ops)
    (hst : staleRun {} [] [] ops = []) (hwt : waitRun {} [] [] ops = [])
    (hwf : WF (run {} ops).c) (hnp : NoPodAtUntargeted (run {} ops).c) (hnd : (run {} ops).c.slices.Nodup) :
    ViewAgree (hostView (run {} ops).c h) (derive (run {} ops).c h) :=
  view_eq_derive _ h (convergence_any_order_inv ops hgood hst hwt) hwf (convergence_any_order ops hgood).2 hnp hnd

/-! ### two interleavings of the same history -/

/-- two controllers hold the same objects (as sets: the list order of a store is the order of first
    arrival, which differs between interleavings) -/
structure SameObjects (c d : Ctl) : Prop where
  svcs : ∀ x, x ∈ c.svcs ↔ x ∈ d.svcs
  slices : ∀ x, x ∈ c.slices ↔ x ∈ d.slices
  pods : ∀ x, x ∈ c.pods ↔ x ∈ d.pods
  nodes : ∀ x, x ∈ c.nodes ↔ x ∈ d.nodes

theorem find?_eq_of_same_members {α : Type} (l1 l2 : List α) (p : α → Bool)
    (hm : ∀ x, x ∈ l1 ↔ x ∈ l2) (hu : ∀ a ∈ l2, ∀ b ∈ l2, p a = true → p b = true → a = b) :
    l1.find? p = l2.find? p := by
  cases h1 : l1.find? p with
  | none =>
    cases h2 : l2.find? p with
    | none => rfl
    | some b =>
      have hb : b ∈ l2 := List.mem_of_find?_eq_some h2
      have hpb : p b = true := List.find?_some h2
      have := List.find?_eq_none.mp h1 b ((hm b).mpr hb)
      simp [hpb] at this
  | some a =>
    have ha : a ∈ l1 := List.mem_of_find?_eq_some h1
    have hpa : p a = true := List.find?_some h1
    cases h2 : l2.find? p with
    | none =>
      have := List.find?_eq_none.mp h2 a ((hm a).mp ha)
      simp [hpa] at this
    | some b =>
      have hb : b ∈ l2 := List.mem_of_find?_eq_some h2
      have hpb : p b = true := List.find?_some h2
      rw [hu a ((hm a).mp ha) b hb hpa hpb]

/-- node names are unique -/
def NodesUnique (c : Ctl) : Prop := ∀ a ∈ c.nodes, ∀ b ∈ c.nodes, a.name = b.name → a = b

theorem ViewAgree.trans_symm {a b c : Option HostView} (h1 : ViewAgree a b) (h2 : ViewAgree c b) : ViewAgree a c := by
  unfold ViewAgree at *
  cases a with
  | none =>
    cases b with
    | none => cases c with
      | none => trivial
      | some _ => exact h2
    | some _ => exact absurd h1 (fun h => h)
  | some va =>
    cases b with
    | none => exact absurd h1 (fun h => h)
    | some vb =>
      cases c with
      | none => exact absurd h2 (fun h => h)
      | some vc =>
        simp only [] at h1 h2 ⊢
        refine ⟨h1.1.trans h2.1.symm, h1.2.1.trans h2.2.1.symm, ?_⟩
        intro hne
        have hne2 : vc.eps ≠ [] := by rw [h2.2.1, ← h1.2.1]; exact hne
        exact (h1.2.2 hne).trans (h2.2.2 hne2).symm

/-- `derive` depends on the stores only as sets (given faithful names) -/
theorem derive_congr (c d : Ctl) (h : String) (hso : SameObjects c d) (hwfc : WF c) (hwfd : WF d)
    (hnu : NodesUnique d) (hnpc : NoPodAtUntargeted c) (hnpd : NoPodAtUntargeted d)
    (hndc : c.slices.Nodup) (hndd : d.slices.Nodup) :
    derive c h = derive d h := by
  unfold derive
  have hfs : c.svcs.find? (fun sv => sv.host = h) = d.svcs.find? (fun sv => sv.host = h) := by
    apply find?_eq_of_same_members _ _ _ hso.svcs
    intro a ha b hb hpa hpb
    simp only [decide_eq_true_eq] at hpa hpb
    exact hwfd.svcHostInj a ha b hb (hpa.trans hpb.symm)
  rw [hfs]
  cases hfd : d.svcs.find? (fun sv => sv.host = h) with
  | none => rfl
  | some sv =>
    simp only [Option.map]
    have hb : ∀ sl ∈ c.slices, buildSlice c.pods c.nodes (deriveByIP c.pods) (some sv) sl =
        buildSlice d.pods d.nodes (deriveByIP d.pods) (some sv) sl := by
      intro sl hsl
      apply buildSlice_congr
      · intro ea hea tns tn htg
        have hfp : findPod c.pods tns tn = findPod d.pods tns tn := by
          apply find?_eq_of_same_members _ _ _ hso.pods
          intro a ha b hb hpa hpb
          simp only [Bool.decide_and, Bool.and_eq_true, decide_eq_true_eq] at hpa hpb
          exact hwfd.podNameInj a ha b hb (hpa.1.trans hpb.1.symm) (hpa.2.trans hpb.2.symm)
        rw [hfp]
        cases findPod d.pods tns tn with
        | none => rfl
        | some p =>
          simp only [podView, Option.map, Option.some.injEq, Prod.mk.injEq, true_and]
          unfold localityOf
          have : c.nodes.find? (fun n => n.name = p.node) = d.nodes.find? (fun n => n.name = p.node) := by
            apply find?_eq_of_same_members _ _ _ hso.nodes
            intro a ha b hb hpa hpb
            simp only [decide_eq_true_eq] at hpa hpb
            exact hnu a ha b hb (hpa.trans hpb.symm)
          rw [this]
      · intro ea hea htg
        rw [podByIP_none _ _ _ _ (deriveByIP_none _ _ (hnpc sl hsl ea hea htg)),
          podByIP_none _ _ _ _ (deriveByIP_none _ _ (hnpd sl ((hso.slices sl).mp hsl) ea hea htg))]
        rfl
    have hM : ∀ x, x ∈ deriveEntries c h sv ↔ x ∈ deriveEntries d h sv := by
      intro x
      unfold deriveEntries
      rw [List.mem_map, List.mem_map]
      constructor
      · intro ⟨sl, hsl, hee⟩
        have hm := List.mem_filter.mp hsl
        refine ⟨sl, List.mem_filter.mpr ⟨(hso.slices sl).mp hm.1, hm.2⟩, ?_⟩
        rw [← hb sl hm.1]; exact hee
      · intro ⟨sl, hsl, hee⟩
        have hm := List.mem_filter.mp hsl
        have hc := (hso.slices sl).mpr hm.1
        refine ⟨sl, List.mem_filter.mpr ⟨hc, hm.2⟩, ?_⟩
        rw [hb sl hc]; exact hee
    have : deriveAll c h sv = deriveAll d h sv := by
      unfold deriveAll
      rw [sortKeys_congr _ _ (nodupKeys_deriveEntries c h sv hwfc hndc) (nodupKeys_deriveEntries d h sv hwfd hndd) hM]
    rw [this]

theorem ViewAgree.refl (v : Option HostView) : ViewAgree v v := by
  unfold ViewAgree
  cases v with
  | none => trivial
  | some v => exact ⟨rfl, rfl, fun _ => rfl⟩

/-- **order_independent.**  Two histories - in particular two interleavings of the per-kind streams
    of one history - made of good steps that end with the same objects and nothing stale show, for
    every hostname, the same Service, the same endpoint list and (for a service with endpoints) the
    same service accounts.  Side conditions on the final objects: faithful names, no endpoint without
    targetRef at a pod's address. -/
theorem order_independent (ops1 ops2 : List Op) (h : String)
    (hg1 : AllGood {} [] [] ops1) (hg2 : AllGood {} [] [] ops2)
    (hs1 : staleRun {} [] [] ops1 = []) (hs2 : staleRun {} [] [] ops2 = [])
    (hw1 : waitRun {} [] [] ops1 = []) (hw2 : waitRun {} [] [] ops2 = [])
    (hso : SameObjects (run {} ops1).c (run {} ops2).c)
    (hwf1 : WF (run {} ops1).c) (hwf2 : WF (run {} ops2).c) (hnu : NodesUnique (run {} ops2).c)
    (hnp1 : NoPodAtUntargeted (run {} ops1).c) (hnp2 : NoPodAtUntargeted (run {} ops2).c)
    (hnd1 : (run {} ops1).c.slices.Nodup) (hnd2 : (run {} ops2).c.slices.Nodup) :
    ViewAgree (hostView (run {} ops1).c h) (hostView (run {} ops2).c h) := by
  have v1 := convergence_to_derive ops1 h hg1 hs1 hw1 hwf1 hnp1 hnd1
  have v2 := convergence_to_derive ops2 h hg2 hs2 hw2 hwf2 hnp2 hnd2
  rw [derive_congr _ _ h hso hwf1 hwf2 hnu hnp1 hnp2 hnd1 hnd2] at v1
  exact v1.trans_symm v2

end IstioModel.C15
