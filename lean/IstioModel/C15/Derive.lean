import IstioModel.C15.Theorems

/-!
# C15 - `derive`: the cold start as a pure function of the objects, and `Inv` implies it

`derive c h` reads only the stores of `c` (Services, EndpointSlices, Pods, Nodes).
-/
namespace IstioModel.C15

/-- the pod cache of a cold start: the ready pods that should be in endpoints, by IP -/
def deriveByIP (pods : List Pod) : List (String × List String) :=
  pods.foldl (fun m p => if podShouldBeIn p && p.ready then setInsert m p.ip p.key else m) []

/-- all endpoints the slices of a hostname build to -/
def deriveAll (c : Ctl) (h : String) (sv : Svc) : List IEp :=
  (c.slices.filter (fun sl => sl.host = h)).flatMap
    (fun sl => (buildSlice c.pods c.nodes (deriveByIP c.pods) (some sv) sl).getD [])

/-- **The spec (cold start).**  What the control plane derives for a hostname from the current
    objects alone: the Service, the endpoints of all its slices (first occurrence of an
    (address, port name) wins) and their service accounts. -/
def derive (c : Ctl) (h : String) : Option HostView :=
  (c.svcs.find? (fun sv => sv.host = h)).map fun sv =>
    let eps := dedupEps [] (deriveAll c h sv)
    { svc := sv, eps := eps, sas := sasOf eps }

/-- the key `endpointSliceCache.get` dedupes on -/
def epKey (e : IEp) : String := e.addr ++ "|" ++ e.portName

/-- no pod of the store has the address of an endpoint without targetRef -/
def NoPodAtUntargeted (c : Ctl) : Prop :=
  ∀ sl ∈ c.slices, ∀ ea ∈ sl.addrPairs, ea.1.target = none → ∀ p ∈ c.pods, p.ip ≠ ea.2

/-- endpoints of the hostname with the same (address, port name) are equal (no conflicting
    duplicates across or inside slices: `get` then does not depend on map iteration order) -/
def DistinctEps (c : Ctl) (h : String) (sv : Svc) : Prop :=
  ∀ e1 ∈ deriveAll c h sv, ∀ e2 ∈ deriveAll c h sv, epKey e1 = epKey e2 → e1 = e2

theorem mem_dedupEps (l : List IEp) (seen : List String) (e : IEp)
    (hd : ∀ e1 ∈ l, ∀ e2 ∈ l, epKey e1 = epKey e2 → e1 = e2) :
    e ∈ dedupEps seen l ↔ e ∈ l ∧ epKey e ∉ seen := by
  induction l generalizing seen with
  | nil => simp [dedupEps]
  | cons x r ih =>
    have hdr : ∀ e1 ∈ r, ∀ e2 ∈ r, epKey e1 = epKey e2 → e1 = e2 :=
      fun e1 h1 e2 h2 => hd e1 (List.mem_cons_of_mem _ h1) e2 (List.mem_cons_of_mem _ h2)
    unfold dedupEps
    simp only []
    by_cases hs : seen.contains (x.addr ++ "|" ++ x.portName) = true
    · rw [if_pos hs, ih seen hdr]
      have hxs : epKey x ∈ seen := by simpa [epKey] using hs
      constructor
      · intro h; exact ⟨List.mem_cons_of_mem _ h.1, h.2⟩
      · intro h
        refine ⟨?_, h.2⟩
        cases List.mem_cons.mp h.1 with
        | inl he => rw [he] at h; exact absurd hxs h.2
        | inr hr => exact hr
    · rw [if_neg hs]
      have hxs : epKey x ∉ seen := by simpa [epKey] using hs
      rw [List.mem_cons, ih _ hdr]
      constructor
      · intro h
        cases h with
        | inl he => subst he; exact ⟨by simp, hxs⟩
        | inr hr =>
          refine ⟨List.mem_cons_of_mem _ hr.1, ?_⟩
          intro hm
          exact hr.2 (List.mem_cons_of_mem _ hm)
      · intro h
        cases List.mem_cons.mp h.1 with
        | inl he => exact Or.inl he
        | inr hr =>
          by_cases hk : epKey e = epKey x
          · left; exact hd e h.1 x (by simp) hk
          · right
            refine ⟨hr, ?_⟩
            intro hm
            cases List.mem_cons.mp hm with
            | inl h1 => exact hk h1
            | inr h1 => exact h.2 h1

theorem alookup_setInsert_other (m : List (String × List String)) (k x a : String) (h : a ≠ k) :
    alookup a (setInsert m k x) = alookup a m := by
  unfold setInsert
  cases alookup k m with
  | none => simp only []; rw [alookup_aset_other _ _ _ _ h]
  | some l =>
    simp only []
    split
    · rfl
    · rw [alookup_aset_other _ _ _ _ h]

theorem deriveByIP_none (pods : List Pod) (a : String) (h : ∀ p ∈ pods, p.ip ≠ a) :
    alookup a (deriveByIP pods) = none := by
  unfold deriveByIP
  have : ∀ (m : List (String × List String)), alookup a m = none →
      alookup a (pods.foldl (fun m p => if podShouldBeIn p && p.ready then setInsert m p.ip p.key else m) m) = none := by
    induction pods with
    | nil => intro m hm; exact hm
    | cons p r ih =>
      intro m hm
      simp only [List.foldl_cons]
      apply ih (fun q hq => h q (List.mem_cons_of_mem _ hq))
      split
      · rw [alookup_setInsert_other _ _ _ _ (Ne.symm (h p (by simp)))]
        exact hm
      · exact hm
  exact this [] rfl

theorem mem_sasOf (l : List IEp) (a : String) : a ∈ sasOf l ↔ a ≠ "" ∧ ∃ e ∈ l, e.sa = a := by
  unfold sasOf
  rw [List.mem_eraseDups, List.mem_filter, List.mem_map]
  constructor
  · intro h
    obtain ⟨⟨e, he, hea⟩, hne⟩ := h
    exact ⟨by simpa using hne, e, he, hea⟩
  · intro h
    obtain ⟨hne, e, he, hea⟩ := h
    exact ⟨⟨e, he, hea⟩, by simpa using hne⟩

/-- agreement of two views of a hostname: same service, same endpoint set, and - when there are
    endpoints - the same service-account set -/
def ViewAgree (v d : Option HostView) : Prop :=
  match v, d with
  | some v, some d => v.svc = d.svc ∧ (∀ e, e ∈ v.eps ↔ e ∈ d.eps) ∧ (v.eps ≠ [] → ∀ a, a ∈ v.sas ↔ a ∈ d.sas)
  | none, none => True
  | _, _ => False

/-- **Inv implies the spec.**  A controller whose caches satisfy the invariant shows, for every
    hostname, exactly what `derive` computes from its current objects: the same Service, the same
    set of endpoints (addresses, ports, health, labels, locality, identity) and, for a service with
    endpoints, the same set of service accounts. -/
theorem view_eq_derive (c : Ctl) (h : String) (hinv : Inv c) (hwf : WF c)
    (hnc : NoCachedAddr c) (hnp : NoPodAtUntargeted c)
    (hdist : ∀ sv, c.svcs.find? (fun sv => sv.host = h) = some sv → DistinctEps c h sv) :
    ViewAgree (hostView c h) (derive c h) := by
  unfold ViewAgree hostView derive
  -- the service
  cases hsm : alookup h c.smap with
  | none =>
    cases hf : c.svcs.find? (fun sv => sv.host = h) with
    | none => simp
    | some sv' =>
      exfalso
      have hm : sv' ∈ c.svcs := List.mem_of_find?_eq_some hf
      have hh : sv'.host = h := by simpa using List.find?_some hf
      have := hinv.smapSome sv' hm
      rw [hh, hsm] at this
      cases this
  | some sv =>
    obtain ⟨hsv, hsvh⟩ := hinv.smapOnly h sv hsm
    have hf : c.svcs.find? (fun sv => sv.host = h) = some sv := by
      cases hf : c.svcs.find? (fun sv => sv.host = h) with
      | none =>
        have := List.find?_eq_none.mp hf sv hsv
        simp [hsvh] at this
      | some sv' =>
        have hm : sv' ∈ c.svcs := List.mem_of_find?_eq_some hf
        have hh : sv'.host = h := by simpa using List.find?_some hf
        rw [hwf.svcHostInj sv' hm sv hsv (hh.trans hsvh.symm)]
    rw [hf]
    simp only [Option.map]
    -- membership before deduplication
    have hM : ∀ e, e ∈ ((alookup h c.cache).getD []).flatMap (·.2) ↔ e ∈ deriveAll c h sv := by
      intro e
      have hbuild : ∀ sl ∈ c.slices, sl.host = h →
          buildSlice c.pods c.nodes c.byIP (alookup sl.host c.smap) sl =
            buildSlice c.pods c.nodes (deriveByIP c.pods) (some sv) sl := by
        intro sl hsl hh
        rw [hh, hsm]
        apply buildSlice_congr
        · intro _ _ _ _ _; rfl
        · intro ea hea htg
          rw [podByIP_none _ _ _ _ (hnc sl hsl ea hea htg),
            podByIP_none _ _ _ _ (deriveByIP_none _ _ (hnp sl hsl ea hea htg))]
      unfold deriveAll
      rw [List.mem_flatMap, List.mem_flatMap]
      constructor
      · intro hx
        obtain ⟨ne, hne, hee⟩ := hx
        obtain ⟨n, eps⟩ := ne
        cases hc : alookup h c.cache with
        | none => rw [hc] at hne; cases hne
        | some per =>
          rw [hc] at hne
          simp only [Option.getD] at hne
          have hl := alookup_of_mem_nodupKeys per n eps (hinv.nodup h per hc) hne
          have hent : cacheEntry c.cache h n = some eps := by simp [cacheEntry, hc, hl]
          obtain ⟨sl, hsl, hs, hsh, hsn⟩ := hinv.noForeign h n eps hent
          refine ⟨sl, by simp [List.mem_filter, hsl, hsh], ?_⟩
          have hfr := hinv.fresh sl hsl hs (fun hf => hf)
          unfold EntryOK at hfr
          rw [hsh, hsn, hent, ← hsh, hbuild sl hsl hsh] at hfr
          rw [← hfr]
          exact hee
      · intro hx
        obtain ⟨sl, hslf, hee⟩ := hx
        have hsl : sl ∈ c.slices := (List.mem_filter.mp hslf).1
        have hsh : sl.host = h := by simpa using (List.mem_filter.mp hslf).2
        cases hb : buildSlice c.pods c.nodes (deriveByIP c.pods) (some sv) sl with
        | none => rw [hb] at hee; cases hee
        | some eps =>
          rw [hb] at hee
          simp only [Option.getD] at hee
          have hs : Servable sl := by
            apply Classical.byContradiction
            intro hns
            rw [(buildSlice_none_iff _ _ _ _ _).mpr hns] at hb
            cases hb
          have hfr := hinv.fresh sl hsl hs (fun hf => hf)
          unfold EntryOK at hfr
          rw [hbuild sl hsl hsh, hb, hsh] at hfr
          unfold cacheEntry at hfr
          cases hc : alookup h c.cache with
          | none => rw [hc] at hfr; cases hfr
          | some per =>
            rw [hc] at hfr
            simp only [Option.bind] at hfr
            exact ⟨(sl.name, eps), by simpa [Option.getD] using mem_of_alookup per sl.name eps hfr, hee⟩
    have hS : ∀ e, e ∈ (sortKeys ((alookup h c.cache).getD [])).flatMap (·.2) ↔
        e ∈ ((alookup h c.cache).getD []).flatMap (·.2) := by
      intro e
      rw [List.mem_flatMap, List.mem_flatMap]
      constructor
      · intro hx; obtain ⟨x, hx1, hx2⟩ := hx; exact ⟨x, (mem_sortKeys _ _).mp hx1, hx2⟩
      · intro hx; obtain ⟨x, hx1, hx2⟩ := hx; exact ⟨x, (mem_sortKeys _ _).mpr hx1, hx2⟩
    have hdL : ∀ e1 ∈ (sortKeys ((alookup h c.cache).getD [])).flatMap (·.2),
        ∀ e2 ∈ (sortKeys ((alookup h c.cache).getD [])).flatMap (·.2), epKey e1 = epKey e2 → e1 = e2 :=
      fun e1 h1 e2 h2 hk => hdist sv hf e1 ((hM e1).mp ((hS e1).mp h1)) e2 ((hM e2).mp ((hS e2).mp h2)) hk
    have hget : ∀ e, e ∈ cacheGet c.cache h ↔ e ∈ dedupEps [] (deriveAll c h sv) := by
      intro e
      unfold cacheGet
      rw [mem_dedupEps _ [] e hdL, mem_dedupEps _ [] e (hdist sv hf), hS e, hM e]
    -- the index holds `get`
    have hidx := hinv.index h
    unfold IdxOK at hidx
    cases hix : alookup h c.index with
    | none =>
      rw [hix] at hidx
      simp only []
      have hg : cacheGet c.cache h = [] := by
        cases hidx with
        | inl h1 => rw [hsm] at h1; cases h1
        | inr h1 => exact h1
      refine ⟨trivial, ?_, fun hne => absurd rfl hne⟩
      intro e
      rw [← hget e, hg]
    | some ie =>
      rw [hix] at hidx
      simp only []
      refine ⟨trivial, ?_, ?_⟩
      · intro e
        rw [hidx.1]
        exact hget e
      · intro hne a
        rw [hidx.1] at hne
        rw [hidx.2 hne, mem_sasOf, mem_sasOf]
        constructor
        · intro hx
          obtain ⟨h1, e, he, hea⟩ := hx
          exact ⟨h1, e, (hget e).mp he, hea⟩
        · intro hx
          obtain ⟨h1, e, he, hea⟩ := hx
          exact ⟨h1, e, (hget e).mpr he, hea⟩

/-- **convergence_to_derive.**  Every good history, in every interleaving, ends in the state a cold
    start derives from the final objects: for every hostname the controller shows the Service, the
    endpoint set and (for a service with endpoints) the service-account set of `derive` applied to the
    final stores.  The side conditions on the final objects are decidable: faithful names (`WF`), no
    endpoint without targetRef at a pod's address, no conflicting duplicate endpoints. -/
theorem convergence_to_derive (ops : List Op) (h : String) (hgood : AllGood {} ops)
    (hwf : WF (run {} ops).c) (hnc : NoCachedAddr (run {} ops).c) (hnp : NoPodAtUntargeted (run {} ops).c)
    (hdist : ∀ sv, (run {} ops).c.svcs.find? (fun sv => sv.host = h) = some sv → DistinctEps (run {} ops).c h sv) :
    ViewAgree (hostView (run {} ops).c h) (derive (run {} ops).c h) :=
  view_eq_derive _ h (convergence_any_order ops hgood) hwf hnc hnp hdist

/-! ### two interleavings of the same history -/

/-- two controllers hold the same objects (as sets: the list order of a store is the order of first
    arrival, which differs between interleavings) -/
structure SameObjects (c d : Ctl) : Prop where
  svcs : ∀ x, x ∈ c.svcs ↔ x ∈ d.svcs
  slices : ∀ x, x ∈ c.slices ↔ x ∈ d.slices
  pods : ∀ x, x ∈ c.pods ↔ x ∈ d.pods
  nodes : ∀ x, x ∈ c.nodes ↔ x ∈ d.nodes

theorem find?_eq_of_same_members {α : Type} (l1 l2 : List α) (p : α → Bool)
    (hm : ∀ x, x ∈ l1 ↔ x ∈ l2) (hu : ∀ a ∈ l2, ∀ b ∈ l2, p a = true → p b = true → a = b) :
    l1.find? p = l2.find? p := by
  cases h1 : l1.find? p with
  | none =>
    cases h2 : l2.find? p with
    | none => rfl
    | some b =>
      have hb : b ∈ l2 := List.mem_of_find?_eq_some h2
      have hpb : p b = true := List.find?_some h2
      have := List.find?_eq_none.mp h1 b ((hm b).mpr hb)
      simp [hpb] at this
  | some a =>
    have ha : a ∈ l1 := List.mem_of_find?_eq_some h1
    have hpa : p a = true := List.find?_some h1
    cases h2 : l2.find? p with
    | none =>
      have := List.find?_eq_none.mp h2 a ((hm a).mp ha)
      simp [hpa] at this
    | some b =>
      have hb : b ∈ l2 := List.mem_of_find?_eq_some h2
      have hpb : p b = true := List.find?_some h2
      rw [hu a ((hm a).mp ha) b hb hpa hpb]

/-- node names are unique -/
def NodesUnique (c : Ctl) : Prop := ∀ a ∈ c.nodes, ∀ b ∈ c.nodes, a.name = b.name → a = b

theorem ViewAgree.trans_symm {a b c : Option HostView} (h1 : ViewAgree a b) (h2 : ViewAgree c b) : ViewAgree a c := by
  unfold ViewAgree at *
  cases a with
  | none =>
    cases b with
    | none => cases c with
      | none => trivial
      | some _ => exact h2
    | some _ => exact absurd h1 (fun h => h)
  | some va =>
    cases b with
    | none => exact absurd h1 (fun h => h)
    | some vb =>
      cases c with
      | none => exact absurd h2 (fun h => h)
      | some vc =>
        simp only [] at h1 h2 ⊢
        refine ⟨h1.1.trans h2.1.symm, fun e => (h1.2.1 e).trans (h2.2.1 e).symm, ?_⟩
        intro hne a
        have hne2 : vc.eps ≠ [] := by
          cases hva : va.eps with
          | nil => exact absurd hva hne
          | cons e t =>
            have : e ∈ vc.eps := (h2.2.1 e).mpr ((h1.2.1 e).mp (by rw [hva]; simp))
            intro h0; rw [h0] at this; cases this
        exact (h1.2.2 hne a).trans (h2.2.2 hne2 a).symm

/-- `derive` depends on the stores only as sets (given faithful names) -/
theorem derive_congr (c d : Ctl) (h : String) (hso : SameObjects c d) (hwfc : WF c) (hwfd : WF d)
    (hnu : NodesUnique d) (hnpc : NoPodAtUntargeted c) (hnpd : NoPodAtUntargeted d)
    (hdc : ∀ sv, c.svcs.find? (fun sv => sv.host = h) = some sv → DistinctEps c h sv)
    (hdd : ∀ sv, d.svcs.find? (fun sv => sv.host = h) = some sv → DistinctEps d h sv) :
    ViewAgree (derive c h) (derive d h) := by
  unfold ViewAgree derive
  have hfs : c.svcs.find? (fun sv => sv.host = h) = d.svcs.find? (fun sv => sv.host = h) := by
    apply find?_eq_of_same_members _ _ _ hso.svcs
    intro a ha b hb hpa hpb
    simp only [decide_eq_true_eq] at hpa hpb
    exact hwfd.svcHostInj a ha b hb (hpa.trans hpb.symm)
  rw [hfs]
  cases hfd : d.svcs.find? (fun sv => sv.host = h) with
  | none => simp
  | some sv =>
    simp only [Option.map]
    have hfc : c.svcs.find? (fun sv => sv.host = h) = some sv := hfs.trans hfd
    have hM : ∀ e, e ∈ deriveAll c h sv ↔ e ∈ deriveAll d h sv := by
      intro e
      have hb : ∀ sl ∈ c.slices, buildSlice c.pods c.nodes (deriveByIP c.pods) (some sv) sl =
          buildSlice d.pods d.nodes (deriveByIP d.pods) (some sv) sl := by
        intro sl hsl
        apply buildSlice_congr
        · intro ea hea tns tn htg
          have hfp : findPod c.pods tns tn = findPod d.pods tns tn := by
            apply find?_eq_of_same_members _ _ _ hso.pods
            intro a ha b hb hpa hpb
            simp only [Bool.decide_and, Bool.and_eq_true, decide_eq_true_eq] at hpa hpb
            exact hwfd.podNameInj a ha b hb (hpa.1.trans hpb.1.symm) (hpa.2.trans hpb.2.symm)
          rw [hfp]
          cases findPod d.pods tns tn with
          | none => rfl
          | some p =>
            simp only [podView, Option.map, Option.some.injEq, Prod.mk.injEq, true_and]
            unfold localityOf
            have : c.nodes.find? (fun n => n.name = p.node) = d.nodes.find? (fun n => n.name = p.node) := by
              apply find?_eq_of_same_members _ _ _ hso.nodes
              intro a ha b hb hpa hpb
              simp only [decide_eq_true_eq] at hpa hpb
              exact hnu a ha b hb (hpa.trans hpb.symm)
            rw [this]
        · intro ea hea htg
          rw [podByIP_none _ _ _ _ (deriveByIP_none _ _ (hnpc sl hsl ea hea htg)),
            podByIP_none _ _ _ _ (deriveByIP_none _ _ (hnpd sl ((hso.slices sl).mp hsl) ea hea htg))]
          rfl
      unfold deriveAll
      rw [List.mem_flatMap, List.mem_flatMap]
      constructor
      · intro hx
        obtain ⟨sl, hsl, hee⟩ := hx
        have hm := List.mem_filter.mp hsl
        refine ⟨sl, List.mem_filter.mpr ⟨(hso.slices sl).mp hm.1, hm.2⟩, ?_⟩
        rw [← hb sl hm.1]; exact hee
      · intro hx
        obtain ⟨sl, hsl, hee⟩ := hx
        have hm := List.mem_filter.mp hsl
        have hc := (hso.slices sl).mpr hm.1
        refine ⟨sl, List.mem_filter.mpr ⟨hc, hm.2⟩, ?_⟩
        rw [hb sl hc]; exact hee
    have hE : ∀ e, e ∈ dedupEps [] (deriveAll c h sv) ↔ e ∈ dedupEps [] (deriveAll d h sv) := by
      intro e
      rw [mem_dedupEps _ [] e (hdc sv hfc), mem_dedupEps _ [] e (hdd sv hfd), hM e]
    refine ⟨trivial, hE, ?_⟩
    intro _ a
    rw [mem_sasOf, mem_sasOf]
    constructor
    · intro hx
      obtain ⟨h1, e, he, hea⟩ := hx
      exact ⟨h1, e, (hE e).mp he, hea⟩
    · intro hx
      obtain ⟨h1, e, he, hea⟩ := hx
      exact ⟨h1, e, (hE e).mpr he, hea⟩

/-- **order_independent.**  Two histories - in particular two interleavings of the per-kind streams
    of one history - made of good steps that end with the same objects show, for every hostname, the
    same Service, the same endpoint set and (for a service with endpoints) the same service-account
    set.  Side conditions on the final objects: faithful names, no endpoint without targetRef at a
    pod's address, no conflicting duplicate endpoints. -/
theorem order_independent (ops1 ops2 : List Op) (h : String)
    (hg1 : AllGood {} ops1) (hg2 : AllGood {} ops2)
    (hso : SameObjects (run {} ops1).c (run {} ops2).c)
    (hwf1 : WF (run {} ops1).c) (hwf2 : WF (run {} ops2).c) (hnu : NodesUnique (run {} ops2).c)
    (hnc1 : NoCachedAddr (run {} ops1).c) (hnc2 : NoCachedAddr (run {} ops2).c)
    (hnp1 : NoPodAtUntargeted (run {} ops1).c) (hnp2 : NoPodAtUntargeted (run {} ops2).c)
    (hd1 : ∀ sv, (run {} ops1).c.svcs.find? (fun sv => sv.host = h) = some sv → DistinctEps (run {} ops1).c h sv)
    (hd2 : ∀ sv, (run {} ops2).c.svcs.find? (fun sv => sv.host = h) = some sv → DistinctEps (run {} ops2).c h sv) :
    ViewAgree (hostView (run {} ops1).c h) (hostView (run {} ops2).c h) := by
  have v1 := convergence_to_derive ops1 h hg1 hwf1 hnc1 hnp1 hd1
  have v2 := convergence_to_derive ops2 h hg2 hwf2 hnc2 hnp2 hd2
  have dc := derive_congr _ _ h hso hwf1 hwf2 hnu hnp1 hnp2 hd1 hd2
  -- view1 ~ derive1 ~ derive2 ~ view2
  have s1 : ViewAgree (hostView (run {} ops1).c h) (derive (run {} ops2).c h) := by
    have dcs : ViewAgree (derive (run {} ops2).c h) (derive (run {} ops2).c h) := by
      unfold ViewAgree
      cases derive (run {} ops2).c h with
      | none => trivial
      | some v => exact ⟨rfl, fun _ => Iff.rfl, fun _ _ => Iff.rfl⟩
    have dc' : ViewAgree (derive (run {} ops2).c h) (derive (run {} ops1).c h) := dcs.trans_symm dc
    exact v1.trans_symm dc'
  exact s1.trans_symm v2

end IstioModel.C15
