import IstioModel.C15.Inv

/-!
# C15 - one write at a time (the queue is drained between writes)

`stepC c op` is what `applyOp` does to the stores and caches when the queue is not held: the store
is updated, the event is handled at once against the new store, then the replays it queued.
-/
namespace IstioModel.C15

def sameSlice (v : Slice) (x : Slice) : Bool := x.ns = v.ns ∧ x.name = v.name
def sameSvc (v : Svc) (x : Svc) : Bool := x.ns = v.ns ∧ x.name = v.name
def samePod (v : Pod) (x : Pod) : Bool := x.ns = v.ns ∧ x.name = v.name

/-- the informer event of a Pod write -/
def podEvOf (c : Ctl) (v : Pod) : Ev :=
  match findPod c.pods v.ns v.name with
  | none => Ev.podAdd v
  | some o => Ev.podUpd o v

/-- stores and caches after one operation handled synchronously; `none` = not applicable -/
def stepC (c : Ctl) : Op → Option Ctl
  | .svc v =>
    let e := match findSvc c.svcs v.ns v.name with
      | none => Ev.svcAdd v
      | some o => Ev.svcUpd o v
    some (runAll { c with svcs := upsertBy (fun x => x.ns = v.ns ∧ x.name = v.name) v c.svcs } [e])
  | .delSvc ns name =>
    (findSvc c.svcs ns name).map fun o =>
      runAll { c with svcs := c.svcs.filter (fun x => !(x.ns = ns ∧ x.name = name)) } [.svcDel o]
  | .slice v =>
    let e := match findSlice c.slices v.ns v.name with
      | none => Ev.slAdd v
      | some o => Ev.slUpd o v
    some (runAll { c with slices := upsertBy (fun x => x.ns = v.ns ∧ x.name = v.name) v c.slices } [e])
  | .delSlice ns name =>
    (findSlice c.slices ns name).map fun o =>
      runAll { c with slices := c.slices.filter (fun x => !(x.ns = ns ∧ x.name = name)) } [.slDel o]
  | .pod v =>
    if v.phase = "F" then
      -- the informer's field selector: a Failed pod is a DELETE carrying the new object, if the pod was known
      (findPod c.pods v.ns v.name).map fun _ =>
        runAll { c with pods := c.pods.filter (fun x => !(x.ns = v.ns ∧ x.name = v.name)) } [.podDel v]
    else
      some (runAll { c with pods := upsertBy (fun x => x.ns = v.ns ∧ x.name = v.name) v c.pods } [podEvOf c v])
  | .delPod ns name =>
    (findPod c.pods ns name).map fun o =>
      runAll { c with pods := c.pods.filter (fun x => !(x.ns = ns ∧ x.name = name)) } [.podDel o]
  | .node v => some { c with nodes := upsertBy (fun x => x.name = v.name) v c.nodes }
  | .delNode name =>
    if c.nodes.any (·.name = name) then some { c with nodes := c.nodes.filter (·.name ≠ name) } else none
  | .ns v =>
    let e := match c.nss.find? (fun n => n.name = v.name) with
      | none => Ev.nsAdd v
      | some o => Ev.nsUpd o v
    some (runAll { c with nss := upsertBy (fun x => x.name = v.name) v c.nss } [e])
  | .delNs name =>
    (c.nss.find? (fun n => n.name = name)).map fun o =>
      runAll { c with nss := c.nss.filter (fun x => !(x.name = name)) } [.nsDel o]
  | .hold => none
  | .release => some c

theorem stepC_pod (c : Ctl) (v : Pod) (hph : v.phase ≠ "F") :
    stepC c (.pod v) =
      some (runAll { c with pods := upsertBy (fun x => x.ns = v.ns ∧ x.name = v.name) v c.pods } [podEvOf c v]) := by
  simp [stepC, hph]

def runC (c : Ctl) : List Op → Ctl
  | [] => c
  | o :: r => runC ((stepC c o).getD c) r

/-- a history without `hold` -/
def NoHold (ops : List Op) : Prop := ∀ o ∈ ops, o ≠ Op.hold

theorem runAll_nil (c : Ctl) : runAll c [] = c := rfl

/-- On a state whose queue is empty and not held, `applyOp` does to the controller part what `stepC`
    does (an operation that is not applicable, or only touches the set of pods hidden from the informer,
    leaves it unchanged) and leaves the queue empty. -/
theorem applyOp_sync (s : State) (op : Op) (hq : s.queue = []) (hh : s.held = false) (hop : op ≠ Op.hold) :
    ((applyOp s op).getD s).c = (stepC s.c op).getD s.c ∧ ((applyOp s op).getD s).queue = [] ∧
    ((applyOp s op).getD s).held = false := by
  obtain ⟨c, q, h, hid⟩ := s
  simp only at hq hh
  subst hq; subst hh
  cases op with
  | hold => exact absurd rfl hop
  | release => simp [applyOp, release, drain, stepC, runAll_nil]
  | svc v => exact ⟨rfl, rfl, rfl⟩
  | slice v => exact ⟨rfl, rfl, rfl⟩
  | ns v => exact ⟨rfl, rfl, rfl⟩
  | pod v =>
    simp only [applyOp, writePod, stepC]
    by_cases hph : v.phase = "F"
    · simp only [hph, if_true, evictPod]
      cases findPod c.pods v.ns v.name <;> simp [enqueue, drain]
    · simp only [hph, if_false]
      exact ⟨rfl, rfl, rfl⟩
  | node v => simp [applyOp, writeNode, stepC]
  | delSvc ns n =>
    simp only [applyOp, delSvc, stepC]
    cases findSvc c.svcs ns n <;> simp [enqueue, drain]
  | delSlice ns n =>
    simp only [applyOp, delSlice, stepC]
    cases findSlice c.slices ns n <;> simp [enqueue, drain]
  | delNs n =>
    simp only [applyOp, delNs, stepC]
    cases c.nss.find? (fun x => x.name = n) <;> simp [enqueue, drain]
  | delPod ns n =>
    simp only [applyOp, delPod, stepC]
    cases findPod c.pods ns n with
    | some o => simp [enqueue, drain]
    | none =>
      simp only [Option.map, Option.getD]
      by_cases hc : ns ++ "/" ++ n ∈ hid
      · simp [hc]
      · simp [hc]
  | delNode n =>
    simp only [applyOp, delNode, stepC]
    split <;> simp

theorem run_sync (ops : List Op) (s : State) (hq : s.queue = []) (hh : s.held = false) (hn : NoHold ops) :
    (run s ops).c = runC s.c ops ∧ (run s ops).queue = [] ∧ (run s ops).held = false := by
  induction ops generalizing s with
  | nil => exact ⟨rfl, hq, hh⟩
  | cons o r ih =>
    have ho : o ≠ Op.hold := hn o (by simp)
    have hr : NoHold r := fun x hx => hn x (List.mem_cons_of_mem _ hx)
    simp only [run, runC]
    have h := applyOp_sync s o hq hh ho
    rw [← h.1]
    exact ih _ h.2.1 h.2.2 hr

/-! ### store lemmas -/

theorem find_upsertBy {α : Type} (same : α → Bool) (v : α) (l : List α) (hv : same v = true) :
    (upsertBy same v l).find? same = some v := by
  induction l with
  | nil => simp [upsertBy, hv]
  | cons x r ih =>
    unfold upsertBy
    by_cases hx : same x = true
    · simp [hx, hv]
    · simp [hx, ih]

theorem mem_filter_not {α : Type} (p : α → Bool) (x : α) (l : List α) :
    x ∈ l.filter (fun y => !p y) ↔ x ∈ l ∧ p x = false := by
  simp [List.mem_filter]

/-! ### EndpointSlice writes: converge unconditionally -/

/-- A slice add/update, handled with the queue drained, re-establishes the invariant whatever the
    slice contains - endpoints whose pod is unknown are parked in `needResync`.  The only
    requirement is that a slice keeps its service label and address type across versions
    (both are immutable in Kubernetes). -/
theorem slice_write_inv (c : Ctl) (v : Slice) (c' : Ctl) {P : Slice → Prop} (hstep : stepC c (.slice v) = some c')
    (hinv : InvExcept c P)
    (hwf : WF { c with slices := upsertBy (fun x => x.ns = v.ns ∧ x.name = v.name) v c.slices })
    (hold : ∀ o ∈ c.slices, o.ns = v.ns → o.name = v.name → o.svc = v.svc ∧ o.fqdn = v.fqdn) :
    InvExcept c' (fun x => P x ∧ x ≠ v) := by
  simp only [stepC, Option.some.injEq] at hstep
  subst hstep
  let c1 : Ctl := { c with slices := upsertBy (fun x => x.ns = v.ns ∧ x.name = v.name) v c.slices }
  have hfind : findSlice c1.slices v.ns v.name = some v := by
    apply find_upsertBy
    simp
  have hv1 : v ∈ c1.slices := mem_upsertBy_self _ _ _
  -- before the handler runs only `v` itself is out of date
  have h1 : InvExcept c1 (fun x => P x ∨ x = v) := by
    refine ⟨?_, ?_, ?_, hinv.smapSome, hinv.smapOnly, hinv.index, hinv.nodup⟩
    · intro x hx hs hne
      cases mem_upsertBy _ _ _ _ hx with
      | inl h => exact absurd (Or.inr h) hne
      | inr h => exact hinv.fresh x h hs (fun hp => hne (Or.inl hp))
    · intro h n eps he
      obtain ⟨sl, hsl, hs, hh, hn⟩ := hinv.noForeign h n eps he
      by_cases hsame : sl.ns = v.ns ∧ sl.name = v.name
      · have := hold sl hsl hsame.1 hsame.2
        refine ⟨v, hv1, ?_, ?_, ?_⟩
        · exact ⟨this.2 ▸ hs.1, this.1 ▸ hs.2⟩
        · rw [← hh]; simp [Slice.host, hsame.1, this.1]
        · rw [← hn]; exact hsame.2.symm
      · refine ⟨sl, mem_upsertBy_of_mem _ _ _ _ hsl ?_, hs, hh, hn⟩
        simp only [decide_eq_false_iff_not, Bool.decide_and, Bool.and_eq_false_iff, decide_eq_false_iff_not]
        by_cases h1 : sl.ns = v.ns
        · right; intro h2; exact hsame ⟨h1, h2⟩
        · left; exact h1
    · intro x hx hne
      cases mem_upsertBy _ _ _ _ hx with
      | inl h => exact absurd (Or.inr h) hne
      | inr h => exact hinv.parked x h (fun hp => hne (Or.inl hp))
  -- the handler
  have hrun : ∀ e, (e = Ev.slAdd v ∨ ∃ o, e = Ev.slUpd o v ∧ o.svc = v.svc) → ∃ old, runAll c1 [e] = sliceUpsert c1 old v := by
    intro e he
    cases he with
    | inl h => subst h; exact ⟨none, by simp [runAll, runEvents, handle, hfind]⟩
    | inr h =>
      obtain ⟨o, h, hosvc⟩ := h
      subst h
      exact ⟨some o, by simp [runAll, runEvents, handle, hfind, sliceEvent, hosvc]⟩
  have : ∃ old, runAll c1 [match findSlice c.slices v.ns v.name with
      | none => Ev.slAdd v
      | some o => Ev.slUpd o v] = sliceUpsert c1 old v := by
    apply hrun
    cases hfo : findSlice c.slices v.ns v.name with
    | none => exact Or.inl rfl
    | some o =>
      have ho : o ∈ c.slices := List.mem_of_find?_eq_some hfo
      have hon : o.ns = v.ns ∧ o.name = v.name := by simpa using List.find?_some hfo
      exact Or.inr ⟨o, rfl, (hold o ho hon.1 hon.2).1⟩
  obtain ⟨old, hr⟩ := this
  show InvExcept (runAll c1 _) _
  rw [hr]
  refine (sliceUpsert_inv c1 _ old v h1 hwf hv1).mono (fun x _ hp => ⟨?_, hp.2⟩)
  cases hp.1 with
  | inl h => exact h
  | inr h => exact absurd h hp.2

theorem sliceDelete_eq (c : Ctl) (sl : Slice) :
    sliceDelete c sl =
      { c with resync := endpointsDeleted c.resync sl.key sl.allAddrs,
               cache := cacheDelete c.cache sl.host sl.name,
               index := idxUpdate c.index sl.host sl.ns (cacheGet (cacheDelete c.cache sl.host sl.name) sl.host) } := rfl

/-- Deleting a slice removes exactly its cache entry and its `needResync` registrations. -/
theorem slice_delete_inv (c : Ctl) (ns name : String) (c' : Ctl) {P : Slice → Prop}
    (hstep : stepC c (.delSlice ns name) = some c')
    (hinv : InvExcept c P) (hwf : WF c) : InvExcept c' P := by
  simp only [stepC] at hstep
  cases hf : findSlice c.slices ns name with
  | none => rw [hf] at hstep; cases hstep
  | some o =>
    rw [hf] at hstep
    simp only [Option.map, Option.some.injEq] at hstep
    subst hstep
    have ho : o ∈ c.slices := List.mem_of_find?_eq_some hf
    have hon : o.ns = ns ∧ o.name = name := by
      have := List.find?_some hf
      simpa using this
    let c1 : Ctl := { c with slices := c.slices.filter (fun x => !(x.ns = ns ∧ x.name = name)) }
    have hmem : ∀ x, x ∈ c1.slices ↔ x ∈ c.slices ∧ ¬ (x.ns = ns ∧ x.name = name) := by
      intro x
      show x ∈ c.slices.filter _ ↔ _
      rw [List.mem_filter]
      simp only [Bool.not_eq_true', decide_eq_false_iff_not]
    have hne : ∀ x ∈ c1.slices, x ≠ o := by
      intro x hx h
      subst h
      exact ((hmem x).mp hx).2 hon
    show InvExcept (runAll c1 [Ev.slDel o]) P
    have : runAll c1 [Ev.slDel o] = sliceDelete c1 o := by simp [runAll, runEvents, handle]
    rw [this, sliceDelete_eq]
    refine ⟨?_, ?_, ?_, hinv.smapSome, hinv.smapOnly, ?_, fun h per hl => nodupKeys_cacheDelete c.cache o.host o.name h per (hinv.nodup h) hl⟩
    · intro x hx hs hnp
      have hxc := ((hmem x).mp hx).1
      have hor : x.host ≠ o.host ∨ x.name ≠ o.name := by
        by_cases hh : x.host = o.host
        · right; intro hn; exact hne x hx (hwf.sliceEntryInj x hxc o ho hh hn)
        · left; exact hh
      show cacheEntry (cacheDelete c.cache o.host o.name) x.host x.name = _
      rw [cacheEntry_delete_other _ _ _ _ _ hor]
      exact hinv.fresh x hxc hs hnp
    · intro h n eps he
      have he' : cacheEntry (cacheDelete c.cache o.host o.name) h n = some eps := he
      by_cases hh : h = o.host ∧ n = o.name
      · rw [hh.1, hh.2, cacheEntry_delete_same] at he'; cases he'
      · have hor : h ≠ o.host ∨ n ≠ o.name := by
          by_cases h1 : h = o.host
          · right; intro h2; exact hh ⟨h1, h2⟩
          · left; exact h1
        rw [cacheEntry_delete_other _ _ _ _ _ hor] at he'
        obtain ⟨sl, hsl, hs, hsh, hsn⟩ := hinv.noForeign h n eps he'
        refine ⟨sl, (hmem sl).mpr ⟨hsl, ?_⟩, hs, hsh, hsn⟩
        intro hsame
        have : sl = o := hwf.sliceNameInj sl hsl o ho (hsame.1.trans hon.1.symm) (hsame.2.trans hon.2.symm)
        subst this
        exact hh ⟨hsh.symm, hsn.symm⟩
    · intro x hx hnp a ha
      have hxc := ((hmem x).mp hx).1
      have hk : x.key ≠ o.key := fun hk => hne x hx (hwf.sliceKeyInj x hxc o ho hk)
      show setContains (endpointsDeleted c.resync o.key o.allAddrs) a x.key = true
      rw [endpointsDeleted_contains]
      have h1 := hinv.parked x hxc hnp a ha
      have : (x.key == o.key) = false := by simp [hk]
      simp [h1, this]
    · intro h
      by_cases hh : h = o.host
      · subst hh
        exact idxOK_pushed c1 _ o.host o.ns rfl
      · exact idxOK_unchanged c _ h (idxUpdate_other _ _ _ _ _ hh)
          (alookup_cacheDelete_other _ _ _ _ hh) rfl (hinv.index h)

/-! ### Service writes -/

theorem cacheGet_ne_nil_entry (c : SliceCache) (h : String) (hne : cacheGet c h ≠ []) :
    ∃ n eps, cacheEntry c h n = some eps := by
  unfold cacheGet at hne
  cases hl : alookup h c with
  | none => rw [hl] at hne; simp [dedupEps, sortKeys] at hne
  | some per =>
    rw [hl] at hne
    simp only [Option.getD] at hne
    cases hf : (sortKeys per).flatMap (·.2) with
    | nil => rw [hf] at hne; simp [dedupEps] at hne
    | cons e r =>
      have he : e ∈ (sortKeys per).flatMap (·.2) := by rw [hf]; simp
      obtain ⟨ne, hne1, _⟩ := List.mem_flatMap.mp he
      obtain ⟨n, eps⟩ := ne
      obtain ⟨v', hv'⟩ := alookup_some_of_mem per n eps ((mem_sortKeys _ _).mp hne1)
      exact ⟨n, v', by simp [cacheEntry, hl, hv']⟩

theorem refreshIndex_fields (c : Ctl) (v : Svc) :
    (refreshIndex c v).slices = c.slices ∧ (refreshIndex c v).svcs = c.svcs ∧ (refreshIndex c v).pods = c.pods ∧
    (refreshIndex c v).nodes = c.nodes ∧ (refreshIndex c v).byIP = c.byIP ∧ (refreshIndex c v).smap = c.smap ∧
    (refreshIndex c v).cache = c.cache ∧ (refreshIndex c v).resync = c.resync ∧ (refreshIndex c v).ipBy = c.ipBy := by
  unfold refreshIndex
  simp only []
  split <;> exact ⟨rfl, rfl, rfl, rfl, rfl, rfl, rfl, rfl, rfl⟩

/-- `refreshIndex` keeps `IdxOK` for every hostname, given that cache entries belong to slices in
    the store and that the service is in `servicesMap`. -/
theorem refreshIndex_idxOK (c : Ctl) (v : Svc) (hwf : WF c) (hv : v ∈ c.svcs)
    (hnf : ∀ h n eps, cacheEntry c.cache h n = some eps → ∃ sl ∈ c.slices, Servable sl ∧ sl.host = h ∧ sl.name = n)
    (hix : ∀ h, h ≠ v.host → IdxOK c h)
    (hixv : match alookup v.host c.index with
      | none => True
      | some e => e.eps.getD [] = cacheGet c.cache v.host ∧ (cacheGet c.cache v.host ≠ [] → e.sas = sasOf (cacheGet c.cache v.host))) :
    ∀ h, IdxOK (refreshIndex c v) h := by
  intro h
  have hf := refreshIndex_fields c v
  by_cases hh : h = v.host
  · subst hh
    unfold refreshIndex
    simp only []
    by_cases he : (cachedEndpoints c v).isEmpty = true
    · simp only [he, if_true]
      unfold IdxOK
      cases hl : alookup v.host c.index with
      | none =>
        simp only []
        right
        apply Classical.byContradiction
        intro hne
        obtain ⟨n, eps, hent⟩ := cacheGet_ne_nil_entry _ _ hne
        obtain ⟨sl, hsl, _, hsh, _⟩ := hnf _ _ _ hent
        have hsv := hwf.sliceSvc sl hsl v hv hsh
        have hmem : sl ∈ svcSlices c v := by
          unfold svcSlices
          simp [List.mem_filter, hsl, hsv.1, hsv.2]
        unfold cachedEndpoints at he
        have hne2 : (svcSlices c v).isEmpty = false := by
          cases hs : svcSlices c v with
          | nil => rw [hs] at hmem; cases hmem
          | cons _ _ => rfl
        rw [hne2] at he
        simp only [Bool.false_eq_true, if_false] at he
        exact hne (List.isEmpty_iff.mp he)
      | some e =>
        rw [hl] at hixv
        exact hixv
    · simp only [he]
      have hce : cachedEndpoints c v = cacheGet c.cache v.host := by
        unfold cachedEndpoints at he ⊢
        split
        · rename_i h1; simp [h1] at he
        · rfl
      rw [hce]
      exact idxOK_pushed c _ v.host v.ns rfl
  · apply idxOK_unchanged c _ h _ (by rw [hf.2.2.2.2.2.2.1]) (by rw [hf.2.2.2.2.2.1]) (hix h hh)
    unfold refreshIndex
    simp only []
    split
    · rfl
    · exact idxUpdate_other _ _ _ _ _ hh

/-- what the slices of a hostname build to does not depend on whether `servicesMap` holds `a` or `b`
    for it (`endpointHealthStatus` is the only reader: it matters for not-ready endpoints only) -/
def SvcIrrelevant (c : Ctl) (host : String) (a b : Option Svc) : Prop :=
  ∀ sl ∈ c.slices, Servable sl → sl.host = host →
    buildSlice c.pods c.nodes c.byIP a sl = buildSlice c.pods c.nodes c.byIP b sl

/-- A Service add/update re-establishes the invariant provided the change of `servicesMap` does not
    alter what the already cached slices of that hostname build to (the handler re-reads the cache,
    it does not rebuild it - finding `health-built-before-service-known`). -/
theorem svc_write_inv (c : Ctl) (v : Svc) (c' : Ctl) {P : Slice → Prop} (hstep : stepC c (.svc v) = some c')
    (hinv : InvExcept c P)
    (hwf : WF { c with svcs := upsertBy (fun x => x.ns = v.ns ∧ x.name = v.name) v c.svcs })
    (hconv : convNs c.nss v = v)
    (hstable : SvcIrrelevant c v.host (alookup v.host c.smap) (some v)) :
    InvExcept c' P := by
  simp only [stepC, Option.some.injEq] at hstep
  subst hstep
  let c1 : Ctl := { c with svcs := upsertBy (fun x => x.ns = v.ns ∧ x.name = v.name) v c.svcs }
  have hfind : findSvc c1.svcs v.ns v.name = some v := by
    apply find_upsertBy
    simp
  have hv1 : v ∈ c1.svcs := mem_upsertBy_self _ _ _
  have hrun : runAll c1 [match findSvc c.svcs v.ns v.name with
      | none => Ev.svcAdd v
      | some o => Ev.svcUpd o v] = serviceUpsert c1 v := by
    have hc1 : convNs c1.nss v = v := hconv
    cases findSvc c.svcs v.ns v.name <;> simp [runAll, runEvents, handle, hfind, hc1]
  show InvExcept (runAll c1 _) P
  rw [hrun]
  unfold serviceUpsert
  let c2 : Ctl := { c1 with smap := aset v.host v c1.smap }
  have hwf2 : WF c2 := hwf.of_stores rfl rfl rfl
  have hf := refreshIndex_fields c2 v
  have hsm : ∀ h, alookup h c2.smap = if h = v.host then some v else alookup h c.smap := by
    intro h; exact alookup_aset _ _ _ _
  refine ⟨?_, ?_, ?_, ?_, ?_, ?_, by rw [hf.2.2.2.2.2.2.1]; exact hinv.nodup⟩
  · intro x hx hs hnp
    rw [hf.1] at hx
    unfold EntryOK
    rw [hf.2.2.2.2.2.2.1, hf.2.2.1, hf.2.2.2.1, hf.2.2.2.2.1, hf.2.2.2.2.2.1, hsm]
    have := hinv.fresh x hx hs hnp
    by_cases hh : x.host = v.host
    · simp only [hh, if_true]
      rw [← hstable x hx hs hh, ← hh]
      exact this
    · simp only [hh, if_false]
      exact this
  · intro h n eps he
    rw [hf.2.2.2.2.2.2.1] at he
    rw [hf.1]
    exact hinv.noForeign h n eps he
  · intro x hx hnp a ha
    rw [hf.1] at hx
    rw [hf.2.2.1] at ha
    rw [hf.2.2.2.2.2.2.2.1]
    exact hinv.parked x hx hnp a ha
  · intro sv hsv _
    rw [hf.2.1] at hsv
    rw [hf.2.2.2.2.2.1, hsm]
    by_cases hh : sv.host = v.host
    · simp only [hh, if_true]
      rw [hwf.svcHostInj sv hsv v hv1 hh]
    · simp only [hh, if_false]
      cases mem_upsertBy _ _ _ _ hsv with
      | inl h => rw [h] at hh; exact absurd rfl hh
      | inr h => exact hinv.smapSome sv h (fun hq => hq)
  · intro h sv hl
    rw [hf.2.2.2.2.2.1, hsm] at hl
    rw [hf.2.1]
    by_cases hh : h = v.host
    · simp only [hh, if_true, Option.some.injEq] at hl
      subst hl
      exact ⟨hv1, hh.symm⟩
    · simp only [hh, if_false] at hl
      obtain ⟨hm, hhost⟩ := hinv.smapOnly h sv hl
      refine ⟨mem_upsertBy_of_mem _ _ _ _ hm ?_, hhost⟩
      simp only [Bool.decide_and, Bool.and_eq_false_iff, decide_eq_false_iff_not]
      by_cases h1 : sv.ns = v.ns
      · right
        intro h2
        apply hh
        rw [← hhost]
        simp [Svc.host, h1, h2]
      · left; exact h1
  · apply refreshIndex_idxOK c2 v hwf2 hv1
    · exact hinv.noForeign
    · intro h hh
      apply idxOK_unchanged c c2 h rfl rfl _ (hinv.index h)
      rw [hsm]; simp [hh]
    · have := hinv.index v.host
      unfold IdxOK at this
      show match alookup v.host c.index with
        | none => True
        | some e => e.eps.getD [] = cacheGet c.cache v.host ∧ (cacheGet c.cache v.host ≠ [] → e.sas = sasOf (cacheGet c.cache v.host))
      cases hl : alookup v.host c.index with
      | none => trivial
      | some e =>
        rw [hl] at this
        exact this

/-- A Service delete re-establishes the invariant under the same proviso. -/
theorem svc_delete_inv (c : Ctl) (ns name : String) (c' : Ctl) {P : Slice → Prop}
    (hstep : stepC c (.delSvc ns name) = some c')
    (hinv : InvExcept c P) (hwf : WF c)
    (hstable : ∀ o, findSvc c.svcs ns name = some o → SvcIrrelevant c o.host (some o) none) :
    InvExcept c' P := by
  simp only [stepC] at hstep
  cases hfo : findSvc c.svcs ns name with
  | none => rw [hfo] at hstep; cases hstep
  | some o =>
    rw [hfo] at hstep
    simp only [Option.map, Option.some.injEq] at hstep
    subst hstep
    have ho : o ∈ c.svcs := List.mem_of_find?_eq_some hfo
    have hon : o.ns = ns ∧ o.name = name := by
      have := List.find?_some hfo
      simpa using this
    let c1 : Ctl := { c with svcs := c.svcs.filter (fun x => !(x.ns = ns ∧ x.name = name)) }
    have hmem : ∀ x, x ∈ c1.svcs ↔ x ∈ c.svcs ∧ ¬ (x.ns = ns ∧ x.name = name) := by
      intro x
      show x ∈ c.svcs.filter _ ↔ _
      rw [List.mem_filter]
      simp only [Bool.not_eq_true', decide_eq_false_iff_not]
    show InvExcept (runAll c1 [Ev.svcDel o]) P
    have : runAll c1 [Ev.svcDel o] = serviceDelete c1 o := by simp [runAll, runEvents, handle]
    rw [this]
    unfold serviceDelete
    have hsm : ∀ h, alookup h (aerase o.host c.smap) = if h = o.host then none else alookup h c.smap :=
      fun h => alookup_aerase _ _ _
    have hcur : alookup o.host c.smap = some o := hinv.smapSome o ho (fun hq => hq)
    refine ⟨?_, hinv.noForeign, fun x hx hnp => hinv.parked x hx hnp, ?_, ?_, ?_, hinv.nodup⟩
    · intro x hx hs hnp
      unfold EntryOK
      show cacheEntry c.cache x.host x.name = buildSlice c.pods c.nodes c.byIP (alookup x.host (aerase o.host c.smap)) x
      rw [hsm]
      have := hinv.fresh x hx hs hnp
      by_cases hh : x.host = o.host
      · simp only [hh, if_true]
        rw [← hstable o hfo x hx hs hh, ← hcur, ← hh]
        exact this
      · simp only [hh, if_false]
        exact this
    · intro sv hsv _
      have hsvc := ((hmem sv).mp hsv)
      show alookup sv.host (aerase o.host c.smap) = some sv
      rw [hsm]
      have hh : sv.host ≠ o.host := by
        intro hh
        have := hwf.svcHostInj sv hsvc.1 o ho hh
        subst this
        exact hsvc.2 hon
      simp only [hh, if_false]
      exact hinv.smapSome sv hsvc.1 (fun hq => hq)
    · intro h sv hl
      have hl' : alookup h (aerase o.host c.smap) = some sv := hl
      rw [hsm] at hl'
      by_cases hh : h = o.host
      · simp [hh] at hl'
      · simp only [hh, if_false] at hl'
        obtain ⟨hm, hhost⟩ := hinv.smapOnly h sv hl'
        refine ⟨(hmem sv).mpr ⟨hm, ?_⟩, hhost⟩
        intro hsame
        have : sv = o := hwf.svcNameInj sv hm o ho (hsame.1.trans hon.1.symm) (hsame.2.trans hon.2.symm)
        subst this
        exact hh hhost.symm
    · intro h
      by_cases hh : h = o.host
      · subst hh
        unfold IdxOK
        show match alookup o.host (idxDelete c.index o.host) with | none => _ | some e => _
        unfold idxDelete
        rw [alookup_aerase_same]
        simp only []
        left
        show alookup o.host (aerase o.host c.smap) = none
        rw [alookup_aerase_same]
      · refine idxOK_unchanged c _ h ?_ rfl ?_ (hinv.index h)
        · show alookup h (idxDelete c.index o.host) = _
          unfold idxDelete
          rw [alookup_aerase_other _ _ _ hh]
        · show alookup h (aerase o.host c.smap) = _
          rw [alookup_aerase_other _ _ _ hh]

/-! ### Namespace writes -/

/-- A Namespace write touches only the namespace store when no Service of the store lives in it
    (the namespace is seen before its Services); `reprocessServicesInNamespace` then has nothing to do. -/
theorem reprocessNs_none (c : Ctl) (name : String) (h : ∀ sv ∈ c.svcs, sv.ns ≠ name) : reprocessNs c name = c := by
  have hnone : c.svcs.filter (fun sv => decide (sv.ns = name)) = [] := by
    apply List.filter_eq_nil_iff.mpr
    intro sv hsv
    simpa using h sv hsv
  simp [reprocessNs, hnone]

/-- the Namespace write does not change the traffic-distribution annotation (then the handler does nothing) -/
def NsQuiet (c : Ctl) (v : Ns) : Prop :=
  match c.nss.find? (fun n => n.name = v.name) with
  | none => v.td = false
  | some o => o.td = v.td

theorem ns_write_ctl (c : Ctl) (v : Ns) (h : (∀ sv ∈ c.svcs, sv.ns ≠ v.name) ∨ NsQuiet c v) :
    stepC c (.ns v) = some { c with nss := upsertBy (fun x => x.name = v.name) v c.nss } := by
  simp only [stepC, Option.some.injEq]
  have hfind : (upsertBy (fun x => decide (x.name = v.name)) v c.nss).find? (fun n => decide (n.name = v.name)) = some v := by
    apply find_upsertBy
    simp
  cases h with
  | inl h =>
    have hre := reprocessNs_none { c with nss := upsertBy (fun x => decide (x.name = v.name)) v c.nss } v.name h
    cases c.nss.find? (fun n => n.name = v.name) with
    | none =>
      simp only [runAll, runEvents, handle, hfind]
      split <;> simp [hre, runEvents]
    | some o =>
      simp only [runAll, runEvents, handle, hfind]
      split <;> simp [hre, runEvents]
  | inr h =>
    unfold NsQuiet at h
    cases hf : c.nss.find? (fun n => n.name = v.name) with
    | none =>
      rw [hf] at h
      simp [runAll, runEvents, handle, hfind, h]
    | some o =>
      rw [hf] at h
      simp [runAll, runEvents, handle, hfind, h]

theorem ns_delete_ctl (c : Ctl) (name : String) (c' : Ctl)
    (h : (∀ sv ∈ c.svcs, sv.ns ≠ name) ∨ ∀ o, c.nss.find? (fun n => n.name = name) = some o → o.td = false)
    (hstep : stepC c (.delNs name) = some c') :
    c' = { c with nss := c.nss.filter (fun x => !(x.name = name)) } := by
  simp only [stepC] at hstep
  cases hf : c.nss.find? (fun n => n.name = name) with
  | none => rw [hf] at hstep; cases hstep
  | some o =>
    rw [hf] at hstep
    simp only [Option.map, Option.some.injEq] at hstep
    rw [← hstep]
    have hon : o.name = name := by simpa using List.find?_some hf
    cases h with
    | inl h =>
      have hre := reprocessNs_none { c with nss := c.nss.filter (fun x => !(decide (x.name = name))) } o.name (by rw [hon]; exact h)
      simp only [runAll, runEvents, handle]
      split <;> simp [hre, runEvents]
    | inr h =>
      simp [runAll, runEvents, handle, h o hf]

theorem InvExcept.of_nss {c : Ctl} {P : Slice → Prop} {Q : Svc → Prop} (h : InvExcept c P Q) (nss' : List Ns) :
    InvExcept { c with nss := nss' } P Q :=
  ⟨h.fresh, h.noForeign, h.parked, h.smapSome, h.smapOnly, h.index, h.nodup⟩

end IstioModel.C15
