import IstioModel.Common.Wire
import IstioModel.C15.Model
import IstioModel.C15.Decide

/-! Line-protocol driver for C15 (stream `order`). See harness/c15/main.go for the line formats. -/
namespace IstioModel.C15
open IstioModel.Wire

def sortStrings (l : List String) : List String := l.mergeSort (fun a b => !(b < a))

def sortByKey {α : Type} (key : α → String) (l : List α) : List α :=
  l.mergeSort (fun a b => !(key b < key a))

/-! ### parsing -/

def parseKV (tok : String) : Labels :=
  (decList tok).map fun e =>
    match e.splitOn "=" with
    | [k] => (k, "")
    | k :: rest => (k, "=".intercalate rest)
    | [] => ("", "")

def parseNamePort (tok : String) : List (String × Nat) :=
  (decList tok).map fun e =>
    match e.splitOn ":" with
    | [n, p] => (n, p.toNat?.getD 0)
    | n :: _ => (n, 0)
    | [] => ("", 0)

def parseCond (t : String) : Option Bool :=
  if t.startsWith "t" then some true else if t.startsWith "f" then some false else none

def parseEp (e : String) : Option Ep :=
  match e.splitOn "/" with
  | [a, r, s, t, tg] =>
    let target := if tg = "-" then none else
      match tg.splitOn ":" with
      | tns :: rest => some (tns, ":".intercalate rest)
      | [] => none
    some { addrs := a.splitOn "+", ready := parseCond r, serving := parseCond s, terminating := parseCond t, target := target }
  | _ => none

def parseOp (toks : List String) : Option Op :=
  match toks with
  | ["svc", ns, name, kind, ports, sel, flags] =>
    let fl := decList flags
    some (.svc { ns := dec ns, name := dec name, kind := kind, ports := parseNamePort ports, sel := parseKV sel,
                 drain := fl.contains "drain", td := fl.contains "td" })
  | ["delsvc", ns, name] => some (.delSvc (dec ns) (dec name))
  | ["slice", ns, name, svc, atype, ports, eps] =>
    some (.slice { ns := dec ns, name := dec name, svc := dec svc, fqdn := atype == "fqdn", ports := parseNamePort ports,
                   eps := (decList eps).filterMap parseEp })
  | ["delslice", ns, name] => some (.delSlice (dec ns) (dec name))
  | ["pod", ns, name, ip, phase, ready, deleting, labels, sa, node] =>
    some (.pod { ns := dec ns, name := dec name, ip := dec ip, phase := phase, ready := ready == "1", deleting := deleting == "1",
                 labels := parseKV labels, sa := dec sa, node := dec node })
  | ["delpod", ns, name] => some (.delPod (dec ns) (dec name))
  | ["node", name, region, zone] => some (.node { name := dec name, region := dec region, zone := dec zone })
  | ["delnode", name] => some (.delNode (dec name))
  | _ => none

/-! ### printing (byte-identical to harness/c15/main.go) -/

def showMap (l : Labels) : String :=
  "&".intercalate ((sortByKey (·.1) (normLabels l)).map fun kv => kv.1 ++ "=" ++ kv.2)

def Health.tok : Health → String
  | .healthy => "H" | .unhealthy => "U" | .draining => "D" | .terminating => "T"

def showIEp (e : IEp) : String :=
  e.addr ++ ":" ++ toString e.port ++ "|" ++ e.portName ++ "|" ++ e.health.tok ++ "|1|" ++ e.sa ++ "|" ++ e.ns ++ "|" ++
    e.node ++ "|" ++ e.tls ++ "|" ++ e.locality ++ "|" ++ e.workload ++ "|" ++ showMap e.labels

def showIEps (l : List IEp) : String := "[" ++ ",".intercalate (sortStrings (l.map showIEp)) ++ "]"

def clusterIP (name : String) : String :=
  match name.toUTF8.toList with
  | b :: _ => "10.96.0." ++ toString (1 + b.toNat % 200)
  | [] => "10.96.0.1"

def showSvc (s : Svc) : String :=
  let ports := ",".intercalate (s.ports.map fun p => p.1 ++ ":" ++ toString p.2)
  let res := if s.kind == "ext" then "alias" else if s.kind == "hl" then "pass" else "eds"
  let addr := if s.kind == "cip" then clusterIP s.name else "0.0.0.0"
  let ext := if s.kind == "ext" then "ext.example.com" else ""
  let ty := if s.kind == "ext" then "ExternalName" else "ClusterIP"
  let me := if s.kind == "ext" then "1" else "0"
  let lbl := if s.drain then "istio.io/persistent-session=c" else ""
  let td := if s.td then "close" else "any"
  s.host ++ "{" ++ res ++ ";" ++ addr ++ ";" ++ ports ++ ";" ++ showMap s.sel ++ ";" ++ ext ++ ";" ++ ty ++ ";" ++ me ++ ";" ++
    lbl ++ ";" ++ td ++ "}"

def showSas (l : List String) : String := "{" ++ ",".intercalate (sortStrings l.eraseDups) ++ "}"

def showSetMap (m : List (String × List String)) : String :=
  " ".intercalate ((sortByKey (·.1) m).map fun kv => kv.1 ++ "=" ++ "+".intercalate (sortStrings kv.2))

def showState (s : Ctl) : String :=
  let svcs := (sortByKey (·.1) s.smap).map fun kv => showSvc kv.2
  let idx := sortStrings (s.index.map fun kv =>
    match kv.2.eps with
    | some eps => kv.1 ++ "/" ++ kv.2.ns ++ showIEps eps ++ showSas kv.2.sas
    | none => kv.1 ++ "/" ++ kv.2.ns ++ "-" ++ showSas kv.2.sas)
  let slc := (sortByKey (·.1) s.cache).map fun kv =>
    kv.1 ++ "{" ++ " ".intercalate ((sortByKey (·.1) kv.2).map fun se => se.1 ++ showIEps se.2) ++ "}"
  let ipby := (sortByKey (·.1) s.ipBy).map fun kv => kv.1 ++ "=" ++ kv.2
  "S[" ++ " ".intercalate svcs ++ "] X[" ++ " ".intercalate idx ++ "] C[" ++ " ".intercalate slc ++ "] I[" ++
    showSetMap s.byIP ++ "] P[" ++ " ".intercalate ipby ++ "] R[" ++ showSetMap s.resync ++ "]"

def showView (s : Ctl) : String :=
  let parts := (sortByKey (·.1) s.smap).map fun kv =>
    match alookup kv.1 s.index with
    | none => showSvc kv.2 ++ "=[]{}"
    | some e => showSvc kv.2 ++ "=" ++ showIEps (e.eps.getD []) ++ showSas e.sas
  "<" ++ " ".intercalate parts ++ ">"

def kindsDefault : List String := ["node", "svc", "pod", "slice"]

def parseOrder (tok : String) : List String :=
  let given := (decList tok).foldl (fun acc k => if kindsDefault.contains k && !acc.contains k then acc ++ [k] else acc) []
  given ++ kindsDefault.filter (fun k => !given.contains k)

/-- the final objects in the order in which the harness writes them for the cold start -/
def sortedFinal (s : Ctl) : Ctl :=
  { s with nodes := sortByKey (·.name) s.nodes, svcs := sortByKey Svc.key s.svcs,
           pods := sortByKey Pod.key s.pods, slices := sortByKey Slice.key s.slices }

def stepD (s : State) (toks : List String) : State × String :=
  match toks with
  | "case" :: _ => ({}, "ok")
  | ["hold"] => (hold s, "ok")
  | ["release"] => let s' := release s; (s', showState s'.c)
  | ["cold", order] =>
    let s' := release s
    let cold := coldRun (finalOps (sortedFinal s'.c) (parseOrder order))
    (s', "ordered=" ++ showView s'.c ++ " cold=" ++ showView cold.c)
  | _ =>
    match parseOp toks with
    | none => (s, "bad-op")
    | some op =>
      match applyOp s op with
      | none => (s, "bad-op")
      | some s' => (s', if s'.held then "queued" else showState s'.c)

end IstioModel.C15

/-! ### explanation of a divergence between an ordered run and a cold start (stream `classify`)

The model reproduces the real controller's order dependence; for a case in which the ordered run
and the cold start differ this names, per differing endpoint, which object the stale cache entry
was computed from.  Used by checks/C15.py to key known findings. -/
namespace IstioModel.C15
open IstioModel.Wire


def dropTopo (l : Labels) : Labels :=
  (normLabels l).filter fun kv => !(kv.1 == "topology.kubernetes.io/region" || kv.1 == "topology.kubernetes.io/zone")

/-- classes for one endpoint present on both sides with different content -/
def diffClasses (o c : IEp) : List String :=
  (if o.health ≠ c.health then ["health-built-before-service-known"] else []) ++
  (if o.locality ≠ c.locality then ["locality-built-before-node-change"] else []) ++
  (if o.sa ≠ c.sa ∨ o.ns ≠ c.ns ∨ o.node ≠ c.node ∨ o.workload ≠ c.workload then ["identity-of-replaced-pod"] else []) ++
  (if sortByKey (·.1) (dropTopo o.labels) ≠ sortByKey (·.1) (dropTopo c.labels) ∨ o.tls ≠ c.tls then ["labels-built-before-pod-label-change"] else [])

/-- the slice endpoint (of the final objects) an address of a host comes from -/
def sourceOf (final : Ctl) (host addr : String) : Option Ep :=
  (final.slices.filter (fun sl => sl.host = host ∧ !sl.fqdn ∧ sl.svc ≠ "")).findSome? fun sl =>
    (sl.addrPairs.find? (·.2 = addr)).map (·.1)

def classifyHost (final o c : Ctl) (host : String) : List String :=
  match hostView o host, hostView c host with
  | some vo, some vc =>
    let missing := vc.eps.filter fun e => !(vo.eps.any fun x => epKey x = epKey e)
    let extra := vo.eps.filter fun e => !(vc.eps.any fun x => epKey x = epKey e)
    let both := vo.eps.filterMap fun e => (vc.eps.find? fun x => epKey x = epKey e).map fun x => (e, x)
    let m := missing.map fun e =>
      match sourceOf final host e.addr with
      | some ep =>
        match ep.target with
        | some (tns, tn) =>
          match findPod final.pods tns tn with
          | some p => if p.ip ≠ e.addr then "waiting-address-differs-from-pod-ip" else "missing-endpoint-other"
          | none => "missing-endpoint-other"
        | none => "missing-endpoint-other"
      | none => "missing-endpoint-other"
    let x := extra.map fun e =>
      match sourceOf final host e.addr with
      | some ep =>
        match ep.target with
        | some (tns, tn) => if (findPod final.pods tns tn).isNone then "endpoint-of-deleted-pod-kept" else "extra-endpoint-other"
        | none => "extra-endpoint-other"
      | none => "extra-endpoint-other"
    let d := both.flatMap fun p => if p.1 = p.2 then [] else
      let cl := diffClasses p.1 p.2
      if cl.isEmpty then ["content-other"] else cl
    let a := if m.isEmpty ∧ x.isEmpty ∧ d.isEmpty ∧ sortStrings vo.sas.eraseDups ≠ sortStrings vc.sas.eraseDups
      then ["accounts-kept-after-endpoints-removed"] else []
    let sv := if vo.svc ≠ vc.svc then ["service-differs"] else []
    m ++ x ++ d ++ a ++ sv
  | none, none => []
  | _, _ => ["service-set-differs"]

def classify (final o c : Ctl) : List String :=
  let hosts := (akeys o.smap ++ akeys c.smap).eraseDups
  sortStrings (hosts.flatMap (classifyHost final o c)).eraseDups

/-- classify stream state: the model state and the operations of the case so far (reversed) -/
structure CState where
  s : State := {}
  ops : List Op := []

/-- does the history lie in the class of `convergence_any_order` (every step good)?  `-` for
    histories with `hold` (outside the class by definition) -/
def goodTok (ops : List Op) : String :=
  if ops.any (fun o => decide (o = Op.hold)) then "-"
  else if decide (AllGood {} ops) then "1" else "0"

/-- the side conditions of `convergence_to_derive` on the final objects -/
def sideOK (c : Ctl) : Bool :=
  decide (WF c) && decide (NoCachedAddr c) && decide (NoPodAtUntargeted c) &&
    (c.svcs.all fun sv => decide (DistinctB c sv.host))

/-- the conclusion of `convergence_to_derive`, evaluated: per hostname same service, same endpoint
    set, same service-account set when there are endpoints -/
def agreesWithDerive (c : Ctl) : Bool :=
  ((akeys c.smap ++ c.svcs.map Svc.host).eraseDups).all fun h =>
    match hostView c h, derive c h with
    | some v, some d =>
      decide (v.svc = d.svc) && showIEps v.eps == showIEps d.eps &&
        (v.eps.isEmpty || showSas v.sas == showSas d.sas)
    | none, none => true
    | _, _ => false

def stepClassify (cs : CState) (toks : List String) : CState × String :=
  match toks with
  | "case" :: _ => ({}, "-")
  | ["cold", order] =>
    let s' := release cs.s
    let cold := coldRun (finalOps (sortedFinal s'.c) (parseOrder order))
    let cls := classify s'.c s'.c cold.c
    let ops := cs.ops.reverse
    let g := goodTok ops
    let verdict := if showView s'.c = showView cold.c then "same" else
      "cls=" ++ (if cls.isEmpty then "unexplained" else ",".intercalate cls)
    ({ cs with s := s' }, verdict ++ " good=" ++ g ++ " side=" ++ boolTok (sideOK s'.c) ++ " derive=" ++
      boolTok (agreesWithDerive s'.c))
  | _ =>
    let s' := (stepD cs.s toks).1
    let ops := match toks with
      | ["hold"] => Op.hold :: cs.ops
      | ["release"] => Op.release :: cs.ops
      | _ => match parseOp toks with
        | some op => if (applyOp cs.s op).isSome then op :: cs.ops else cs.ops
        | none => cs.ops
    ({ s := s', ops := ops }, "-")

end IstioModel.C15
