import IstioModel.Common.Wire
import IstioModel.C15.Model
import IstioModel.C15.Decide

/-! Line-protocol driver for C15 (stream `order`). See harness/c15/main.go for the line formats. -/
namespace IstioModel.C15
open IstioModel.Wire

def sortStrings (l : List String) : List String := l.mergeSort (fun a b => !(b < a))

def sortByKey {α : Type} (key : α → String) (l : List α) : List α :=
  l.mergeSort (fun a b => !(key b < key a))

/-! ### parsing -/

def parseKV (tok : String) : Labels :=
  (decList tok).map fun e =>
    match e.splitOn "=" with
    | [k] => (k, "")
    | k :: rest => (k, "=".intercalate rest)
    | [] => ("", "")

def parseNamePort (tok : String) : List (String × Nat) :=
  (decList tok).map fun e =>
    match e.splitOn ":" with
    | [n, p] => (n, p.toNat?.getD 0)
    | n :: _ => (n, 0)
    | [] => ("", 0)

/-- slice ports: the name `nil` is a nil pointer (empty name), port 0 a nil port -/
def parseSlicePorts (tok : String) : List (String × Nat) :=
  (parseNamePort tok).map fun p => (if p.1 == "nil" then "" else p.1, p.2)

def parseCond (t : String) : Option Bool :=
  if t.startsWith "t" then some true else if t.startsWith "f" then some false else none

def parseEp (e : String) : Option Ep :=
  match e.splitOn "/" with
  | [a, r, s, t, tg] =>
    -- "!ns:name" is a targetRef whose Kind is not Pod: handled like no targetRef
    let target := if tg = "-" || tg.startsWith "!" then none else
      match tg.splitOn ":" with
      | tns :: rest => some (tns, ":".intercalate rest)
      | [] => none
    some { addrs := a.splitOn "+", ready := parseCond r, serving := parseCond s, terminating := parseCond t, target := target }
  | _ => none

def parseOp (toks : List String) : Option Op :=
  match toks with
  | ["svc", ns, name, kind, ports, sel, flags] =>
    let fl := decList flags
    some (.svc { ns := dec ns, name := dec name, kind := kind, ports := parseNamePort ports, sel := parseKV sel,
                 drain := fl.contains "drain",
                 -- spec.trafficDistribution ("std") and the Service annotation ("td") both win over the namespace's
                 td := fl.contains "td" || fl.contains "std", x := fl.contains "x",
                 sas := fl.contains "sa", csa := fl.contains "csa", eip := fl.contains "eip", nl := fl.contains "nl" })
  | ["delsvc", ns, name] => some (.delSvc (dec ns) (dec name))
  | ["slice", ns, name, svc, atype, ports, eps] =>
    -- a slice with the MCS service-name label ("M:<svc>") is invisible to the controller (endpointSliceSelector): no op
    if (dec svc).startsWith "M:" then none else
    some (.slice { ns := dec ns, name := dec name, svc := dec svc, fqdn := atype == "fqdn", ports := parseSlicePorts ports,
                   eps := (decList eps).filterMap parseEp })
  | ["delslice", ns, name] => some (.delSlice (dec ns) (dec name))
  | ["pod", ns, name, ip, phase, ready, deleting, labels, sa, node] =>
    some (.pod { ns := dec ns, name := dec name, ip := dec ip, phase := phase, ready := ready == "1", deleting := deleting == "1",
                 labels := parseKV labels, sa := dec sa, node := dec node })
  | ["delpod", ns, name] => some (.delPod (dec ns) (dec name))
  | ["node", name, region, zone] =>
    -- "L:<v>" = the legacy failure-domain label (same value), zone "<z>/<subzone>"
    let strip := fun (v : String) => if v.startsWith "L:" then (v.drop 2).toString else v
    let zs := (dec zone).splitOn "/"
    some (.node { name := dec name, region := strip (dec region), zone := strip (zs.headD ""),
                  sub := "/".intercalate (zs.drop 1) })
  | ["delnode", name] => some (.delNode (dec name))
  | ["ns", name, td] => some (.ns { name := dec name, td := td == "close" })
  | ["delns", name] => some (.delNs (dec name))
  | _ => none

/-! ### printing (byte-identical to harness/c15/main.go) -/

def showMap (l : Labels) : String :=
  "&".intercalate ((sortByKey (·.1) (normLabels l)).map fun kv => kv.1 ++ "=" ++ kv.2)

def Health.tok : Health → String
  | .healthy => "H" | .unhealthy => "U" | .draining => "D" | .terminating => "T"

def showIEp (e : IEp) : String :=
  e.addr ++ ":" ++ toString e.port ++ "|" ++ e.portName ++ "|" ++ e.health.tok ++ "|1|" ++ e.sa ++ "|" ++ e.ns ++ "|" ++
    e.node ++ "|" ++ e.tls ++ "|" ++ e.locality ++ "|" ++ e.workload ++ "|" ++ e.network ++ "|" ++ e.hostname ++ "|" ++
    e.subdomain ++ "|" ++ showMap e.labels

def showIEps (l : List IEp) : String := "[" ++ ",".intercalate (l.map showIEp) ++ "]"

def clusterIP (name : String) : String :=
  match name.toUTF8.toList with
  | b :: _ => "10.96.0." ++ toString (1 + b.toNat % 200)
  | [] => "10.96.0.1"

def showSvc (s : Svc) : String :=
  let proto := fun (n : String) => if n.startsWith "http" then "HTTP" else if n.startsWith "tcp" then "TCP" else "UnsupportedProtocol"
  let ports := ",".intercalate (s.ports.map fun p => p.1 ++ ":" ++ toString p.2 ++ ":" ++ proto p.1)
  let res := if s.kind == "ext" then "alias" else if s.kind == "hl" then "pass" else "eds"
  let addr := if s.kind == "cip" || s.kind == "lb" then clusterIP s.name else "0.0.0.0"
  let ext := if s.kind == "ext" then "ext.example.com" else ""
  let ty := if s.kind == "ext" then "ExternalName" else if s.kind == "lb" then "LoadBalancer" else "ClusterIP"
  let extAddrs := (if s.kind == "lb" then ["1.2.3.4"] else []) ++ (if s.eip then ["5.6.7.8"] else [])
  let me := if s.kind == "ext" then "1" else "0"
  let lbl := if s.drain then "istio.io/persistent-session=c" else ""
  let td := if s.td then "close" else "any"
  s.host ++ "{" ++ res ++ ";" ++ addr ++ ";" ++ ports ++ ";" ++ showMap s.sel ++ ";" ++ ext ++ ";" ++ ty ++ ";" ++ me ++ ";" ++
    lbl ++ ";" ++ td ++ ";" ++ (if s.x then "~" else "") ++ ";" ++
    "+".intercalate ((if s.csa then ["spiffe://cluster.local/ns/x/sa/canon"] else []) ++
      (if s.sas then ["spiffe://cluster.local/ns/" ++ s.ns ++ "/sa/acct1", "spiffe://cluster.local/ns/" ++ s.ns ++ "/sa/acct2"] else [])) ++
    ";" ++ addr ++ ";" ++ "+".intercalate extAddrs ++ ";" ++ (if s.nl then "1" else "0") ++ "}"

def showSas (l : List String) : String := "{" ++ ",".intercalate (sortStrings l.eraseDups) ++ "}"

def showSetMap (m : List (String × List String)) : String :=
  " ".intercalate ((sortByKey (·.1) m).map fun kv => kv.1 ++ "=" ++ "+".intercalate (sortStrings kv.2))

def showState (s : Ctl) : String :=
  let svcs := (sortByKey (·.1) s.smap).map fun kv => showSvc kv.2
  let idx := sortStrings (s.index.map fun kv =>
    match kv.2.eps with
    | some eps => kv.1 ++ "/" ++ kv.2.ns ++ showIEps eps ++ showSas kv.2.sas
    | none => kv.1 ++ "/" ++ kv.2.ns ++ "-" ++ showSas kv.2.sas)
  let slc := (sortByKey (·.1) s.cache).map fun kv =>
    kv.1 ++ "{" ++ " ".intercalate ((sortByKey (·.1) kv.2).map fun se => se.1 ++ showIEps se.2) ++ "}"
  let ipby := (sortByKey (·.1) s.ipBy).map fun kv => kv.1 ++ "=" ++ kv.2
  "S[" ++ " ".intercalate svcs ++ "] X[" ++ " ".intercalate idx ++ "] C[" ++ " ".intercalate slc ++ "] I[" ++
    showSetMap s.byIP ++ "] P[" ++ " ".intercalate ipby ++ "] R[" ++ showSetMap s.resync ++ "]"

/-- the endpoint SET (the property view; the full dump keeps the list) -/
def showIEpSet (l : List IEp) : String := "[" ++ ",".intercalate (sortStrings (l.map showIEp)) ++ "]"

def showView (s : Ctl) : String :=
  let parts := (sortByKey (·.1) s.smap).map fun kv =>
    match alookup kv.1 s.index with
    | none => showSvc kv.2 ++ "=[]{}"
    | some e => showSvc kv.2 ++ "=" ++ showIEpSet (e.eps.getD []) ++ showSas e.sas
  "<" ++ " ".intercalate parts ++ ">"

def kindsDefault : List String := ["node", "ns", "svc", "pod", "slice"]

def parseOrder (tok : String) : List String :=
  let given := (decList tok).foldl (fun acc k => if kindsDefault.contains k && !acc.contains k then acc ++ [k] else acc) []
  given ++ kindsDefault.filter (fun k => !given.contains k)

/-- the final objects in the order in which the harness writes them for the cold start -/
def sortedFinal (s : Ctl) : Ctl :=
  { s with nodes := sortByKey (·.name) s.nodes, nss := sortByKey (·.name) s.nss, svcs := sortByKey Svc.key s.svcs,
           pods := sortByKey Pod.key s.pods, slices := sortByKey Slice.key s.slices }

/-- the creates of a cold start: kinds in the given order, within a kind sorted by key - reversed when the order token
    contains `rev` (the list order of an informer is not specified) -/
def coldOpsOf (s : Ctl) (orderTok : String) : List Op :=
  let f := sortedFinal s
  let f := if (decList orderTok).contains "rev" then
      { f with nodes := f.nodes.reverse, nss := f.nss.reverse, svcs := f.svcs.reverse, pods := f.pods.reverse,
               slices := f.slices.reverse }
    else f
  finalOps f (parseOrder orderTok)

/-- is the op a write / delete of a slice with the MCS service-name label?  Such slices exist at the API
    server but are invisible to the controller (`endpointSliceSelector`): the model has no object for them,
    the driver only remembers their keys so that their deletion is an applicable (no-effect) op. -/
def mcsKey (toks : List String) : Option String :=
  match toks with
  | ["slice", ns, name, svc, _, _, _] => if (dec svc).startsWith "M:" then some (dec ns ++ "/" ++ dec name) else none
  | _ => none

structure DState where
  s : State := {}
  mcs : List String := []

def stepD0 (s : State) (toks : List String) : State × String :=
  match toks with
  | "case" :: _ => ({}, "ok")
  | ["hold"] => (hold s, "ok")
  | ["release"] => let s' := release s; (s', showState s'.c)
  | ["cold", order] =>
    let s' := release s
    let cold := coldRun (coldOpsOf s'.c order)
    (s', "ordered=" ++ showView s'.c ++ " cold=" ++ showView cold.c)
  | _ =>
    match parseOp toks with
    | none => (s, "bad-op")
    | some op =>
      match applyOp s op with
      | none => (s, "bad-op")
      | some s' => (s', if s'.held then "queued" else showState s'.c)

def stepD (d : DState) (toks : List String) : DState × String :=
  let same := if d.s.held then "queued" else showState d.s.c
  match toks with
  | "case" :: _ => ({}, "ok")
  | ["delslice", ns, name] =>
    let k := dec ns ++ "/" ++ dec name
    if d.mcs.contains k then ({ d with mcs := d.mcs.filter (· ≠ k) }, same)
    else let r := stepD0 d.s toks; ({ d with s := r.1 }, r.2)
  | _ =>
    match mcsKey toks with
    | some k => ({ d with mcs := if d.mcs.contains k then d.mcs else d.mcs ++ [k] }, same)
    | none => let r := stepD0 d.s toks; ({ d with s := r.1 }, r.2)

end IstioModel.C15

/-! ### explanation of a divergence between an ordered run and a cold start (stream `classify`)

The model reproduces the real controller's order dependence; for a case in which the ordered run
and the cold start differ this names, per differing endpoint, which object the stale cache entry
was computed from.  Used by checks/C15.py to key known findings. -/
namespace IstioModel.C15
open IstioModel.Wire


def dropTopo (l : Labels) : Labels :=
  (normLabels l).filter fun kv => !(kv.1 == "topology.kubernetes.io/region" || kv.1 == "topology.kubernetes.io/zone" ||
    kv.1 == "topology.istio.io/subzone")

/-- a symptom: what differs between the ordered run and the cold start, on which hostname, and the
    object the differing endpoint was built from (pod key, node name, address ...) -/
structure Symptom where
  cls : String
  host : String
  obj : String
  pod : String := ""
  pod2 : String := ""     -- the pod of the same endpoint on the other side (conflicting duplicates across slices)
  addr : String := ""
  node : String := ""
  epAddr : String := ""   -- the address of the endpoint the symptom is about (to find the slice that holds it)
  deriving Repr

def mkSy (cls host obj : String) (pod : String := "") (pod2 : String := "") (addr : String := "") (node : String := "") : Symptom :=
  { cls := cls, host := host, obj := obj, pod := pod, pod2 := pod2, addr := addr, node := node, epAddr := addr }

def podKeyOf (e : IEp) : String := e.ns ++ "/" ++ e.workload

/-- the slice endpoint (of the final objects) an address of a host comes from; with duplicates across
    slices, one whose pod is known (it is the one that builds an endpoint) is preferred -/
def sourceOf (final : Ctl) (host addr : String) (portName : String := "*") (podHint : String := "") : Option Ep :=
  -- sibling slices may have different port lists: the endpoint (address, port name) comes from a slice with that port
  let cands := (final.slices.filter (fun sl => sl.host = host ∧ !sl.fqdn ∧ sl.svc ≠ "" ∧
      (portName = "*" ∨ sl.ports.any (·.1 = portName)))).flatMap fun sl =>
    (sl.addrPairs.filter (·.2 = addr)).map (·.1)
  -- first a candidate whose targetRef names the pod the endpoint was built from (namespace/workload - the pod name unless
  -- an owner reference or the workload-name label renames it), then one whose pod is known
  match cands.find? (fun ep => podHint ≠ "" && (match ep.target with
      | some (tns, tn) => tns ++ "/" ++ tn == podHint
      | none => false)) with
  | some ep => some ep
  | none =>
  match cands.find? (fun ep => match ep.target with
      | some (tns, tn) => (findPod final.pods tns tn).isSome
      | none => true) with
  | some ep => some ep
  | none => cands.head?

def untargeted (final : Ctl) (host addr : String) (portName : String := "*") : Bool :=
  match sourceOf final host addr portName with
  | some ep => ep.target.isNone
  | none => false

/-- symptoms for one endpoint present on both sides with different content -/
def diffSymptoms (host : String) (o c : IEp) (src : Option String := none) : List Symptom :=
  -- the pod of the endpoint: the targetRef of its source slice (the workload name need not be the pod name)
  let pk := src.getD (if o.workload ≠ "" then podKeyOf o else podKeyOf c)
  let pk2 := podKeyOf c
  (if o.health ≠ c.health then [mkSy "health" host host pk pk2 o.addr] else []) ++
  (if o.locality ≠ c.locality then [mkSy "locality" host (if o.node ≠ "" then o.node else c.node) pk pk2 o.addr] else []) ++
  (if o.sa ≠ c.sa ∨ o.ns ≠ c.ns ∨ o.node ≠ c.node ∨ o.workload ≠ c.workload ∨ o.network ≠ c.network ∨ o.hostname ≠ c.hostname ∨
      o.subdomain ≠ c.subdomain then [mkSy "identity" host pk pk pk2 o.addr] else []) ++
  (if sortByKey (·.1) (dropTopo o.labels) ≠ sortByKey (·.1) (dropTopo c.labels) ∨ o.tls ≠ c.tls then
    [mkSy "labels" host pk pk pk2 o.addr] else [])

def symptomsHost (final o c : Ctl) (host : String) : List Symptom :=
  match hostView o host, hostView c host with
  | some vo, some vc =>
    let missing := vc.eps.filter fun e => !(vo.eps.any fun x => epKey x = epKey e)
    let extra := vo.eps.filter fun e => !(vc.eps.any fun x => epKey x = epKey e)
    let both := vo.eps.filterMap fun e => (vc.eps.find? fun x => epKey x = epKey e).map fun x => (e, x)
    let m := missing.map fun e =>
      if untargeted final host e.addr e.portName then { cls := "untargeted", host := host, obj := e.addr, epAddr := e.addr } else
      match sourceOf final host e.addr e.portName with
      | some ep =>
        match ep.target with
        | some (tns, tn) => { cls := "missing", host := host, obj := tns ++ "/" ++ tn, epAddr := e.addr : Symptom }
        | none => { cls := "missing", host := host, obj := e.addr, epAddr := e.addr }
      | none => { cls := "missing", host := host, obj := e.addr, epAddr := e.addr }
    let x := extra.map fun e =>
      if untargeted final host e.addr e.portName then { cls := "untargeted", host := host, obj := e.addr, epAddr := e.addr } else
      match sourceOf final host e.addr e.portName (podKeyOf e) with
      | some ep =>
        match ep.target with
        | some (tns, tn) => { cls := "extra", host := host, obj := tns ++ "/" ++ tn, epAddr := e.addr : Symptom }
        | none => { cls := "extra", host := host, obj := e.addr, epAddr := e.addr }
      | none => { cls := "extra-no-source", host := host, obj := e.addr, epAddr := e.addr }
    let d := both.flatMap fun p => if p.1 = p.2 then [] else
      let src := (sourceOf final host p.1.addr p.1.portName (podKeyOf p.1)).bind fun ep => ep.target.map fun t => t.1 ++ "/" ++ t.2
      let cl := diffSymptoms host p.1 p.2 src
      if untargeted final host p.1.addr p.1.portName then
        -- an endpoint without targetRef: its health is its own, everything else comes from the pod found by IP
        (cl.filter (·.cls == "health")) ++
          (if (cl.any (·.cls != "health")) || cl.isEmpty then
            [mkSy "untargeted" host p.1.addr (if p.1.workload ≠ "" then podKeyOf p.1 else podKeyOf p.2) (podKeyOf p.2) p.1.addr
              (if p.1.node ≠ "" then p.1.node else p.2.node)] else [])
      else if cl.isEmpty then
        -- same (address, port name), other port number: sibling slices with different port lists, and the first-wins
        -- deduplication of `get` picked another slice - a by-product of an endpoint missing / kept elsewhere
        (if p.1.port ≠ p.2.port then [{ cls := "dup", host := host, obj := p.1.addr, addr := p.1.addr, epAddr := "" }]
         else [{ cls := "content-other", host := host, obj := p.1.addr, epAddr := p.1.addr }])
      else cl
    let a := if m.isEmpty ∧ x.isEmpty ∧ d.isEmpty ∧ sortStrings vo.sas.eraseDups ≠ sortStrings vc.sas.eraseDups
      then [{ cls := "accounts", host := host, obj := host : Symptom }] else []
    let sv := if vo.svc ≠ vc.svc then [{ cls := "service-differs", host := host, obj := host : Symptom }] else []
    m ++ x ++ d ++ a ++ sv
  | none, none => []
  | _, _ => [{ cls := "service-set-differs", host := host, obj := host }]

def symptoms (final o c : Ctl) : List Symptom :=
  ((akeys o.smap ++ akeys c.smap).eraseDups).flatMap (symptomsHost final o c)

/-! #### causes: the steps of a history that fall outside `GoodStep`, named by the clause they violate

`(clause, object)`; the clause names are the known-finding fingerprints. -/

def refsPod (c : Ctl) (ns name : String) : Bool :=
  c.slices.any fun sl => sl.addrPairs.any fun ea => ea.1.target == some (ns, name)

/-- untargeted endpoints (no targetRef) of namespace `ns` at address `ip`: their pod is looked up in the
    pod cache when the slice is handled and never refreshed -/
def untargetedAt (c : Ctl) (ns ip : String) : Bool :=
  ip ≠ "" && c.slices.any fun sl => sl.ns == ns && sl.addrPairs.any fun ea => ea.1.target.isNone && ea.2 == ip

def causesOf (c : Ctl) (op : Op) : List (String × String) :=
  match op with
  | .slice v =>
    match findSlice c.slices v.ns v.name with
    | some o => if o.fqdn ≠ v.fqdn then [("entry-of-retyped-slice-kept", o.host)] else []
    | none => []
  | .svc v => if decide (SvcIrrelevant c v.host (alookup v.host c.smap) (some v)) then [] else
      [("health-built-before-service-known", v.host)]
  | .delSvc ns name =>
    match findSvc c.svcs ns name with
    | some o => if decide (SvcIrrelevant c o.host (some o) none) then [] else [("health-built-before-service-known", o.host)]
    | none => []
  | .pod v =>
    let key := v.key
    match findPod c.pods v.ns v.name with
    | none =>
      if v.phase = "F" then [] else
      (if c.slices.any (fun sl => sl.addrPairs.any fun ea => ea.1.target == some (v.ns, v.name) && (ea.2 ≠ v.ip || v.ip = ""))
        then [("waiting-address-differs-from-pod-ip", key)] else []) ++
      -- the pod is RE-created: a slice that refers to it still shows the endpoint it built from the deleted
      -- predecessor of the same name (nothing is parked for it, so the new pod's events do not replay it)
      (if c.slices.any (fun sl => sl.addrPairs.any fun ea => ea.1.target == some (v.ns, v.name) &&
            ((cacheEntry c.cache sl.host sl.name).getD []).any (·.addr == ea.2))
        then [("identity-of-replaced-pod", key)] else []) ++
      (if untargetedAt c v.ns v.ip then [("untargeted-endpoint-pod-lookup-stale", v.ip)] else [])
    | some o =>
      (if v.phase = "F" then
        (if refsPod c v.ns v.name then [("endpoint-of-deleted-pod-kept", key)] else [])
       else
        (if normLabels o.labels ≠ normLabels v.labels ∧ refsPod c v.ns v.name ∧ ¬ PodLabelGood c v then
          [("labels-built-before-pod-label-change", key)] else []) ++
        -- an in-place change of node / service account replays the slices that refer to the pod (fix ab6ec60): no cause,
        -- unless a slice of ANOTHER namespace refers to it (only the pod's namespace is listed)
        (if idChanged o v ∧
            c.slices.any (fun sl => sl.ns ≠ v.ns && sl.addrPairs.any fun ea => ea.1.target == some (v.ns, v.name)) then
          [("pod-of-another-namespace-updated-after-slice-built", key)] else [])) ++
      (if untargetedAt c v.ns v.ip then [("untargeted-endpoint-pod-lookup-stale", v.ip)] else []) ++
      (if o.ip ≠ v.ip ∧ untargetedAt c v.ns o.ip then [("untargeted-endpoint-pod-lookup-stale", o.ip)] else [])
  | .delPod ns name =>
    match findPod c.pods ns name with
    | some o =>
      (if refsPod c ns name then [("endpoint-of-deleted-pod-kept", o.key)] else []) ++
      (if untargetedAt c ns o.ip then [("untargeted-endpoint-pod-lookup-stale", o.ip)] else [])
    | none => []
  | .node v =>
    let nodes' := upsertBy (fun x => x.name = v.name) v c.nodes
    if c.pods.any (fun p => localityOf nodes' p ≠ localityOf c.nodes p) then [("locality-built-before-node-change", v.name)] else []
  | .delNode name =>
    let nodes' := c.nodes.filter (·.name ≠ name)
    if c.pods.any (fun p => localityOf nodes' p ≠ localityOf c.nodes p) then [("locality-built-before-node-change", name)] else []
  | _ => []

/-- hostnames whose index entry lost its endpoints but kept service accounts in this step -/
def accountsKept (c c' : Ctl) : List (String × String) :=
  c'.index.filterMap fun kv =>
    if kv.2.eps.isNone && !kv.2.sas.isEmpty &&
        (match alookup kv.1 c.index with | some e => e.eps.isSome | none => true) then
      some ("accounts-kept-after-endpoints-removed", kv.1)
    else none

/-- inside a hold window the handlers see later versions of the pod than the one their event carries:
    whether a label edit is recomputed cannot be read off the synchronous flattening, so every label
    edit on a referenced pod counts -/
def heldLabelCause (c : Ctl) (op : Op) : List (String × String) :=
  match op with
  | .pod v =>
    match findPod c.pods v.ns v.name with
    | some o => if normLabels o.labels ≠ normLabels v.labels ∧ (refsPod c v.ns v.name ∨ untargetedAt c v.ns v.ip) then
        [("labels-built-before-pod-label-change", v.key)] else []
    | none => []
  | _ => []

/-- the version of a pod its handler will see when the window is released: the last write to it before
    the next `release` (`none`: not written again) -/
def latestPodInWindow : List Op → String → String → Option Pod
  | [], _, _ => none
  | .release :: _, _, _ => none
  | .pod v :: r, ns, name =>
    if v.ns = ns ∧ v.name = name then (match latestPodInWindow r ns name with | some w => some w | none => some v)
    else latestPodInWindow r ns name
  | _ :: r, ns, name => latestPodInWindow r ns name

/-- a pod event handled inside a window sees that later version: does it still carry the awaited IP? -/
def heldArrivalCause (c : Ctl) (op : Op) (rest : List Op) : List (String × String) :=
  match op with
  | .pod v =>
    match latestPodInWindow rest v.ns v.name with
    | some w => (causesOf { c with pods := c.pods.filter (fun p => !(p.ns = v.ns ∧ p.name = v.name)) } (.pod w)).filter
        (·.1 == "waiting-address-differs-from-pod-ip")
    | none => []
  | _ => []

/-- a cause: clause, object, and the index of the step of the history it happens at -/
abbrev Cause := String × String × Nat

/-- index for causes that are not tied to a step of the ordered history (the order of a cold start; the
    accounts kept by the index) -/
def anyTime : Nat := 1000000

def atStep (i : Nat) (l : List (String × String)) : List Cause := l.map fun c => (c.1, c.2, i)

/-- all causes along a history; the stores-ahead schedule of a `hold` window is approximated by its
    synchronous flattening (plus `heldLabelCause`) -/
def causesAlong : Nat → Ctl → Bool → List Op → List Cause
  | _, _, _, [] => []
  | i, c, _, .hold :: r => causesAlong (i + 1) c true r
  | i, c, _, .release :: r => causesAlong (i + 1) c false r
  | i, c, held, op :: r =>
    let c' := (stepC c op).getD c
    atStep i (causesOf c op ++ (if held then heldLabelCause c op ++ heldArrivalCause c op r else [])) ++
      atStep anyTime (accountsKept c c') ++ causesAlong (i + 1) c' held r

/-- the step at which the slice holding the endpoint (hostname, address) of the final objects was last written:
    a cause can only explain a symptom of that endpoint if it comes at or after it (an earlier stale entry was
    repaired by that write).  With several holders the earliest such step; 0 without holder. -/
def lastWriteOf (ops : List Op) (final : Ctl) (host addr : String) : Nat :=
  let holders := final.slices.filter fun sl => sl.host = host ∧ sl.allAddrs.contains addr
  let idx := holders.map fun sl =>
    ((ops.zipIdx.filter fun oi => match oi.1 with
        | .slice v => v.ns = sl.ns ∧ v.name = sl.name
        | _ => false).map (·.2)).foldl max 0
  match idx with
  | [] => 0
  | x :: r => r.foldl min x

/-- which cause explains a symptom: the clause and the object must both match, and the cause must not precede
    the last write of the slice that holds the endpoint -/
def explains (final : Ctl) (ops : List Op) (sy : Symptom) (cause : Cause) : Bool :=
  let cl := cause.1
  let ob := cause.2.1
  let late := sy.epAddr = "" || cause.2.2 ≥ lastWriteOf ops final sy.host sy.epAddr
  -- a stale or missing entry of one of the two pods involved explains any content difference of the endpoint
  let stalePod := (cl == "endpoint-of-deleted-pod-kept" || cl == "identity-of-replaced-pod" ||
      cl == "waiting-address-differs-from-pod-ip") && (ob == sy.pod || ob == sy.pod2) ||
    -- ... as does a duplicate of the address without targetRef
    (cl == "untargeted-endpoint-pod-lookup-stale" && sy.addr ≠ "" && ob == sy.addr)
  -- ... or of a pod that a slice of the hostname targets at this very address (sibling slices: the first-wins choice of
  -- `get` shows the stale endpoint of one slice on one side and the fresh endpoint of another slice on the other)
  let stalePod := stalePod || ((cl == "endpoint-of-deleted-pod-kept" || cl == "identity-of-replaced-pod" ||
      cl == "waiting-address-differs-from-pod-ip") && sy.addr ≠ "" &&
    final.slices.any fun sl => sl.host == sy.host && sl.addrPairs.any fun ea =>
      ea.2 == sy.addr && (match ea.1.target with | some t => t.1 ++ "/" ++ t.2 == ob | none => false))
  late && match sy.cls with
  | "dup" => stalePod
  | "health" => (cl == "health-built-before-service-known" && ob == sy.host) || stalePod
  | "locality" => (cl == "locality-built-before-node-change" && ob == sy.obj) || stalePod ||
      (cl == "pod-of-another-namespace-updated-after-slice-built" && (ob == sy.pod || ob == sy.pod2))
  | "labels" => (cl == "labels-built-before-pod-label-change" && (ob == sy.pod || ob == sy.pod2)) || stalePod ||
      (cl == "pod-of-another-namespace-updated-after-slice-built" && (ob == sy.pod || ob == sy.pod2))
  | "identity" => stalePod || (cl == "pod-of-another-namespace-updated-after-slice-built" && (ob == sy.pod || ob == sy.pod2))
  | "extra" => cl == "endpoint-of-deleted-pod-kept" && ob == sy.obj
  | "missing" => cl == "waiting-address-differs-from-pod-ip" && ob == sy.obj
  | "accounts" => cl == "accounts-kept-after-endpoints-removed" && ob == sy.host
  | "untargeted" => (cl == "untargeted-endpoint-pod-lookup-stale" && ob == sy.obj) || stalePod ||
      (cl == "locality-built-before-node-change" && sy.node ≠ "" && ob == sy.node) ||
      (cl == "labels-built-before-pod-label-change" && (ob == sy.pod || ob == sy.pod2))
  | "extra-no-source" => cl == "entry-of-retyped-slice-kept" && ob == sy.host
  | _ => false

/-- the verdict for a diverging case: every symptom with the cause (a step outside `GoodStep`, by
    clause name) that explains it, or `unexplained:<symptom>` -/
def classify (final o c : Ctl) (ops : List Op) (causes : List Cause) : List String :=
  let sys := symptoms final o c
  let main := sys.filter (·.cls != "dup")
  -- the LAST explaining cause names the class (the step closest to the end: a re-created pod rather than its earlier delete)
  let out := main.map fun sy =>
    match causes.reverse.find? (explains final ops sy) with
    | some cause => cause.1
    | none => "unexplained:" ++ sy.cls
  -- a `dup` symptom is explained by whatever explains another symptom of the same hostname
  let dups := (sys.filter (·.cls == "dup")).filterMap fun sy =>
    if main.any (fun m => m.host == sy.host && (causes.find? (explains final ops m)).isSome) then none
    else match causes.reverse.find? (explains final ops sy) with
      | some cause => some cause.1
      | none => some "unexplained:dup"
  sortStrings (out ++ dups).eraseDups

/-- classify stream state: the model state and the operations of the case so far (reversed) -/
structure CState where
  s : State := {}
  ops : List Op := []
  /-- causes observed on the actual (possibly stores-ahead) run: index entries that lost their endpoints
      and kept their service accounts -/
  seen : List (String × String) := []

/-- does the history lie in the class of `convergence_any_order` (every step good)?  `-` for
    histories with `hold` (outside the class by definition), `s` when every step is good but a slice is
    still stale or waiting at the end (a pod was deleted and the slice controller has not rewritten the slice,
    or a pod a slice refers to has no IP yet: `convergence_to_derive` does not apply) -/
def goodTok (ops : List Op) : String :=
  if ops.any (fun o => decide (o = Op.hold)) then "-"
  else if decide (AllGood {} [] [] ops) then
    (if (staleRun {} [] [] ops).isEmpty && (waitRun {} [] [] ops).isEmpty then "1" else "s") else "0"

def opKind : Op → String
  | .svc _ => "svc" | .delSvc _ _ => "delsvc" | .slice _ => "slice" | .delSlice _ _ => "delslice"
  | .pod _ => "pod" | .delPod _ _ => "delpod" | .node _ => "node" | .delNode _ => "delnode"
  | .ns _ => "ns" | .delNs _ => "delns" | .hold => "hold" | .release => "release"

/-- the first step of a history that is not good (diagnostics for the coverage counters) -/
def firstBad : Ctl → StaleSet → WaitSet → Nat → List Op → String
  | _, _, _, _, [] => "none"
  | c, st, wp, i, o :: r =>
    if decide (GoodStep c st wp o) then
      firstBad ((stepC c o).getD c) (if (stepC c o).isSome then staleStep c st o else st)
        (if (stepC c o).isSome then waitStep c st wp o else wp) (i + 1) r
    else toString i ++ ":" ++ opKind o

/-- the side conditions of `convergence_to_derive` on the final objects -/
def sideOK (c : Ctl) : Bool :=
  decide (WF c) && decide (NoPodAtUntargeted c) && decide (c.slices.Nodup)

/-- `ViewAgree` of the views of `c` with `derive d`, evaluated for every hostname: same service, same
    endpoint LIST, same service accounts when there are endpoints -/
def agreesWith (c d : Ctl) : Bool :=
  ((akeys c.smap ++ c.svcs.map Svc.host ++ d.svcs.map Svc.host).eraseDups).all fun h =>
    match hostView c h, derive d h with
    | some v, some d =>
      decide (v.svc = d.svc) && decide (v.eps = d.eps) && (v.eps.isEmpty || decide (v.sas = d.sas))
    | none, none => true
    | _, _ => false

/-- `ViewAgree` between the views of two controllers, evaluated for every hostname -/
def viewsAgree (c d : Ctl) : Bool :=
  ((akeys c.smap ++ akeys d.smap).eraseDups).all fun h =>
    match hostView c h, hostView d h with
    | some v, some w =>
      decide (v.svc = w.svc) && decide (v.eps = w.eps) && (v.eps.isEmpty || decide (v.sas = w.sas))
    | none, none => true
    | _, _ => false

/-- the conclusion of `convergence_to_derive`, evaluated -/
def agreesWithDerive (c : Ctl) : Bool := agreesWith c c

/-- `ResyncSound` evaluated: every registration of `needResync` belongs to a slice of the store that has the address on
    an endpoint whose targetRef pod is absent or has no IP yet (the soundness half of `needResync_no_leak`) -/
def resyncSoundB (c : Ctl) : Bool :=
  c.resync.all fun ak => ak.2.all fun k =>
    c.slices.any fun sl => sl.key == k && (parkedAddrs (visPods c.pods) sl).contains ak.1

/-- `PodCacheOK` evaluated: podsByIP holds exactly the running, ready pods of the store by IP, ipByPods is the inverse -/
def podCacheOKB (c : Ctl) : Bool :=
  (c.byIP.all fun ik => ik.2.all fun k => c.pods.any fun p => p.key == k && p.ip == ik.1 && podOK p) &&
  (c.pods.all fun p => !podOK p || setContains c.byIP p.ip p.key) &&
  (c.ipBy.all fun ki => setContains c.byIP ki.2 ki.1) &&
  (c.byIP.all fun ik => ik.2.all fun k => alookup k c.ipBy == some ik.1)

/-- the hypotheses of `cold_start_inv` on the creates of a cold start -/
def coldOK (objs : List Op) : Bool :=
  decide (ColdOps {} objs) && decide (ColdHyp (coldFold {} objs).1) && decide (SvcBeforeSlice (coldFold {} objs).2)

def stepClassify (cs : CState) (toks : List String) : CState × String :=
  match toks with
  | "case" :: _ => ({}, "-")
  | ["cold", order] =>
    let s' := release cs.s
    let cold := coldRun (coldOpsOf s'.c order)
    let ops := cs.ops.reverse
    let coldOps := coldOpsOf s'.c order
    -- in the cold start every store is full before the first handler runs: what matters is whether the slices
    -- are handled before the Services are in servicesMap, resp. before the pods are in the pod cache
    let ord := parseOrder order
    let before := fun (a b : String) => (ord.idxOf a) < (ord.idxOf b)
    let fin := s'.c
    let coldCauses :=
      (if before "slice" "svc" then fin.svcs.filterMap fun sv =>
          if decide (SvcIrrelevant fin sv.host none (some sv)) then none else some ("health-built-before-service-known", sv.host)
        else []) ++
      (if before "slice" "pod" then fin.pods.filterMap fun p =>
          if untargetedAt fin p.ns p.ip then some ("untargeted-endpoint-pod-lookup-stale", p.ip) else none
        else [])
    let cls := classify s'.c s'.c cold.c ops (causesAlong 0 {} false ops ++
      atStep anyTime (coldCauses ++ cs.seen ++ accountsKept cs.s.c s'.c))
    let g := goodTok ops
    let verdict := if showView s'.c = showView cold.c then "same" else
      "cls=" ++ (if cls.isEmpty then "unexplained" else ",".intercalate cls)
    ({ cs with s := s' }, verdict ++ " good=" ++ g ++ " side=" ++ boolTok (sideOK s'.c) ++ " derive=" ++
      boolTok (agreesWithDerive s'.c) ++ " cold=" ++ boolTok (coldOK coldOps) ++ " coldderive=" ++
      boolTok (agreesWith cold.c (coldFold {} coldOps).1) ++
      " nodes=" ++ boolTok (decide (NodesUnique (coldFold {} coldOps).1)) ++
      " coldagree=" ++ boolTok (viewsAgree s'.c cold.c) ++
      " leak=" ++ boolTok (!(resyncSoundB s'.c)) ++ " pc=" ++ boolTok (podCacheOKB s'.c) ++
      " bad=" ++ firstBad {} [] [] 0 ops ++
      " ordered=" ++ enc (showView s'.c) ++ " cold=" ++ enc (showView cold.c))
  | _ =>
    let s' := (stepD0 cs.s toks).1
    let ops := match toks with
      | ["hold"] => Op.hold :: cs.ops
      | ["release"] => Op.release :: cs.ops
      | _ => match parseOp toks with
        | some op => if (applyOp cs.s op).isSome then op :: cs.ops else cs.ops
        | none => cs.ops
    ({ s := s', ops := ops, seen := cs.seen ++ accountsKept cs.s.c s'.c }, "-")

end IstioModel.C15
