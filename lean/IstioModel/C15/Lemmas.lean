import IstioModel.C15.Model

/-! Helper lemmas for C15: association lists and the set-valued maps of the pod cache. -/
namespace IstioModel.C15

variable {α : Type}

@[simp] theorem alookup_nil (k : String) : alookup k ([] : List (String × α)) = none := rfl

theorem alookup_aset_same (k : String) (v : α) (l : List (String × α)) :
    alookup k (aset k v l) = some v := by
  induction l with
  | nil => simp [aset, alookup]
  | cons h t ih =>
    obtain ⟨k', v'⟩ := h
    by_cases hk : k' = k
    · simp [aset, alookup, hk]
    · simp [aset, alookup, hk, ih]

theorem alookup_aset_other (k k2 : String) (v : α) (l : List (String × α)) (h : k2 ≠ k) :
    alookup k2 (aset k v l) = alookup k2 l := by
  induction l with
  | nil => simp [aset, alookup, Ne.symm h]
  | cons hd t ih =>
    obtain ⟨k', v'⟩ := hd
    by_cases hk : k' = k
    · subst hk
      simp [aset, alookup, Ne.symm h]
    · by_cases hk2 : k' = k2
      · subst hk2
        simp [aset, alookup, h]
      · simp [aset, alookup, hk, hk2, ih]

theorem alookup_aerase_same (k : String) (l : List (String × α)) :
    alookup k (aerase k l) = none := by
  induction l with
  | nil => rfl
  | cons hd t ih =>
    obtain ⟨k', v'⟩ := hd
    by_cases hk : k' = k
    · simp [aerase, hk, ih]
    · simp [aerase, alookup, hk, ih]

theorem alookup_aerase_other (k k2 : String) (l : List (String × α)) (h : k2 ≠ k) :
    alookup k2 (aerase k l) = alookup k2 l := by
  induction l with
  | nil => rfl
  | cons hd t ih =>
    obtain ⟨k', v'⟩ := hd
    by_cases hk : k' = k
    · subst hk
      simp [aerase, alookup, Ne.symm h, ih]
    · by_cases hk2 : k' = k2
      · subst hk2
        simp [aerase, alookup, h]
      · simp [aerase, alookup, hk, hk2, ih]

theorem alookup_aset (k k2 : String) (v : α) (l : List (String × α)) :
    alookup k2 (aset k v l) = if k2 = k then some v else alookup k2 l := by
  by_cases h : k2 = k
  · subst h; simp [alookup_aset_same]
  · simp [h, alookup_aset_other _ _ _ _ h]

theorem alookup_aerase (k k2 : String) (l : List (String × α)) :
    alookup k2 (aerase k l) = if k2 = k then none else alookup k2 l := by
  by_cases h : k2 = k
  · subst h; simp [alookup_aerase_same]
  · simp [h, alookup_aerase_other _ _ _ h]

/-! ### set-valued maps -/

theorem setContains_setInsert (m : List (String × List String)) (k x k2 x2 : String) :
    setContains (setInsert m k x) k2 x2 = (setContains m k2 x2 || (k2 == k && x2 == x)) := by
  unfold setInsert
  cases hl : alookup k m with
  | none =>
    by_cases hk : k2 = k
    · subst hk; simp [setContains, alookup_aset_same, hl]
      constructor <;> intro h <;> simp_all
    · simp [setContains, alookup_aset_other _ _ _ _ hk, hk]
  | some l =>
    by_cases hc : l.contains x = true
    · simp only [hc, if_true]
      by_cases hk : k2 = k
      · subst hk
        by_cases hx : x2 = x
        · subst hx
          have hm : x2 ∈ l := by simpa using hc
          simp [setContains, hl, hm]
        · simp [setContains, hl, hx]
      · simp [hk]
    · simp only [hc]
      by_cases hk : k2 = k
      · subst hk
        simp [setContains, alookup_aset_same, hl, List.contains_iff_mem, List.mem_append]
        constructor <;> intro h <;> simp_all
      · simp [setContains, alookup_aset_other _ _ _ _ hk, hk]

theorem setContains_setDelete (m : List (String × List String)) (k x k2 x2 : String) :
    setContains (setDelete m k x) k2 x2 = (setContains m k2 x2 && !(k2 == k && x2 == x)) := by
  unfold setDelete
  cases hl : alookup k m with
  | none =>
    by_cases hk : k2 = k
    · subst hk; simp [setContains, hl]
    · simp [hk]
  | some l =>
    simp only []
    by_cases he : (l.filter (· ≠ x)).isEmpty = true
    · rw [if_pos he]
      by_cases hk : k2 = k
      · subst hk
        unfold setContains
        rw [alookup_aerase_same, hl]
        have hall : ∀ y ∈ l, y = x := by
          intro y hy
          rw [List.isEmpty_iff] at he
          have := List.filter_eq_nil_iff.mp he y hy
          simpa using this
        by_cases hx : x2 = x
        · subst hx; simp
        · have : x2 ∉ l := fun hm => hx (hall _ hm)
          simp [this]
      · unfold setContains
        rw [alookup_aerase_other _ _ _ hk]
        simp [hk]
    · rw [if_neg he]
      by_cases hk : k2 = k
      · subst hk
        unfold setContains
        rw [alookup_aset_same, hl]
        by_cases hx : x2 = x
        · subst hx; simp
        · simp [List.mem_filter, hx]
      · unfold setContains
        rw [alookup_aset_other _ _ _ _ hk]
        simp [hk]

/-! ### association lists without duplicate keys -/

def NodupKeys {α : Type} : List (String × α) → Prop
  | [] => True
  | kv :: r => alookup kv.1 r = none ∧ NodupKeys r

theorem nodupKeys_aset {α : Type} (k : String) (v : α) (l : List (String × α)) (h : NodupKeys l) :
    NodupKeys (aset k v l) := by
  induction l with
  | nil => exact ⟨rfl, trivial⟩
  | cons hd t ih =>
    obtain ⟨k', v'⟩ := hd
    unfold aset
    by_cases hk : k' = k
    · subst hk
      simp only [if_true]
      exact ⟨h.1, h.2⟩
    · simp only [hk, if_false]
      refine ⟨?_, ih h.2⟩
      show alookup k' (aset k v t) = none
      rw [alookup_aset_other _ _ _ _ hk]
      exact h.1

theorem nodupKeys_aerase {α : Type} (k : String) (l : List (String × α)) (h : NodupKeys l) :
    NodupKeys (aerase k l) := by
  induction l with
  | nil => exact trivial
  | cons hd t ih =>
    obtain ⟨k', v'⟩ := hd
    unfold aerase
    by_cases hk : k' = k
    · simp only [hk, if_true]
      exact ih h.2
    · simp only [hk, if_false]
      refine ⟨?_, ih h.2⟩
      show alookup k' (aerase k t) = none
      rw [alookup_aerase_other _ _ _ hk]
      exact h.1

theorem alookup_of_mem_nodupKeys {α : Type} (l : List (String × α)) (k : String) (v : α)
    (h : NodupKeys l) (hm : (k, v) ∈ l) : alookup k l = some v := by
  induction l with
  | nil => cases hm
  | cons hd t ih =>
    obtain ⟨k', v'⟩ := hd
    cases List.mem_cons.mp hm with
    | inl he =>
      simp only [Prod.mk.injEq] at he
      simp [alookup, he.1, he.2]
    | inr ht =>
      have := ih h.2 ht
      by_cases hk : k' = k
      · subst hk
        have h1 : alookup k' t = none := h.1
        rw [h1] at this; cases this
      · simp [alookup, hk, this]

theorem mem_of_alookup {α : Type} (l : List (String × α)) (k : String) (v : α)
    (h : alookup k l = some v) : (k, v) ∈ l := by
  induction l with
  | nil => cases h
  | cons hd t ih =>
    obtain ⟨k', v'⟩ := hd
    by_cases hk : k' = k
    · subst hk
      simp only [alookup, if_true, Option.some.injEq] at h
      subst h
      simp
    · simp only [alookup, hk, if_false] at h
      exact List.mem_cons_of_mem _ (ih h)

/-! ### sorting by key -/

theorem mem_insertKey {α : Type} (kv x : String × α) (l : List (String × α)) :
    x ∈ insertKey kv l ↔ x = kv ∨ x ∈ l := by
  induction l with
  | nil => simp [insertKey]
  | cons y r ih =>
    unfold insertKey
    split
    · simp
    · simp only [List.mem_cons, ih]
      constructor
      · intro h
        cases h with
        | inl h => exact Or.inr (Or.inl h)
        | inr h =>
          cases h with
          | inl h => exact Or.inl h
          | inr h => exact Or.inr (Or.inr h)
      · intro h
        cases h with
        | inl h => exact Or.inr (Or.inl h)
        | inr h =>
          cases h with
          | inl h => exact Or.inl h
          | inr h => exact Or.inr (Or.inr h)

theorem mem_sortKeys {α : Type} (x : String × α) (l : List (String × α)) : x ∈ sortKeys l ↔ x ∈ l := by
  unfold sortKeys
  induction l with
  | nil => simp
  | cons y r ih =>
    simp only [List.foldr_cons, mem_insertKey, ih, List.mem_cons]

theorem alookup_some_of_mem {α : Type} (l : List (String × α)) (k : String) (v : α) (h : (k, v) ∈ l) :
    ∃ v', alookup k l = some v' := by
  induction l with
  | nil => cases h
  | cons hd t ih =>
    obtain ⟨k', v'⟩ := hd
    by_cases hk : k' = k
    · exact ⟨v', by simp [alookup, hk]⟩
    · cases List.mem_cons.mp h with
      | inl he => simp only [Prod.mk.injEq] at he; exact absurd he.1.symm hk
      | inr ht =>
        obtain ⟨w, hw⟩ := ih ht
        exact ⟨w, by simp [alookup, hk, hw]⟩

/-! ### the endpoint slice cache -/

/-- entry of one slice in the endpoint slice cache -/
def cacheEntry (c : SliceCache) (host slice : String) : Option (List IEp) :=
  (alookup host c).bind (alookup slice)

theorem cacheEntry_update_same (c : SliceCache) (host slice : String) (eps : List IEp) :
    cacheEntry (cacheUpdate c host slice eps) host slice = some eps := by
  simp [cacheEntry, cacheUpdate, alookup_aset_same]

theorem cacheEntry_update_other (c : SliceCache) (host slice host2 slice2 : String) (eps : List IEp)
    (h : host2 ≠ host ∨ slice2 ≠ slice) :
    cacheEntry (cacheUpdate c host slice eps) host2 slice2 = cacheEntry c host2 slice2 := by
  unfold cacheEntry cacheUpdate
  by_cases hh : host2 = host
  · subst hh
    have hs : slice2 ≠ slice := by
      cases h with
      | inl h => exact absurd rfl h
      | inr h => exact h
    rw [alookup_aset_same]
    simp only [Option.bind]
    rw [alookup_aset_other _ _ _ _ hs]
    cases hl : alookup host2 c with
    | none => simp only [Option.getD]; split <;> simp [aerase, alookup]
    | some per =>
      simp only [Option.getD]
      split
      · rw [alookup_aerase_other _ _ _ hs]
      · rfl
  · rw [alookup_aset_other _ _ _ _ hh]


theorem cacheEntry_delete_same (c : SliceCache) (host slice : String) :
    cacheEntry (cacheDelete c host slice) host slice = none := by
  unfold cacheEntry cacheDelete
  cases hl : alookup host c with
  | none => simp [hl]
  | some per =>
    simp only []
    split
    · simp [alookup_aerase_same]
    · simp [alookup_aset_same, alookup_aerase_same]

theorem cacheEntry_delete_other (c : SliceCache) (host slice host2 slice2 : String)
    (h : host2 ≠ host ∨ slice2 ≠ slice) :
    cacheEntry (cacheDelete c host slice) host2 slice2 = cacheEntry c host2 slice2 := by
  unfold cacheEntry cacheDelete
  cases hl : alookup host c with
  | none => rfl
  | some per =>
    simp only []
    by_cases hh : host2 = host
    · subst hh
      have hs : slice2 ≠ slice := by
        cases h with
        | inl h => exact absurd rfl h
        | inr h => exact h
      split
      · rename_i he
        rw [alookup_aerase_same, hl]
        simp only [Option.bind]
        have : alookup slice2 (aerase slice per) = none := by
          rw [List.isEmpty_iff] at he; rw [he]; rfl
        rw [alookup_aerase_other _ _ _ hs] at this
        exact this.symm
      · rw [alookup_aset_same, hl]
        simp only [Option.bind]
        rw [alookup_aerase_other _ _ _ hs]
    · split
      · rw [alookup_aerase_other _ _ _ hh]
      · rw [alookup_aset_other _ _ _ _ hh]

theorem alookup_cacheUpdate_other (c : SliceCache) (host slice host2 : String) (eps : List IEp)
    (h : host2 ≠ host) : alookup host2 (cacheUpdate c host slice eps) = alookup host2 c := by
  unfold cacheUpdate
  rw [alookup_aset_other _ _ _ _ h]

theorem alookup_cacheDelete_other (c : SliceCache) (host slice host2 : String)
    (h : host2 ≠ host) : alookup host2 (cacheDelete c host slice) = alookup host2 c := by
  unfold cacheDelete
  cases hl : alookup host c with
  | none => rfl
  | some per =>
    simp only []
    split
    · rw [alookup_aerase_other _ _ _ h]
    · rw [alookup_aset_other _ _ _ _ h]

theorem cacheGet_congr (c c' : SliceCache) (h : String) (e : alookup h c' = alookup h c) :
    cacheGet c' h = cacheGet c h := by
  unfold cacheGet; rw [e]

theorem nodupKeys_cacheUpdate (c : SliceCache) (host slice h : String) (eps : List IEp) (per : List (String × List IEp))
    (hn : ∀ per, alookup h c = some per → NodupKeys per)
    (hl : alookup h (cacheUpdate c host slice eps) = some per) : NodupKeys per := by
  by_cases hh : h = host
  · subst hh
    unfold cacheUpdate at hl
    rw [alookup_aset_same] at hl
    simp only [Option.some.injEq] at hl
    subst hl
    apply nodupKeys_aset
    have hbase : NodupKeys ((alookup h c).getD []) := by
      cases hc : alookup h c with
      | none => exact trivial
      | some p => exact hn p hc
    split
    · exact nodupKeys_aerase _ _ hbase
    · exact hbase
  · rw [alookup_cacheUpdate_other _ _ _ _ _ hh] at hl
    exact hn per hl

theorem nodupKeys_cacheDelete (c : SliceCache) (host slice h : String) (per : List (String × List IEp))
    (hn : ∀ per, alookup h c = some per → NodupKeys per)
    (hl : alookup h (cacheDelete c host slice) = some per) : NodupKeys per := by
  by_cases hh : h = host
  · subst hh
    unfold cacheDelete at hl
    cases hc : alookup h c with
    | none => rw [hc] at hl; simp only [] at hl; exact hn per (hc ▸ hl)
    | some p =>
      rw [hc] at hl
      simp only [] at hl
      split at hl
      · rw [alookup_aerase_same] at hl; cases hl
      · rw [alookup_aset_same] at hl
        simp only [Option.some.injEq] at hl
        subst hl
        exact nodupKeys_aerase _ _ (hn p hc)
  · rw [alookup_cacheDelete_other _ _ _ _ hh] at hl
    exact hn per hl

end IstioModel.C15
