import IstioModel.C15.Model

/-! Helper lemmas for C15: association lists and the set-valued maps of the pod cache. -/
namespace IstioModel.C15

variable {α : Type}

@[simp] theorem alookup_nil (k : String) : alookup k ([] : List (String × α)) = none := rfl

theorem alookup_aset_same (k : String) (v : α) (l : List (String × α)) :
    alookup k (aset k v l) = some v := by
  induction l with
  | nil => simp [aset, alookup]
  | cons h t ih =>
    obtain ⟨k', v'⟩ := h
    by_cases hk : k' = k
    · simp [aset, alookup, hk]
    · simp [aset, alookup, hk, ih]

theorem alookup_aset_other (k k2 : String) (v : α) (l : List (String × α)) (h : k2 ≠ k) :
    alookup k2 (aset k v l) = alookup k2 l := by
  induction l with
  | nil => simp [aset, alookup, Ne.symm h]
  | cons hd t ih =>
    obtain ⟨k', v'⟩ := hd
    by_cases hk : k' = k
    · subst hk
      simp [aset, alookup, Ne.symm h]
    · by_cases hk2 : k' = k2
      · subst hk2
        simp [aset, alookup, h]
      · simp [aset, alookup, hk, hk2, ih]

theorem alookup_aerase_same (k : String) (l : List (String × α)) :
    alookup k (aerase k l) = none := by
  induction l with
  | nil => rfl
  | cons hd t ih =>
    obtain ⟨k', v'⟩ := hd
    by_cases hk : k' = k
    · simp [aerase, hk, ih]
    · simp [aerase, alookup, hk, ih]

theorem alookup_aerase_other (k k2 : String) (l : List (String × α)) (h : k2 ≠ k) :
    alookup k2 (aerase k l) = alookup k2 l := by
  induction l with
  | nil => rfl
  | cons hd t ih =>
    obtain ⟨k', v'⟩ := hd
    by_cases hk : k' = k
    · subst hk
      simp [aerase, alookup, Ne.symm h, ih]
    · by_cases hk2 : k' = k2
      · subst hk2
        simp [aerase, alookup, h]
      · simp [aerase, alookup, hk, hk2, ih]

theorem alookup_aset (k k2 : String) (v : α) (l : List (String × α)) :
    alookup k2 (aset k v l) = if k2 = k then some v else alookup k2 l := by
  by_cases h : k2 = k
  · subst h; simp [alookup_aset_same]
  · simp [h, alookup_aset_other _ _ _ _ h]

theorem alookup_aerase (k k2 : String) (l : List (String × α)) :
    alookup k2 (aerase k l) = if k2 = k then none else alookup k2 l := by
  by_cases h : k2 = k
  · subst h; simp [alookup_aerase_same]
  · simp [h, alookup_aerase_other _ _ _ h]

/-! ### set-valued maps -/

theorem setContains_setInsert (m : List (String × List String)) (k x k2 x2 : String) :
    setContains (setInsert m k x) k2 x2 = (setContains m k2 x2 || (k2 == k && x2 == x)) := by
  unfold setInsert
  cases hl : alookup k m with
  | none =>
    by_cases hk : k2 = k
    · subst hk; simp [setContains, alookup_aset_same, hl]
      constructor <;> intro h <;> simp_all
    · simp [setContains, alookup_aset_other _ _ _ _ hk, hk]
  | some l =>
    by_cases hc : l.contains x = true
    · simp only [hc, if_true]
      by_cases hk : k2 = k
      · subst hk
        by_cases hx : x2 = x
        · subst hx
          have hm : x2 ∈ l := by simpa using hc
          simp [setContains, hl, hm]
        · simp [setContains, hl, hx]
      · simp [hk]
    · simp only [hc]
      by_cases hk : k2 = k
      · subst hk
        simp [setContains, alookup_aset_same, hl, List.contains_iff_mem, List.mem_append]
        constructor <;> intro h <;> simp_all
      · simp [setContains, alookup_aset_other _ _ _ _ hk, hk]

theorem setContains_setDelete (m : List (String × List String)) (k x k2 x2 : String) :
    setContains (setDelete m k x) k2 x2 = (setContains m k2 x2 && !(k2 == k && x2 == x)) := by
  unfold setDelete
  cases hl : alookup k m with
  | none =>
    by_cases hk : k2 = k
    · subst hk; simp [setContains, hl]
    · simp [hk]
  | some l =>
    simp only []
    by_cases he : (l.filter (· ≠ x)).isEmpty = true
    · rw [if_pos he]
      by_cases hk : k2 = k
      · subst hk
        unfold setContains
        rw [alookup_aerase_same, hl]
        have hall : ∀ y ∈ l, y = x := by
          intro y hy
          rw [List.isEmpty_iff] at he
          have := List.filter_eq_nil_iff.mp he y hy
          simpa using this
        by_cases hx : x2 = x
        · subst hx; simp
        · have : x2 ∉ l := fun hm => hx (hall _ hm)
          simp [this]
      · unfold setContains
        rw [alookup_aerase_other _ _ _ hk]
        simp [hk]
    · rw [if_neg he]
      by_cases hk : k2 = k
      · subst hk
        unfold setContains
        rw [alookup_aset_same, hl]
        by_cases hx : x2 = x
        · subst hx; simp
        · simp [List.mem_filter, hx]
      · unfold setContains
        rw [alookup_aset_other _ _ _ _ hk]
        simp [hk]

/-! ### the endpoint slice cache -/

/-- entry of one slice in the endpoint slice cache -/
def cacheEntry (c : SliceCache) (host slice : String) : Option (List IEp) :=
  (alookup host c).bind (alookup slice)

theorem cacheEntry_update_same (c : SliceCache) (host slice : String) (eps : List IEp) :
    cacheEntry (cacheUpdate c host slice eps) host slice = some eps := by
  simp [cacheEntry, cacheUpdate, alookup_aset_same]

theorem cacheEntry_update_other (c : SliceCache) (host slice host2 slice2 : String) (eps : List IEp)
    (h : host2 ≠ host ∨ slice2 ≠ slice) :
    cacheEntry (cacheUpdate c host slice eps) host2 slice2 = cacheEntry c host2 slice2 := by
  unfold cacheEntry cacheUpdate
  by_cases hh : host2 = host
  · subst hh
    have hs : slice2 ≠ slice := by
      cases h with
      | inl h => exact absurd rfl h
      | inr h => exact h
    rw [alookup_aset_same]
    simp only [Option.bind]
    rw [alookup_aset_other _ _ _ _ hs]
    cases hl : alookup host2 c with
    | none => simp only [Option.getD]; split <;> simp [aerase, alookup]
    | some per =>
      simp only [Option.getD]
      split
      · rw [alookup_aerase_other _ _ _ hs]
      · rfl
  · rw [alookup_aset_other _ _ _ _ hh]


theorem cacheEntry_delete_same (c : SliceCache) (host slice : String) :
    cacheEntry (cacheDelete c host slice) host slice = none := by
  unfold cacheEntry cacheDelete
  cases hl : alookup host c with
  | none => simp [hl]
  | some per =>
    simp only []
    split
    · simp [alookup_aerase_same]
    · simp [alookup_aset_same, alookup_aerase_same]

theorem cacheEntry_delete_other (c : SliceCache) (host slice host2 slice2 : String)
    (h : host2 ≠ host ∨ slice2 ≠ slice) :
    cacheEntry (cacheDelete c host slice) host2 slice2 = cacheEntry c host2 slice2 := by
  unfold cacheEntry cacheDelete
  cases hl : alookup host c with
  | none => rfl
  | some per =>
    simp only []
    by_cases hh : host2 = host
    · subst hh
      have hs : slice2 ≠ slice := by
        cases h with
        | inl h => exact absurd rfl h
        | inr h => exact h
      split
      · rename_i he
        rw [alookup_aerase_same, hl]
        simp only [Option.bind]
        have : alookup slice2 (aerase slice per) = none := by
          rw [List.isEmpty_iff] at he; rw [he]; rfl
        rw [alookup_aerase_other _ _ _ hs] at this
        exact this.symm
      · rw [alookup_aset_same, hl]
        simp only [Option.bind]
        rw [alookup_aerase_other _ _ _ hs]
    · split
      · rw [alookup_aerase_other _ _ _ hh]
      · rw [alookup_aset_other _ _ _ _ hh]

theorem alookup_cacheUpdate_other (c : SliceCache) (host slice host2 : String) (eps : List IEp)
    (h : host2 ≠ host) : alookup host2 (cacheUpdate c host slice eps) = alookup host2 c := by
  unfold cacheUpdate
  rw [alookup_aset_other _ _ _ _ h]

theorem alookup_cacheDelete_other (c : SliceCache) (host slice host2 : String)
    (h : host2 ≠ host) : alookup host2 (cacheDelete c host slice) = alookup host2 c := by
  unfold cacheDelete
  cases hl : alookup host c with
  | none => rfl
  | some per =>
    simp only []
    split
    · rw [alookup_aerase_other _ _ _ h]
    · rw [alookup_aset_other _ _ _ _ h]

theorem cacheGet_congr (c c' : SliceCache) (h : String) (e : alookup h c' = alookup h c) :
    cacheGet c' h = cacheGet c h := by
  unfold cacheGet; rw [e]

end IstioModel.C15
